// C16 correspondence harness: runs the real fcppt.algorithm functions and container/array/tuple helpers on the
// operation lines described in lean/FcpptModel/Drv/C16.lean and prints the same canonical result lines.
#include "common/vh.hpp"

#include <fcppt/function_impl.hpp>
#include <fcppt/int_range_impl.hpp>
#include <fcppt/loop.hpp>
#include <fcppt/make_int_range.hpp>
#include <fcppt/reference_impl.hpp>
#include <fcppt/tag.hpp>
#include <fcppt/algorithm/all_of.hpp>
#include <fcppt/algorithm/binary_search.hpp>
#include <fcppt/algorithm/contains.hpp>
#include <fcppt/algorithm/contains_if.hpp>
#include <fcppt/algorithm/equal.hpp>
#include <fcppt/algorithm/equal_range.hpp>
#include <fcppt/algorithm/find_by_opt.hpp>
#include <fcppt/algorithm/find_if_opt.hpp>
#include <fcppt/algorithm/find_opt.hpp>
#include <fcppt/algorithm/fold.hpp>
#include <fcppt/algorithm/fold_break.hpp>
#include <fcppt/algorithm/generate_n.hpp>
#include <fcppt/algorithm/index_of.hpp>
#include <fcppt/algorithm/join_strings.hpp>
#include <fcppt/algorithm/loop.hpp>
#include <fcppt/algorithm/loop_break.hpp>
#include <fcppt/algorithm/loop_break_mpl.hpp>
#include <fcppt/algorithm/loop_break_tuple.hpp>
#include <fcppt/algorithm/map.hpp>
#include <fcppt/algorithm/map_array.hpp>
#include <fcppt/algorithm/map_concat.hpp>
#include <fcppt/algorithm/map_iteration.hpp>
#include <fcppt/algorithm/map_iteration_second.hpp>
#include <fcppt/algorithm/map_optional.hpp>
#include <fcppt/algorithm/map_tuple.hpp>
#include <fcppt/algorithm/remove.hpp>
#include <fcppt/algorithm/remove_if.hpp>
#include <fcppt/algorithm/repeat.hpp>
#include <fcppt/algorithm/reverse.hpp>
#include <fcppt/algorithm/sequence_iteration.hpp>
#include <fcppt/algorithm/split_string.hpp>
#include <fcppt/algorithm/unique.hpp>
#include <fcppt/algorithm/unique_if.hpp>
#include <fcppt/algorithm/update_action.hpp>
#include <fcppt/array/append.hpp>
#include <fcppt/array/from_range.hpp>
#include <fcppt/array/init.hpp>
#include <fcppt/array/join.hpp>
#include <fcppt/array/map.hpp>
#include <fcppt/array/object.hpp>
#include <fcppt/array/push_back.hpp>
#include <fcppt/container/at_optional.hpp>
#include <fcppt/container/contains.hpp>
#include <fcppt/container/data.hpp>
#include <fcppt/container/data_end.hpp>
#include <fcppt/container/dynamic_array.hpp>
#include <fcppt/container/find_opt.hpp>
#include <fcppt/container/find_opt_iterator.hpp>
#include <fcppt/container/insert.hpp>
#include <fcppt/container/make.hpp>
#include <fcppt/container/make_move_range.hpp>
#include <fcppt/container/maybe_back.hpp>
#include <fcppt/container/maybe_front.hpp>
#include <fcppt/container/output.hpp>
#include <fcppt/container/pop_back.hpp>
#include <fcppt/container/pop_front.hpp>
#include <fcppt/container/size.hpp>
#include <fcppt/container/find_opt_mapped.hpp>
#include <fcppt/container/get_or_insert.hpp>
#include <fcppt/container/get_or_insert_with_result.hpp>
#include <fcppt/container/index_map.hpp>
#include <fcppt/container/join.hpp>
#include <fcppt/container/key_set.hpp>
#include <fcppt/container/map_values_copy.hpp>
#include <fcppt/container/map_values_ref.hpp>
#include <fcppt/container/set_difference.hpp>
#include <fcppt/container/set_intersection.hpp>
#include <fcppt/container/set_union.hpp>
#include <fcppt/enum/range_impl.hpp>
#include <fcppt/iterator/make_range.hpp>
#include <fcppt/iterator/range_impl.hpp>
#include <fcppt/mpl/list/object.hpp>
#include <fcppt/optional/object.hpp>
#include <fcppt/range/begin.hpp>
#include <fcppt/range/end.hpp>
#include <fcppt/range/singular.hpp>
#include <fcppt/tuple/concat.hpp>
#include <fcppt/tuple/get.hpp>
#include <fcppt/tuple/map.hpp>
#include <fcppt/tuple/object.hpp>
#include <fcppt/tuple/push_back.hpp>

#include <array>
#include <cstddef>
#include <deque>
#include <forward_list>
#include <iterator>
#include <list>
#include <map>
#include <optional>
#include <sstream>
#include <set>
#include <string>
#include <type_traits>
#include <utility>
#include <vector>

namespace
{
using seq = std::vector<int>;
using ulong = unsigned long;
enum class en3 { v0, v1, v2, fcppt_maximum = v2 };

std::string const bad{"bad-op"};
#define SZ(n) (std::remove_cvref_t<decltype(n)>::value)

// ---------------------------------------------------------------- parsing and printing

std::optional<seq> parse_seq(std::string const &s)
{
  seq r;
  if (s == "-")
    return r;
  for (char c : s)
  {
    if (c < '0' || c > '9')
      return std::nullopt;
    r.push_back(c - '0');
  }
  return r;
}

bool all_lt3(seq const &v)
{
  for (int x : v)
    if (x >= 3)
      return false;
  return true;
}

inline int val(int x) { return x; }
inline int val(long x) { return static_cast<int>(x); }
inline int val(short x) { return static_cast<int>(x); }
inline int val(en3 x) { return static_cast<int>(x); }
inline int val(std::pair<int const, int> const &p) { return p.second; }
template <typename T>
inline int val(fcppt::tag<T>) { return T::value; }

// probe element: a moved-from object shows the marker 9
struct pe
{
  int v;
  pe(int const x) : v(x) {} // NOLINT
  pe(pe const &) = default;
  pe(pe &&o) noexcept : v(o.v) { o.v = 9; }
  pe &operator=(pe const &) = default;
  pe &operator=(pe &&o) noexcept
  {
    if (&o != this) { v = o.v; o.v = 9; }
    return *this;
  }
  ~pe() = default;
  friend bool operator<(pe const &a, pe const &b) { return a.v < b.v; }
  friend bool operator==(pe const &a, pe const &b) { return a.v == b.v; }
};
inline int val(pe const &p) { return p.v; }

// probe target container for algorithm::map: records the calls of reserve()
struct rc
{
  using value_type = int;
  using size_type = std::size_t;
  using iterator = std::vector<int>::iterator;
  using const_iterator = std::vector<int>::const_iterator;
  std::vector<int> impl{};
  std::vector<std::size_t> reserved{};
  void reserve(size_type const n) { reserved.push_back(n); impl.reserve(n); }
  iterator begin() { return impl.begin(); }
  iterator end() { return impl.end(); }
  const_iterator begin() const { return impl.begin(); }
  const_iterator end() const { return impl.end(); }
  iterator insert(iterator const pos, int const x) { return impl.insert(pos, x); }
  std::string cap() const
  {
    std::size_t m = 0;
    for (auto const n : reserved) m = n > m ? n : m;
    return std::to_string(m) + (reserved.size() > 1 ? "!multi" : "");
  }
};

template <typename C>
std::string ds(C const &c)
{
  std::string r;
  for (auto const &e : c)
    r += std::to_string(val(e));
  return r.empty() ? "-" : r;
}

template <typename C>
std::string nl(C const &c)
{
  std::string r;
  bool first = true;
  for (auto const &e : c)
  {
    if (!first)
      r += ',';
    first = false;
    r += std::to_string(val(e));
  }
  return r.empty() ? "-" : r;
}

std::optional<ulong> to_nat(std::string const &s)
{
  if (s.empty() || s.size() > 9)
    return std::nullopt;
  for (char c : s)
    if (c < '0' || c > '9')
      return std::nullopt;
  return std::stoul(s);
}

inline bool bit(ulong m, int x) { return ((m >> x) & 1UL) != 0; }
inline ulong pw(ulong b, int e) { ulong r = 1; while (e-- > 0) r *= b; return r; }
inline int tbl_f(ulong F, int x) { return static_cast<int>((F / pw(3, x)) % 3); }
inline fcppt::optional::object<int> tbl_g(ulong G, int x)
{
  ulong const d = (G / pw(4, x)) % 4;
  return d == 0 ? fcppt::optional::object<int>{} : fcppt::optional::object<int>{static_cast<int>(d) - 1};
}
inline seq tbl_h(ulong H, int x)
{
  switch ((H / pw(4, x)) % 4)
  {
  case 0: return {};
  case 1: return {x};
  case 2: return {x, (x + 1) % 3};
  default: return {2, x, x};
  }
}
inline bool rel(ulong R, int a, int b) { return bit(R, 3 * a + b); }
inline char const *b01(bool b) { return b ? "1" : "0"; }

// run `f(std::integral_constant<size_t, n>)` for a run-time n <= Max
template <std::size_t Max, typename F>
std::string with_size(std::size_t const n, F const &f)
{
  std::string r{bad};
  [&]<std::size_t... I>(std::index_sequence<I...>)
  {
    ((n == I ? (r = f(std::integral_constant<std::size_t, I>{}), 0) : 0), ...);
  }
  (std::make_index_sequence<Max + 1>{});
  return r;
}

template <std::size_t N>
fcppt::array::object<int, N> mk_array(seq const &v, std::size_t const off)
{
  return fcppt::array::init<fcppt::array::object<int, N>>(
      [&v, off]<std::size_t I>(std::integral_constant<std::size_t, I>) { return v[off + I]; });
}

template <std::size_t N> struct tuple_of;
template <> struct tuple_of<0> { using type = fcppt::tuple::object<>; };
template <> struct tuple_of<1> { using type = fcppt::tuple::object<int>; };
template <> struct tuple_of<2> { using type = fcppt::tuple::object<int, long>; };
template <> struct tuple_of<3> { using type = fcppt::tuple::object<int, long, short>; };

template <std::size_t N>
typename tuple_of<N>::type mk_tuple(seq const &v, std::size_t const off)
{
  if constexpr (N == 0) return fcppt::tuple::object<>{};
  else if constexpr (N == 1) return fcppt::tuple::object<int>{v[off]};
  else if constexpr (N == 2) return fcppt::tuple::object<int, long>{v[off], static_cast<long>(v[off + 1])};
  else return fcppt::tuple::object<int, long, short>{v[off], static_cast<long>(v[off + 1]), static_cast<short>(v[off + 2])};
}

template <typename... Ts>
std::string ds_tuple(fcppt::tuple::object<Ts...> const &t)
{
  std::string r;
  [&]<std::size_t... I>(std::index_sequence<I...>)
  {
    ((r += std::to_string(val(fcppt::tuple::get<I>(t)))), ...);
  }
  (std::make_index_sequence<sizeof...(Ts)>{});
  return r.empty() ? "-" : r;
}

template <int... D>
using ml = fcppt::mpl::list::object<std::integral_constant<int, D>...>;

template <typename F, int... D>
std::string with_mpl_rec(seq const &v, std::size_t const i, F const &f)
{
  if (i == v.size()) return f(ml<D...>{});
  if constexpr (sizeof...(D) >= 3) return bad;
  else
    switch (v[i])
    {
    case 0: return with_mpl_rec<F, D..., 0>(v, i + 1, f);
    case 1: return with_mpl_rec<F, D..., 1>(v, i + 1, f);
    case 2: return with_mpl_rec<F, D..., 2>(v, i + 1, f);
    default: return bad;
    }
}

template <typename F>
std::string with_mpl(seq const &v, F const &f)
{
  return with_mpl_rec<F>(v, 0, f);
}

// arrays and tuples of probe elements
template <std::size_t N>
fcppt::array::object<pe, N> mk_parray(seq const &v, std::size_t const off)
{
  return fcppt::array::init<fcppt::array::object<pe, N>>(
      [&v, off]<std::size_t I>(std::integral_constant<std::size_t, I>) { return pe{v[off + I]}; });
}

template <std::size_t N> struct ptuple_of;
template <> struct ptuple_of<0> { using type = fcppt::tuple::object<>; };
template <> struct ptuple_of<1> { using type = fcppt::tuple::object<pe>; };
template <> struct ptuple_of<2> { using type = fcppt::tuple::object<pe, pe>; };
template <> struct ptuple_of<3> { using type = fcppt::tuple::object<pe, pe, pe>; };

template <std::size_t N>
typename ptuple_of<N>::type mk_ptuple(seq const &v, std::size_t const off)
{
  if constexpr (N == 0) return fcppt::tuple::object<>{};
  else if constexpr (N == 1) return fcppt::tuple::object<pe>{pe{v[off]}};
  else if constexpr (N == 2) return fcppt::tuple::object<pe, pe>{pe{v[off]}, pe{v[off + 1]}};
  else return fcppt::tuple::object<pe, pe, pe>{pe{v[off]}, pe{v[off + 1]}, pe{v[off + 2]}};
}

// pass x on as const lvalue (0), lvalue (1) or rvalue (2)
template <typename T, typename G>
std::string with_cat(ulong const cat, T &x, G const &g)
{
  switch (cat)
  {
  case 0: return g(std::as_const(x));
  case 1: return g(x);
  case 2: return g(std::move(x));
  default: return bad;
  }
}
// lvalue (1) or rvalue (2) only
template <typename T, typename G>
std::string with_cat2(ulong const cat, T &x, G const &g)
{
  switch (cat)
  {
  case 1: return g(x);
  case 2: return g(std::move(x));
  default: return bad;
  }
}
#define FWD(x) std::forward<decltype(x)>(x)

// tuple::concat with arguments of any value category; where the overload set rejects lvalue tuples (see notes/C16.md,
// DEFECT CANDIDATE 2) an lvalue argument is replaced by an rvalue copy, which has the same observable effect
template <typename T>
decltype(auto) concat_arg(T &&t)
{
  using plain = std::remove_cvref_t<T>;
  if constexpr (requires(plain &l) { fcppt::tuple::concat(l); }) return std::forward<T>(t);
  else if constexpr (std::is_lvalue_reference_v<T>) return plain{t};
  else return std::forward<T>(t);
}

// ---------------------------------------------------------------- sources

// read-only range kinds: v l d f s m i e.  `f` is called with a const container.
template <typename F>
std::string with_ro(char const k, seq const &v, F const &f)
{
  switch (k)
  {
  case 'v': { std::vector<int> const c(v.begin(), v.end()); return f(c); }
  case 'l': { std::list<int> const c(v.begin(), v.end()); return f(c); }
  case 'd': { std::deque<int> const c(v.begin(), v.end()); return f(c); }
  case 'f': { std::forward_list<int> const c(v.begin(), v.end()); return f(c); }
  case 's': { std::set<int> const c(v.begin(), v.end()); return f(c); }
  case 'm':
  {
    std::map<int, int> c;
    for (std::size_t i = 0; i < v.size(); ++i)
      c.emplace(static_cast<int>(i), v[i]);
    std::map<int, int> const &cc{c};
    return f(cc);
  }
  case 'i': { if (v.size() != 2 || v[0] > 3 || v[1] > 3) return bad; fcppt::int_range<int> const c{fcppt::make_int_range(v[0], v[1])}; return f(c); }
  case 'e':
  {
    if (v.size() != 2 || v[0] > v[1] || v[1] > 3) return bad;
    fcppt::enum_::range<en3> const c{static_cast<unsigned>(v[0]), static_cast<unsigned>(v[1])};
    return f(c);
  }
  default: return bad;
  }
}

template <typename F>
std::string with_vldf(char const k, seq const &v, F const &f)
{
  switch (k)
  {
  case 'v': { std::vector<int> const c(v.begin(), v.end()); return f(c); }
  case 'l': { std::list<int> const c(v.begin(), v.end()); return f(c); }
  case 'd': { std::deque<int> const c(v.begin(), v.end()); return f(c); }
  case 'f': { std::forward_list<int> const c(v.begin(), v.end()); return f(c); }
  default: return bad;
  }
}

// mutable sequence kinds: v l d (+ s when allowed)
template <typename F>
std::string with_seq(char const k, seq const &v, F const &f)
{
  switch (k)
  {
  case 'v': { std::vector<int> c(v.begin(), v.end()); return f(c); }
  case 'l': { std::list<int> c(v.begin(), v.end()); return f(c); }
  case 'd': { std::deque<int> c(v.begin(), v.end()); return f(c); }
  default: return bad;
  }
}
template <typename F>
std::string with_seq_set(char const k, seq const &v, F const &f)
{
  if (k == 's') { std::set<int> c(v.begin(), v.end()); return f(c); }
  return with_seq(k, v, f);
}

template <typename T> struct elem_of { static T from(int x) { return static_cast<T>(x); } };

template <typename C>
using elem_t = std::remove_cvref_t<decltype(*std::declval<C const &>().begin())>;

// run with a target container type chosen by t: 0 vector, 1 list, 2 deque, 3 set
template <typename F>
std::string with_target(ulong const t, F const &f)
{
  switch (t)
  {
  case 0: return f(std::vector<int>{});
  case 1: return f(std::list<int>{});
  case 2: return f(std::deque<int>{});
  case 3: return f(std::set<int>{});
  default: return bad;
  }
}

// containers of probe elements: v l d
template <typename F>
std::string with_pseq(char const k, seq const &v, F const &f)
{
  switch (k)
  {
  case 'v': { std::vector<pe> c(v.begin(), v.end()); return f(c); }
  case 'l': { std::list<pe> c(v.begin(), v.end()); return f(c); }
  case 'd': { std::deque<pe> c(v.begin(), v.end()); return f(c); }
  default: return bad;
  }
}

std::string const skip{"skip"};

template <typename C, typename It>
std::string opt_idx(C &c, fcppt::optional::object<It> const &o)
{
  if (!o.has_value())
    return "none";
  auto const pos = std::distance(c.begin(), It{o.get_unsafe()});
  if (pos < 0 || pos >= std::distance(c.begin(), c.end()))
    return std::to_string(pos) + ":oob";
  return std::to_string(pos) + ":" + std::to_string(val(*o.get_unsafe()));
}

constexpr bool is_ro(char k) { return k == 'v' || k == 'l' || k == 'd' || k == 'f' || k == 's' || k == 'm' || k == 'i' || k == 'e'; }
constexpr bool is_sq(char k) { return k == 'v' || k == 'l' || k == 'd'; }

// ---------------------------------------------------------------- one evaluation

std::string eval_fn(std::string const &fn, char const k, std::vector<ulong> const &ps, seq const &v)
{
  namespace alg = fcppt::algorithm;
  namespace con = fcppt::container;
  bool const ro = is_ro(k);
  bool const sq = is_sq(k);
  std::size_t const np = ps.size();
  if (k == 'a' && (v.size() > 6 || !all_lt3(v))) return bad;
  if (k == 't' && (v.size() > 3 || !all_lt3(v))) return bad;
  if (k == 'p' && (v.size() > 3 || !all_lt3(v))) return bad;
  if ((k == 'v' || k == 'l' || k == 'd' || k == 'f' || k == 'm' || k == 's') && !all_lt3(v)) return bad;

  if (fn == "map" && np == 2)
  {
    ulong const t = ps[0], F = ps[1];
    if (!(ro || k == 'a' || k == 'p') || t > 4 || F >= 27 || ((k == 'a' || k == 'p') && t != 0 && t != 4)) return bad;
    auto const show = [](auto const &r, seq const &log) {
      if constexpr (std::is_same_v<std::remove_cvref_t<decltype(r)>, rc>) return ds(r) + "|" + ds(log) + "|" + r.cap();
      else return ds(r) + "|" + ds(log);
    };
    auto const with_t = [&](auto const &f) {
      if (t == 4) return f(rc{});
      return with_target(t, f);
    };
    if (k == 'a')
      return with_size<6>(v.size(), [&](auto n) {
        auto const src{mk_array<SZ(n)>(v, 0)};
        auto const go = [&](auto target) {
          seq log;
          auto const r{alg::map<decltype(target)>(src, [&](int const e) { log.push_back(e); return tbl_f(F, e); })};
          return show(r, log);
        };
        return t == 4 ? go(rc{}) : go(std::vector<int>{});
      });
    if (k == 'p')
      return with_mpl(v, [&](auto list) {
        auto const go = [&](auto target) {
          seq log;
          auto const r{alg::map<decltype(target)>(list, [&](auto const tag) { log.push_back(val(tag)); return tbl_f(F, val(tag)); })};
          return show(r, log);
        };
        return t == 4 ? go(rc{}) : go(std::vector<int>{});
      });
    return with_ro(k, v, [&](auto const &c) {
      return with_t([&](auto target) {
        using target_type = decltype(target);
        seq log;
        auto const r{alg::map<target_type>(c, [&](auto const &e) { log.push_back(val(e)); return tbl_f(F, val(e)); })};
        return show(r, log);
      });
    });
  }
  if (fn == "mapopt" && np == 2)
  {
    ulong const t = ps[0], G = ps[1];
    if (!ro || t > 3 || G >= 64) return bad;
    return with_ro(k, v, [&](auto const &c) {
      return with_target(t, [&](auto target) {
        using target_type = decltype(target);
        seq log;
        auto const r{alg::map_optional<target_type>(c, [&](auto const &e) { log.push_back(val(e)); return tbl_g(G, val(e)); })};
        return ds(r) + "|" + ds(log);
      });
    });
  }
  if (fn == "mapcat" && np == 2)
  {
    ulong const t = ps[0], H = ps[1];
    if (!ro || t > 3 || H >= 64) return bad;
    return with_ro(k, v, [&](auto const &c) {
      return with_target(t, [&](auto target) {
        using target_type = decltype(target);
        seq log;
        auto const r{alg::map_concat<target_type>(c, [&](auto const &e) {
          log.push_back(val(e));
          seq const h{tbl_h(H, val(e))};
          return target_type(h.begin(), h.end());
        })};
        return ds(r) + "|" + ds(log);
      });
    });
  }
  if (fn == "fold" && np == 0)
  {
    if (!(ro || k == 'a')) return bad;
    auto const step = [](auto const &e, ulong const st) { return st * 4 + static_cast<ulong>(val(e)) + 1; };
    if (k == 'a')
      return with_size<6>(v.size(), [&](auto n) {
        auto const src{mk_array<SZ(n)>(v, 0)};
        return std::to_string(alg::fold(src, 0UL, step));
      });
    return with_ro(k, v, [&](auto const &c) { return std::to_string(alg::fold(c, 0UL, step)); });
  }
  if (fn == "foldbrk" && np == 1)
  {
    ulong const B = ps[0];
    if (!ro || B >= 8) return bad;
    return with_ro(k, v, [&](auto const &c) {
      return std::to_string(alg::fold_break(c, 0UL, [B](auto const &e, ulong const st) {
        return std::make_pair(bit(B, val(e)) ? fcppt::loop::break_ : fcppt::loop::continue_, st * 4 + static_cast<ulong>(val(e)) + 1);
      }));
    });
  }
  if (fn == "loopbrk" && np == 1)
  {
    ulong const B = ps[0];
    if (!(ro || k == 'a' || k == 't' || k == 'p') || B >= 8) return bad;
    seq log;
    auto const body = [&log, B](auto const &e) {
      log.push_back(val(e));
      return bit(B, val(e)) ? fcppt::loop::break_ : fcppt::loop::continue_;
    };
    if (k == 'a')
      return with_size<6>(v.size(), [&](auto n) { alg::loop_break(mk_array<SZ(n)>(v, 0), body); return ds(log); });
    if (k == 't')
      return with_size<3>(v.size(), [&](auto n) { alg::loop_break(mk_tuple<SZ(n)>(v, 0), body); return ds(log); });
    if (k == 'p')
      return with_mpl(v, [&](auto list) { alg::loop_break(list, body); return ds(log); });
    return with_ro(k, v, [&](auto const &c) { alg::loop_break(c, body); return ds(log); });
  }
  if (fn == "loop" && np == 0)
  {
    if (!ro) return bad;
    return with_ro(k, v, [&](auto const &c) {
      seq log;
      alg::loop(c, [&log](auto const &e) { log.push_back(val(e)); });
      return ds(log);
    });
  }
  if ((fn == "allof" || fn == "containsif") && np == 1)
  {
    ulong const P = ps[0];
    if (!ro || P >= 8) return bad;
    return with_ro(k, v, [&](auto const &c) {
      seq log;
      auto const pred = [&log, P](auto const &e) { log.push_back(val(e)); return bit(P, val(e)); };
      bool const r = fn == "allof" ? alg::all_of(c, pred) : alg::contains_if(c, pred);
      return std::string{b01(r)} + "|" + ds(log);
    });
  }
  if ((fn == "contains" || fn == "findopt") && np == 1)
  {
    ulong const V = ps[0];
    if (!ro || k == 'm' || V >= 3) return bad;
    return with_ro(k, v, [&](auto const &c) -> std::string {
      using elem = elem_t<decltype(c)>;
      if constexpr (std::is_same_v<elem, int> || std::is_same_v<elem, en3>)
      {
        elem const value{static_cast<elem>(V)};
        if (fn == "contains")
          return b01(alg::contains(c, value));
        // const range, non-const range, and (iterators into a temporary would dangle, so) an rvalue of a view type only where it is one
        std::string const a{opt_idx(c, alg::find_opt(c, value))};
        auto nc{c};
        std::string const b{opt_idx(nc, alg::find_opt(nc, value))};
        return a == b ? a : a + "!=" + b;
      }
      else
        return bad;
    });
  }
  if (fn == "findifopt" && np == 1)
  {
    ulong const P = ps[0];
    if (!ro || P >= 8) return bad;
    return with_ro(k, v, [&](auto const &c) {
      auto const pred = [P](auto const &e) { return bit(P, val(e)); };
      std::string const a{opt_idx(c, alg::find_if_opt(c, pred))};
      auto nc{c};
      std::string const b{opt_idx(nc, alg::find_if_opt(nc, pred))};
      return a == b ? a : a + "!=" + b;
    });
  }
  if (fn == "findbyopt" && np == 1)
  {
    ulong const G = ps[0];
    if (!ro || G >= 64) return bad;
    return with_ro(k, v, [&](auto const &c) {
      seq log;
      fcppt::optional::object<int> const r{alg::find_by_opt(c, [&log, G](auto const &e) { log.push_back(val(e)); return tbl_g(G, val(e)); })};
      return (r.has_value() ? std::to_string(r.get_unsafe()) : std::string{"none"}) + "|" + ds(log);
    });
  }
  if (fn == "indexof" && np == 1)
  {
    ulong const V = ps[0];
    if (!(k == 'v' || k == 'd' || k == 'a') || V >= 3) return bad;
    auto const show = [](auto const &o) { return o.has_value() ? std::to_string(o.get_unsafe()) : std::string{"none"}; };
    if (k == 'a')
      return with_size<6>(v.size(), [&](auto n) { return show(alg::index_of(mk_array<SZ(n)>(v, 0), static_cast<int>(V))); });
    return with_seq(k, v, [&](auto &c) -> std::string {
      if constexpr (std::is_same_v<std::remove_cvref_t<decltype(c)>, std::list<int>>) return bad;
      else return show(alg::index_of(c, static_cast<int>(V)));
    });
  }
  if ((fn == "eqrange" || fn == "bsearch") && np == 1)
  {
    ulong const V = ps[0];
    if (!(sq || k == 's') || V >= 3) return bad;
    return with_seq_set(k, v, [&](auto &c) {
      int const value{static_cast<int>(V)};
      if (fn == "eqrange")
      {
        auto const r{alg::equal_range(c, value)};
        auto const &cc{c};
        auto const r2{alg::equal_range(cc, value)};
        std::string const a{std::to_string(std::distance(c.begin(), r.begin())) + "," + std::to_string(std::distance(c.begin(), r.end()))};
        std::string const b{std::to_string(std::distance(cc.begin(), r2.begin())) + "," + std::to_string(std::distance(cc.begin(), r2.end()))};
        return a == b ? a : a + "!=" + b;
      }
      // both the const and the non-const overload
      auto const &cc{c};
      std::string const a{opt_idx(c, alg::binary_search(c, value))};
      std::string const b{opt_idx(cc, alg::binary_search(cc, value))};
      return a == b ? a : a + "!=" + b;
    });
  }
  if ((fn == "removeif" || fn == "remove") && np == 1)
  {
    ulong const P = ps[0];
    if (!sq || (fn == "remove" ? P >= 3 : P >= 8)) return bad;
    return with_seq(k, v, [&](auto &c) {
      bool const r = fn == "remove" ? alg::remove(c, static_cast<int>(P)) : alg::remove_if(c, [P](int const e) { return bit(P, e); });
      return std::string{b01(r)} + "|" + ds(c);
    });
  }
  if (fn == "unique" && np == 0)
  {
    if (!sq) return bad;
    return with_seq(k, v, [&](auto &c) { alg::unique(c); return ds(c); });
  }
  if (fn == "uniqueif" && np == 1)
  {
    ulong const R = ps[0];
    if (!sq || R >= 512) return bad;
    return with_seq(k, v, [&](auto &c) { alg::unique_if(c, [R](int const a, int const b) { return rel(R, a, b); }); return ds(c); });
  }
  if (fn == "reverse" && np == 0)
  {
    if (!sq) return bad;
    return with_seq(k, v, [&](auto &c) {
      auto const &cc{c};
      auto const before{c};
      std::string const a{ds(alg::reverse(cc))};                // lvalue: copy
      if (c != before) return std::string{"source-modified"};
      std::string const b{ds(alg::reverse(std::move(c)))};      // rvalue: in place
      return a == b ? a : a + "!=" + b;
    });
  }
  if (fn == "seqiter" && np == 1)
  {
    ulong const R = ps[0];
    if (!sq || R >= 8) return bad;
    return with_seq(k, v, [&](auto &c) {
      seq log;
      alg::sequence_iteration(c, [&log, R](int const e) {
        log.push_back(e);
        return bit(R, e) ? alg::update_action::remove : alg::update_action::keep;
      });
      return ds(c) + "|" + ds(log);
    });
  }
  if (fn == "atopt" && np == 1)
  {
    if (!(k == 'v' || k == 'd' || k == 'a') || ps[0] > 1005) return bad;
    // below 1000 as they are; 1000.. = indices that differ from small ones only in the high bits
    static constexpr ulong big[] = {1UL << 31U, 1UL << 32U, (1UL << 32U) + 1UL, 1UL << 63U, ~0UL, (1UL << 33U) + 2UL};
    ulong const I = ps[0] < 1000 ? ps[0] : big[ps[0] - 1000];
    auto const show = [I](auto &c, auto const &o) {
      if (!o.has_value()) return std::string{"none"};
      // the reference must be the element inside the container
      return std::to_string(o.get_unsafe().get()) + (&o.get_unsafe().get() == &*(c.begin() + static_cast<std::ptrdiff_t>(I)) ? "" : "!ref");
    };
    if (k == 'a')
      return with_size<6>(v.size(), [&](auto n) { auto a{mk_array<SZ(n)>(v, 0)}; return show(a, con::at_optional(a, I)); });
    return with_seq(k, v, [&](auto &c) -> std::string {
      if constexpr (std::is_same_v<std::remove_cvref_t<decltype(c)>, std::list<int>>) return bad;
      else
      {
        auto const &cc{c};
        std::string const a{show(c, con::at_optional(c, I))}, b{show(cc, con::at_optional(cc, I))};
        return a == b ? a : a + "!=" + b;
      }
    });
  }
  if (fn == "join" && np == 3)
  {
    ulong const K = ps[0], c1 = ps[1], c2 = ps[2];
    if (!(sq || k == 's') || K < 1 || K > 5 || c1 > c2 || c2 > v.size()) return bad;
    return with_seq_set(k, v, [&](auto &proto) {
      using C = std::remove_cvref_t<decltype(proto)>;
      auto const b0 = v.begin();
      using diff = seq::difference_type;
      C const whole(v.begin(), v.end());
      C const a(b0, b0 + static_cast<diff>(c1)), b(b0 + static_cast<diff>(c1), b0 + static_cast<diff>(c2)), c(b0 + static_cast<diff>(c2), v.end());
      C const bc(b0 + static_cast<diff>(c1), v.end());
      std::string l, r;
      if (K == 4 || K == 5)
      {
        // the same object as several arguments (non-const lvalue)
        C w(v.begin(), v.end());
        std::string const j{K == 4 ? ds(con::join(w, w)) : ds(con::join(w, w, w))};
        return w == whole ? j : j + "!source-modified";
      }
      if (K == 1) { l = ds(con::join(whole)); r = ds(con::join(C{whole})); }
      else if (K == 2) { l = ds(con::join(a, bc)); r = ds(con::join(C{a}, C{bc})); }
      else { l = ds(con::join(a, b, c)); r = ds(con::join(C{a}, b, C{c})); }
      return l == r ? l : l + "!=" + r;
    });
  }
  if (fn == "amap" && np == 1)
  {
    ulong const F = ps[0];
    if (k != 'a' || F >= 27) return bad;
    return with_size<6>(v.size(), [&](auto n) {
      auto const src{mk_array<SZ(n)>(v, 0)};
      std::string const a{ds(fcppt::array::map(src, [F](int const e) { return tbl_f(F, e); }))};
      // the same through algorithm::map (map_array.hpp)
      std::string const b{ds(alg::map<fcppt::array::object<int, SZ(n)>>(src, [F](int const e) { return tbl_f(F, e); }))};
      return a == b ? a : a + "!=" + b;
    });
  }
  if (fn == "aappend" && np == 1)
  {
    ulong const c1 = ps[0];
    if (k != 'a' || c1 > v.size() || c1 > 3 || v.size() - c1 > 3) return bad;
    return with_size<3>(c1, [&](auto n1) {
      return with_size<3>(v.size() - c1, [&](auto n2) {
        return ds(fcppt::array::append(mk_array<SZ(n1)>(v, 0), mk_array<SZ(n2)>(v, c1)));
      });
    });
  }
  if (fn == "ajoin" && np == 2)
  {
    ulong const c1 = ps[0], c2 = ps[1];
    if (k != 'a' || c1 > c2 || c2 > v.size() || c1 > 2 || c2 - c1 > 2 || v.size() - c2 > 2) return bad;
    return with_size<2>(c1, [&](auto n1) {
      return with_size<2>(c2 - c1, [&](auto n2) {
        return with_size<2>(v.size() - c2, [&](auto n3) {
          return ds(fcppt::array::join(mk_array<SZ(n1)>(v, 0), mk_array<SZ(n2)>(v, c1), mk_array<SZ(n3)>(v, c2)));
        });
      });
    });
  }
  if (fn == "apush" && np == 1)
  {
    ulong const V = ps[0];
    if (k != 'a' || v.size() > 5 || V >= 3) return bad;
    return with_size<5>(v.size(), [&](auto n) { return ds(fcppt::array::push_back(mk_array<SZ(n)>(v, 0), static_cast<int>(V))); });
  }
  if (fn == "afrom" && np == 1)
  {
    ulong const N = ps[0];
    if (!(k == 'v' || k == 'd') || N > 4) return bad;
    return with_size<4>(N, [&](auto n) {
      auto const show = [](auto const &o) { return o.has_value() ? ds(o.get_unsafe()) : std::string{"none"}; };
      if (k == 'v') { std::vector<int> const c(v.begin(), v.end()); return show(fcppt::array::from_range<SZ(n)>(c)); }
      std::deque<int> const c(v.begin(), v.end());
      return show(fcppt::array::from_range<SZ(n)>(c));
    });
  }
  if (fn == "tmap" && np == 1)
  {
    ulong const F = ps[0];
    if (k != 't' || F >= 27) return bad;
    return with_size<3>(v.size(), [&](auto n) {
      auto const src{mk_tuple<SZ(n)>(v, 0)};
      auto const f = [F](auto const e) { return static_cast<long>(tbl_f(F, val(e))); };
      std::string const a{ds_tuple(fcppt::tuple::map(src, f))};
      // the same through algorithm::map (map_tuple.hpp)
      std::string const b{ds_tuple(alg::map<decltype(fcppt::tuple::map(src, f))>(src, f))};
      return a == b ? a : a + "!=" + b;
    });
  }
  if (fn == "tpush" && np == 1)
  {
    ulong const V = ps[0];
    if (k != 't' || v.size() > 2 || V >= 3) return bad;
    return with_size<2>(v.size(), [&](auto n) { return ds_tuple(fcppt::tuple::push_back(mk_tuple<SZ(n)>(v, 0), static_cast<short>(V))); });
  }
  if (fn == "tconcat" && np == 2)
  {
    ulong const c1 = ps[0], c2 = ps[1];
    if (k != 't' || c1 > c2 || c2 > v.size()) return bad;
    return with_size<3>(c1, [&](auto n1) {
      return with_size<3>(c2 - c1, [&](auto n2) {
        return with_size<3>(v.size() - c2, [&](auto n3) -> std::string {
          if constexpr (SZ(n1) + SZ(n2) + SZ(n3) > 3) return bad;
          else
            return ds_tuple(fcppt::tuple::concat(mk_tuple<SZ(n1)>(v, 0), mk_tuple<SZ(n2)>(v, c1), mk_tuple<SZ(n3)>(v, c2)));
        });
      });
    });
  }
  // ------------------------------------------------------------ aliasing, references
  if (fn == "removeat" && np == 1)
  {
    ulong const I = ps[0];
    if (!sq || I > 8) return bad;
    if (I >= v.size()) return skip;
    return with_seq(k, v, [&](auto &c) {
      // the element to remove is a reference into the container itself
      bool const r = alg::remove(c, *std::next(c.begin(), static_cast<std::ptrdiff_t>(I)));
      return std::string{b01(r)} + "|" + ds(c);
    });
  }
  if (fn == "loopmut" && np == 1)
  {
    ulong const B = ps[0];
    if (!(sq || k == 'a') || B > 8) return bad;
    auto const run = [B](auto &c) {
      if (B == 8)
        alg::loop(c, [](auto &&e) { e = (e + 1) % 3; });
      else
        alg::loop_break(c, [B](auto &&e) {
          bool const brk = bit(B, e);
          e = (e + 1) % 3;
          return brk ? fcppt::loop::break_ : fcppt::loop::continue_;
        });
      return ds(c);
    };
    if (k == 'a')
      return with_size<6>(v.size(), [&](auto n) { auto a{mk_array<SZ(n)>(v, 0)}; return run(a); });
    return with_seq(k, v, run);
  }
  if (fn == "singular" && np == 2)
  {
    ulong const i = ps[0], j = ps[1];
    if (!(sq || k == 's')) return bad;
    if (i > j || j > v.size()) return skip;
    return with_seq_set(k, v, [&](auto &c) {
      if (i > c.size() || j > c.size()) return skip; // the set may be shorter than the sequence
      auto const b{std::next(c.begin(), static_cast<std::ptrdiff_t>(i))};
      auto const e{std::next(c.begin(), static_cast<std::ptrdiff_t>(j))};
      return std::string{b01(fcppt::range::singular(fcppt::iterator::make_range(b, e)))};
    });
  }
  if (fn == "singularc" && np == 0)
  {
    if (!(sq || k == 's' || k == 'f')) return bad;
    return with_ro(k, v, [&](auto const &c) { return std::string{b01(fcppt::range::singular(c))}; });
  }
  // ------------------------------------------------------------ arities
  if (fn == "ajoin1" && np == 0)
  {
    if (k != 'a') return bad;
    return with_size<6>(v.size(), [&](auto n) {
      auto const a{mk_array<SZ(n)>(v, 0)};
      std::string const l{ds(fcppt::array::join(a))}, r{ds(fcppt::array::join(mk_array<SZ(n)>(v, 0)))};
      return l == r ? l : l + "!=" + r;
    });
  }
  if (fn == "ajoin2" && np == 1)
  {
    ulong const c1 = ps[0];
    if (k != 'a') return bad;
    if (c1 > v.size() || c1 > 3 || v.size() - c1 > 3) return skip;
    return with_size<3>(c1, [&](auto n1) {
      return with_size<3>(v.size() - c1, [&](auto n2) {
        auto const a{mk_array<SZ(n1)>(v, 0)};
        auto const b{mk_array<SZ(n2)>(v, c1)};
        std::string const l{ds(fcppt::array::join(a, b))}, r{ds(fcppt::array::join(mk_array<SZ(n1)>(v, 0), mk_array<SZ(n2)>(v, c1)))};
        return l == r ? l : l + "!=" + r;
      });
    });
  }
  if (fn == "ajoin4" && np == 1)
  {
    ulong const mask = ps[0];
    if (k != 'a' || mask > 15) return bad;
    if (static_cast<std::size_t>(__builtin_popcountl(mask)) != v.size()) return skip;
    std::size_t const s1 = mask & 1U, s2 = (mask >> 1U) & 1U, s3 = (mask >> 2U) & 1U, s4 = (mask >> 3U) & 1U;
    return with_size<1>(s1, [&](auto n1) {
      return with_size<1>(s2, [&](auto n2) {
        return with_size<1>(s3, [&](auto n3) {
          return with_size<1>(s4, [&](auto n4) {
            auto const b{mk_array<SZ(n2)>(v, s1)};
            return ds(fcppt::array::join(mk_array<SZ(n1)>(v, 0), b, mk_array<SZ(n3)>(v, s1 + s2), mk_array<SZ(n4)>(v, s1 + s2 + s3)));
          });
        });
      });
    });
  }
  if (fn == "tconcatn" && np == 2)
  {
    // tuple::concat with 0, 1 or 2 arguments
    ulong const K = ps[0], c1 = ps[1];
    if (k != 't' || K > 2) return bad;
    if (c1 > v.size() || (K == 0 && !v.empty()) || (K <= 1 && c1 != 0)) return skip;
    if (K == 0) return ds_tuple(fcppt::tuple::concat());
    if (K == 1)
      return with_size<3>(v.size(), [&](auto n) {
        auto const a{mk_tuple<SZ(n)>(v, 0)};
        std::string const l{ds_tuple(fcppt::tuple::concat(concat_arg(a)))}, r{ds_tuple(fcppt::tuple::concat(mk_tuple<SZ(n)>(v, 0)))};
        return l == r ? l : l + "!=" + r;
      });
    return with_size<3>(c1, [&](auto n1) {
      return with_size<3>(v.size() - c1, [&](auto n2) -> std::string {
        if constexpr (SZ(n1) + SZ(n2) > 3) return bad;
        else
        {
          auto const a{mk_tuple<SZ(n1)>(v, 0)};
          return ds_tuple(fcppt::tuple::concat(concat_arg(a), mk_tuple<SZ(n2)>(v, c1)));
        }
      });
    });
  }
  // ------------------------------------------------------------ value categories (probe elements; 9 = moved-from)
  if ((fn == "vcmap" || fn == "vcfold" || fn == "vcmapopt" || fn == "vcmapcat") && np == 1)
  {
    ulong const cat = ps[0];
    if (cat > 2) return bad;
    if (k == 'a' && fn == "vcmap")
    {
      if (v.size() > 3) return skip;
      return with_size<3>(v.size(), [&](auto n) {
        auto a{mk_parray<SZ(n)>(v, 0)};
        return with_cat(cat, a, [&](auto &&src) {
          auto const r{fcppt::array::map(FWD(src), [](pe e) { return e; })};
          return ds(r) + "|" + ds(a);
        });
      });
    }
    if (k == 't' && fn == "vcmap")
    {
      if (v.size() > 3) return skip;
      return with_size<3>(v.size(), [&](auto n) {
        auto t{mk_ptuple<SZ(n)>(v, 0)};
        return with_cat(cat, t, [&](auto &&src) {
          auto const r{fcppt::tuple::map(FWD(src), [](pe e) { return e; })};
          return ds_tuple(r) + "|" + ds_tuple(t);
        });
      });
    }
    if (!sq) return bad;
    return with_pseq(k, v, [&](auto &c) {
      return with_cat(cat, c, [&](auto &&src) {
        std::string r;
        if (fn == "vcmap")
          r = ds(alg::map<std::vector<pe>>(FWD(src), [](pe e) { return e; }));
        else if (fn == "vcfold")
          r = std::to_string(alg::fold(FWD(src), 0UL, [](pe e, ulong const st) { return st * 4 + static_cast<ulong>(e.v) + 1; }));
        else if (fn == "vcmapopt")
          r = ds(alg::map_optional<std::vector<pe>>(FWD(src), [](pe e) { return fcppt::optional::object<pe>{std::move(e)}; }));
        else
          r = ds(alg::map_concat<std::vector<pe>>(FWD(src), [](pe e) { return std::vector<pe>{e, e}; }));
        return r + "|" + ds(c);
      });
    });
  }
  if (fn == "vcjoin" && np == 5)
  {
    ulong const cat1 = ps[0], cat2 = ps[1], cat3 = ps[2], c1 = ps[3], c2 = ps[4];
    if (!sq || cat1 > 2 || cat2 < 1 || cat2 > 2 || cat3 < 1 || cat3 > 2) return bad;
    if (c1 > c2 || c2 > v.size()) return skip;
    return with_pseq(k, v, [&](auto &proto) {
      using C = std::remove_cvref_t<decltype(proto)>;
      using diff = seq::difference_type;
      auto const b0 = v.begin();
      C a(b0, b0 + static_cast<diff>(c1)), b(b0 + static_cast<diff>(c1), b0 + static_cast<diff>(c2)), c(b0 + static_cast<diff>(c2), v.end());
      return with_cat(cat1, a, [&](auto &&x) {
        return with_cat2(cat2, b, [&](auto &&y) {
          return with_cat2(cat3, c, [&](auto &&z) {
            auto const r{con::join(FWD(x), FWD(y), FWD(z))};
            // an rvalue first argument is taken over as a whole: its state afterwards is not specified
            return ds(r) + "|" + (cat1 == 2 ? std::string{"*"} : ds(a)) + "|" + ds(b) + "|" + ds(c);
          });
        });
      });
    });
  }
  if (fn == "vcappend" && np == 3)
  {
    ulong const cat1 = ps[0], cat2 = ps[1], c1 = ps[2];
    if (k != 'a' || cat1 > 2 || cat2 > 2) return bad;
    if (c1 > v.size() || c1 > 2 || v.size() - c1 > 2) return skip;
    return with_size<2>(c1, [&](auto n1) {
      return with_size<2>(v.size() - c1, [&](auto n2) {
        auto a{mk_parray<SZ(n1)>(v, 0)};
        auto b{mk_parray<SZ(n2)>(v, c1)};
        return with_cat(cat1, a, [&](auto &&x) {
          return with_cat(cat2, b, [&](auto &&y) {
            auto const r{fcppt::array::append(FWD(x), FWD(y))};
            return ds(r) + "|" + ds(a) + "|" + ds(b);
          });
        });
      });
    });
  }
  if (fn == "vcpush" && np == 3)
  {
    ulong const cat = ps[0], catx = ps[1], V = ps[2];
    if (k != 'a' || cat > 2 || catx > 2 || V >= 3) return bad;
    if (v.size() > 3) return skip;
    return with_size<3>(v.size(), [&](auto n) {
      auto a{mk_parray<SZ(n)>(v, 0)};
      pe x{static_cast<int>(V)};
      return with_cat(cat, a, [&](auto &&src) {
        return with_cat(catx, x, [&](auto &&e) {
          auto const r{fcppt::array::push_back(FWD(src), FWD(e))};
          return ds(r) + "|" + ds(a) + "|" + std::to_string(x.v);
        });
      });
    });
  }
  if (fn == "vcajoin" && np == 5)
  {
    ulong const cat1 = ps[0], cat2 = ps[1], cat3 = ps[2], c1 = ps[3], c2 = ps[4];
    if (k != 'a' || cat1 > 2 || cat2 < 1 || cat2 > 2 || cat3 < 1 || cat3 > 2) return bad;
    if (c1 > c2 || c2 > v.size() || c1 > 1 || c2 - c1 > 1 || v.size() - c2 > 1) return skip;
    return with_size<1>(c1, [&](auto n1) {
      return with_size<1>(c2 - c1, [&](auto n2) {
        return with_size<1>(v.size() - c2, [&](auto n3) {
          auto a{mk_parray<SZ(n1)>(v, 0)};
          auto b{mk_parray<SZ(n2)>(v, c1)};
          auto c{mk_parray<SZ(n3)>(v, c2)};
          return with_cat(cat1, a, [&](auto &&x) {
            return with_cat2(cat2, b, [&](auto &&y) {
              return with_cat2(cat3, c, [&](auto &&z) {
                auto const r{fcppt::array::join(FWD(x), FWD(y), FWD(z))};
                return ds(r) + "|" + ds(a) + "|" + ds(b) + "|" + ds(c);
              });
            });
          });
        });
      });
    });
  }
  if (fn == "vcfrom" && np == 2)
  {
    ulong const cat = ps[0], N = ps[1];
    if (!(k == 'v' || k == 'd') || cat > 2 || N > 3) return bad;
    return with_size<3>(N, [&](auto n) {
      return with_pseq(k, v, [&](auto &c) -> std::string {
        if constexpr (std::is_same_v<std::remove_cvref_t<decltype(c)>, std::list<pe>>) return bad;
        else
          return with_cat(cat, c, [&](auto &&src) {
            auto const o{fcppt::array::from_range<SZ(n)>(FWD(src))};
            return (o.has_value() ? ds(o.get_unsafe()) : std::string{"none"}) + "|" + ds(c);
          });
      });
    });
  }
  if (fn == "vctpush" && np == 3)
  {
    ulong const cat = ps[0], catx = ps[1], V = ps[2];
    if (k != 't' || cat > 2 || catx > 2 || V >= 3) return bad;
    if (v.size() > 2) return skip;
    return with_size<2>(v.size(), [&](auto n) {
      auto t{mk_ptuple<SZ(n)>(v, 0)};
      pe x{static_cast<int>(V)};
      return with_cat(cat, t, [&](auto &&src) {
        return with_cat(catx, x, [&](auto &&e) {
          auto const r{fcppt::tuple::push_back(FWD(src), FWD(e))};
          return ds_tuple(r) + "|" + ds_tuple(t) + "|" + std::to_string(x.v);
        });
      });
    });
  }
  if (fn == "vctconcat" && np == 5)
  {
    ulong const cat1 = ps[0], cat2 = ps[1], cat3 = ps[2], c1 = ps[3], c2 = ps[4];
    if (k != 't' || cat1 < 1 || cat1 > 2 || cat2 < 1 || cat2 > 2 || cat3 < 1 || cat3 > 2) return bad;
    if (c1 > c2 || c2 > v.size() || c1 > 1 || c2 - c1 > 1 || v.size() - c2 > 1) return skip;
    return with_size<1>(c1, [&](auto n1) {
      return with_size<1>(c2 - c1, [&](auto n2) {
        return with_size<1>(v.size() - c2, [&](auto n3) {
          auto a{mk_ptuple<SZ(n1)>(v, 0)};
          auto b{mk_ptuple<SZ(n2)>(v, c1)};
          auto c{mk_ptuple<SZ(n3)>(v, c2)};
          return with_cat2(cat1, a, [&](auto &&x) {
            return with_cat2(cat2, b, [&](auto &&y) {
              return with_cat2(cat3, c, [&](auto &&z) {
                auto const r{fcppt::tuple::concat(concat_arg(FWD(x)), concat_arg(FWD(y)), concat_arg(FWD(z)))};
                return ds_tuple(r) + "|" + ds_tuple(a) + "|" + ds_tuple(b) + "|" + ds_tuple(c);
              });
            });
          });
        });
      });
    });
  }
  if (fn == "make" && np == 1)
  {
    ulong const t = ps[0];
    if (k != 'v' || t > 3) return bad;
    if (v.size() > 4) return skip;
    return with_size<4>(v.size(), [&](auto n) {
      std::vector<pe> args(v.begin(), v.end());
      auto const go = [&]<typename T>(fcppt::tag<T>) {
        return [&]<std::size_t... I>(std::index_sequence<I...>) {
          auto const r{con::make<T>(args[I]...)};
          return ds(r) + "|" + ds(args);
        }(std::make_index_sequence<SZ(n)>{});
      };
      switch (t)
      {
      case 0: return go(fcppt::tag<std::vector<pe>>{});
      case 1: return go(fcppt::tag<std::list<pe>>{});
      case 2: return go(fcppt::tag<std::deque<pe>>{});
      default: return go(fcppt::tag<std::set<pe>>{});
      }
    });
  }
  if (fn == "mvrange" && np == 0)
  {
    if (!sq) return bad;
    return with_pseq(k, v, [&](auto &c) {
      auto range{con::make_move_range(std::move(c))};
      auto const &crange{range};
      std::string const before{ds(crange)};
      std::vector<pe> read;
      for (auto &&e : range) // move iterators: e is an rvalue
        read.push_back(pe{FWD(e)});
      return before + "|" + ds(read) + "|" + ds(crange);
    });
  }
  if (fn == "mmiter" && np == 1)
  {
    // map_iteration over a std::multimap: key of the i-th entry = i / 2 (so keys repeat)
    ulong const R = ps[0];
    if (k != 'v' || R >= 8) return bad;
    std::multimap<int, int> m;
    for (std::size_t i = 0; i < v.size(); ++i) m.emplace(static_cast<int>(i / 2), v[i]);
    seq log;
    alg::map_iteration(m, [&log, R](std::pair<int const, int> const &e) {
      log.push_back(e.second);
      return bit(R, e.second) ? alg::update_action::remove : alg::update_action::keep;
    });
    std::string r;
    for (auto const &e : m) r += (r.empty() ? "" : ",") + std::to_string(e.first) + ">" + std::to_string(e.second);
    return (r.empty() ? "-" : r) + "|" + ds(log);
  }
  if (fn == "setiter" && np == 1)
  {
    ulong const R = ps[0];
    if (k != 's' || R >= 8) return bad;
    std::set<int> c(v.begin(), v.end());
    seq log;
    alg::map_iteration(c, [&log, R](int const e) {
      log.push_back(e);
      return bit(R, e) ? alg::update_action::remove : alg::update_action::keep;
    });
    return ds(c) + "|" + ds(log);
  }
  // ------------------------------------------------------------ equal, size, front/back, pop, data, output
  if (fn == "equal" && np == 2)
  {
    ulong const k2 = ps[0], c1 = ps[1];
    if (!(sq || k == 'f') || k2 > 3) return bad;
    if (c1 > v.size()) return skip;
    using diff = seq::difference_type;
    seq const xs(v.begin(), v.begin() + static_cast<diff>(c1)), ys(v.begin() + static_cast<diff>(c1), v.end());
    return with_vldf(k, xs, [&](auto const &a) {
      return with_vldf("vldf"[k2], ys, [&](auto const &b) { return std::string{b01(alg::equal(a, b))}; });
    });
  }
  if (fn == "equalself" && np == 0)
  {
    if (!(sq || k == 'f')) return bad;
    return with_vldf(k, v, [&](auto const &a) { return std::string{b01(alg::equal(a, a))}; });
  }
  if (fn == "csize" && np == 0)
  {
    if (!ro) return bad;
    return with_ro(k, v, [&](auto const &c) { return std::to_string(con::size(c)); });
  }
  if ((fn == "mfront" || fn == "mback") && np == 0)
  {
    bool const front = fn == "mfront";
    if (!(sq || (front && k == 'f'))) return bad;
    auto const go = [front](auto &c) -> std::string {
      auto const &cc{c};
      auto const show = [front](auto &x, auto const &o) {
        if (!o.has_value()) return std::string{"none"};
        bool same;
        if constexpr (requires { x.back(); }) same = &o.get_unsafe().get() == (front ? &x.front() : &x.back());
        else same = &o.get_unsafe().get() == &x.front();
        return std::to_string(o.get_unsafe().get()) + (same ? "" : "!ref");
      };
      std::string a, b;
      if constexpr (requires { c.back(); })
      {
        a = front ? show(c, con::maybe_front(c)) : show(c, con::maybe_back(c));
        b = front ? show(cc, con::maybe_front(cc)) : show(cc, con::maybe_back(cc));
      }
      else
      {
        a = show(c, con::maybe_front(c));
        b = show(cc, con::maybe_front(cc));
      }
      return a == b ? a : a + "!=" + b;
    };
    if (k == 'f') { std::forward_list<int> c(v.begin(), v.end()); return go(c); }
    return with_seq(k, v, go);
  }
  if (fn == "popback" && np == 0)
  {
    if (!sq) return bad;
    return with_seq(k, v, [&](auto &c) {
      auto const o{con::pop_back(c)};
      return (o.has_value() ? std::to_string(o.get_unsafe()) : std::string{"none"}) + "|" + ds(c);
    });
  }
  if (fn == "popfront" && np == 0)
  {
    if (!(k == 'l' || k == 'd' || k == 'f')) return bad;
    auto const go = [](auto &c) {
      auto const o{con::pop_front(c)};
      return (o.has_value() ? std::to_string(o.get_unsafe()) : std::string{"none"}) + "|" + ds(c);
    };
    if (k == 'l') { std::list<int> c(v.begin(), v.end()); return go(c); }
    if (k == 'd') { std::deque<int> c(v.begin(), v.end()); return go(c); }
    std::forward_list<int> c(v.begin(), v.end());
    return go(c);
  }
  if (fn == "data" && np == 0)
  {
    if (!(k == 'v' || k == 'a')) return bad;
    auto const go = [](auto &c) -> std::string {
      auto const &cc{c};
      auto const one = [](auto &x) -> std::string {
        auto *const d{con::data(x)};
        auto *const e{con::data_end(x)};
        if (d == nullptr || e == nullptr)
          return std::string{d == nullptr ? "null" : "ptr"} + "|" + (e == nullptr ? "null" : "ptr");
        return std::string{d == &*x.begin() ? "0" : "elsewhere"} + "|" + std::to_string(e - d);
      };
      std::string const a{one(c)}, b{one(cc)};
      return a == b ? a : a + "!=" + b;
    };
    if (k == 'a') // here: std::array (fcppt::array::object has no empty())
      return with_size<6>(v.size(), [&](auto n) {
        std::array<int, SZ(n)> a{};
        for (std::size_t i = 0; i < SZ(n); ++i) a[i] = v[i];
        return go(a);
      });
    std::vector<int> c(v.begin(), v.end());
    return go(c);
  }
  if (fn == "output" && np == 0)
  {
    if (!(sq || k == 'f' || k == 's')) return bad;
    // elements are printed as x*50-3 so that renderings have different lengths and a sign
    seq w;
    for (int const x : v) w.push_back(x * 50 - 3);
    auto const go = [](auto const &c) {
      std::ostringstream os;
      os << con::output(c);
      std::wostringstream wos;
      wos << con::output(c);
      std::string a{os.str()}, b;
      for (wchar_t const ch : wos.str()) b += static_cast<char>(ch);
      return a == b ? a : a + "!=" + b;
    };
    switch (k)
    {
    case 'v': { std::vector<int> const c(w.begin(), w.end()); return go(c); }
    case 'l': { std::list<int> const c(w.begin(), w.end()); return go(c); }
    case 'd': { std::deque<int> const c(w.begin(), w.end()); return go(c); }
    case 'f': { std::forward_list<int> const c(w.begin(), w.end()); return go(c); }
    default: { std::set<int> const c(w.begin(), w.end()); return go(c); }
    }
  }
  return bad;
}

std::vector<std::string> enum_tokens(char const k, ulong const len)
{
  std::vector<std::string> r;
  if (k == 'i' || k == 'e')
  {
    for (int b = 0; b < 4; ++b)
      for (int e = 0; e < 4; ++e)
        if (static_cast<ulong>(e > b ? e - b : 0) == len && (k == 'i' || b <= e))
          r.push_back(std::to_string(b) + std::to_string(e));
    return r;
  }
  ulong const total = pw(3, static_cast<int>(len));
  for (ulong n = 0; n < total; ++n)
  {
    std::string s;
    for (ulong i = 0; i < len; ++i)
      s += static_cast<char>('0' + (n / pw(3, static_cast<int>(len - 1 - i))) % 3);
    r.push_back(len == 0 ? "-" : s);
  }
  return r;
}

std::string eval_s(std::string const &fn, std::string const &k, std::vector<std::string> const &ps, std::string const &tok)
{
  if (k.size() != 1) return bad;
  std::vector<ulong> p;
  for (auto const &s : ps)
  {
    auto const n{to_nat(s)};
    if (!n) return bad;
    p.push_back(*n);
  }
  auto const v{parse_seq(tok)};
  if (!v) return bad;
  return eval_fn(fn, k[0], p, *v);
}

// ---------------------------------------------------------------- strings

bool valid_str(std::string const &s)
{
  if (s == "-") return true;
  for (char c : s) if (c != 'a' && c != 'b' && c != 'c') return false;
  return !s.empty();
}
std::string un(std::string const &s) { return s == "-" ? std::string{} : s; }
std::string show_str(std::string const &s) { return s.empty() ? "-" : s; }

std::string split_line(char const K, std::string const &s)
{
  std::vector<std::string> pieces;
  if (K == 's')
    pieces = fcppt::algorithm::split_string(s, 'c');
  else
  {
    std::vector<char> const in(s.begin(), s.end());
    for (auto const &p : fcppt::algorithm::split_string(in, 'c'))
      pieces.emplace_back(p.begin(), p.end());
  }
  std::string r{std::to_string(pieces.size()) + ":"};
  for (std::size_t i = 0; i < pieces.size(); ++i)
    r += (i ? "/" : "") + pieces[i];
  bool const rt = fcppt::algorithm::join_strings(pieces, std::string{"c"}) == s;
  return r + " rt=" + b01(rt);
}

std::string join_line(std::string const &d, std::vector<std::string> const &pieces)
{
  std::string const a{fcppt::algorithm::join_strings(pieces, d)};
  std::list<std::string> const l(pieces.begin(), pieces.end());
  std::string const b{fcppt::algorithm::join_strings(l, d)};
  return a == b ? show_str(a) : show_str(a) + "!=" + show_str(b);
}

std::vector<std::string> all_strings(std::string const &alpha, ulong const len)
{
  std::vector<std::string> r;
  ulong const k = alpha.size();
  for (ulong n = 0; n < pw(k, static_cast<int>(len)); ++n)
  {
    std::string s;
    for (ulong i = 0; i < len; ++i)
      s += alpha[(n / pw(k, static_cast<int>(len - 1 - i))) % k];
    r.push_back(s);
  }
  return r;
}

// ---------------------------------------------------------------- maps, sets

std::string encode_map(std::map<int, int> const &m)
{
  std::string r;
  for (auto const &e : m)
    r += (r.empty() ? "" : ",") + std::to_string(e.first) + ">" + std::to_string(e.second);
  return r.empty() ? "-" : r;
}

std::string eval_m(std::string const &fn, std::vector<ulong> const &ps, ulong const M)
{
  namespace con = fcppt::container;
  namespace alg = fcppt::algorithm;
  if (M >= 64) return bad;
  std::map<int, int> m;
  for (int k = 2; k >= 0; --k)
  {
    ulong const d = (M / pw(4, k)) % 4;
    if (d != 0) m.emplace(k, static_cast<int>(d) - 1);
  }
  if (fn == "findmapped" && ps.size() == 1)
  {
    if (ps[0] >= 3) return bad;
    auto const &cm{m};
    auto const a{con::find_opt_mapped(m, static_cast<int>(ps[0]))};
    auto const b{con::find_opt_mapped(cm, static_cast<int>(ps[0]))};
    std::string const sa{a.has_value() ? std::to_string(a.get_unsafe().get()) : "none"};
    std::string const sb{b.has_value() ? std::to_string(b.get_unsafe().get()) : "none"};
    return sa == sb ? sa : sa + "!=" + sb;
  }
  if (fn == "getorins" && ps.size() == 1)
  {
    if (ps[0] >= 3) return bad;
    int const K{static_cast<int>(ps[0])};
    seq calls;
    auto const create = [&calls](int const k) { calls.push_back(k); return (k + 1) % 3; };
    std::map<int, int> m2{m};
    auto const r{con::get_or_insert_with_result(m, K, create)};
    std::string out{std::to_string(r.element()) + "," + b01(r.inserted())};
    // the returned reference must be the mapped object inside the container
    if (&r.element() != &m.find(K)->second) out += "!ref";
    seq calls2;
    int const &e2{con::get_or_insert(m2, K, [&calls2](int const k) { calls2.push_back(k); return (k + 1) % 3; })};
    if (e2 != r.element() || m2 != m || calls2 != calls) out += "!get_or_insert";
    return out + "|" + encode_map(m) + "|" + ds(calls);
  }
  if (fn == "contains" && ps.size() == 1)
  {
    if (ps[0] >= 4) return bad;
    return b01(con::contains(m, static_cast<int>(ps[0])));
  }
  if ((fn == "findopt" || fn == "findit") && ps.size() == 1)
  {
    if (ps[0] >= 4) return bad;
    int const K{static_cast<int>(ps[0])};
    auto const &cm{m};
    if (fn == "findit")
    {
      auto const a{con::find_opt_iterator(m, K)};
      auto const b{con::find_opt_iterator(cm, K)};
      auto const show = [&](auto const &o, auto const &c) {
        return o.has_value() ? std::to_string(std::distance(c.begin(), std::map<int, int>::const_iterator{o.get_unsafe()})) : std::string{"none"};
      };
      std::string const sa{show(a, m)}, sb{show(b, cm)};
      return sa == sb ? sa : sa + "!=" + sb;
    }
    auto const a{con::find_opt(m, K)};
    auto const b{con::find_opt(cm, K)};
    auto const show = [&](auto const &o) {
      if (!o.has_value()) return std::string{"none"};
      auto const &e{o.get_unsafe().get()};
      return std::to_string(e.first) + ">" + std::to_string(e.second) + (&e == &*cm.find(K) ? "" : "!ref");
    };
    std::string const sa{show(a)}, sb{show(b)};
    return sa == sb ? sa : sa + "!=" + sb;
  }
  if (fn == "insert" && ps.size() == 1)
  {
    if (ps[0] >= 12) return bad;
    bool const r{con::insert(m, std::make_pair(static_cast<int>(ps[0] / 3), static_cast<int>(ps[0] % 3)))};
    return std::string{b01(r)} + "|" + encode_map(m);
  }
  if (fn == "valsref" && ps.size() == 1)
  {
    // references stay references: change every mapped value after taking them
    if (ps[0] >= 3) return bad;
    auto const refs{con::map_values_ref<std::vector<fcppt::reference<int>>>(m)};
    for (auto &e : m) e.second = (e.second + static_cast<int>(ps[0])) % 3;
    std::string b;
    auto it{m.begin()};
    for (auto const &r : refs)
    {
      b += std::to_string(r.get()) + (&r.get() == &it->second ? "" : "!ref");
      ++it;
    }
    return b.empty() ? "-" : b;
  }
  if (fn == "keyset" && ps.empty())
    return ds(con::key_set<std::set<int>>(m));
  if (fn == "mapvals" && ps.empty())
  {
    std::string const a{ds(con::map_values_copy<std::vector<int>>(m))};
    std::string b;
    for (auto const &r : con::map_values_ref<std::vector<fcppt::reference<int>>>(m))
      b += std::to_string(r.get());
    if (b.empty()) b = "-";
    return a == b ? a : a + "!=" + b;
  }
  if (fn == "mapiter" && ps.size() == 1)
  {
    ulong const R = ps[0];
    if (R >= 64) return bad;
    seq log;
    alg::map_iteration(m, [&log, R](std::pair<int const, int> const &e) {
      log.push_back(e.first);
      return bit(R, (e.first + 2 * e.second) % 6) ? alg::update_action::remove : alg::update_action::keep;
    });
    return encode_map(m) + "|" + ds(log);
  }
  if (fn == "mapiter2" && ps.size() == 1)
  {
    ulong const R = ps[0];
    if (R >= 8) return bad;
    seq log;
    alg::map_iteration_second(m, [&log, R](int const &e) {
      log.push_back(e);
      return bit(R, e) ? alg::update_action::remove : alg::update_action::keep;
    });
    return encode_map(m) + "|" + ds(log);
  }
  return bad;
}

std::string setop_line(std::string const &op, std::vector<long long> const &a, std::vector<long long> const &b)
{
  std::set<int> const sa(a.begin(), a.end()), sb(b.begin(), b.end());
  if (op == "U") return nl(fcppt::container::set_union(sa, sb));
  if (op == "I") return nl(fcppt::container::set_intersection(sa, sb));
  if (op == "D") return nl(fcppt::container::set_difference(sa, sb));
  // the same object as both operands
  if (op == "u") return nl(fcppt::container::set_union(sa, sa));
  if (op == "i") return nl(fcppt::container::set_intersection(sa, sa));
  if (op == "d") return nl(fcppt::container::set_difference(sa, sa));
  // container::insert / container::contains: the second list must be a single element
  if ((op == "N" || op == "C") && b.size() == 1)
  {
    int const x{static_cast<int>(b[0])};
    if (op == "C") return b01(fcppt::container::contains(sa, x));
    std::set<int> s2{sa};
    bool const r{fcppt::container::insert(s2, x)};
    return std::string{b01(r)} + "|" + nl(s2);
  }
  return bad;
}

std::vector<long long> mask_list(ulong const m)
{
  std::vector<long long> r;
  for (int i = 0; i < 3; ++i) if (bit(m, i)) r.push_back(i);
  return r;
}

bool valid_list(std::string const &s)
{
  if (s == "-") return true;
  if (s.empty() || s.front() == ',' || s.back() == ',') return false;
  for (std::size_t i = 0; i < s.size(); ++i)
  {
    if (s[i] == ',') { if (s[i + 1] == ',') return false; }
    else if (s[i] < '0' || s[i] > '9') return false;
  }
  return s.size() < 60;
}

// ---------------------------------------------------------------- state for the index_map history

struct state
{
  fcppt::container::index_map<int> im{};
  int g{0};
  std::map<int, int> m{};
  int calls{0};
};
state *st = nullptr;

int gen_next(int &g)
{
  int const r = (g * g) % 7;
  ++g;
  return r;
}

std::string im_show(int const v)
{
  return std::to_string(v) + " " + std::to_string(st->im.impl().size()) + "|" + nl(st->im.impl());
}

// ---------------------------------------------------------------- dispatch

std::string handle(std::vector<std::string> const &t)
{
  if (st == nullptr) st = new state{};
  if (t.empty()) return bad;
  std::string const &op{t[0]};
  if ((op == "s" || op == "d") && t.size() >= 4)
  {
    std::vector<std::string> const ps(t.begin() + 3, t.end() - 1);
    if (op == "s")
      return eval_s(t[1], t[2], ps, t.back());
    auto const len{to_nat(t.back())};
    if (!len || *len > 8 || t[2].size() != 1) return bad;
    std::uint64_t h = vh::fnv_init;
    for (auto const &tok : enum_tokens(t[2][0], *len))
    {
      std::string const r{eval_s(t[1], t[2], ps, tok)};
      if (r == bad) return bad;
      h = vh::fnv(h, r);
    }
    return "D " + vh::hex64(h);
  }
  if (op == "split" && t.size() == 3)
  {
    if (!valid_str(t[2]) || t[1].size() != 1 || (t[1][0] != 's' && t[1][0] != 'v')) return bad;
    return split_line(t[1][0], un(t[2]));
  }
  if (op == "dsplit" && t.size() == 3)
  {
    auto const len{to_nat(t[2])};
    if (!len || *len > 9 || t[1].size() != 1 || (t[1][0] != 's' && t[1][0] != 'v')) return bad;
    std::uint64_t h = vh::fnv_init;
    for (auto const &s : all_strings("abc", *len))
      h = vh::fnv(h, split_line(t[1][0], s));
    return "D " + vh::hex64(h);
  }
  if (op == "joinstr" && t.size() >= 3)
  {
    auto const n{to_nat(t[2])};
    if (!valid_str(t[1]) || !n || t.size() != 3 + *n) return bad;
    std::vector<std::string> pieces;
    for (std::size_t i = 3; i < t.size(); ++i)
    {
      if (!valid_str(t[i])) return bad;
      pieces.push_back(un(t[i]));
    }
    return join_line(un(t[1]), pieces);
  }
  if (op == "djoin" && t.size() == 3)
  {
    auto const n{to_nat(t[2])};
    if (!valid_str(t[1]) || !n || *n > 4) return bad;
    std::vector<std::string> choices;
    for (ulong l = 0; l < 3; ++l)
      for (auto const &s : all_strings("ab", l))
        choices.push_back(s);
    std::vector<std::vector<std::string>> tuples{{}};
    for (ulong i = 0; i < *n; ++i)
    {
      std::vector<std::vector<std::string>> next;
      for (auto const &tu : tuples)
        for (auto const &p : choices)
        {
          auto x{tu};
          x.push_back(p);
          next.push_back(std::move(x));
        }
      tuples = std::move(next);
    }
    std::uint64_t h = vh::fnv_init;
    for (auto const &tu : tuples)
      h = vh::fnv(h, join_line(un(t[1]), tu));
    return "D " + vh::hex64(h);
  }
  if ((op == "m" || op == "dm") && t.size() >= 2)
  {
    std::vector<ulong> ps;
    for (std::size_t i = 2; i < t.size(); ++i)
    {
      auto const n{to_nat(t[i])};
      if (!n) return bad;
      ps.push_back(*n);
    }
    if (op == "m")
    {
      if (ps.empty()) return bad;
      ulong const M = ps.back();
      ps.pop_back();
      return eval_m(t[1], ps, M);
    }
    std::uint64_t h = vh::fnv_init;
    for (ulong M = 0; M < 64; ++M)
    {
      std::string const r{eval_m(t[1], ps, M)};
      if (r == bad) return bad;
      h = vh::fnv(h, r);
    }
    return "D " + vh::hex64(h);
  }
  if (op == "setop" && t.size() == 4)
  {
    if (!valid_list(t[2]) || !valid_list(t[3])) return bad;
    return setop_line(t[1], vh::int_list(t[2]), vh::int_list(t[3]));
  }
  if (op == "dset" && t.size() == 2)
  {
    if (t[1].size() != 1 || std::string{"UIDuidNC"}.find(t[1][0]) == std::string::npos) return bad;
    bool const single = t[1] == "N" || t[1] == "C";
    std::uint64_t h = vh::fnv_init;
    for (ulong n = 0; n < 64; ++n)
      h = vh::fnv(h, setop_line(t[1], mask_list(n / 8), single ? std::vector<long long>{static_cast<long long>(n % 4)} : mask_list(n % 8)));
    return "D " + vh::hex64(h);
  }
  if (op == "repeat" && t.size() == 2)
  {
    std::string const &s{t[1]};
    bool const neg = !s.empty() && s[0] == '-';
    auto const n{to_nat(neg ? s.substr(1) : s)};
    if (!n || *n > 1000) return bad;
    long const c = neg ? -static_cast<long>(*n) : static_cast<long>(*n);
    ulong calls_i = 0, calls_l = 0, calls_u = 0;
    fcppt::algorithm::repeat(static_cast<int>(c), [&calls_i] { ++calls_i; });
    fcppt::algorithm::repeat(c, [&calls_l] { ++calls_l; });
    if (c >= 0)
      fcppt::algorithm::repeat(static_cast<unsigned short>(c), [&calls_u] { ++calls_u; });
    else
      calls_u = calls_i;
    if (calls_i != calls_l || calls_i != calls_u)
      return std::to_string(calls_i) + "!=" + std::to_string(calls_l) + "!=" + std::to_string(calls_u);
    return std::to_string(calls_i);
  }
  if (op == "genn" && t.size() == 3)
  {
    auto const n{to_nat(t[2])};
    if (!n || *n > 64 || t[1].size() != 1) return bad;
    int g = 0;
    auto const f = [&g] { return gen_next(g); };
    switch (t[1][0])
    {
    case 'v': return nl(fcppt::algorithm::generate_n<std::vector<int>>(*n, f));
    case 'l': return nl(fcppt::algorithm::generate_n<std::list<int>>(*n, f));
    case 'd': return nl(fcppt::algorithm::generate_n<std::deque<int>>(*n, f));
    case 'r': { auto const r{fcppt::algorithm::generate_n<rc>(*n, f)}; return nl(r) + "|" + r.cap(); }
    default: return bad;
    }
  }
  if (op == "ainit" && t.size() == 2)
  {
    auto const n{to_nat(t[1])};
    if (!n || *n > 6) return bad;
    return with_size<6>(*n, [](auto sz) {
      std::vector<int> log;
      auto const a{fcppt::array::init<fcppt::array::object<int, SZ(sz)>>(
          [&log]<std::size_t I>(std::integral_constant<std::size_t, I>) {
            log.push_back(static_cast<int>(I));
            return static_cast<int>((I * I + 1) % 7);
          })};
      return nl(a) + "|" + nl(log);
    });
  }
  if (op == "dyn" && t.size() == 2)
  {
    auto const n{to_nat(t[1])};
    if (!n || *n > 64) return bad;
    fcppt::container::dynamic_array<int> a{*n};
    auto const &ca{a};
    for (std::size_t i = 0; i < *n; ++i) a.data()[i] = static_cast<int>((i * i + 1) % 7);
    std::vector<int> back;
    for (int const *p{ca.data()}; p != ca.data_end(); ++p) back.push_back(*p);
    return std::to_string(a.size()) + "|" + std::to_string(a.data_end() - a.data()) + "|" + nl(back);
  }
  if (op == "hgoi" && t.size() == 2)
  {
    auto const K{to_nat(t[1])};
    if (!K || *K > 3) return bad;
    int const before{st->calls};
    auto const r{fcppt::container::get_or_insert_with_result(st->m, static_cast<int>(*K), [](int const k) { return (k + st->calls++) % 3; })};
    return std::to_string(r.element()) + "," + b01(r.inserted()) + "|" + encode_map(st->m) + "|" + std::to_string(st->calls - before);
  }
  if (op == "hins" && t.size() == 3)
  {
    auto const K{to_nat(t[1])}, V{to_nat(t[2])};
    if (!K || !V || *K > 3 || *V > 2) return bad;
    bool const r{fcppt::container::insert(st->m, std::make_pair(static_cast<int>(*K), static_cast<int>(*V)))};
    return std::string{b01(r)} + "|" + encode_map(st->m);
  }
  if ((op == "hfind" || op == "hcont") && t.size() == 2)
  {
    auto const K{to_nat(t[1])};
    if (!K || *K > 3) return bad;
    if (op == "hcont") return b01(fcppt::container::contains(st->m, static_cast<int>(*K)));
    auto const o{fcppt::container::find_opt_mapped(st->m, static_cast<int>(*K))};
    return o.has_value() ? std::to_string(o.get_unsafe().get()) : "none";
  }
  if (op == "hiter" && t.size() == 2)
  {
    auto const R{to_nat(t[1])};
    if (!R || *R > 7) return bad;
    seq log;
    fcppt::algorithm::map_iteration_second(st->m, [&log, &R](int const &e) {
      log.push_back(e);
      return bit(*R, e) ? fcppt::algorithm::update_action::remove : fcppt::algorithm::update_action::keep;
    });
    return encode_map(st->m) + "|" + ds(log);
  }
  if (op == "hset" && t.size() == 3)
  {
    // assign through the reference returned by get_or_insert
    auto const K{to_nat(t[1])}, V{to_nat(t[2])};
    if (!K || !V || *K > 3 || *V > 2) return bad;
    fcppt::container::get_or_insert(st->m, static_cast<int>(*K), [](int) { ++st->calls; return 0; }) = static_cast<int>(*V);
    return encode_map(st->m);
  }
  if (op == "reset" && t.size() == 1)
  {
    delete st;
    st = new state{};
    return "ok";
  }
  if ((op == "imget" || op == "imidx") && t.size() == 2)
  {
    auto const i{to_nat(t[1])};
    if (!i || *i > 64) return bad;
    using im_type = fcppt::container::index_map<int>;
    if (op == "imget")
    {
      int &r{st->im.get(*i, im_type::insert_function{[] { return gen_next(st->g); }})};
      return im_show(r);
    }
    int &r{st->im[*i]};
    return im_show(r);
  }
  return bad;
}
}

int main()
{
  int const rc = vh::run(handle);
  delete st;
  return rc;
}
