// C16 correspondence harness: runs the real fcppt.algorithm functions and container/array/tuple helpers on the
// operation lines described in lean/FcpptModel/Drv/C16.lean and prints the same canonical result lines.
#include "c16_common.hpp"

namespace
{
std::string eval_fn(std::string const &fn, char const k, std::vector<ulong> const &ps, seq const &v)
{
  if (k == 'a' && (v.size() > 6 || !all_lt3(v))) return bad;
  if (k == 't' && (v.size() > 3 || !all_lt3(v))) return bad;
  if (k == 'p' && (v.size() > 3 || !all_lt3(v))) return bad;
  if ((k == 'v' || k == 'l' || k == 'd' || k == 'f' || k == 'm' || k == 's') && !all_lt3(v)) return bad;

  for (auto const part : {&c16::eval_a, &c16::eval_b, &c16::eval_c, &c16::eval_d, &c16::eval_e, &c16::eval_f, &c16::eval_g, &c16::eval_h})
    if (auto r{part(fn, k, ps, v)}; r.has_value())
      return *r;
  return bad;
}

std::vector<std::string> enum_tokens(char const k, ulong const len)
{
  std::vector<std::string> r;
  if (k == 'i' || k == 'e')
  {
    for (int b = 0; b < 4; ++b)
      for (int e = 0; e < 4; ++e)
        if (static_cast<ulong>(e > b ? e - b : 0) == len && (k == 'i' || b <= e))
          r.push_back(std::to_string(b) + std::to_string(e));
    return r;
  }
  ulong const total = pw(3, static_cast<int>(len));
  for (ulong n = 0; n < total; ++n)
  {
    std::string s;
    for (ulong i = 0; i < len; ++i)
      s += static_cast<char>('0' + (n / pw(3, static_cast<int>(len - 1 - i))) % 3);
    r.push_back(len == 0 ? "-" : s);
  }
  return r;
}

std::string eval_s(std::string const &fn, std::string const &k, std::vector<std::string> const &ps, std::string const &tok)
{
  if (k.size() != 1) return bad;
  std::vector<ulong> p;
  for (auto const &s : ps)
  {
    auto const n{to_nat(s)};
    if (!n) return bad;
    p.push_back(*n);
  }
  auto const v{parse_seq(tok)};
  if (!v) return bad;
  return eval_fn(fn, k[0], p, *v);
}

// ---------------------------------------------------------------- strings

bool valid_str(std::string const &s)
{
  if (s == "-") return true;
  for (char c : s) if (c != 'a' && c != 'b' && c != 'c') return false;
  return !s.empty();
}
std::string un(std::string const &s) { return s == "-" ? std::string{} : s; }
std::string show_str(std::string const &s) { return s.empty() ? "-" : s; }

// split_string(s, s[I]) / join_strings(pieces, pieces[I]): the delimiter is taken from the argument itself
std::string split_at_line(char const K, std::size_t const I, std::string const &s)
{
  if (I >= s.size()) return skip;
  std::vector<std::string> pieces;
  if (K == 's')
    pieces = fcppt::algorithm::split_string(s, s[I]);
  else
  {
    std::vector<char> const in(s.begin(), s.end());
    for (auto const &p : fcppt::algorithm::split_string(in, in[I]))
      pieces.emplace_back(p.begin(), p.end());
  }
  std::string r{std::to_string(pieces.size()) + ":"};
  for (std::size_t i = 0; i < pieces.size(); ++i)
    r += (i ? "/" : "") + pieces[i];
  return r;
}

std::string join_at_line(std::size_t const I, std::vector<std::string> const &pieces)
{
  if (I >= pieces.size()) return skip;
  std::string const a{fcppt::algorithm::join_strings(pieces, pieces[I])};
  std::list<std::string> const l(pieces.begin(), pieces.end());
  std::string const b{fcppt::algorithm::join_strings(l, *std::next(l.begin(), static_cast<std::ptrdiff_t>(I)))};
  return a == b ? show_str(a) : show_str(a) + "!=" + show_str(b);
}

std::string split_line(char const K, std::string const &s)
{
  std::vector<std::string> pieces;
  if (K == 's')
    pieces = fcppt::algorithm::split_string(s, 'c');
  else
  {
    std::vector<char> const in(s.begin(), s.end());
    for (auto const &p : fcppt::algorithm::split_string(in, 'c'))
      pieces.emplace_back(p.begin(), p.end());
  }
  std::string r{std::to_string(pieces.size()) + ":"};
  for (std::size_t i = 0; i < pieces.size(); ++i)
    r += (i ? "/" : "") + pieces[i];
  bool const rt = fcppt::algorithm::join_strings(pieces, std::string{"c"}) == s;
  return r + " rt=" + b01(rt);
}

std::string join_line(std::string const &d, std::vector<std::string> const &pieces)
{
  std::string const a{fcppt::algorithm::join_strings(pieces, d)};
  std::list<std::string> const l(pieces.begin(), pieces.end());
  std::string const b{fcppt::algorithm::join_strings(l, d)};
  std::string r{a == b ? show_str(a) : show_str(a) + "!=" + show_str(b)};
  // converse round trip for a one-character delimiter: split(join(pieces)) == pieces ?
  if (d.size() == 1)
    r += std::string{" rt="} + b01(fcppt::algorithm::split_string(a, d[0]) == pieces);
  return r;
}

std::vector<std::string> all_strings(std::string const &alpha, ulong const len)
{
  std::vector<std::string> r;
  ulong const k = alpha.size();
  for (ulong n = 0; n < pw(k, static_cast<int>(len)); ++n)
  {
    std::string s;
    for (ulong i = 0; i < len; ++i)
      s += alpha[(n / pw(k, static_cast<int>(len - 1 - i))) % k];
    r.push_back(s);
  }
  return r;
}

std::vector<std::vector<std::string>> piece_tuples(ulong const n)
{
  std::vector<std::string> choices;
  for (ulong l = 0; l < 3; ++l)
    for (auto const &s : all_strings("ab", l))
      choices.push_back(s);
  std::vector<std::vector<std::string>> tuples{{}};
  for (ulong i = 0; i < n; ++i)
  {
    std::vector<std::vector<std::string>> next;
    for (auto const &tu : tuples)
      for (auto const &p : choices)
      {
        auto x{tu};
        x.push_back(p);
        next.push_back(std::move(x));
      }
    tuples = std::move(next);
  }
  return tuples;
}

// ---------------------------------------------------------------- maps, sets

std::string encode_map(std::map<int, int> const &m)
{
  std::string r;
  for (auto const &e : m)
    r += (r.empty() ? "" : ",") + std::to_string(e.first) + ">" + std::to_string(e.second);
  return r.empty() ? "-" : r;
}

std::string eval_m(std::string const &fn, std::vector<ulong> const &ps, ulong const M)
{
  namespace con = fcppt::container;
  namespace alg = fcppt::algorithm;
  if (M >= 64) return bad;
  std::map<int, int> m;
  for (int k = 2; k >= 0; --k)
  {
    ulong const d = (M / pw(4, k)) % 4;
    if (d != 0) m.emplace(k, static_cast<int>(d) - 1);
  }
  if (fn == "findmapped" && ps.size() == 1)
  {
    if (ps[0] >= 3) return bad;
    auto const &cm{m};
    auto const a{con::find_opt_mapped(m, static_cast<int>(ps[0]))};
    auto const b{con::find_opt_mapped(cm, static_cast<int>(ps[0]))};
    std::string const sa{a.has_value() ? std::to_string(a.get_unsafe().get()) : "none"};
    std::string const sb{b.has_value() ? std::to_string(b.get_unsafe().get()) : "none"};
    return sa == sb ? sa : sa + "!=" + sb;
  }
  if (fn == "getorins" && ps.size() == 1)
  {
    if (ps[0] >= 3) return bad;
    int const K{static_cast<int>(ps[0])};
    seq calls;
    auto const create = [&calls](int const k) { calls.push_back(k); return (k + 1) % 3; };
    std::map<int, int> m2{m};
    auto const r{con::get_or_insert_with_result(m, K, create)};
    std::string out{std::to_string(r.element()) + "," + b01(r.inserted())};
    // the returned reference must be the mapped object inside the container
    if (&r.element() != &m.find(K)->second) out += "!ref";
    seq calls2;
    int const &e2{con::get_or_insert(m2, K, [&calls2](int const k) { calls2.push_back(k); return (k + 1) % 3; })};
    if (e2 != r.element() || m2 != m || calls2 != calls) out += "!get_or_insert";
    return out + "|" + encode_map(m) + "|" + ds(calls);
  }
  if (fn == "contains" && ps.size() == 1)
  {
    if (ps[0] >= 4) return bad;
    return b01(con::contains(m, static_cast<int>(ps[0])));
  }
  if ((fn == "findopt" || fn == "findit") && ps.size() == 1)
  {
    if (ps[0] >= 4) return bad;
    int const K{static_cast<int>(ps[0])};
    auto const &cm{m};
    if (fn == "findit")
    {
      auto const a{con::find_opt_iterator(m, K)};
      auto const b{con::find_opt_iterator(cm, K)};
      auto const show = [&](auto const &o, auto const &c) {
        return o.has_value() ? std::to_string(std::distance(c.begin(), std::map<int, int>::const_iterator{o.get_unsafe()})) : std::string{"none"};
      };
      std::string const sa{show(a, m)}, sb{show(b, cm)};
      return sa == sb ? sa : sa + "!=" + sb;
    }
    auto const a{con::find_opt(m, K)};
    auto const b{con::find_opt(cm, K)};
    auto const show = [&](auto const &o) {
      if (!o.has_value()) return std::string{"none"};
      auto const &e{o.get_unsafe().get()};
      return std::to_string(e.first) + ">" + std::to_string(e.second) + (&e == &*cm.find(K) ? "" : "!ref");
    };
    std::string const sa{show(a)}, sb{show(b)};
    return sa == sb ? sa : sa + "!=" + sb;
  }
  if (fn == "insert" && ps.size() == 1)
  {
    if (ps[0] >= 12) return bad;
    bool const r{con::insert(m, std::make_pair(static_cast<int>(ps[0] / 3), static_cast<int>(ps[0] % 3)))};
    return std::string{b01(r)} + "|" + encode_map(m);
  }
  if (fn == "valsref" && ps.size() == 1)
  {
    // references stay references: change every mapped value after taking them
    if (ps[0] >= 3) return bad;
    auto const refs{con::map_values_ref<std::vector<fcppt::reference<int>>>(m)};
    for (auto &e : m) e.second = (e.second + static_cast<int>(ps[0])) % 3;
    std::string b;
    auto it{m.begin()};
    for (auto const &r : refs)
    {
      b += std::to_string(r.get()) + (&r.get() == &it->second ? "" : "!ref");
      ++it;
    }
    return b.empty() ? "-" : b;
  }
  if ((fn == "getorinsat" || fn == "getorinsatv" || fn == "findmappedat" || fn == "containsat" || fn == "insertat") && ps.size() == 1)
  {
    // the key / value argument is a reference to (part of) the J-th entry of the map itself
    ulong const J = ps[0];
    if (J > 2) return bad;
    if (J >= m.size()) return skip;
    auto const it{std::next(m.begin(), static_cast<std::ptrdiff_t>(J))};
    if (fn == "findmappedat")
    {
      auto const a{con::find_opt_mapped(m, it->first)};
      return a.has_value() ? std::to_string(a.get_unsafe().get()) : "none";
    }
    if (fn == "containsat") return b01(con::contains(m, it->first));
    if (fn == "insertat")
    {
      bool const r{con::insert(m, *it)};
      return std::string{b01(r)} + "|" + encode_map(m);
    }
    int const &key{fn == "getorinsat" ? it->first : it->second};
    seq calls;
    auto const r{con::get_or_insert_with_result(m, key, [&calls](int const k) { calls.push_back(k); return (k + 1) % 3; })};
    return std::to_string(r.element()) + "," + b01(r.inserted()) + "|" + encode_map(m) + "|" + ds(calls);
  }
  if (fn == "goicb" && ps.size() == 2)
  {
    // create looks at the map it is called for (size, is the key there?) and throws at its T-th call (T = 0: never);
    // after an exception the call is repeated once
    int const K{static_cast<int>(ps[0])};
    ulong const T{ps[1]};
    if (ps[0] >= 4 || T > 2) return bad;
    ulong calls = 0;
    std::string seen;
    auto const create = [&](int const k) {
      seen += (seen.empty() ? "" : ",") + std::to_string(m.size()) + "." + std::to_string(m.count(k));
      ++calls;
      if (T != 0 && calls == T) throw 0;
      return (k + 1) % 3;
    };
    std::string out;
    for (int attempt = 0; attempt < 2; ++attempt)
    {
      try
      {
        auto const r{con::get_or_insert_with_result(m, K, create)};
        out += std::to_string(r.element()) + "," + b01(r.inserted()) + "|" + encode_map(m);
        break;
      }
      catch (int)
      {
        out += "exc|" + encode_map(m) + ";";
      }
    }
    return out + "|" + std::to_string(calls) + "|" + (seen.empty() ? "-" : seen);
  }
  if ((fn == "mapiterx" || fn == "mapiter2x") && ps.size() == 2)
  {
    ulong const R = ps[0], T = ps[1];
    if (R >= 8 || T > 4) return bad;
    ulong calls = 0;
    std::string log, pre;
    auto const note = [&](int const key, int const value) {
      // what the action sees of the map: its size and whether the current entry is (still) in it
      log += (log.empty() ? "" : ",") + std::to_string(value) + ":" + std::to_string(m.size()) + "." + std::to_string(key < 0 ? 1 : m.count(key));
      ++calls;
      if (T != 0 && calls == T) throw 0;
      return bit(R, value) ? alg::update_action::remove : alg::update_action::keep;
    };
    try
    {
      if (fn == "mapiterx")
        alg::map_iteration(m, [&](std::pair<int const, int> const &e) { return note(e.first, e.second); });
      else
        alg::map_iteration_second(m, [&](int const &e) { return note(-1, e); });
    }
    catch (int)
    {
      pre = "exc|";
    }
    return pre + encode_map(m) + "|" + (log.empty() ? "-" : log);
  }
  if (fn == "keyset" && ps.empty())
    return ds(con::key_set<std::set<int>>(m));
  if (fn == "mapvals" && ps.empty())
  {
    std::string const a{ds(con::map_values_copy<std::vector<int>>(m))};
    std::string b;
    for (auto const &r : con::map_values_ref<std::vector<fcppt::reference<int>>>(m))
      b += std::to_string(r.get());
    if (b.empty()) b = "-";
    return a == b ? a : a + "!=" + b;
  }
  if (fn == "mapiter" && ps.size() == 1)
  {
    ulong const R = ps[0];
    if (R >= 64) return bad;
    seq log;
    alg::map_iteration(m, [&log, R](std::pair<int const, int> const &e) {
      log.push_back(e.first);
      return bit(R, (e.first + 2 * e.second) % 6) ? alg::update_action::remove : alg::update_action::keep;
    });
    return encode_map(m) + "|" + ds(log);
  }
  if (fn == "mapiter2" && ps.size() == 1)
  {
    ulong const R = ps[0];
    if (R >= 8) return bad;
    seq log;
    alg::map_iteration_second(m, [&log, R](int const &e) {
      log.push_back(e);
      return bit(R, e) ? alg::update_action::remove : alg::update_action::keep;
    });
    return encode_map(m) + "|" + ds(log);
  }
  return bad;
}

std::string setop_line(std::string const &op, std::vector<long long> const &a, std::vector<long long> const &b)
{
  std::set<int> const sa(a.begin(), a.end()), sb(b.begin(), b.end());
  if (op == "U") return nl(fcppt::container::set_union(sa, sb));
  if (op == "I") return nl(fcppt::container::set_intersection(sa, sb));
  if (op == "D") return nl(fcppt::container::set_difference(sa, sb));
  // the same object as both operands
  if (op == "u") return nl(fcppt::container::set_union(sa, sa));
  if (op == "i") return nl(fcppt::container::set_intersection(sa, sa));
  if (op == "d") return nl(fcppt::container::set_difference(sa, sa));
  if ((op == "n" || op == "c") && b.size() == 1)
  {
    // the value is a reference to the j-th element of the set itself
    std::set<int> s2{sa};
    if (b[0] < 0 || static_cast<std::size_t>(b[0]) >= s2.size()) return skip;
    int const &x{*std::next(s2.begin(), static_cast<std::ptrdiff_t>(b[0]))};
    if (op == "c") return b01(fcppt::container::contains(s2, x));
    bool const r{fcppt::container::insert(s2, x)};
    return std::string{b01(r)} + "|" + nl(s2);
  }
  // container::insert / container::contains: the second list must be a single element
  if ((op == "N" || op == "C") && b.size() == 1)
  {
    int const x{static_cast<int>(b[0])};
    if (op == "C") return b01(fcppt::container::contains(sa, x));
    std::set<int> s2{sa};
    bool const r{fcppt::container::insert(s2, x)};
    return std::string{b01(r)} + "|" + nl(s2);
  }
  return bad;
}

std::vector<long long> mask_list(ulong const m)
{
  std::vector<long long> r;
  for (int i = 0; i < 3; ++i) if (bit(m, i)) r.push_back(i);
  return r;
}

bool valid_list(std::string const &s)
{
  if (s == "-") return true;
  if (s.empty() || s.front() == ',' || s.back() == ',') return false;
  for (std::size_t i = 0; i < s.size(); ++i)
  {
    if (s[i] == ',') { if (s[i + 1] == ',') return false; }
    else if (s[i] < '0' || s[i] > '9') return false;
  }
  return s.size() < 60;
}

// ---------------------------------------------------------------- state for the index_map history

struct state
{
  fcppt::container::index_map<int> im{};
  int g{0};
  std::map<int, int> m{};
  int calls{0};
};
state *st = nullptr;

int gen_next(int &g)
{
  int const r = (g * g) % 7;
  ++g;
  return r;
}

std::string im_show(int const &v, std::size_t const i)
{
  // the returned reference must be the element inside the container
  return std::to_string(v) + (&v == &st->im.impl()[i] ? "" : "!ref") + " " + std::to_string(st->im.impl().size()) + "|" + nl(st->im.impl());
}

// ---------------------------------------------------------------- dispatch

std::string handle_inner(std::vector<std::string> const &t);

std::string handle(std::vector<std::string> const &t)
{
  c16sm::mismatch.clear();
  std::string const r{handle_inner(t)};
  return r + c16sm::mismatch;
}

std::string handle_inner(std::vector<std::string> const &t)
{
  if (st == nullptr) st = new state{};
  if (t.empty()) return bad;
  std::string const &op{t[0]};
  if ((op == "s" || op == "d") && t.size() >= 4)
  {
    std::vector<std::string> const ps(t.begin() + 3, t.end() - 1);
    if (op == "s")
      return eval_s(t[1], t[2], ps, t.back());
    auto const len{to_nat(t.back())};
    if (!len || *len > 8 || t[2].size() != 1) return bad;
    std::uint64_t h = vh::fnv_init;
    for (auto const &tok : enum_tokens(t[2][0], *len))
    {
      std::string const r{eval_s(t[1], t[2], ps, tok)};
      if (r == bad) return bad;
      h = vh::fnv(h, r);
    }
    return "D " + vh::hex64(h);
  }
  if (op == "split" && t.size() == 3)
  {
    if (!valid_str(t[2]) || t[1].size() != 1 || (t[1][0] != 's' && t[1][0] != 'v')) return bad;
    return split_line(t[1][0], un(t[2]));
  }
  if (op == "dsplit" && t.size() == 3)
  {
    auto const len{to_nat(t[2])};
    if (!len || *len > 9 || t[1].size() != 1 || (t[1][0] != 's' && t[1][0] != 'v')) return bad;
    std::uint64_t h = vh::fnv_init;
    for (auto const &s : all_strings("abc", *len))
      h = vh::fnv(h, split_line(t[1][0], s));
    return "D " + vh::hex64(h);
  }
  if (op == "splitat" && t.size() == 4)
  {
    auto const I{to_nat(t[2])};
    if (!valid_str(t[3]) || !I || t[1].size() != 1 || (t[1][0] != 's' && t[1][0] != 'v')) return bad;
    return split_at_line(t[1][0], *I, un(t[3]));
  }
  if (op == "dsplitat" && t.size() == 4)
  {
    auto const I{to_nat(t[2])};
    auto const len{to_nat(t[3])};
    if (!len || !I || *len > 9 || t[1].size() != 1 || (t[1][0] != 's' && t[1][0] != 'v')) return bad;
    std::uint64_t h = vh::fnv_init;
    for (auto const &s : all_strings("abc", *len))
      h = vh::fnv(h, split_at_line(t[1][0], *I, s));
    return "D " + vh::hex64(h);
  }
  if ((op == "joinstrat" || op == "djoinat") && t.size() >= 3)
  {
    auto const I{to_nat(t[1])};
    auto const n{to_nat(t[2])};
    if (!I || !n || *n > 6) return bad;
    if (op == "joinstrat")
    {
      if (t.size() != 3 + *n) return bad;
      std::vector<std::string> pieces;
      for (std::size_t i = 3; i < t.size(); ++i)
      {
        if (!valid_str(t[i])) return bad;
        pieces.push_back(un(t[i]));
      }
      return join_at_line(*I, pieces);
    }
    if (t.size() != 3 || *n > 4) return bad;
    std::uint64_t h = vh::fnv_init;
    for (auto const &tu : piece_tuples(*n))
      h = vh::fnv(h, join_at_line(*I, tu));
    return "D " + vh::hex64(h);
  }
  if (op == "joinstr" && t.size() >= 3)
  {
    auto const n{to_nat(t[2])};
    if (!valid_str(t[1]) || !n || t.size() != 3 + *n) return bad;
    std::vector<std::string> pieces;
    for (std::size_t i = 3; i < t.size(); ++i)
    {
      if (!valid_str(t[i])) return bad;
      pieces.push_back(un(t[i]));
    }
    return join_line(un(t[1]), pieces);
  }
  if (op == "djoin" && t.size() == 3)
  {
    auto const n{to_nat(t[2])};
    if (!valid_str(t[1]) || !n || *n > 4) return bad;
    auto const tuples{piece_tuples(*n)};
    std::uint64_t h = vh::fnv_init;
    for (auto const &tu : tuples)
      h = vh::fnv(h, join_line(un(t[1]), tu));
    return "D " + vh::hex64(h);
  }
  if ((op == "m" || op == "dm") && t.size() >= 2)
  {
    std::vector<ulong> ps;
    for (std::size_t i = 2; i < t.size(); ++i)
    {
      auto const n{to_nat(t[i])};
      if (!n) return bad;
      ps.push_back(*n);
    }
    if (op == "m")
    {
      if (ps.empty()) return bad;
      ulong const M = ps.back();
      ps.pop_back();
      return eval_m(t[1], ps, M);
    }
    std::uint64_t h = vh::fnv_init;
    for (ulong M = 0; M < 64; ++M)
    {
      std::string const r{eval_m(t[1], ps, M)};
      if (r == bad) return bad;
      h = vh::fnv(h, r);
    }
    return "D " + vh::hex64(h);
  }
  if (op == "setop" && t.size() == 4)
  {
    if (!valid_list(t[2]) || !valid_list(t[3])) return bad;
    return setop_line(t[1], vh::int_list(t[2]), vh::int_list(t[3]));
  }
  if (op == "dset" && t.size() == 2)
  {
    if (t[1].size() != 1 || std::string{"UIDuidNCnc"}.find(t[1][0]) == std::string::npos) return bad;
    bool const single = t[1] == "N" || t[1] == "C" || t[1] == "n" || t[1] == "c";
    std::uint64_t h = vh::fnv_init;
    for (ulong n = 0; n < 64; ++n)
      h = vh::fnv(h, setop_line(t[1], mask_list(n / 8), single ? std::vector<long long>{static_cast<long long>(n % 4)} : mask_list(n % 8)));
    return "D " + vh::hex64(h);
  }
  if (op == "repeat" && t.size() == 2)
  {
    std::string const &s{t[1]};
    bool const neg = !s.empty() && s[0] == '-';
    auto const n{to_nat(neg ? s.substr(1) : s)};
    if (!n || *n > 1000) return bad;
    long const c = neg ? -static_cast<long>(*n) : static_cast<long>(*n);
    ulong calls_i = 0, calls_l = 0, calls_u = 0;
    fcppt::algorithm::repeat(static_cast<int>(c), [&calls_i] { ++calls_i; });
    fcppt::algorithm::repeat(c, [&calls_l] { ++calls_l; });
    if (c >= 0)
      fcppt::algorithm::repeat(static_cast<unsigned short>(c), [&calls_u] { ++calls_u; });
    else
      calls_u = calls_i;
    if (calls_i != calls_l || calls_i != calls_u)
      return std::to_string(calls_i) + "!=" + std::to_string(calls_l) + "!=" + std::to_string(calls_u);
    return std::to_string(calls_i);
  }
  if (op == "genn" && t.size() == 3)
  {
    auto const n{to_nat(t[2])};
    if (!n || *n > 64 || t[1].size() != 1) return bad;
    int g = 0;
    auto const f = [&g] { return gen_next(g); };
    switch (t[1][0])
    {
    case 'v': return nl(fcppt::algorithm::generate_n<std::vector<int>>(*n, f));
    case 'l': return nl(fcppt::algorithm::generate_n<std::list<int>>(*n, f));
    case 'd': return nl(fcppt::algorithm::generate_n<std::deque<int>>(*n, f));
    case 'r': { auto const r{fcppt::algorithm::generate_n<rc>(*n, f)}; return nl(r) + "|" + r.cap(); }
    default: return bad;
    }
  }
  if (op == "ainit" && t.size() == 2)
  {
    auto const n{to_nat(t[1])};
    if (!n || *n > 6) return bad;
    return with_size<6>(*n, [](auto sz) {
      std::vector<int> log;
      auto const a{fcppt::array::init<fcppt::array::object<int, SZ(sz)>>(
          [&log]<std::size_t I>(std::integral_constant<std::size_t, I>) {
            log.push_back(static_cast<int>(I));
            return static_cast<int>((I * I + 1) % 7);
          })};
      return nl(a) + "|" + nl(log);
    });
  }
  if (op == "dyn" && t.size() == 2)
  {
    auto const n{to_nat(t[1])};
    if (!n || *n > 64) return bad;
    fcppt::container::dynamic_array<int> a{*n};
    auto const &ca{a};
    for (std::size_t i = 0; i < *n; ++i) a.data()[i] = static_cast<int>((i * i + 1) % 7);
    std::vector<int> back;
    for (int const *p{ca.data()}; p != ca.data_end(); ++p) back.push_back(*p);
    return std::to_string(a.size()) + "|" + std::to_string(a.data_end() - a.data()) + "|" + nl(back);
  }
  if (op == "hgoi" && t.size() == 2)
  {
    auto const K{to_nat(t[1])};
    if (!K || *K > 3) return bad;
    int const before{st->calls};
    auto const r{fcppt::container::get_or_insert_with_result(st->m, static_cast<int>(*K), [](int const k) { return (k + st->calls++) % 3; })};
    return std::to_string(r.element()) + "," + b01(r.inserted()) + "|" + encode_map(st->m) + "|" + std::to_string(st->calls - before);
  }
  if (op == "hins" && t.size() == 3)
  {
    auto const K{to_nat(t[1])}, V{to_nat(t[2])};
    if (!K || !V || *K > 3 || *V > 2) return bad;
    bool const r{fcppt::container::insert(st->m, std::make_pair(static_cast<int>(*K), static_cast<int>(*V)))};
    return std::string{b01(r)} + "|" + encode_map(st->m);
  }
  if ((op == "hfind" || op == "hcont") && t.size() == 2)
  {
    auto const K{to_nat(t[1])};
    if (!K || *K > 3) return bad;
    if (op == "hcont") return b01(fcppt::container::contains(st->m, static_cast<int>(*K)));
    auto const o{fcppt::container::find_opt_mapped(st->m, static_cast<int>(*K))};
    return o.has_value() ? std::to_string(o.get_unsafe().get()) : "none";
  }
  if (op == "hiter" && t.size() == 2)
  {
    auto const R{to_nat(t[1])};
    if (!R || *R > 7) return bad;
    seq log;
    fcppt::algorithm::map_iteration_second(st->m, [&log, &R](int const &e) {
      log.push_back(e);
      return bit(*R, e) ? fcppt::algorithm::update_action::remove : fcppt::algorithm::update_action::keep;
    });
    return encode_map(st->m) + "|" + ds(log);
  }
  if (op == "hset" && t.size() == 3)
  {
    // assign through the reference returned by get_or_insert
    auto const K{to_nat(t[1])}, V{to_nat(t[2])};
    if (!K || !V || *K > 3 || *V > 2) return bad;
    fcppt::container::get_or_insert(st->m, static_cast<int>(*K), [](int) { ++st->calls; return 0; }) = static_cast<int>(*V);
    return encode_map(st->m);
  }
  if (op == "imgetx" && t.size() == 3)
  {
    // insert() looks at the vector it is called for and throws at its T-th call within this get (T = 0: never)
    auto const i{to_nat(t[1])}, T{to_nat(t[2])};
    if (!i || !T || *i > 64 || *T > 8) return bad;
    using im_type = fcppt::container::index_map<int>;
    ulong calls = 0;
    std::string seen;
    std::string out;
    try
    {
      int &r{st->im.get(*i, im_type::insert_function{[&] {
        seen += (seen.empty() ? "" : ",") + std::to_string(st->im.impl().size());
        ++calls;
        if (*T != 0 && calls == *T) throw 0;
        return gen_next(st->g);
      }})};
      out = im_show(r, *i);
    }
    catch (int)
    {
      out = "exc " + std::to_string(st->im.impl().size()) + "|" + nl(st->im.impl());
    }
    return out + "|" + (seen.empty() ? "-" : seen);
  }
  if (op == "reset" && t.size() == 1)
  {
    delete st;
    st = new state{};
    return "ok";
  }
  if ((op == "imget" || op == "imidx") && t.size() == 2)
  {
    auto const i{to_nat(t[1])};
    if (!i || *i > 64) return bad;
    using im_type = fcppt::container::index_map<int>;
    {
      // the map travels through a special member of index_map first (a value: all elements survive); the route is a
      // function of the index and of the current size, the former value of an assignment target is a longer map
      im_type routed{vh::sm::checked(
          c16sm::mismatch,
          "container::index_map",
          static_cast<unsigned>(*i * 3U + st->im.impl().size()),
          st->im,
          []
          {
            im_type o{};
            o[st->im.impl().size() + 1U] = 7;
            return o;
          },
          [](im_type const &m) { return nl(m.impl()); })};
      st->im = std::move(routed);
    }
    if (op == "imget")
    {
      int &r{st->im.get(*i, im_type::insert_function{[] { return gen_next(st->g); }})};
      return im_show(r, *i);
    }
    int &r{st->im[*i]};
    return im_show(r, *i);
  }
  return bad;
}
}

int main()
{
  int const rc = vh::run(handle);
  delete st;
  return rc;
}
