// C04 correspondence harness: runs the real fcppt::optional / either / variant combinators on the operation
// lines described in lean/FcpptModel/Drv/C04.lean and prints the same canonical result lines
//     <result> | <call log>
// Element types are distinct tagged heap-allocated ints whose move constructor empties the source (reads as 9), so
// that a double move / use after move inside a combinator shows up in the result or in the logged arguments and a
// dangling reference / leak shows up in ASan/LSan.
#include "common/vh.hpp"

#include <fcppt/function_impl.hpp>
#include <fcppt/either/apply.hpp>
#include <fcppt/either/bind.hpp>
#include <fcppt/either/failure_opt.hpp>
#include <fcppt/either/first_success.hpp>
#include <fcppt/either/from_optional.hpp>
#include <fcppt/either/join.hpp>
#include <fcppt/either/loop.hpp>
#include <fcppt/either/map.hpp>
#include <fcppt/either/map_failure.hpp>
#include <fcppt/either/match.hpp>
#include <fcppt/either/monad.hpp>
#include <fcppt/either/object.hpp>
#include <fcppt/either/sequence.hpp>
#include <fcppt/either/success_opt.hpp>
#include <fcppt/either/try_call.hpp>
#include <fcppt/monad/bind.hpp>
#include <fcppt/optional/alternative.hpp>
#include <fcppt/optional/apply.hpp>
#include <fcppt/optional/bind.hpp>
#include <fcppt/optional/cat.hpp>
#include <fcppt/optional/combine.hpp>
#include <fcppt/optional/comparison.hpp>
#include <fcppt/optional/filter.hpp>
#include <fcppt/optional/from.hpp>
#include <fcppt/optional/join.hpp>
#include <fcppt/optional/make_if.hpp>
#include <fcppt/optional/map.hpp>
#include <fcppt/optional/maybe.hpp>
#include <fcppt/optional/maybe_multi.hpp>
#include <fcppt/optional/maybe_void.hpp>
#include <fcppt/optional/monad.hpp>
#include <fcppt/optional/object.hpp>
#include <fcppt/optional/sequence.hpp>
#include <fcppt/variant/apply.hpp>
#include <fcppt/variant/compare.hpp>
#include <fcppt/variant/comparison.hpp>
#include <fcppt/variant/holds_type.hpp>
#include <fcppt/variant/match.hpp>
#include <fcppt/variant/object.hpp>
#include <fcppt/variant/to_optional.hpp>

#include <cstddef>
#include <deque>
#include <list>
#include <initializer_list>
#include <optional>
#include <string>
#include <type_traits>
#include <utility>
#include <variant>
#include <vector>

namespace
{
struct bad_op
{
};
struct E1 // the exception type try_call is asked to catch
{
  int d;
};
struct E2 // any other exception type
{
};

constexpr int poison = 9;

// The payload lives on the heap so that ASan/LSan see a dangling reference, a double destruction or a lost
// object inside a combinator; a moved-from object has no payload and reads as `poison`.
template <int Tag>
struct val
{
  static constexpr int tag = Tag;
  int *p;
  explicit val(int const x) : p{new int{x}} {}
  val(val const &o) : p{o.p != nullptr ? new int{*o.p} : nullptr} {}
  val(val &&o) noexcept : p{o.p} { o.p = nullptr; }
  val &operator=(val const &o)
  {
    if (&o != this)
    {
      int *const n{o.p != nullptr ? new int{*o.p} : nullptr};
      delete p;
      p = n;
    }
    return *this;
  }
  val &operator=(val &&o) noexcept
  {
    if (&o != this)
    {
      delete p;
      p = o.p;
      o.p = nullptr;
    }
    return *this;
  }
  ~val() { delete p; }
  [[nodiscard]] int v() const { return p != nullptr ? *p : poison; }
  friend bool operator==(val const &a, val const &b) { return a.v() == b.v(); }
  friend bool operator!=(val const &a, val const &b) { return a.v() != b.v(); }
  friend bool operator<(val const &a, val const &b) { return a.v() < b.v(); }
};

using A = val<0>;
using B = val<1>;
using C = val<2>;
using R = val<3>; // result type of n-ary functions
using E = val<4>; // failure type

template <typename T>
using opt = fcppt::optional::object<T>;
template <typename F, typename S>
using eith = fcppt::either::object<F, S>;
using var3 = fcppt::variant::object<A, B, C>;

// ------------------------------------------------------------------ call log
std::vector<std::string> g_log;

void lg(char const *const site, std::initializer_list<int> const args)
{
  std::string s{site};
  s += '(';
  bool first = true;
  for (int const a : args)
  {
    if (!first)
      s += ',';
    first = false;
    s += std::to_string(a);
  }
  s += ')';
  g_log.push_back(s);
}

std::string show_log()
{
  if (g_log.empty())
    return "-";
  std::string r;
  for (std::size_t i = 0; i < g_log.size(); ++i)
  {
    if (i != 0)
      r += ';';
    r += g_log[i];
  }
  return r;
}

// ------------------------------------------------------------------ reading / printing values
template <typename T>
struct io;

template <int Tag>
struct io<val<Tag>>
{
  static val<Tag> rd(char const *&p)
  {
    char const c = *p;
    if (c < '0' || c > '2')
      throw bad_op{};
    ++p;
    return val<Tag>{c - '0'};
  }
  static std::string sh(val<Tag> const &x) { return std::to_string(x.v()); }
};

template <typename T>
struct io<opt<T>>
{
  static opt<T> rd(char const *&p)
  {
    if (*p == 'N')
    {
      ++p;
      return opt<T>{};
    }
    if (*p == 'J')
    {
      ++p;
      return opt<T>{io<T>::rd(p)};
    }
    throw bad_op{};
  }
  static std::string sh(opt<T> const &x) { return x.has_value() ? "J" + io<T>::sh(x.get_unsafe()) : std::string{"N"}; }
};

template <typename F, typename S>
struct io<eith<F, S>>
{
  static eith<F, S> rd(char const *&p)
  {
    if (*p == 'F')
    {
      ++p;
      return eith<F, S>{io<F>::rd(p)};
    }
    if (*p == 'S')
    {
      ++p;
      return eith<F, S>{io<S>::rd(p)};
    }
    throw bad_op{};
  }
  static std::string sh(eith<F, S> const &x)
  {
    bool const s = x.has_success(), f = x.has_failure();
    if (s == f)
      return "INCONSISTENT-EITHER";
    return s ? "S" + io<S>::sh(x.get_success_unsafe()) : "F" + io<F>::sh(x.get_failure_unsafe());
  }
};

template <>
struct io<var3>
{
  static var3 rd(char const *&p)
  {
    char const c = *p;
    if (c != 'A' && c != 'B' && c != 'C')
      throw bad_op{};
    ++p;
    if (c == 'A')
      return var3{io<A>::rd(p)};
    if (c == 'B')
      return var3{io<B>::rd(p)};
    return var3{io<C>::rd(p)};
  }
  static std::string sh(var3 const &x)
  {
    // printed through std::variant directly, not through the functions under test
    switch (x.impl().index())
    {
    case 0: return "A" + std::to_string(std::get<0>(x.impl()).v());
    case 1: return "B" + std::to_string(std::get<1>(x.impl()).v());
    case 2: return "C" + std::to_string(std::get<2>(x.impl()).v());
    default: return "VALUELESS";
    }
  }
};

template <typename T>
struct io<std::vector<T>>
{
  static std::vector<T> rd(char const *&p)
  {
    if (*p != '[')
      throw bad_op{};
    ++p;
    std::vector<T> r;
    while (*p != ']')
    {
      if (*p == '\0')
        throw bad_op{};
      r.push_back(io<T>::rd(p));
    }
    ++p;
    return r;
  }
  static std::string sh(std::vector<T> const &x)
  {
    std::string r{"["};
    for (auto const &e : x)
      r += io<T>::sh(e);
    return r + "]";
  }
};

template <typename T>
struct io<std::list<T>>
{
  static std::string sh(std::list<T> const &x) { return io<std::vector<T>>::sh(std::vector<T>(x.begin(), x.end())); }
};
template <typename T>
struct io<std::deque<T>>
{
  static std::string sh(std::deque<T> const &x) { return io<std::vector<T>>::sh(std::vector<T>(x.begin(), x.end())); }
};

// a value or `X` (used for lists of functions some of which throw)
template <typename T>
struct io<std::optional<T>>
{
  static std::optional<T> rd(char const *&p)
  {
    if (*p == 'X')
    {
      ++p;
      return std::nullopt;
    }
    return std::optional<T>{io<T>::rd(p)};
  }
};

template <>
struct io<bool>
{
  static bool rd(char const *&p)
  {
    char const c = *p;
    if (c != 't' && c != 'f')
      throw bad_op{};
    ++p;
    return c == 't';
  }
  static std::string sh(bool const b) { return b ? "t" : "f"; }
};

template <>
struct io<int>
{
  static std::string sh(int const x) { return std::to_string(x); }
};

template <typename T>
T tok(std::string const &s)
{
  char const *p = s.c_str();
  T r{io<T>::rd(p)};
  if (*p != '\0')
    throw bad_op{};
  return r;
}

// A table entry `X` makes the continuation throw E2 instead of returning.
template <typename T>
struct table
{
  std::vector<std::optional<T>> t;
  // a poisoned (moved-from) argument is looked up as 0; the log shows the 9
  T at(int const i) const
  {
    std::optional<T> const &e{t[static_cast<std::size_t>(i) < t.size() ? static_cast<std::size_t>(i) : 0U]};
    if (!e.has_value())
      throw E2{};
    return *e;
  }
};

int ix(int const v) { return v >= 0 && v < 3 ? v : 0; }

template <typename T>
table<T> tbl(std::size_t const n, std::string const &s)
{
  char const *p = s.c_str();
  table<T> r;
  for (std::size_t i = 0; i < n; ++i)
  {
    if (*p == 'X')
    {
      ++p;
      r.t.push_back(std::nullopt);
    }
    else
      r.t.push_back(std::optional<T>{io<T>::rd(p)});
  }
  if (*p != '\0')
    throw bad_op{};
  return r;
}

// a single value or `X` (the thunk that is given this throws E2)
template <typename T>
std::optional<T> tokx(std::string const &s)
{
  if (s == "X")
    return std::nullopt;
  return std::optional<T>{tok<T>(s)};
}

template <typename T>
std::string show(T const &x)
{
  return io<T>::sh(x);
}

// ------------------------------------------------------------------ continuations
template <typename Rt, typename X>
auto fn1(char const *const site, table<Rt> const &t)
{
  return [site, &t](X x) -> Rt
  {
    lg(site, {x.v()});
    return t.at(ix(x.v()));
  };
}
template <typename Rt, typename X, typename Y>
auto fn2(char const *const site, table<Rt> const &t)
{
  return [site, &t](X x, Y y) -> Rt
  {
    lg(site, {x.v(), y.v()});
    return t.at(ix(x.v()) * 3 + ix(y.v()));
  };
}
template <typename Rt, typename X, typename Y, typename Z>
auto fn3(char const *const site, table<Rt> const &t)
{
  return [site, &t](X x, Y y, Z z) -> Rt
  {
    lg(site, {x.v(), y.v(), z.v()});
    return t.at((ix(x.v()) * 3 + ix(y.v())) * 3 + ix(z.v()));
  };
}
template <typename Rt>
auto thunk(char const *const site, std::optional<Rt> const &v)
{
  return [site, &v]() -> Rt
  {
    lg(site, {});
    if (!v.has_value())
      throw E2{};
    return *v;
  };
}

template <>
struct io<std::string>
{
  static std::string sh(std::string const &x) { return x; }
};

// comparison for the "source unchanged" test: on the printed form, not through the operators under test
template <typename T>
bool same(T const &a, T const &b)
{
  return show(a) == show(b);
}

// ------------------------------------------------------------------ value categories
// One letter per argument -- L: non-const lvalue, C: const lvalue, R: rvalue (a single letter stands for all
// arguments).  After a call on an lvalue the source must be unchanged, also when the call ends in an exception.
bool g_src_mod = false;

template <char Cat, typename T>
struct holder;
template <typename T>
struct holder<'L', T>
{
  T x;
  explicit holder(T const &s) : x{s} {}
  T &get() { return x; }
  [[nodiscard]] bool ok(T const &s) const { return same(x, s); }
};
template <typename T>
struct holder<'C', T>
{
  T const x;
  explicit holder(T const &s) : x{s} {}
  T const &get() { return x; }
  [[nodiscard]] bool ok(T const &s) const { return same(x, s); }
};
template <typename T>
struct holder<'R', T>
{
  T x;
  explicit holder(T const &s) : x{s} {}
  T &&get() { return std::move(x); }
  [[nodiscard]] bool ok(T const &) const { return true; }
};

template <char C1, typename T1, typename Fn>
std::string run1(T1 const &s1, Fn const &fn)
{
  holder<C1, T1> h1{s1};
  try
  {
    std::string r{show(fn(h1.get()))};
    return h1.ok(s1) ? r : r + " SRC-MODIFIED";
  }
  catch (bad_op const &)
  {
    throw;
  }
  catch (...)
  {
    if (!h1.ok(s1))
      g_src_mod = true;
    throw;
  }
}

template <char C1, char C2, typename T1, typename T2, typename Fn>
std::string run2(T1 const &s1, T2 const &s2, Fn const &fn)
{
  holder<C1, T1> h1{s1};
  holder<C2, T2> h2{s2};
  try
  {
    std::string r{show(fn(h1.get(), h2.get()))};
    return h1.ok(s1) && h2.ok(s2) ? r : r + " SRC-MODIFIED";
  }
  catch (bad_op const &)
  {
    throw;
  }
  catch (...)
  {
    if (!(h1.ok(s1) && h2.ok(s2)))
      g_src_mod = true;
    throw;
  }
}

template <char C1, char C2, char C3, typename T1, typename T2, typename T3, typename Fn>
std::string run3(T1 const &s1, T2 const &s2, T3 const &s3, Fn const &fn)
{
  holder<C1, T1> h1{s1};
  holder<C2, T2> h2{s2};
  holder<C3, T3> h3{s3};
  try
  {
    std::string r{show(fn(h1.get(), h2.get(), h3.get()))};
    return h1.ok(s1) && h2.ok(s2) && h3.ok(s3) ? r : r + " SRC-MODIFIED";
  }
  catch (bad_op const &)
  {
    throw;
  }
  catch (...)
  {
    if (!(h1.ok(s1) && h2.ok(s2) && h3.ok(s3)))
      g_src_mod = true;
    throw;
  }
}

template <typename T, typename Fn>
std::string cat1(std::string const &c, T const &src, Fn const &fn)
{
  if (c == "L")
    return run1<'L'>(src, fn);
  if (c == "C")
    return run1<'C'>(src, fn);
  if (c == "R")
    return run1<'R'>(src, fn);
  throw bad_op{};
}

// all nine combinations
template <typename T1, typename T2, typename Fn>
std::string cat2(std::string const &c0, T1 const &s1, T2 const &s2, Fn const &fn)
{
  std::string const c{c0.size() == 1 ? std::string(2, c0[0]) : c0};
#define VH_C2(a, b) \
  if (c.size() == 2 && c[0] == a && c[1] == b) \
    return run2<a, b>(s1, s2, fn);
  VH_C2('L', 'L') VH_C2('L', 'C') VH_C2('L', 'R') VH_C2('C', 'L') VH_C2('C', 'C') VH_C2('C', 'R') VH_C2('R', 'L') VH_C2('R', 'C') VH_C2('R', 'R')
#undef VH_C2
  throw bad_op{};
}

// the three uniform combinations and every mixture of L and R (C mixes like L: both are lvalue references)
template <typename T1, typename T2, typename T3, typename Fn>
std::string cat3(std::string const &c0, T1 const &s1, T2 const &s2, T3 const &s3, Fn const &fn)
{
  std::string const c{c0.size() == 1 ? std::string(3, c0[0]) : c0};
#define VH_C3(a, b, d) \
  if (c.size() == 3 && c[0] == a && c[1] == b && c[2] == d) \
    return run3<a, b, d>(s1, s2, s3, fn);
  VH_C3('L', 'L', 'L') VH_C3('C', 'C', 'C') VH_C3('R', 'R', 'R') VH_C3('R', 'L', 'L') VH_C3('L', 'R', 'L') VH_C3('L', 'L', 'R')
  VH_C3('R', 'R', 'L') VH_C3('R', 'L', 'R') VH_C3('L', 'R', 'R')
#undef VH_C3
  throw bad_op{};
}

#define FWD(x) std::forward<decltype(x)>(x)

using oA = opt<A>;
using oB = opt<B>;
using oC = opt<C>;
using eA = eith<E, A>;
using eB = eith<E, B>;
using eC = eith<E, C>;

// ------------------------------------------------------------------ operations
std::string op(std::vector<std::string> const &t)
{
  std::string const &o = t[0];
  std::size_t const n = t.size();
  namespace fo = fcppt::optional;
  namespace fe = fcppt::either;
  namespace fv = fcppt::variant;

  // ---------------- optional
  if (o == "o.map" && n == 4)
  {
    auto const f = tbl<B>(3, t[3]);
    return cat1(t[1], tok<oA>(t[2]), [&](auto &&x) -> oB { return fo::map(FWD(x), fn1<B, A>("f", f)); });
  }
  if (o == "o.bind" && n == 4)
  {
    auto const f = tbl<oB>(3, t[3]);
    return cat1(t[1], tok<oA>(t[2]), [&](auto &&x) -> oB { return fo::bind(FWD(x), fn1<oB, A>("f", f)); });
  }
  if (o == "o.mbind" && n == 4)
  {
    auto const f = tbl<oB>(3, t[3]);
    return cat1(t[1], tok<oA>(t[2]), [&](auto &&x) -> oB { return fcppt::monad::bind(FWD(x), fn1<oB, A>("f", f)); });
  }
  if (o == "o.join" && n == 3)
    return cat1(t[1], tok<opt<oA>>(t[2]), [&](auto &&x) -> oA { return fo::join(FWD(x)); });
  if (o == "o.apply1" && n == 4)
  {
    auto const f = tbl<R>(3, t[3]);
    return cat1(t[1], tok<oA>(t[2]), [&](auto &&x) -> opt<R> { return fo::apply(fn1<R, A>("f", f), FWD(x)); });
  }
  if (o == "o.apply2" && n == 5)
  {
    auto const f = tbl<R>(9, t[4]);
    return cat2(t[1], tok<oA>(t[2]), tok<oB>(t[3]), [&](auto &&x, auto &&y) -> opt<R>
                { return fo::apply(fn2<R, A, B>("f", f), FWD(x), FWD(y)); });
  }
  if (o == "o.apply3" && n == 6)
  {
    auto const f = tbl<R>(27, t[5]);
    return cat3(t[1], tok<oA>(t[2]), tok<oB>(t[3]), tok<oC>(t[4]), [&](auto &&x, auto &&y, auto &&z) -> opt<R>
                { return fo::apply(fn3<R, A, B, C>("f", f), FWD(x), FWD(y), FWD(z)); });
  }
  if (o == "o.filter" && n == 4)
  {
    auto const p = tbl<bool>(3, t[3]);
    return cat1(t[1], tok<oA>(t[2]), [&](auto &&x) -> oA
                {
                  return fo::filter(FWD(x), [&p](A a) -> bool // by value: a combinator that moves into the predicate poisons the result
                                    {
                                      lg("p", {a.v()});
                                      return p.at(ix(a.v()));
                                    });
                });
  }
  if (o == "o.alt" && n == 4)
  {
    std::optional<oA> const a{tokx<oA>(t[3])};
    return cat1(t[1], tok<oA>(t[2]), [&](auto &&x) -> oA { return fo::alternative(FWD(x), thunk<oA>("a", a)); });
  }
  if (o == "o.combine" && n == 5)
  {
    auto const f = tbl<A>(9, t[4]);
    return cat2(t[1], tok<oA>(t[2]), tok<oA>(t[3]), [&](auto &&x, auto &&y) -> oA
                { return fo::combine(FWD(x), FWD(y), fn2<A, A, A>("f", f)); });
  }
  if (o == "o.cat" && n == 3)
    return cat1(t[1], tok<std::vector<oA>>(t[2]), [&](auto &&x) -> std::vector<A> { return fo::cat<std::vector<A>>(FWD(x)); });
  if (o == "o.seq" && n == 3)
    return cat1(t[1], tok<std::vector<oA>>(t[2]), [&](auto &&x) -> opt<std::vector<A>>
                { return fo::sequence<std::vector<A>>(FWD(x)); });
  if (o == "o.from" && n == 4)
  {
    std::optional<A> const d{tokx<A>(t[3])};
    return cat1(t[1], tok<oA>(t[2]), [&](auto &&x) -> A { return fo::from(FWD(x), thunk<A>("d", d)); });
  }
  if (o == "o.maybe" && n == 5)
  {
    std::optional<B> const d{tokx<B>(t[3])};
    auto const f = tbl<B>(3, t[4]);
    return cat1(t[1], tok<oA>(t[2]), [&](auto &&x) -> B { return fo::maybe(FWD(x), thunk<B>("d", d), fn1<B, A>("t", f)); });
  }
  if (o == "o.maybe_void" && n == 3)
  {
    return cat1(t[1], tok<oA>(t[2]), [&](auto &&x) -> std::string
                {
                  fo::maybe_void(FWD(x), [](A a) { lg("t", {a.v()}); });
                  return "u";
                });
  }
  if (o == "o.mm1" && n == 5)
  {
    std::optional<R> const d{tokx<R>(t[3])};
    auto const f = tbl<R>(3, t[4]);
    return cat1(t[1], tok<oA>(t[2]), [&](auto &&x) -> R { return fo::maybe_multi(thunk<R>("d", d), fn1<R, A>("t", f), FWD(x)); });
  }
  if (o == "o.mm2" && n == 6)
  {
    std::optional<R> const d{tokx<R>(t[4])};
    auto const f = tbl<R>(9, t[5]);
    return cat2(t[1], tok<oA>(t[2]), tok<oB>(t[3]), [&](auto &&x, auto &&y) -> R
                { return fo::maybe_multi(thunk<R>("d", d), fn2<R, A, B>("t", f), FWD(x), FWD(y)); });
  }
  if (o == "o.mm3" && n == 7)
  {
    std::optional<R> const d{tokx<R>(t[5])};
    auto const f = tbl<R>(27, t[6]);
    return cat3(t[1], tok<oA>(t[2]), tok<oB>(t[3]), tok<oC>(t[4]), [&](auto &&x, auto &&y, auto &&z) -> R
                { return fo::maybe_multi(thunk<R>("d", d), fn3<R, A, B, C>("t", f), FWD(x), FWD(y), FWD(z)); });
  }
  if (o == "o.make_if" && n == 3)
  {
    bool const b{tok<bool>(t[1])};
    std::optional<A> const v{tokx<A>(t[2])};
    return show(fo::make_if(b, thunk<A>("f", v)));
  }
  if (o == "o.cmp" && n == 3)
  {
    oA const a{tok<oA>(t[1])}, b{tok<oA>(t[2])};
    return "[" + show(a == b) + show(a != b) + show(a < b) + "]";
  }
  if (o == "o.assoc" && n == 5)
  {
    auto const f = tbl<oB>(3, t[3]);
    auto const g = tbl<oC>(3, t[4]);
    oA const src{tok<oA>(t[2])};
    std::string const l{cat1(t[1], src, [&](auto &&x) -> oC { return fo::bind(fo::bind(FWD(x), fn1<oB, A>("f", f)), fn1<oC, B>("g", g)); })};
    std::string const ll{show_log()};
    g_log.clear();
    std::string const r{cat1(t[1], src, [&](auto &&x) -> oC
                             { return fo::bind(FWD(x), [&](A a) -> oC { return fo::bind(fn1<oB, A>("f", f)(std::move(a)), fn1<oC, B>("g", g)); }); })};
    return l + " | " + ll + " || " + r;
  }
  if (o == "o.mapcomp" && n == 5)
  {
    auto const f = tbl<B>(3, t[3]);
    auto const g = tbl<C>(3, t[4]);
    oA const src{tok<oA>(t[2])};
    std::string const l{cat1(t[1], src, [&](auto &&x) -> oC { return fo::map(fo::map(FWD(x), fn1<B, A>("f", f)), fn1<C, B>("g", g)); })};
    std::string const ll{show_log()};
    g_log.clear();
    std::string const r{cat1(t[1], src, [&](auto &&x) -> oC
                             { return fo::map(FWD(x), [&](A a) -> C { return fn1<C, B>("g", g)(fn1<B, A>("f", f)(std::move(a))); }); })};
    return l + " | " + ll + " || " + r;
  }

  // ---------------- either
  if (o == "e.match" && n == 5)
  {
    auto const ff = tbl<R>(3, t[3]);
    auto const fs = tbl<R>(3, t[4]);
    return cat1(t[1], tok<eA>(t[2]), [&](auto &&x) -> R { return fe::match(FWD(x), fn1<R, E>("ff", ff), fn1<R, A>("fs", fs)); });
  }
  if (o == "e.map" && n == 4)
  {
    auto const f = tbl<B>(3, t[3]);
    return cat1(t[1], tok<eA>(t[2]), [&](auto &&x) -> eB { return fe::map(FWD(x), fn1<B, A>("f", f)); });
  }
  if (o == "e.bind" && n == 4)
  {
    auto const f = tbl<eB>(3, t[3]);
    return cat1(t[1], tok<eA>(t[2]), [&](auto &&x) -> eB { return fe::bind(FWD(x), fn1<eB, A>("f", f)); });
  }
  if (o == "e.mbind" && n == 4)
  {
    auto const f = tbl<eB>(3, t[3]);
    return cat1(t[1], tok<eA>(t[2]), [&](auto &&x) -> eB { return fcppt::monad::bind(FWD(x), fn1<eB, A>("f", f)); });
  }
  if (o == "e.join" && n == 3)
    return cat1(t[1], tok<eith<E, eA>>(t[2]), [&](auto &&x) -> eA { return fe::join(FWD(x)); });
  if (o == "e.apply1" && n == 4)
  {
    auto const f = tbl<R>(3, t[3]);
    return cat1(t[1], tok<eA>(t[2]), [&](auto &&x) -> eith<E, R> { return fe::apply(fn1<R, A>("f", f), FWD(x)); });
  }
  if (o == "e.apply2" && n == 5)
  {
    auto const f = tbl<R>(9, t[4]);
    return cat2(t[1], tok<eA>(t[2]), tok<eB>(t[3]), [&](auto &&x, auto &&y) -> eith<E, R>
                { return fe::apply(fn2<R, A, B>("f", f), FWD(x), FWD(y)); });
  }
  if (o == "e.apply3" && n == 6)
  {
    auto const f = tbl<R>(27, t[5]);
    return cat3(t[1], tok<eA>(t[2]), tok<eB>(t[3]), tok<eC>(t[4]), [&](auto &&x, auto &&y, auto &&z) -> eith<E, R>
                { return fe::apply(fn3<R, A, B, C>("f", f), FWD(x), FWD(y), FWD(z)); });
  }
  if (o == "e.mapf" && n == 4)
  {
    auto const f = tbl<B>(3, t[3]);
    return cat1(t[1], tok<eA>(t[2]), [&](auto &&x) -> eith<B, A> { return fe::map_failure(FWD(x), fn1<B, E>("f", f)); });
  }
  if (o == "e.seq" && n == 3)
  {
    // either::sequence only compiles for rvalue sources (its requires-clause takes value_type of the
    // reference type for lvalues), so there is no L / C form of this operation
    if (t[1] != "R")
      throw bad_op{};
    std::vector<eA> x{tok<std::vector<eA>>(t[2])};
    return show(fe::sequence<std::vector<A>>(std::move(x)));
  }
  if (o == "e.first" && n == 2)
  {
    std::vector<std::optional<eA>> const l{tok<std::vector<std::optional<eA>>>(t[1])};
    using function_type = fcppt::function<eA()>;
    std::vector<function_type> fns;
    for (std::size_t i = 0; i < l.size(); ++i)
      fns.push_back(function_type{[i, &l]() -> eA
                                  {
                                    lg("n", {static_cast<int>(i)});
                                    if (!l[i].has_value())
                                      throw E2{};
                                    return *l[i];
                                  }});
    return show(fe::first_success(fns));
  }
  if (o == "e.loop" && (n == 2 || n == 3))
  {
    std::vector<eA> const l{tok<std::vector<eA>>(t[1])};
    // the body: `u` returns, `X` throws, per value
    std::string const body{n == 3 ? t[2] : std::string{"uuu"}};
    if (body.size() != 3 || body.find_first_not_of("uX") != std::string::npos)
      throw bad_op{};
    std::deque<eA> q(l.begin(), l.end());
    int calls = 0;
    return show(fe::loop(
        [&q, &calls]() -> eA
        {
          lg("n", {calls++});
          if (q.empty())
            throw E2{};
          eA r{q.front()};
          q.pop_front();
          return r;
        },
        [&body](A a)
        {
          lg("b", {a.v()});
          if (body[static_cast<std::size_t>(ix(a.v()))] == 'X')
            throw E2{};
        }));
  }
  if (o == "e.from_opt" && n == 4)
  {
    std::optional<E> const f{tokx<E>(t[3])};
    return cat1(t[1], tok<oA>(t[2]), [&](auto &&x) -> eA { return fe::from_optional(FWD(x), thunk<E>("f", f)); });
  }
  if (o == "e.try" && n == 3)
  {
    std::string const &r = t[1];
    if (!(r == "Y" || (r.size() == 2 && (r[0] == 'R' || r[0] == 'X') && r[1] >= '0' && r[1] <= '2')))
      throw bad_op{};
    auto const f = tbl<E>(3, t[2]);
    return show(fe::try_call<E1>(
        [&r]() -> A
        {
          lg("f", {});
          if (r[0] == 'Y')
            throw E2{};
          if (r[0] == 'X')
            throw E1{r[1] - '0'};
          return A{r[1] - '0'};
        },
        [&f](E1 const &e) -> E
        {
          lg("t", {e.d});
          return f.at(ix(e.d));
        }));
  }
  if (o == "e.sopt" && n == 3)
    return cat1(t[1], tok<eA>(t[2]), [&](auto &&x) -> oA { return fe::success_opt(FWD(x)); });
  if (o == "e.fopt" && n == 3)
    return cat1(t[1], tok<eA>(t[2]), [&](auto &&x) -> opt<E> { return fe::failure_opt(FWD(x)); });
  if (o == "e.assoc" && n == 5)
  {
    auto const f = tbl<eB>(3, t[3]);
    auto const g = tbl<eC>(3, t[4]);
    eA const src{tok<eA>(t[2])};
    std::string const l{cat1(t[1], src, [&](auto &&x) -> eC { return fe::bind(fe::bind(FWD(x), fn1<eB, A>("f", f)), fn1<eC, B>("g", g)); })};
    std::string const ll{show_log()};
    g_log.clear();
    std::string const r{cat1(t[1], src, [&](auto &&x) -> eC
                             { return fe::bind(FWD(x), [&](A a) -> eC { return fe::bind(fn1<eB, A>("f", f)(std::move(a)), fn1<eC, B>("g", g)); }); })};
    return l + " | " + ll + " || " + r;
  }

  // ---------------- variant
  if (o == "v.match" && n == 6)
  {
    auto const fa = tbl<R>(3, t[3]);
    auto const fb = tbl<R>(3, t[4]);
    auto const fc = tbl<R>(3, t[5]);
    return cat1(t[1], tok<var3>(t[2]), [&](auto &&x) -> R
                { return fv::match(FWD(x), fn1<R, A>("a", fa), fn1<R, B>("b", fb), fn1<R, C>("c", fc)); });
  }
  if (o == "v.apply1" && n == 4)
  {
    auto const f = tbl<R>(9, t[3]);
    return cat1(t[1], tok<var3>(t[2]), [&](auto &&x) -> R
                {
                  return fv::apply(
                      [&f](auto &&a) -> R
                      {
                        int const i = std::remove_cvref_t<decltype(a)>::tag;
                        auto const a2{FWD(a)}; // consume the argument the way a by-value parameter would
                        lg("f", {i, a2.v()});
                        return f.at(i * 3 + ix(a2.v()));
                      },
                      FWD(x));
                });
  }
  if (o == "v.apply2" && n == 5)
  {
    auto const f = tbl<R>(81, t[4]);
    return cat2(t[1], tok<var3>(t[2]), tok<var3>(t[3]), [&](auto &&x, auto &&y) -> R
                {
                  return fv::apply(
                      [&f](auto &&a, auto &&b) -> R
                      {
                        int const i = std::remove_cvref_t<decltype(a)>::tag;
                        int const j = std::remove_cvref_t<decltype(b)>::tag;
                        auto const a2{FWD(a)};
                        auto const b2{FWD(b)};
                        lg("f", {i, a2.v(), j, b2.v()});
                        return f.at(((i * 3 + ix(a2.v())) * 3 + j) * 3 + ix(b2.v()));
                      },
                      FWD(x), FWD(y));
                });
  }
  if (o == "v.to_opt" && n == 4)
  {
    std::string const &j = t[2];
    if (j == "0")
      return cat1(t[1], tok<var3>(t[3]), [&](auto &&x) -> oA { return fv::to_optional<A>(FWD(x)); });
    if (j == "1")
      return cat1(t[1], tok<var3>(t[3]), [&](auto &&x) -> oB { return fv::to_optional<B>(FWD(x)); });
    if (j == "2")
      return cat1(t[1], tok<var3>(t[3]), [&](auto &&x) -> oC { return fv::to_optional<C>(FWD(x)); });
    throw bad_op{};
  }
  if (o == "v.compare" && n == 4)
  {
    var3 const l{tok<var3>(t[1])}, r{tok<var3>(t[2])};
    auto const c = tbl<bool>(27, t[3]);
    return show(fv::compare(l, r, [&c](auto const &a, auto const &b) -> bool
                            {
                              int const i = std::remove_cvref_t<decltype(a)>::tag;
                              static_assert(std::is_same_v<decltype(a), decltype(b)>);
                              lg("c", {i, a.v(), b.v()});
                              return c.at((i * 3 + ix(a.v())) * 3 + ix(b.v()));
                            }));
  }
  if (o == "v.cmp" && n == 3)
  {
    var3 const l{tok<var3>(t[1])}, r{tok<var3>(t[2])};
    return "[" + show(l == r) + show(l != r) + show(l < r) + "]";
  }
  if (o == "v.holds" && n == 3)
  {
    var3 const v{tok<var3>(t[2])};
    if (t[1] == "0")
      return show(fv::holds_type<A>(v));
    if (t[1] == "1")
      return show(fv::holds_type<B>(v));
    if (t[1] == "2")
      return show(fv::holds_type<C>(v));
    throw bad_op{};
  }
  if (o == "v.index" && n == 2)
    return std::to_string(tok<var3>(t[1]).type_index());

  // ---------------- the same object as both operands (lvalues only)
  if (o == "o.combine.same" && n == 4)
  {
    auto const f = tbl<A>(9, t[3]);
    return cat1(t[1], tok<oA>(t[2]), [&](auto &&x) -> oA { return fo::combine(x, x, fn2<A, A, A>("f", f)); });
  }
  if (o == "o.apply2.same" && n == 4)
  {
    auto const f = tbl<R>(9, t[3]);
    return cat1(t[1], tok<oA>(t[2]), [&](auto &&x) -> opt<R> { return fo::apply(fn2<R, A, A>("f", f), x, x); });
  }
  if (o == "o.mm2.same" && n == 5)
  {
    std::optional<R> const d{tokx<R>(t[3])};
    auto const f = tbl<R>(9, t[4]);
    return cat1(t[1], tok<oA>(t[2]), [&](auto &&x) -> R { return fo::maybe_multi(thunk<R>("d", d), fn2<R, A, A>("t", f), x, x); });
  }
  if (o == "o.alt.same" && n == 3)
    return cat1(t[1], tok<oA>(t[2]), [&](auto &&x) -> oA
                {
                  return fo::alternative(x, [&x]() -> oA
                                         {
                                           lg("a", {});
                                           return x;
                                         });
                });
  if (o == "o.cmp.same" && n == 2)
  {
    oA const a{tok<oA>(t[1])};
    return "[" + show(a == a) + show(a != a) + show(a < a) + "]";
  }
  if (o == "e.apply2.same" && n == 4)
  {
    auto const f = tbl<R>(9, t[3]);
    return cat1(t[1], tok<eA>(t[2]), [&](auto &&x) -> eith<E, R> { return fe::apply(fn2<R, A, A>("f", f), x, x); });
  }
  if (o == "v.cmp.same" && n == 2)
  {
    var3 const l{tok<var3>(t[1])};
    return "[" + show(l == l) + show(l != l) + show(l < l) + "]";
  }
  if (o == "v.compare.same" && n == 3)
  {
    var3 const l{tok<var3>(t[1])};
    auto const c = tbl<bool>(27, t[2]);
    return show(fv::compare(l, l, [&c](auto const &a, auto const &b) -> bool
                            {
                              int const i = std::remove_cvref_t<decltype(a)>::tag;
                              lg("c", {i, a.v(), b.v()});
                              return c.at((i * 3 + ix(a.v())) * 3 + ix(b.v()));
                            }));
  }

  // ---------------- continuations that return a reference to (the payload of) their argument
  // (maybe / match / apply pass the result through as decltype(auto) / invoke_result_t): the result must be the
  // payload inside the source object, not that of a temporary.  Lvalue sources only.
  if (o == "o.maybe_ref" && n == 4)
  {
    int const dflt{tok<A>(t[3]).v()};
    auto const go = [&](auto &x) -> std::string
    {
      int const &r{fo::maybe(
          x,
          [&dflt]() -> int const &
          {
            lg("d", {});
            return dflt;
          },
          [](A const &a) -> int const &
          {
            lg("t", {a.v()});
            return *a.p;
          })};
      std::string const where{&r == &dflt ? "d" : (x.has_value() && &r == x.get_unsafe().p) ? "in" : "other"};
      return where + ":" + std::to_string(r);
    };
    oA x{tok<oA>(t[2])};
    if (t[1] == "L")
      return go(x);
    if (t[1] == "C")
      return go(std::as_const(x));
    throw bad_op{};
  }
  if (o == "e.match_ref" && n == 3)
  {
    auto const go = [&](auto &x) -> std::string
    {
      int const &r{fe::match(
          x,
          [](E const &a) -> int const &
          {
            lg("ff", {a.v()});
            return *a.p;
          },
          [](A const &a) -> int const &
          {
            lg("fs", {a.v()});
            return *a.p;
          })};
      int const *const in{x.has_success() ? x.get_success_unsafe().p : x.get_failure_unsafe().p};
      return std::string{&r == in ? "in" : "other"} + ":" + std::to_string(r);
    };
    eA x{tok<eA>(t[2])};
    if (t[1] == "L")
      return go(x);
    if (t[1] == "C")
      return go(std::as_const(x));
    throw bad_op{};
  }
  if ((o == "v.match_ref" || o == "v.apply_ref") && n == 3)
  {
    bool const is_match{o == "v.match_ref"};
    auto const go = [&](auto &x) -> std::string
    {
      auto const fa = [](A const &a) -> int const &
      {
        lg("a", {a.v()});
        return *a.p;
      };
      auto const fb = [](B const &a) -> int const &
      {
        lg("b", {a.v()});
        return *a.p;
      };
      auto const fc = [](C const &a) -> int const &
      {
        lg("c", {a.v()});
        return *a.p;
      };
      auto const all = [](auto const &a) -> int const &
      {
        lg("f", {std::remove_cvref_t<decltype(a)>::tag, a.v()});
        return *a.p;
      };
      int const &r{is_match ? fv::match(x, fa, fb, fc) : fv::apply(all, x)};
      int const *const in{std::visit([](auto const &a) -> int const * { return a.p; }, x.impl())};
      return std::string{&r == in ? "in" : "other"} + ":" + std::to_string(r);
    };
    var3 x{tok<var3>(t[2])};
    if (t[1] == "L")
      return go(x);
    if (t[1] == "C")
      return go(std::as_const(x));
    throw bad_op{};
  }

  // ---------------- other container types
  if (o == "o.cat.ld" && n == 3) // std::list -> std::deque
  {
    std::vector<oA> const v{tok<std::vector<oA>>(t[2])};
    return cat1(t[1], std::list<oA>(v.begin(), v.end()), [&](auto &&x) -> std::vector<A>
                {
                  std::deque<A> const r{fo::cat<std::deque<A>>(FWD(x))};
                  return std::vector<A>(r.begin(), r.end());
                });
  }
  if (o == "o.seq.dl" && n == 3) // std::deque -> std::list
  {
    std::vector<oA> const v{tok<std::vector<oA>>(t[2])};
    return cat1(t[1], std::deque<oA>(v.begin(), v.end()), [&](auto &&x) -> opt<std::vector<A>>
                {
                  return fo::map(fo::sequence<std::list<A>>(FWD(x)), [](std::list<A> &&l) { return std::vector<A>(l.begin(), l.end()); });
                });
  }
  if (o == "v.apply3" && n == 6)
  {
    auto const f = tbl<R>(27, t[5]);
    return cat3(t[1], tok<var3>(t[2]), tok<var3>(t[3]), tok<var3>(t[4]), [&](auto &&x, auto &&y, auto &&z) -> R
                {
                  return fv::apply(
                      [&f](auto &&a, auto &&b, auto &&c) -> R
                      {
                        int const i = std::remove_cvref_t<decltype(a)>::tag;
                        int const j = std::remove_cvref_t<decltype(b)>::tag;
                        int const k = std::remove_cvref_t<decltype(c)>::tag;
                        auto const a2{FWD(a)};
                        auto const b2{FWD(b)};
                        auto const c2{FWD(c)};
                        lg("f", {i, a2.v(), j, b2.v(), k, c2.v()});
                        return f.at((ix(a2.v()) * 3 + ix(b2.v())) * 3 + ix(c2.v()));
                      },
                      FWD(x), FWD(y), FWD(z));
                });
  }
  throw bad_op{};
}

std::string handle1(std::vector<std::string> const &t)
{
  g_log.clear();
  g_src_mod = false;
  auto const sm = [] { return std::string{g_src_mod ? " SRC-MODIFIED" : ""}; };
  try
  {
    std::string const r{op(t)};
    return r + " | " + show_log();
  }
  catch (bad_op const &)
  {
    return "bad-op";
  }
  catch (E2 const &)
  {
    return "exc:E2" + sm() + " | " + show_log();
  }
  catch (E1 const &e)
  {
    return "exc:E1:" + std::to_string(e.d) + sm() + " | " + show_log();
  }
  catch (std::exception const &)
  {
    return "exc:std" + sm() + " | " + show_log();
  }
}

std::string handle(std::vector<std::string> const &t)
{
  // make the results of the previous lines visible before running this one: a sanitizer death inside a combinator
  // must be attributed to the line that caused it (UBSan's abort path does not run vh::on_death)
  std::fflush(stdout);
  if (t.empty())
    return "bad-op";
  if (t[0] == "all9")
  {
    std::vector<std::string> rest(t.begin() + 1, t.end());
    std::size_t star = 0, count = 0;
    for (std::size_t i = 0; i < rest.size(); ++i)
      if (rest[i] == "*")
      {
        star = i;
        ++count;
      }
    if (count != 1)
      return "bad-op";
    std::uint64_t h = vh::fnv_init;
    for (unsigned i = 0; i < 19683U; ++i)
    {
      std::string tb(9, '0');
      unsigned x = i;
      for (int k = 8; k >= 0; --k)
      {
        tb[static_cast<std::size_t>(k)] = static_cast<char>('0' + x % 3U);
        x /= 3U;
      }
      rest[star] = tb;
      h = vh::fnv(h, handle1(rest));
    }
    return "D " + vh::hex64(h);
  }
  return handle1(t);
}
}

int main() { return vh::run(handle); }
