// C04 correspondence harness: runs the real fcppt::optional / either / variant combinators on the operation
// lines described in lean/FcpptModel/Drv/C04.lean and prints the same canonical result lines
//     <result> | <call log>
// Element types are distinct tagged heap-allocated ints whose move constructor empties the source (reads as 9), so
// that a double move / use after move inside a combinator shows up in the result or in the logged arguments and a
// dangling reference / leak shows up in ASan/LSan.
#include "common/vh.hpp"

#include <fcppt/function_impl.hpp>
#include <fcppt/make_cref.hpp>
#include <fcppt/make_ref.hpp>
#include <fcppt/reference_impl.hpp>
#include <fcppt/cast/dynamic_fun.hpp>
#include <fcppt/either/comparison.hpp>
#include <fcppt/either/construct.hpp>
#include <fcppt/either/error.hpp>
#include <fcppt/either/error_from_optional.hpp>
#include <fcppt/either/make_failure.hpp>
#include <fcppt/either/make_success.hpp>
#include <fcppt/either/no_error.hpp>
#include <fcppt/either/output.hpp>
#include <fcppt/either/sequence_error.hpp>
#include <fcppt/either/to_exception.hpp>
#include <fcppt/monad/chain.hpp>
#include <fcppt/monad/do.hpp>
#include <fcppt/monad/return.hpp>
#include <fcppt/mpl/list/object.hpp>
#include <fcppt/optional/assign.hpp>
#include <fcppt/optional/copy_value.hpp>
#include <fcppt/optional/deref.hpp>
#include <fcppt/optional/from_pointer.hpp>
#include <fcppt/optional/make.hpp>
#include <fcppt/optional/maybe_void_multi.hpp>
#include <fcppt/optional/nothing.hpp>
#include <fcppt/optional/output.hpp>
#include <fcppt/optional/reference.hpp>
#include <fcppt/optional/to_container.hpp>
#include <fcppt/optional/to_exception.hpp>
#include <fcppt/optional/to_pointer.hpp>
#include <fcppt/variant/current_type_name.hpp>
#include <fcppt/variant/dynamic_cast.hpp>
#include <fcppt/variant/dynamic_cast_types.hpp>
#include <fcppt/variant/from_list.hpp>
#include <fcppt/variant/get_unsafe.hpp>
#include <fcppt/variant/output.hpp>
#include <fcppt/variant/to_optional_ref.hpp>
#include <fcppt/variant/type_info.hpp>
#include <fcppt/either/apply.hpp>
#include <fcppt/either/bind.hpp>
#include <fcppt/either/failure_opt.hpp>
#include <fcppt/either/first_success.hpp>
#include <fcppt/either/from_optional.hpp>
#include <fcppt/either/join.hpp>
#include <fcppt/either/loop.hpp>
#include <fcppt/either/map.hpp>
#include <fcppt/either/map_failure.hpp>
#include <fcppt/either/match.hpp>
#include <fcppt/either/monad.hpp>
#include <fcppt/either/object.hpp>
#include <fcppt/either/sequence.hpp>
#include <fcppt/either/success_opt.hpp>
#include <fcppt/either/try_call.hpp>
#include <fcppt/monad/bind.hpp>
#include <fcppt/optional/alternative.hpp>
#include <fcppt/optional/apply.hpp>
#include <fcppt/optional/bind.hpp>
#include <fcppt/optional/cat.hpp>
#include <fcppt/optional/combine.hpp>
#include <fcppt/optional/comparison.hpp>
#include <fcppt/optional/filter.hpp>
#include <fcppt/optional/from.hpp>
#include <fcppt/optional/join.hpp>
#include <fcppt/optional/make_if.hpp>
#include <fcppt/optional/map.hpp>
#include <fcppt/optional/maybe.hpp>
#include <fcppt/optional/maybe_multi.hpp>
#include <fcppt/optional/maybe_void.hpp>
#include <fcppt/optional/monad.hpp>
#include <fcppt/optional/object.hpp>
#include <fcppt/optional/sequence.hpp>
#include <fcppt/variant/apply.hpp>
#include <fcppt/variant/compare.hpp>
#include <fcppt/variant/comparison.hpp>
#include <fcppt/variant/holds_type.hpp>
#include <fcppt/variant/match.hpp>
#include <fcppt/variant/object.hpp>
#include <fcppt/variant/to_optional.hpp>

#include <cstddef>
#include <deque>
#include <list>
#include <memory>
#include <ostream>
#include <sstream>
#include <typeinfo>
#include <initializer_list>
#include <optional>
#include <string>
#include <type_traits>
#include <utility>
#include <variant>
#include <vector>

namespace
{
struct bad_op
{
};
struct E1 // the exception type try_call is asked to catch (polymorphic, like std::exception)
{
  int d;
  explicit E1(int const x) : d{x} {}
  E1(E1 const &) = default;
  E1 &operator=(E1 const &) = default;
  virtual ~E1() = default;
  // what the converter observes goes through the dynamic type: a handler that is given a sliced copy of the caught
  // exception (a base-class object) sees the base answer
  virtual int code() const { return d; }
};
struct E1d : E1 // derived from the caught type: caught too (catch by reference to the base)
{
  using E1::E1;
  int code() const override { return (d + 1) % 3; }
};
struct E2 // any other exception type
{
};

constexpr int poison = 9;

// The payload lives on the heap so that ASan/LSan see a dangling reference, a double destruction or a lost
// object inside a combinator; a moved-from object has no payload and reads as `poison`.
template <int Tag>
struct val
{
  static constexpr int tag = Tag;
  int *p;
  explicit val(int const x) : p{new int{x}} {}
  val(val const &o) : p{o.p != nullptr ? new int{*o.p} : nullptr} {}
  val(val &&o) noexcept : p{o.p} { o.p = nullptr; }
  val &operator=(val const &o)
  {
    if (&o != this)
    {
      int *const n{o.p != nullptr ? new int{*o.p} : nullptr};
      delete p;
      p = n;
    }
    return *this;
  }
  val &operator=(val &&o) noexcept
  {
    if (&o != this)
    {
      delete p;
      p = o.p;
      o.p = nullptr;
    }
    return *this;
  }
  ~val() { delete p; }
  [[nodiscard]] int v() const { return p != nullptr ? *p : poison; }
  friend bool operator==(val const &a, val const &b) { return a.v() == b.v(); }
  friend bool operator!=(val const &a, val const &b) { return a.v() != b.v(); }
  friend bool operator<(val const &a, val const &b) { return a.v() < b.v(); }
  friend std::ostream &operator<<(std::ostream &s, val const &a) { return s << a.v(); }
};

using A = val<0>;
using B = val<1>;
using C = val<2>;
using R = val<3>; // result type of n-ary functions
using E = val<4>; // failure type

template <typename T>
using opt = fcppt::optional::object<T>;
template <typename F, typename S>
using eith = fcppt::either::object<F, S>;
using var3 = fcppt::variant::object<A, B, C>;

// ------------------------------------------------------------------ call log
std::vector<std::string> g_log;

void lg(char const *const site, std::initializer_list<int> const args)
{
  std::string s{site};
  s += '(';
  bool first = true;
  for (int const a : args)
  {
    if (!first)
      s += ',';
    first = false;
    s += std::to_string(a);
  }
  s += ')';
  g_log.push_back(s);
}

std::string show_log()
{
  if (g_log.empty())
    return "-";
  std::string r;
  for (std::size_t i = 0; i < g_log.size(); ++i)
  {
    if (i != 0)
      r += ';';
    r += g_log[i];
  }
  return r;
}

// ------------------------------------------------------------------ reading / printing values
template <typename T>
struct io;

template <int Tag>
struct io<val<Tag>>
{
  static val<Tag> rd(char const *&p)
  {
    char const c = *p;
    if (c < '0' || c > '2')
      throw bad_op{};
    ++p;
    return val<Tag>{c - '0'};
  }
  static std::string sh(val<Tag> const &x) { return std::to_string(x.v()); }
};

template <typename T>
struct io<opt<T>>
{
  static opt<T> rd(char const *&p)
  {
    if (*p == 'N')
    {
      ++p;
      return opt<T>{};
    }
    if (*p == 'J')
    {
      ++p;
      return opt<T>{io<T>::rd(p)};
    }
    throw bad_op{};
  }
  static std::string sh(opt<T> const &x) { return x.has_value() ? "J" + io<T>::sh(x.get_unsafe()) : std::string{"N"}; }
};

template <typename F, typename S>
struct io<eith<F, S>>
{
  static eith<F, S> rd(char const *&p)
  {
    if (*p == 'F')
    {
      ++p;
      return eith<F, S>{io<F>::rd(p)};
    }
    if (*p == 'S')
    {
      ++p;
      return eith<F, S>{io<S>::rd(p)};
    }
    throw bad_op{};
  }
  static std::string sh(eith<F, S> const &x)
  {
    bool const s = x.has_success(), f = x.has_failure();
    if (s == f)
      return "INCONSISTENT-EITHER";
    return s ? "S" + io<S>::sh(x.get_success_unsafe()) : "F" + io<F>::sh(x.get_failure_unsafe());
  }
};

template <>
struct io<var3>
{
  static var3 rd(char const *&p)
  {
    char const c = *p;
    if (c != 'A' && c != 'B' && c != 'C')
      throw bad_op{};
    ++p;
    if (c == 'A')
      return var3{io<A>::rd(p)};
    if (c == 'B')
      return var3{io<B>::rd(p)};
    return var3{io<C>::rd(p)};
  }
  static std::string sh(var3 const &x)
  {
    // printed through std::variant directly, not through the functions under test
    switch (x.impl().index())
    {
    case 0: return "A" + std::to_string(std::get<0>(x.impl()).v());
    case 1: return "B" + std::to_string(std::get<1>(x.impl()).v());
    case 2: return "C" + std::to_string(std::get<2>(x.impl()).v());
    default: return "VALUELESS";
    }
  }
};

template <typename T>
struct io<std::vector<T>>
{
  static std::vector<T> rd(char const *&p)
  {
    if (*p != '[')
      throw bad_op{};
    ++p;
    std::vector<T> r;
    while (*p != ']')
    {
      if (*p == '\0')
        throw bad_op{};
      r.push_back(io<T>::rd(p));
    }
    ++p;
    return r;
  }
  static std::string sh(std::vector<T> const &x)
  {
    std::string r{"["};
    for (auto const &e : x)
      r += io<T>::sh(e);
    return r + "]";
  }
};

template <typename T>
struct io<std::list<T>>
{
  static std::string sh(std::list<T> const &x) { return io<std::vector<T>>::sh(std::vector<T>(x.begin(), x.end())); }
};
template <typename T>
struct io<std::deque<T>>
{
  static std::string sh(std::deque<T> const &x) { return io<std::vector<T>>::sh(std::vector<T>(x.begin(), x.end())); }
};

// a value or `X` (used for lists of functions some of which throw)
template <typename T>
struct io<std::optional<T>>
{
  static std::optional<T> rd(char const *&p)
  {
    if (*p == 'X')
    {
      ++p;
      return std::nullopt;
    }
    return std::optional<T>{io<T>::rd(p)};
  }
};

template <>
struct io<bool>
{
  static bool rd(char const *&p)
  {
    char const c = *p;
    if (c != 't' && c != 'f')
      throw bad_op{};
    ++p;
    return c == 't';
  }
  static std::string sh(bool const b) { return b ? "t" : "f"; }
};

template <>
struct io<fcppt::either::no_error>
{
  static std::string sh(fcppt::either::no_error const &) { return "u"; }
};

template <>
struct io<int>
{
  static std::string sh(int const x) { return std::to_string(x); }
};

template <typename T>
T tok(std::string const &s)
{
  char const *p = s.c_str();
  T r{io<T>::rd(p)};
  if (*p != '\0')
    throw bad_op{};
  return r;
}

// A table entry `X` makes the continuation throw E2 instead of returning.
template <typename T>
struct table
{
  std::vector<std::optional<T>> t;
  // a poisoned (moved-from) argument is looked up as 0; the log shows the 9
  T at(int const i) const
  {
    std::optional<T> const &e{t[static_cast<std::size_t>(i) < t.size() ? static_cast<std::size_t>(i) : 0U]};
    if (!e.has_value())
      throw E2{};
    return *e;
  }
};

int ix(int const v) { return v >= 0 && v < 3 ? v : 0; }

template <typename T>
table<T> tbl(std::size_t const n, std::string const &s)
{
  char const *p = s.c_str();
  table<T> r;
  for (std::size_t i = 0; i < n; ++i)
  {
    if (*p == 'X')
    {
      ++p;
      r.t.push_back(std::nullopt);
    }
    else
      r.t.push_back(std::optional<T>{io<T>::rd(p)});
  }
  if (*p != '\0')
    throw bad_op{};
  return r;
}

// a single value or `X` (the thunk that is given this throws E2)
template <typename T>
std::optional<T> tokx(std::string const &s)
{
  if (s == "X")
    return std::nullopt;
  return std::optional<T>{tok<T>(s)};
}

template <typename T>
std::string show(T const &x)
{
  return io<T>::sh(x);
}

// ------------------------------------------------------------------ continuations
template <typename Rt, typename X>
auto fn1(char const *const site, table<Rt> const &t)
{
  return [site, &t](X x) -> Rt
  {
    lg(site, {x.v()});
    return t.at(ix(x.v()));
  };
}
template <typename Rt, typename X, typename Y>
auto fn2(char const *const site, table<Rt> const &t)
{
  return [site, &t](X x, Y y) -> Rt
  {
    lg(site, {x.v(), y.v()});
    return t.at(ix(x.v()) * 3 + ix(y.v()));
  };
}
template <typename Rt, typename X, typename Y, typename Z>
auto fn3(char const *const site, table<Rt> const &t)
{
  return [site, &t](X x, Y y, Z z) -> Rt
  {
    lg(site, {x.v(), y.v(), z.v()});
    return t.at((ix(x.v()) * 3 + ix(y.v())) * 3 + ix(z.v()));
  };
}
template <typename Rt>
auto thunk(char const *const site, std::optional<Rt> const &v)
{
  return [site, &v]() -> Rt
  {
    lg(site, {});
    if (!v.has_value())
      throw E2{};
    return *v;
  };
}

template <>
struct io<std::string>
{
  static std::string sh(std::string const &x) { return x; }
};

// comparison for the "source unchanged" test: on the printed form, not through the operators under test
template <typename T>
bool same(T const &a, T const &b)
{
  return show(a) == show(b);
}

// ------------------------------------------------------------------ value categories
// One letter per argument -- L: non-const lvalue, C: const lvalue, R: rvalue (a single letter stands for all
// arguments).  After a call on an lvalue the source must be unchanged, also when the call ends in an exception.
bool g_src_mod = false;

template <char Cat, typename T>
struct holder;
template <typename T>
struct holder<'L', T>
{
  T x;
  explicit holder(T const &s) : x{s} {}
  T &get() { return x; }
  [[nodiscard]] bool ok(T const &s) const { return same(x, s); }
};
template <typename T>
struct holder<'C', T>
{
  T const x;
  explicit holder(T const &s) : x{s} {}
  T const &get() { return x; }
  [[nodiscard]] bool ok(T const &s) const { return same(x, s); }
};
template <typename T>
struct holder<'R', T>
{
  T x;
  explicit holder(T const &s) : x{s} {}
  T &&get() { return std::move(x); }
  [[nodiscard]] bool ok(T const &) const { return true; }
};

template <char C1, typename T1, typename Fn>
std::string run1(T1 const &s1, Fn const &fn)
{
  holder<C1, T1> h1{s1};
  try
  {
    std::string r{show(fn(h1.get()))};
    return h1.ok(s1) ? r : r + " SRC-MODIFIED";
  }
  catch (bad_op const &)
  {
    throw;
  }
  catch (...)
  {
    if (!h1.ok(s1))
      g_src_mod = true;
    throw;
  }
}

template <char C1, char C2, typename T1, typename T2, typename Fn>
std::string run2(T1 const &s1, T2 const &s2, Fn const &fn)
{
  holder<C1, T1> h1{s1};
  holder<C2, T2> h2{s2};
  try
  {
    std::string r{show(fn(h1.get(), h2.get()))};
    return h1.ok(s1) && h2.ok(s2) ? r : r + " SRC-MODIFIED";
  }
  catch (bad_op const &)
  {
    throw;
  }
  catch (...)
  {
    if (!(h1.ok(s1) && h2.ok(s2)))
      g_src_mod = true;
    throw;
  }
}

template <char C1, char C2, char C3, typename T1, typename T2, typename T3, typename Fn>
std::string run3(T1 const &s1, T2 const &s2, T3 const &s3, Fn const &fn)
{
  holder<C1, T1> h1{s1};
  holder<C2, T2> h2{s2};
  holder<C3, T3> h3{s3};
  try
  {
    std::string r{show(fn(h1.get(), h2.get(), h3.get()))};
    return h1.ok(s1) && h2.ok(s2) && h3.ok(s3) ? r : r + " SRC-MODIFIED";
  }
  catch (bad_op const &)
  {
    throw;
  }
  catch (...)
  {
    if (!(h1.ok(s1) && h2.ok(s2) && h3.ok(s3)))
      g_src_mod = true;
    throw;
  }
}

template <typename T, typename Fn>
std::string cat1(std::string const &c, T const &src, Fn const &fn)
{
  if (c == "L")
    return run1<'L'>(src, fn);
  if (c == "C")
    return run1<'C'>(src, fn);
  if (c == "R")
    return run1<'R'>(src, fn);
  throw bad_op{};
}

// all nine combinations
template <typename T1, typename T2, typename Fn>
std::string cat2(std::string const &c0, T1 const &s1, T2 const &s2, Fn const &fn)
{
  std::string const c{c0.size() == 1 ? std::string(2, c0[0]) : c0};
#define VH_C2(a, b) \
  if (c.size() == 2 && c[0] == a && c[1] == b) \
    return run2<a, b>(s1, s2, fn);
  VH_C2('L', 'L') VH_C2('L', 'C') VH_C2('L', 'R') VH_C2('C', 'L') VH_C2('C', 'C') VH_C2('C', 'R') VH_C2('R', 'L') VH_C2('R', 'C') VH_C2('R', 'R')
#undef VH_C2
  throw bad_op{};
}

// the three uniform combinations and every mixture of L and R (C mixes like L: both are lvalue references)
template <typename T1, typename T2, typename T3, typename Fn>
std::string cat3(std::string const &c0, T1 const &s1, T2 const &s2, T3 const &s3, Fn const &fn)
{
  std::string const c{c0.size() == 1 ? std::string(3, c0[0]) : c0};
#define VH_C3(a, b, d) \
  if (c.size() == 3 && c[0] == a && c[1] == b && c[2] == d) \
    return run3<a, b, d>(s1, s2, s3, fn);
  VH_C3('L', 'L', 'L') VH_C3('C', 'C', 'C') VH_C3('R', 'R', 'R') VH_C3('R', 'L', 'L') VH_C3('L', 'R', 'L') VH_C3('L', 'L', 'R')
  VH_C3('R', 'R', 'L') VH_C3('R', 'L', 'R') VH_C3('L', 'R', 'R')
#undef VH_C3
  throw bad_op{};
}

#define FWD(x) std::forward<decltype(x)>(x)

using oA = opt<A>;
using oB = opt<B>;
using oC = opt<C>;
using eA = eith<E, A>;
using eB = eith<E, B>;
using eC = eith<E, C>;


// ------------------------------------------------------------------ the rest of the public API
// objects that references / pointers designate: three cells, named by their index
struct cells3
{
  std::vector<A> c;
  explicit cells3(std::string const &s)
  {
    char const *p = s.c_str();
    for (int i = 0; i < 3; ++i)
      c.push_back(io<A>::rd(p));
    if (*p != '\0')
      throw bad_op{};
  }
  // `&i` -> cell i
  A &at(std::string const &s, std::size_t const pos)
  {
    if (s.size() != pos + 2 || s[pos] != '&' || s[pos + 1] < '0' || s[pos + 1] > '2')
      throw bad_op{};
    return c[static_cast<std::size_t>(s[pos + 1] - '0')];
  }
  [[nodiscard]] std::string name(A const *const a) const
  {
    for (std::size_t i = 0; i < c.size(); ++i)
      if (a == &c[i])
        return "&" + std::to_string(i);
    return "&?";
  }
  // every cell gets another value: a copy made before is unaffected, a reference sees it
  void bump()
  {
    for (A &a : c)
      a = A{(a.v() + 1) % 3};
  }
};

template <typename Ref>
fcppt::optional::reference<Ref> opt_ref(cells3 &cs, std::string const &s)
{
  if (s == "N")
    return fcppt::optional::reference<Ref>{};
  if (s.empty() || s[0] != 'J')
    throw bad_op{};
  return fcppt::optional::reference<Ref>{fcppt::reference<Ref>{cs.at(s, 1)}};
}

// a small class hierarchy for variant::dynamic_cast_: d1 and d3 derive from base, d2 from d1
struct dbase
{
  dbase() = default;
  dbase(dbase const &) = delete;
  dbase &operator=(dbase const &) = delete;
  virtual ~dbase() = default;
};
struct d1 : dbase
{
};
struct d2 : d1
{
};
struct d3 : dbase
{
};

template <typename T>
char dyn_letter()
{
  using U = std::remove_cv_t<T>;
  return std::is_same_v<U, d1> ? '1' : std::is_same_v<U, d2> ? '2' : '3';
}

template <typename Base, typename... Ts>
std::string dyn_cast_op(Base &b)
{
  using types = fcppt::mpl::list::object<Ts...>;
  using variant_type = fcppt::variant::from_list<fcppt::variant::dynamic_cast_types<types>>;
  fcppt::optional::object<variant_type> const r{fcppt::variant::dynamic_cast_<types, fcppt::cast::dynamic_fun>(b)};
  if (!r.has_value())
    return "N";
  return "J" + std::to_string(r.get_unsafe().type_index()) + ":" +
         std::visit(
             [&b](auto const &ref) -> std::string
             {
               using T = typename std::remove_cvref_t<decltype(ref)>::type;
               return std::string(1, dyn_letter<T>()) +
                      (static_cast<dbase const *>(&ref.get()) == static_cast<dbase const *>(&b) ? "=obj" : "=other");
             },
             r.get_unsafe().impl());
}

template <typename Base>
std::string dyn_cast_list(std::string const &l, Base &b)
{
  if (l == "1")
    return dyn_cast_op<Base, d1>(b);
  if (l == "2")
    return dyn_cast_op<Base, d2>(b);
  if (l == "12")
    return dyn_cast_op<Base, d1, d2>(b);
  if (l == "21")
    return dyn_cast_op<Base, d2, d1>(b);
  if (l == "32")
    return dyn_cast_op<Base, d3, d2>(b);
  if (l == "123")
    return dyn_cast_op<Base, d1, d2, d3>(b);
  if (l == "231")
    return dyn_cast_op<Base, d2, d3, d1>(b);
  if (l == "321")
    return dyn_cast_op<Base, d3, d2, d1>(b);
  throw bad_op{};
}

// the implicitly defined special members of the three classes and std::swap, including an object with itself
template <typename T>
std::string asg_op(std::string const &k, T const &a, T const &b)
{
  if (k == "copy")
  {
    T x{a};
    T const y{b};
    x = y;
    return show(x) + " " + show(y);
  }
  if (k == "move")
  {
    T x{a};
    T y{b};
    x = std::move(y);
    return show(x);
  }
  if (k == "cctor")
  {
    T const y{b};
    T const x{y}; // NOLINT(performance-unnecessary-copy-initialization)
    return show(x) + " " + show(y);
  }
  if (k == "mctor")
  {
    T y{b};
    T const x{std::move(y)};
    return show(x);
  }
  if (k == "swap")
  {
    T x{a};
    T y{b};
    std::swap(x, y);
    return show(x) + " " + show(y);
  }
  if (k == "self")
  {
    T x{a};
    T const &r{x};
    x = r;
    return show(x);
  }
  if (k == "selfmove")
  {
    T x{a};
    T &r{x};
    x = std::move(r);
    return show(x);
  }
  if (k == "selfswap")
  {
    T x{a};
    T &r{x};
    std::swap(x, r);
    return show(x);
  }
  throw bad_op{};
}

using err = fcppt::either::error<E>;

std::string op_vv(std::vector<std::string> const &t);

std::string op2(std::vector<std::string> const &t)
{
  std::string const &o = t[0];
  std::size_t const n = t.size();
  namespace fo = fcppt::optional;
  namespace fe = fcppt::either;
  namespace fv = fcppt::variant;

  // ---------------- optional
  if (o == "o.to_cont" && n == 3)
    return cat1(t[1], tok<oA>(t[2]), [&](auto &&x) -> std::vector<A> { return fo::to_container<std::vector<A>>(FWD(x)); });
  if (o == "o.copy_value" && n == 4)
  {
    cells3 cs{t[3]};
    oA r{};
    if (t[1] == "L")
      r = fo::copy_value(opt_ref<A>(cs, t[2]));
    else if (t[1] == "C")
      r = fo::copy_value(opt_ref<A const>(cs, t[2]));
    else
      throw bad_op{};
    cs.bump();
    return show(r);
  }
  if (o == "o.deref" && n == 4)
  {
    // p: optional<A *>, i: optional<vector<A>::iterator>, both pointing at a cell
    cells3 cs{t[3]};
    auto const fin = [&cs](fo::reference<A> const &r) -> std::string
    {
      cs.bump();
      return r.has_value() ? "J" + cs.name(&r.get_unsafe().get()) + "=" + show(r.get_unsafe().get()) : std::string{"N"};
    };
    if (t[1] == "p")
    {
      opt<A *> const src{t[2] == "N" ? opt<A *>{} : opt<A *>{&opt_ref<A>(cs, t[2]).get_unsafe().get()}};
      return fin(fo::deref(src));
    }
    if (t[1] == "i")
    {
      using it = std::vector<A>::iterator;
      opt<it> const src{t[2] == "N" ? opt<it>{} : opt<it>{cs.c.begin() + (&opt_ref<A>(cs, t[2]).get_unsafe().get() - cs.c.data())}};
      return fin(fo::deref(src));
    }
    throw bad_op{};
  }
  if (o == "o.deref_up" && n == 2)
  {
    // optional<unique_ptr<A>>: the reference designates the object the pointer owns
    oA const v{tok<oA>(t[1])};
    using up = std::unique_ptr<A>;
    opt<up> const src{v.has_value() ? opt<up>{std::make_unique<A>(v.get_unsafe())} : opt<up>{}};
    fo::reference<A> const r{fo::deref(src)};
    if (!r.has_value())
      return "N";
    return std::string{&r.get_unsafe().get() == src.get_unsafe().get() ? "J&u=" : "J&?="} + show(r.get_unsafe().get());
  }
  if (o == "o.mvm1" && n == 3)
    return cat1(t[1], tok<oA>(t[2]), [&](auto &&x) -> std::string
                {
                  fo::maybe_void_multi([](A a) { lg("t", {a.v()}); }, FWD(x));
                  return "u";
                });
  if (o == "o.mvm2" && n == 4)
    return cat2(t[1], tok<oA>(t[2]), tok<oB>(t[3]), [&](auto &&x, auto &&y) -> std::string
                {
                  fo::maybe_void_multi([](A a, B b) { lg("t", {a.v(), b.v()}); }, FWD(x), FWD(y));
                  return "u";
                });
  if (o == "o.mvm3" && n == 5)
    return cat3(t[1], tok<oA>(t[2]), tok<oB>(t[3]), tok<oC>(t[4]), [&](auto &&x, auto &&y, auto &&z) -> std::string
                {
                  fo::maybe_void_multi([](A a, B b, C c) { lg("t", {a.v(), b.v(), c.v()}); }, FWD(x), FWD(y), FWD(z));
                  return "u";
                });
  if (o == "o.assign" && n == 3)
  {
    // assign only accepts an rvalue argument (its requires-clause compares Element with remove_cv_t<Arg>, and Arg is a
    // reference type for lvalues)
    oA x{tok<oA>(t[1])};
    A &r{fo::assign(x, tok<A>(t[2]))};
    return show(x) + " " + show(r) + (x.has_value() && &r == &x.get_unsafe() ? " in" : " other");
  }
  if (o == "o.set" && n == 3)
  {
    oA x{tok<oA>(t[1])};
    if (!x.has_value())
      throw bad_op{}; // precondition of get_unsafe
    x.get_unsafe() = tok<A>(t[2]);
    return show(x);
  }
  if (o == "o.from_ptr" && n == 3)
  {
    cells3 cs{t[2]};
    A *const p{t[1] == "P-" ? nullptr : (t[1].size() == 3 && t[1][0] == 'P') ? &cs.at(t[1], 1) : throw bad_op{}};
    fo::reference<A> const r{fo::from_pointer(p)};
    A const *const pc{p};
    fo::reference<A const> const rc{fo::from_pointer(pc)};
    if (r.has_value() != rc.has_value() || (r.has_value() && &r.get_unsafe().get() != &rc.get_unsafe().get()))
      return "CONST-DIFFERS";
    return r.has_value() ? "J" + cs.name(&r.get_unsafe().get()) : std::string{"N"};
  }
  if (o == "o.to_ptr" && n == 3)
  {
    cells3 cs{t[2]};
    A *const p{fo::to_pointer(opt_ref<A>(cs, t[1]))};
    A const *const pc{fo::to_pointer(opt_ref<A const>(cs, t[1]))};
    if (p != pc)
      return "CONST-DIFFERS";
    return p == nullptr ? std::string{"P-"} : "P" + cs.name(p);
  }
  if (o == "o.to_exc" && n == 3)
    return cat1(t[1], tok<oA>(t[2]), [&](auto &&x) -> A
                {
                  return fo::to_exception(FWD(x), []
                                          {
                                            lg("m", {});
                                            return E2{};
                                          });
                });
  if (o == "o.make" && n == 3)
    return cat1(t[1], tok<A>(t[2]), [&](auto &&x) -> oA { return fo::make(FWD(x)); });
  if (o == "o.out" && n == 2)
  {
    std::ostringstream s;
    s << tok<oA>(t[1]);
    return s.str();
  }
  if (o == "o.nothing" && n == 1)
  {
    oA const x = fo::nothing{};
    return show(x);
  }

  // ---------------- either
  if (o == "e.cmp" && n == 3)
  {
    eA const a{tok<eA>(t[1])}, b{tok<eA>(t[2])};
    return "[" + show(a == b) + show(a != b) + "]";
  }
  if (o == "e.cmp.same" && n == 2)
  {
    eA const a{tok<eA>(t[1])};
    return "[" + show(a == a) + show(a != a) + "]";
  }
  if (o == "e.construct" && n == 4)
  {
    bool const b{tok<bool>(t[1])};
    std::optional<A> const sv{tokx<A>(t[2])};
    std::optional<E> const fv_{tokx<E>(t[3])};
    return show(fe::construct(b, thunk<A>("s", sv), thunk<E>("f", fv_)));
  }
  if (o == "e.err_from_opt" && n == 3)
    return cat1(t[1], tok<opt<E>>(t[2]), [&](auto &&x) -> err { return fe::error_from_optional(FWD(x)); });
  if (o == "e.mk_fail" && n == 3)
    return cat1(t[1], tok<E>(t[2]), [&](auto &&x) -> eA { return fe::make_failure<A>(FWD(x)); });
  if (o == "e.mk_succ" && n == 3)
    return cat1(t[1], tok<A>(t[2]), [&](auto &&x) -> eA { return fe::make_success<E>(FWD(x)); });
  if (o == "e.out" && n == 2)
  {
    std::ostringstream s;
    s << tok<eA>(t[1]);
    return s.str();
  }
  if (o == "e.seq_err" && n == 4)
  {
    // the function's table: `u` = success (no_error), a digit = that failure, `X` = throws
    std::string const &tb = t[3];
    if (tb.size() != 3 || tb.find_first_not_of("u012X") != std::string::npos)
      throw bad_op{};
    return cat1(t[1], tok<std::vector<A>>(t[2]), [&](auto &&x) -> err
                {
                  return fe::sequence_error(FWD(x), [&tb](A a) -> err
                                            {
                                              lg("f", {a.v()});
                                              char const c{tb[static_cast<std::size_t>(ix(a.v()))]};
                                              if (c == 'X')
                                                throw E2{};
                                              return c == 'u' ? err{fe::no_error{}} : err{E{c - '0'}};
                                            });
                });
  }
  if (o == "e.to_exc" && n == 3)
    return cat1(t[1], tok<eA>(t[2]), [&](auto &&x) -> A
                {
                  return fe::to_exception(FWD(x), [](E f)
                                          {
                                            lg("m", {f.v()});
                                            return E1{f.v()};
                                          });
                });
  if (o == "e.set" && n == 3)
  {
    eA x{tok<eA>(t[1])};
    if (x.has_success())
      x.get_success_unsafe() = tok<A>(t[2]);
    else
      x.get_failure_unsafe() = tok<E>(t[2]);
    return show(x);
  }

  // ---------------- variant
  if (o == "v.to_opt_ref" && n == 5)
  {
    // L: to_optional_ref<T>(variant &), written through afterwards; C: to_optional_ref<T const>(variant const &)
    // (to_optional_ref<T const> on a non-const variant does not compile: make_ref yields reference<T>)
    std::string const &c = t[1];
    var3 x{tok<var3>(t[3])};
    auto const go = [&]<typename T>(T const &nv) -> std::string
    {
      auto const fin = [&x](auto const &r) -> std::string
      {
        if (!r.has_value())
          return "N - " + show(x);
        auto const &held{r.get_unsafe().get()};
        bool const in{std::visit([&held](auto const &a) -> bool { return static_cast<void const *>(&a) == static_cast<void const *>(&held); }, x.impl())};
        std::string const first{"J" + show(held) + (in ? " in " : " other ")};
        return first + show(x);
      };
      if (c == "L")
      {
        fo::reference<T> const r{fv::to_optional_ref<T>(x)};
        if (r.has_value())
          r.get_unsafe().get() = nv;
        return fin(r);
      }
      if (c == "C")
        return fin(fv::to_optional_ref<T const>(std::as_const(x)));
      throw bad_op{};
    };
    if (t[2] == "0")
      return go(tok<A>(t[4]));
    if (t[2] == "1")
      return go(tok<B>(t[4]));
    if (t[2] == "2")
      return go(tok<C>(t[4]));
    throw bad_op{};
  }
  if (o == "v.get" && n == 3)
  {
    // free get_unsafe<T> on the held type (its precondition), read through the const and written through the non-const overload
    var3 x{tok<var3>(t[1])};
    auto const go = [&]<typename T>(T const &nv) -> std::string
    {
      std::string const r{show(fv::get_unsafe<T>(std::as_const(x)))};
      fv::get_unsafe<T>(x) = nv;
      return r + " " + show(x);
    };
    switch (x.type_index())
    {
    case 0: return go(tok<A>(t[2]));
    case 1: return go(tok<B>(t[2]));
    case 2: return go(tok<C>(t[2]));
    default: throw bad_op{};
    }
  }
  if (o == "v.out" && n == 2)
  {
    std::ostringstream s;
    s << tok<var3>(t[1]);
    return s.str();
  }
  if (o == "v.tinfo" && n == 2)
  {
    var3 const x{tok<var3>(t[1])};
    std::type_info const &ti{fv::type_info(x)};
    std::string const nm{fv::current_type_name(x)};
    int const byinfo{ti == typeid(A) ? 0 : ti == typeid(B) ? 1 : ti == typeid(C) ? 2 : 9};
    int const byname{nm == fcppt::type_name_from_index(typeid(A))   ? 0
                     : nm == fcppt::type_name_from_index(typeid(B)) ? 1
                     : nm == fcppt::type_name_from_index(typeid(C)) ? 2
                                                                     : 9};
    return std::to_string(byinfo) + std::to_string(byname) + show(x.is_invalid());
  }
  if (o == "v.dyn" && n == 4)
  {
    // <K | C> <type list> <dynamic type: 0 base, 1 d1, 2 d2 (: d1), 3 d3>
    dbase b0;
    d1 b1;
    d2 b2;
    d3 b3;
    dbase &b{t[3] == "0" ? b0 : t[3] == "1" ? static_cast<dbase &>(b1) : t[3] == "2" ? static_cast<dbase &>(b2) : t[3] == "3" ? static_cast<dbase &>(b3) : throw bad_op{}};
    if (t[1] == "L")
      return dyn_cast_list<dbase>(t[2], b);
    if (t[1] == "C")
    {
      // the const flavour: list of const types, const base
      dbase const &cb{b};
      if (t[2] == "12")
        return dyn_cast_op<dbase const, d1 const, d2 const>(cb);
      if (t[2] == "21")
        return dyn_cast_op<dbase const, d2 const, d1 const>(cb);
      throw bad_op{};
    }
    throw bad_op{};
  }


  if (o == "o.asg" && n == 4)
    return asg_op(t[1], tok<oA>(t[2]), tok<oA>(t[3]));
  if (o == "e.asg" && n == 4)
    return asg_op(t[1], tok<eA>(t[2]), tok<eA>(t[3]));
  if (o == "v.asg" && n == 4)
    return asg_op(t[1], tok<var3>(t[2]), tok<var3>(t[3]));
  if (o == "o.assign.own" && n == 2)
  {
    // the argument of assign is (an rvalue reference to) the optional's own content
    oA x{tok<oA>(t[1])};
    if (!x.has_value())
      throw bad_op{};
    A &r{fo::assign(x, std::move(x.get_unsafe()))};
    return show(x) + " " + show(r) + (&r == &x.get_unsafe() ? " in" : " other");
  }
  // ---------------- constructors (object_impl.hpp): an lvalue argument is copied, not moved from
  if (o == "o.ctor" && n == 3)
    return cat1(t[1], tok<A>(t[2]), [&](auto &&x) -> oA { return oA{FWD(x)}; });
  if (o == "e.ctor" && n == 4)
  {
    if (t[2] == "S")
      return cat1(t[1], tok<A>(t[3]), [&](auto &&x) -> eA { return eA{FWD(x)}; });
    if (t[2] == "F")
      return cat1(t[1], tok<E>(t[3]), [&](auto &&x) -> eA { return eA{FWD(x)}; });
    throw bad_op{};
  }
  if (o == "v.ctor" && n == 3)
  {
    var3 const v{tok<var3>(t[2])};
    switch (v.type_index())
    {
    case 0: return cat1(t[1], std::get<0>(v.impl()), [&](auto &&x) -> var3 { return var3{FWD(x)}; });
    case 1: return cat1(t[1], std::get<1>(v.impl()), [&](auto &&x) -> var3 { return var3{FWD(x)}; });
    case 2: return cat1(t[1], std::get<2>(v.impl()), [&](auto &&x) -> var3 { return var3{FWD(x)}; });
    default: throw bad_op{};
    }
  }
  // to_exception on an lvalue returns a reference to the value inside the source
  if (o == "o.to_exc_ref" && n == 3)
  {
    auto const go = [&](auto &x) -> std::string
    {
      auto &r{fo::to_exception(x, []
                               {
                                 lg("m", {});
                                 return E2{};
                               })};
      static_assert(std::is_lvalue_reference_v<decltype(fo::to_exception(x, [] { return E2{}; }))>);
      return std::string{&r == &x.get_unsafe() ? "in" : "other"} + ":" + show(r);
    };
    oA x{tok<oA>(t[2])};
    if (t[1] == "L")
      return go(x);
    if (t[1] == "C")
      return go(std::as_const(x));
    throw bad_op{};
  }
  if (o == "e.to_exc_ref" && n == 3)
  {
    auto const go = [&](auto &x) -> std::string
    {
      auto &r{fe::to_exception(x, [](E const &f)
                               {
                                 lg("m", {f.v()});
                                 return E1{f.v()};
                               })};
      return std::string{&r == &x.get_success_unsafe() ? "in" : "other"} + ":" + show(r);
    };
    eA x{tok<eA>(t[2])};
    if (t[1] == "L")
      return go(x);
    if (t[1] == "C")
      return go(std::as_const(x));
    throw bad_op{};
  }

  // ---------------- monad
  if (o == "m.chain2.o" && n == 5)
  {
    auto const f = tbl<oB>(3, t[3]);
    auto const g = tbl<oC>(3, t[4]);
    return cat1(t[1], tok<oA>(t[2]), [&](auto &&x) -> oC { return fcppt::monad::chain(FWD(x), fn1<oB, A>("f", f), fn1<oC, B>("g", g)); });
  }
  if (o == "m.chain2.e" && n == 5)
  {
    auto const f = tbl<eB>(3, t[3]);
    auto const g = tbl<eC>(3, t[4]);
    return cat1(t[1], tok<eA>(t[2]), [&](auto &&x) -> eC { return fcppt::monad::chain(FWD(x), fn1<eB, A>("f", f), fn1<eC, B>("g", g)); });
  }
  if (o == "m.chain0.o" && n == 3)
    return cat1(t[1], tok<oA>(t[2]), [&](auto &&x) -> oA { return fcppt::monad::chain(FWD(x)); });
  if (o == "m.do3.o" && n == 5)
  {
    auto const f = tbl<oB>(3, t[3]);
    auto const g = tbl<oC>(9, t[4]);
    return cat1(t[1], tok<oA>(t[2]), [&](auto &&x) -> oC
                {
                  return fcppt::monad::do_(
                      FWD(x), [&f](A const &a) -> oB { return fn1<oB, A>("f", f)(a); },
                      [&g](A const &a, B const &b) -> oC { return fn2<oC, A, B>("g", g)(a, b); });
                });
  }
  if (o == "m.do3.e" && n == 5)
  {
    auto const f = tbl<eB>(3, t[3]);
    auto const g = tbl<eC>(9, t[4]);
    return cat1(t[1], tok<eA>(t[2]), [&](auto &&x) -> eC
                {
                  return fcppt::monad::do_(
                      FWD(x), [&f](A const &a) -> eB { return fn1<eB, A>("f", f)(a); },
                      [&g](A const &a, B const &b) -> eC { return fn2<eC, A, B>("g", g)(a, b); });
                });
  }
  // monad::return_ only accepts rvalues (instance<>::return_ requires move_constructible<Value> with Value deduced as a
  // reference type for lvalues)
  if (o == "m.ret.o" && n == 2)
    return show(fcppt::monad::return_<opt<C>>(tok<A>(t[1])));
  if (o == "m.ret.e" && n == 2)
    return show(fcppt::monad::return_<eith<E, C>>(tok<A>(t[1])));
  return op_vv(t);
}

// ------------------------------------------------------------------ the valueless state (is_invalid)
// `thrower`'s copy / move construction throws when the source is armed; assignment does not.  Assigning a variant that
// holds an armed thrower to one that holds an A destroys the A first: the target is left valueless.
struct thrower
{
  bool armed{false};
  thrower() = default;
  thrower(thrower const &o) : armed{o.armed}
  {
    if (o.armed)
      throw E2{};
  }
  thrower(thrower &&o) : armed{o.armed} // NOLINT
  {
    if (o.armed)
      throw E2{};
  }
  thrower &operator=(thrower const &o)
  {
    armed = o.armed;
    return *this;
  }
  thrower &operator=(thrower &&o) // NOLINT
  {
    armed = o.armed;
    return *this;
  }
  ~thrower() = default;
  friend bool operator==(thrower const &, thrower const &) { return true; }
  friend bool operator!=(thrower const &, thrower const &) { return false; }
  friend bool operator<(thrower const &, thrower const &) { return false; }
  friend std::ostream &operator<<(std::ostream &s, thrower const &) { return s << 'T'; }
};

using var2 = fcppt::variant::object<A, thrower>;

std::string show2(var2 const &x)
{
  switch (x.impl().index())
  {
  case 0: return "A" + std::to_string(std::get<0>(x.impl()).v());
  case 1: return "T";
  default: return "V";
  }
}

// A<d>, T (holds an unarmed thrower), V (valueless, made by a throwing assignment)
var2 mk2(std::string const &s)
{
  if (s == "T")
    return var2{thrower{}};
  if (s == "V")
  {
    var2 x{A{0}};
    var2 y{thrower{}};
    fcppt::variant::get_unsafe<thrower>(y).armed = true;
    try
    {
      x = y;
    }
    catch (E2 const &)
    {
    }
    return x;
  }
  if (s.size() == 2 && s[0] == 'A')
  {
    char const *p = s.c_str() + 1;
    return var2{io<A>::rd(p)};
  }
  throw bad_op{};
}

// continuations that take a non-const reference and write through it (non-const lvalue sources): the argument must be
// the object inside the source, so the source shows the new value afterwards
template <typename X>
void bump(X &x)
{
  x = X{(x.v() + 1) % 3};
}
template <typename Rt, typename X>
auto fn1m(char const *const site, table<Rt> const &t)
{
  return [site, &t](X &x) -> Rt
  {
    int const old{x.v()};
    lg(site, {old});
    bump(x);
    return t.at(ix(old));
  };
}
template <typename Rt, typename X, typename Y>
auto fn2m(char const *const site, table<Rt> const &t)
{
  return [site, &t](X &x, Y &y) -> Rt
  {
    int const ox{x.v()}, oy{y.v()};
    lg(site, {ox, oy});
    bump(x);
    bump(y);
    return t.at(ix(ox) * 3 + ix(oy));
  };
}

std::string op_mut(std::vector<std::string> const &t)
{
  std::string const &o = t[0];
  std::size_t const n = t.size();
  namespace fo = fcppt::optional;
  namespace fe = fcppt::either;
  namespace fv = fcppt::variant;
  if (o == "o.map.mut" && n == 3)
  {
    auto const f = tbl<B>(3, t[2]);
    oA x{tok<oA>(t[1])};
    oB const r{fo::map(x, fn1m<B, A>("f", f))};
    return show(r) + " " + show(x);
  }
  if (o == "o.bind.mut" && n == 3)
  {
    auto const f = tbl<oB>(3, t[2]);
    oA x{tok<oA>(t[1])};
    oB const r{fo::bind(x, fn1m<oB, A>("f", f))};
    return show(r) + " " + show(x);
  }
  if (o == "o.maybe.mut" && n == 4)
  {
    std::optional<B> const d{tokx<B>(t[2])};
    auto const f = tbl<B>(3, t[3]);
    oA x{tok<oA>(t[1])};
    B const r{fo::maybe(x, thunk<B>("d", d), fn1m<B, A>("t", f))};
    return show(r) + " " + show(x);
  }
  if (o == "o.maybe_void.mut" && n == 2)
  {
    oA x{tok<oA>(t[1])};
    fo::maybe_void(x, [](A &a)
                   {
                     lg("t", {a.v()});
                     bump(a);
                   });
    return "u " + show(x);
  }
  if (o == "o.apply2.mut" && n == 4)
  {
    auto const f = tbl<R>(9, t[3]);
    oA x{tok<oA>(t[1])};
    oB y{tok<oB>(t[2])};
    opt<R> const r{fo::apply(fn2m<R, A, B>("f", f), x, y)};
    return show(r) + " " + show(x) + " " + show(y);
  }
  if (o == "o.mm2.mut" && n == 5)
  {
    std::optional<R> const d{tokx<R>(t[3])};
    auto const f = tbl<R>(9, t[4]);
    oA x{tok<oA>(t[1])};
    oB y{tok<oB>(t[2])};
    R const r{fo::maybe_multi(thunk<R>("d", d), fn2m<R, A, B>("t", f), x, y)};
    return show(r) + " " + show(x) + " " + show(y);
  }
  if (o == "e.map.mut" && n == 3)
  {
    auto const f = tbl<B>(3, t[2]);
    eA x{tok<eA>(t[1])};
    eB const r{fe::map(x, fn1m<B, A>("f", f))};
    return show(r) + " " + show(x);
  }
  if (o == "e.bind.mut" && n == 3)
  {
    auto const f = tbl<eB>(3, t[2]);
    eA x{tok<eA>(t[1])};
    eB const r{fe::bind(x, fn1m<eB, A>("f", f))};
    return show(r) + " " + show(x);
  }
  if (o == "e.mapf.mut" && n == 3)
  {
    auto const f = tbl<B>(3, t[2]);
    eA x{tok<eA>(t[1])};
    eith<B, A> const r{fe::map_failure(x, fn1m<B, E>("f", f))};
    return show(r) + " " + show(x);
  }
  if (o == "e.match.mut" && n == 4)
  {
    auto const ff = tbl<R>(3, t[2]);
    auto const fs = tbl<R>(3, t[3]);
    eA x{tok<eA>(t[1])};
    R const r{fe::match(x, fn1m<R, E>("ff", ff), fn1m<R, A>("fs", fs))};
    return show(r) + " " + show(x);
  }
  if (o == "e.apply2.mut" && n == 4)
  {
    auto const f = tbl<R>(9, t[3]);
    eA x{tok<eA>(t[1])};
    eB y{tok<eB>(t[2])};
    eith<E, R> const r{fe::apply(fn2m<R, A, B>("f", f), x, y)};
    return show(r) + " " + show(x) + " " + show(y);
  }
  if (o == "v.match.mut" && n == 5)
  {
    auto const fa = tbl<R>(3, t[2]);
    auto const fb = tbl<R>(3, t[3]);
    auto const fc = tbl<R>(3, t[4]);
    var3 x{tok<var3>(t[1])};
    R const r{fv::match(x, fn1m<R, A>("a", fa), fn1m<R, B>("b", fb), fn1m<R, C>("c", fc))};
    return show(r) + " " + show(x);
  }
  if (o == "v.apply1.mut" && n == 3)
  {
    auto const f = tbl<R>(9, t[2]);
    var3 x{tok<var3>(t[1])};
    R const r{fv::apply(
        [&f](auto &a) -> R
        {
          int const i = std::remove_cvref_t<decltype(a)>::tag;
          int const old{a.v()};
          lg("f", {i, old});
          bump(a);
          return f.at(i * 3 + ix(old));
        },
        x)};
    return show(r) + " " + show(x);
  }
  throw bad_op{};
}

std::string op_vv(std::vector<std::string> const &t)
{
  std::string const &o = t[0];
  std::size_t const n = t.size();
  namespace fv = fcppt::variant;
  if (o == "vv.assign" && n == 4)
  {
    var2 x{mk2(t[1])};
    var2 y{mk2(t[2])};
    bool const armed{tok<bool>(t[3])};
    if (armed)
    {
      if (!fv::holds_type<thrower>(y))
        throw bad_op{};
      fv::get_unsafe<thrower>(y).armed = true;
    }
    bool threw{false};
    try
    {
      x = y;
    }
    catch (E2 const &)
    {
      threw = true;
    }
    return show2(x) + " " + show(threw);
  }
  if (o == "vv.obs" && n == 3)
  {
    var2 const x{mk2(t[1])};
    std::string const &k = t[2];
    if (k == "invalid")
      return show(x.is_invalid());
    if (k == "index")
      return x.type_index() == std::variant_npos ? "npos" : std::to_string(x.type_index());
    if (k == "holds")
      return "[" + show(fv::holds_type<A>(x)) + show(fv::holds_type<thrower>(x)) + "]";
    if (k == "to_opt")
      return show(fv::to_optional<A>(x));
    if (k == "to_opt_ref")
    {
      auto const r{fv::to_optional_ref<A const>(x)};
      return r.has_value() ? "J" + show(r.get_unsafe().get()) : std::string{"N"};
    }
    auto const f = [](auto const &a) -> int
    {
      if constexpr (std::is_same_v<std::remove_cvref_t<decltype(a)>, A>)
      {
        lg("a", {a.v()});
        return a.v();
      }
      else
      {
        lg("t", {});
        return 7;
      }
    };
    if (k == "apply")
      return std::to_string(fv::apply(f, x));
    if (k == "match")
      return std::to_string(fv::match(
          x,
          [](A const &a) -> int
          {
            lg("a", {a.v()});
            return a.v();
          },
          [](thrower const &) -> int
          {
            lg("t", {});
            return 7;
          }));
    if (k == "tinfo")
    {
      std::type_info const &ti{fv::type_info(x)};
      return ti == typeid(A) ? "0" : ti == typeid(thrower) ? "1" : "9";
    }
    if (k == "out")
    {
      std::ostringstream os;
      os << x;
      return os.str();
    }
    throw bad_op{};
  }
  if (o == "vv.cmp" && n == 3)
  {
    var2 const l{mk2(t[1])}, r{mk2(t[2])};
    return "[" + show(l == r) + show(l != r) + show(l < r) + "]";
  }
  if (o == "vv.compare" && n == 4)
  {
    var2 const l{mk2(t[1])}, r{mk2(t[2])};
    bool const res{tok<bool>(t[3])};
    return show(fv::compare(l, r, [res](auto const &a, auto const &) -> bool
                            {
                              if constexpr (std::is_same_v<std::remove_cvref_t<decltype(a)>, A>)
                                lg("c", {0});
                              else
                                lg("c", {1});
                              return res;
                            }));
  }
  return op_mut(t);
}

// ------------------------------------------------------------------ operations
std::string op(std::vector<std::string> const &t)
{
  std::string const &o = t[0];
  std::size_t const n = t.size();
  namespace fo = fcppt::optional;
  namespace fe = fcppt::either;
  namespace fv = fcppt::variant;

  // ---------------- optional
  if (o == "o.map" && n == 4)
  {
    auto const f = tbl<B>(3, t[3]);
    return cat1(t[1], tok<oA>(t[2]), [&](auto &&x) -> oB { return fo::map(FWD(x), fn1<B, A>("f", f)); });
  }
  if (o == "o.bind" && n == 4)
  {
    auto const f = tbl<oB>(3, t[3]);
    return cat1(t[1], tok<oA>(t[2]), [&](auto &&x) -> oB { return fo::bind(FWD(x), fn1<oB, A>("f", f)); });
  }
  if (o == "o.mbind" && n == 4)
  {
    auto const f = tbl<oB>(3, t[3]);
    return cat1(t[1], tok<oA>(t[2]), [&](auto &&x) -> oB { return fcppt::monad::bind(FWD(x), fn1<oB, A>("f", f)); });
  }
  if (o == "o.join" && n == 3)
    return cat1(t[1], tok<opt<oA>>(t[2]), [&](auto &&x) -> oA { return fo::join(FWD(x)); });
  if (o == "o.apply1" && n == 4)
  {
    auto const f = tbl<R>(3, t[3]);
    return cat1(t[1], tok<oA>(t[2]), [&](auto &&x) -> opt<R> { return fo::apply(fn1<R, A>("f", f), FWD(x)); });
  }
  if (o == "o.apply2" && n == 5)
  {
    auto const f = tbl<R>(9, t[4]);
    return cat2(t[1], tok<oA>(t[2]), tok<oB>(t[3]), [&](auto &&x, auto &&y) -> opt<R>
                { return fo::apply(fn2<R, A, B>("f", f), FWD(x), FWD(y)); });
  }
  if (o == "o.apply3" && n == 6)
  {
    auto const f = tbl<R>(27, t[5]);
    return cat3(t[1], tok<oA>(t[2]), tok<oB>(t[3]), tok<oC>(t[4]), [&](auto &&x, auto &&y, auto &&z) -> opt<R>
                { return fo::apply(fn3<R, A, B, C>("f", f), FWD(x), FWD(y), FWD(z)); });
  }
  if (o == "o.filter" && n == 4)
  {
    auto const p = tbl<bool>(3, t[3]);
    return cat1(t[1], tok<oA>(t[2]), [&](auto &&x) -> oA
                {
                  return fo::filter(FWD(x), [&p](A a) -> bool // by value: a combinator that moves into the predicate poisons the result
                                    {
                                      lg("p", {a.v()});
                                      return p.at(ix(a.v()));
                                    });
                });
  }
  if (o == "o.alt" && n == 4)
  {
    std::optional<oA> const a{tokx<oA>(t[3])};
    return cat1(t[1], tok<oA>(t[2]), [&](auto &&x) -> oA { return fo::alternative(FWD(x), thunk<oA>("a", a)); });
  }
  if (o == "o.combine" && n == 5)
  {
    auto const f = tbl<A>(9, t[4]);
    return cat2(t[1], tok<oA>(t[2]), tok<oA>(t[3]), [&](auto &&x, auto &&y) -> oA
                { return fo::combine(FWD(x), FWD(y), fn2<A, A, A>("f", f)); });
  }
  if (o == "o.cat" && n == 3)
    return cat1(t[1], tok<std::vector<oA>>(t[2]), [&](auto &&x) -> std::vector<A> { return fo::cat<std::vector<A>>(FWD(x)); });
  if (o == "o.seq" && n == 3)
    return cat1(t[1], tok<std::vector<oA>>(t[2]), [&](auto &&x) -> opt<std::vector<A>>
                { return fo::sequence<std::vector<A>>(FWD(x)); });
  if (o == "o.from" && n == 4)
  {
    std::optional<A> const d{tokx<A>(t[3])};
    return cat1(t[1], tok<oA>(t[2]), [&](auto &&x) -> A { return fo::from(FWD(x), thunk<A>("d", d)); });
  }
  if (o == "o.maybe" && n == 5)
  {
    std::optional<B> const d{tokx<B>(t[3])};
    auto const f = tbl<B>(3, t[4]);
    return cat1(t[1], tok<oA>(t[2]), [&](auto &&x) -> B { return fo::maybe(FWD(x), thunk<B>("d", d), fn1<B, A>("t", f)); });
  }
  if (o == "o.maybe_void" && n == 3)
  {
    return cat1(t[1], tok<oA>(t[2]), [&](auto &&x) -> std::string
                {
                  fo::maybe_void(FWD(x), [](A a) { lg("t", {a.v()}); });
                  return "u";
                });
  }
  if (o == "o.mm1" && n == 5)
  {
    std::optional<R> const d{tokx<R>(t[3])};
    auto const f = tbl<R>(3, t[4]);
    return cat1(t[1], tok<oA>(t[2]), [&](auto &&x) -> R { return fo::maybe_multi(thunk<R>("d", d), fn1<R, A>("t", f), FWD(x)); });
  }
  if (o == "o.mm2" && n == 6)
  {
    std::optional<R> const d{tokx<R>(t[4])};
    auto const f = tbl<R>(9, t[5]);
    return cat2(t[1], tok<oA>(t[2]), tok<oB>(t[3]), [&](auto &&x, auto &&y) -> R
                { return fo::maybe_multi(thunk<R>("d", d), fn2<R, A, B>("t", f), FWD(x), FWD(y)); });
  }
  if (o == "o.mm3" && n == 7)
  {
    std::optional<R> const d{tokx<R>(t[5])};
    auto const f = tbl<R>(27, t[6]);
    return cat3(t[1], tok<oA>(t[2]), tok<oB>(t[3]), tok<oC>(t[4]), [&](auto &&x, auto &&y, auto &&z) -> R
                { return fo::maybe_multi(thunk<R>("d", d), fn3<R, A, B, C>("t", f), FWD(x), FWD(y), FWD(z)); });
  }
  if (o == "o.make_if" && n == 3)
  {
    bool const b{tok<bool>(t[1])};
    std::optional<A> const v{tokx<A>(t[2])};
    return show(fo::make_if(b, thunk<A>("f", v)));
  }
  if (o == "o.cmp" && n == 3)
  {
    oA const a{tok<oA>(t[1])}, b{tok<oA>(t[2])};
    return "[" + show(a == b) + show(a != b) + show(a < b) + "]";
  }
  if (o == "o.assoc" && n == 5)
  {
    auto const f = tbl<oB>(3, t[3]);
    auto const g = tbl<oC>(3, t[4]);
    oA const src{tok<oA>(t[2])};
    std::string const l{cat1(t[1], src, [&](auto &&x) -> oC { return fo::bind(fo::bind(FWD(x), fn1<oB, A>("f", f)), fn1<oC, B>("g", g)); })};
    std::string const ll{show_log()};
    g_log.clear();
    std::string const r{cat1(t[1], src, [&](auto &&x) -> oC
                             { return fo::bind(FWD(x), [&](A a) -> oC { return fo::bind(fn1<oB, A>("f", f)(std::move(a)), fn1<oC, B>("g", g)); }); })};
    return l + " | " + ll + " || " + r;
  }
  if (o == "o.mapcomp" && n == 5)
  {
    auto const f = tbl<B>(3, t[3]);
    auto const g = tbl<C>(3, t[4]);
    oA const src{tok<oA>(t[2])};
    std::string const l{cat1(t[1], src, [&](auto &&x) -> oC { return fo::map(fo::map(FWD(x), fn1<B, A>("f", f)), fn1<C, B>("g", g)); })};
    std::string const ll{show_log()};
    g_log.clear();
    std::string const r{cat1(t[1], src, [&](auto &&x) -> oC
                             { return fo::map(FWD(x), [&](A a) -> C { return fn1<C, B>("g", g)(fn1<B, A>("f", f)(std::move(a))); }); })};
    return l + " | " + ll + " || " + r;
  }

  // ---------------- either
  if (o == "e.match" && n == 5)
  {
    auto const ff = tbl<R>(3, t[3]);
    auto const fs = tbl<R>(3, t[4]);
    return cat1(t[1], tok<eA>(t[2]), [&](auto &&x) -> R { return fe::match(FWD(x), fn1<R, E>("ff", ff), fn1<R, A>("fs", fs)); });
  }
  if (o == "e.map" && n == 4)
  {
    auto const f = tbl<B>(3, t[3]);
    return cat1(t[1], tok<eA>(t[2]), [&](auto &&x) -> eB { return fe::map(FWD(x), fn1<B, A>("f", f)); });
  }
  if (o == "e.bind" && n == 4)
  {
    auto const f = tbl<eB>(3, t[3]);
    return cat1(t[1], tok<eA>(t[2]), [&](auto &&x) -> eB { return fe::bind(FWD(x), fn1<eB, A>("f", f)); });
  }
  if (o == "e.mbind" && n == 4)
  {
    auto const f = tbl<eB>(3, t[3]);
    return cat1(t[1], tok<eA>(t[2]), [&](auto &&x) -> eB { return fcppt::monad::bind(FWD(x), fn1<eB, A>("f", f)); });
  }
  if (o == "e.join" && n == 3)
    return cat1(t[1], tok<eith<E, eA>>(t[2]), [&](auto &&x) -> eA { return fe::join(FWD(x)); });
  if (o == "e.apply1" && n == 4)
  {
    auto const f = tbl<R>(3, t[3]);
    return cat1(t[1], tok<eA>(t[2]), [&](auto &&x) -> eith<E, R> { return fe::apply(fn1<R, A>("f", f), FWD(x)); });
  }
  if (o == "e.apply2" && n == 5)
  {
    auto const f = tbl<R>(9, t[4]);
    return cat2(t[1], tok<eA>(t[2]), tok<eB>(t[3]), [&](auto &&x, auto &&y) -> eith<E, R>
                { return fe::apply(fn2<R, A, B>("f", f), FWD(x), FWD(y)); });
  }
  if (o == "e.apply3" && n == 6)
  {
    auto const f = tbl<R>(27, t[5]);
    return cat3(t[1], tok<eA>(t[2]), tok<eB>(t[3]), tok<eC>(t[4]), [&](auto &&x, auto &&y, auto &&z) -> eith<E, R>
                { return fe::apply(fn3<R, A, B, C>("f", f), FWD(x), FWD(y), FWD(z)); });
  }
  if (o == "e.mapf" && n == 4)
  {
    auto const f = tbl<B>(3, t[3]);
    return cat1(t[1], tok<eA>(t[2]), [&](auto &&x) -> eith<B, A> { return fe::map_failure(FWD(x), fn1<B, E>("f", f)); });
  }
  if (o == "e.seq" && n == 3)
  {
    // either::sequence only compiles for rvalue sources (its requires-clause takes value_type of the
    // reference type for lvalues), so there is no L / C form of this operation
    if (t[1] != "R")
      throw bad_op{};
    std::vector<eA> x{tok<std::vector<eA>>(t[2])};
    return show(fe::sequence<std::vector<A>>(std::move(x)));
  }
  if (o == "e.first" && n == 2)
  {
    std::vector<std::optional<eA>> const l{tok<std::vector<std::optional<eA>>>(t[1])};
    using function_type = fcppt::function<eA()>;
    std::vector<function_type> fns;
    for (std::size_t i = 0; i < l.size(); ++i)
      fns.push_back(function_type{[i, &l]() -> eA
                                  {
                                    lg("n", {static_cast<int>(i)});
                                    if (!l[i].has_value())
                                      throw E2{};
                                    return *l[i];
                                  }});
    return show(fe::first_success(fns));
  }
  if (o == "e.looplong" && n == 3)
  {
    // many successes before the failure: the loop must iterate, not recurse (stack depth independent of the number of iterations)
    long long const count = vh::to_ll(t[1]);
    long long const fail = vh::to_ll(t[2]);
    if (count < 0 || count > 2000000 || fail < 0 || fail > 2)
      throw bad_op{};
    long long calls = 0;
    long long sum = 0;
    E const r{fe::loop(
        [&calls, count, fail]() -> eA
        {
          long long const c = calls++;
          return c < count ? eA{A{static_cast<int>(c % 3)}} : eA{E{static_cast<int>(fail)}};
        },
        [&sum](A a) { sum += a.v(); })};
    return "F" + std::to_string(r.v()) + " calls=" + std::to_string(calls) + " sum=" + std::to_string(sum);
  }
  if (o == "e.loop" && (n == 2 || n == 3))
  {
    std::vector<eA> const l{tok<std::vector<eA>>(t[1])};
    // the body: `u` returns, `X` throws, per value
    std::string const body{n == 3 ? t[2] : std::string{"uuu"}};
    if (body.size() != 3 || body.find_first_not_of("uX") != std::string::npos)
      throw bad_op{};
    std::deque<eA> q(l.begin(), l.end());
    int calls = 0;
    return show(fe::loop(
        [&q, &calls]() -> eA
        {
          lg("n", {calls++});
          if (q.empty())
            throw E2{};
          eA r{q.front()};
          q.pop_front();
          return r;
        },
        [&body](A a)
        {
          lg("b", {a.v()});
          if (body[static_cast<std::size_t>(ix(a.v()))] == 'X')
            throw E2{};
        }));
  }
  if (o == "e.from_opt" && n == 4)
  {
    std::optional<E> const f{tokx<E>(t[3])};
    return cat1(t[1], tok<oA>(t[2]), [&](auto &&x) -> eA { return fe::from_optional(FWD(x), thunk<E>("f", f)); });
  }
  if (o == "e.try" && n == 3)
  {
    std::string const &r = t[1];
    if (!(r == "Y" || (r.size() == 2 && (r[0] == 'R' || r[0] == 'X' || r[0] == 'Z') && r[1] >= '0' && r[1] <= '2')))
      throw bad_op{};
    auto const f = tbl<E>(3, t[2]);
    return show(fe::try_call<E1>(
        [&r]() -> A
        {
          lg("f", {});
          if (r[0] == 'Y')
            throw E2{};
          if (r[0] == 'X')
            throw E1{r[1] - '0'};
          if (r[0] == 'Z')
            throw E1d{r[1] - '0'};
          return A{r[1] - '0'};
        },
        [&f](E1 const &e) -> E
        {
          lg("t", {e.code()});
          return f.at(ix(e.code()));
        }));
  }
  if (o == "e.sopt" && n == 3)
    return cat1(t[1], tok<eA>(t[2]), [&](auto &&x) -> oA { return fe::success_opt(FWD(x)); });
  if (o == "e.fopt" && n == 3)
    return cat1(t[1], tok<eA>(t[2]), [&](auto &&x) -> opt<E> { return fe::failure_opt(FWD(x)); });
  if (o == "e.assoc" && n == 5)
  {
    auto const f = tbl<eB>(3, t[3]);
    auto const g = tbl<eC>(3, t[4]);
    eA const src{tok<eA>(t[2])};
    std::string const l{cat1(t[1], src, [&](auto &&x) -> eC { return fe::bind(fe::bind(FWD(x), fn1<eB, A>("f", f)), fn1<eC, B>("g", g)); })};
    std::string const ll{show_log()};
    g_log.clear();
    std::string const r{cat1(t[1], src, [&](auto &&x) -> eC
                             { return fe::bind(FWD(x), [&](A a) -> eC { return fe::bind(fn1<eB, A>("f", f)(std::move(a)), fn1<eC, B>("g", g)); }); })};
    return l + " | " + ll + " || " + r;
  }

  // ---------------- variant
  if (o == "v.match" && n == 6)
  {
    auto const fa = tbl<R>(3, t[3]);
    auto const fb = tbl<R>(3, t[4]);
    auto const fc = tbl<R>(3, t[5]);
    return cat1(t[1], tok<var3>(t[2]), [&](auto &&x) -> R
                { return fv::match(FWD(x), fn1<R, A>("a", fa), fn1<R, B>("b", fb), fn1<R, C>("c", fc)); });
  }
  if (o == "v.apply1" && n == 4)
  {
    auto const f = tbl<R>(9, t[3]);
    return cat1(t[1], tok<var3>(t[2]), [&](auto &&x) -> R
                {
                  return fv::apply(
                      [&f](auto &&a) -> R
                      {
                        int const i = std::remove_cvref_t<decltype(a)>::tag;
                        auto const a2{FWD(a)}; // consume the argument the way a by-value parameter would
                        lg("f", {i, a2.v()});
                        return f.at(i * 3 + ix(a2.v()));
                      },
                      FWD(x));
                });
  }
  if (o == "v.apply2" && n == 5)
  {
    auto const f = tbl<R>(81, t[4]);
    return cat2(t[1], tok<var3>(t[2]), tok<var3>(t[3]), [&](auto &&x, auto &&y) -> R
                {
                  return fv::apply(
                      [&f](auto &&a, auto &&b) -> R
                      {
                        int const i = std::remove_cvref_t<decltype(a)>::tag;
                        int const j = std::remove_cvref_t<decltype(b)>::tag;
                        auto const a2{FWD(a)};
                        auto const b2{FWD(b)};
                        lg("f", {i, a2.v(), j, b2.v()});
                        return f.at(((i * 3 + ix(a2.v())) * 3 + j) * 3 + ix(b2.v()));
                      },
                      FWD(x), FWD(y));
                });
  }
  if (o == "v.to_opt" && n == 4)
  {
    std::string const &j = t[2];
    if (j == "0")
      return cat1(t[1], tok<var3>(t[3]), [&](auto &&x) -> oA { return fv::to_optional<A>(FWD(x)); });
    if (j == "1")
      return cat1(t[1], tok<var3>(t[3]), [&](auto &&x) -> oB { return fv::to_optional<B>(FWD(x)); });
    if (j == "2")
      return cat1(t[1], tok<var3>(t[3]), [&](auto &&x) -> oC { return fv::to_optional<C>(FWD(x)); });
    throw bad_op{};
  }
  if (o == "v.compare" && n == 4)
  {
    var3 const l{tok<var3>(t[1])}, r{tok<var3>(t[2])};
    auto const c = tbl<bool>(27, t[3]);
    return show(fv::compare(l, r, [&c](auto const &a, auto const &b) -> bool
                            {
                              int const i = std::remove_cvref_t<decltype(a)>::tag;
                              static_assert(std::is_same_v<decltype(a), decltype(b)>);
                              lg("c", {i, a.v(), b.v()});
                              return c.at((i * 3 + ix(a.v())) * 3 + ix(b.v()));
                            }));
  }
  if (o == "v.cmp" && n == 3)
  {
    var3 const l{tok<var3>(t[1])}, r{tok<var3>(t[2])};
    return "[" + show(l == r) + show(l != r) + show(l < r) + "]";
  }
  if (o == "v.holds" && n == 3)
  {
    var3 const v{tok<var3>(t[2])};
    if (t[1] == "0")
      return show(fv::holds_type<A>(v));
    if (t[1] == "1")
      return show(fv::holds_type<B>(v));
    if (t[1] == "2")
      return show(fv::holds_type<C>(v));
    throw bad_op{};
  }
  if (o == "v.index" && n == 2)
    return std::to_string(tok<var3>(t[1]).type_index());

  // ---------------- the same object as both operands (lvalues only)
  if (o == "o.combine.same" && n == 4)
  {
    auto const f = tbl<A>(9, t[3]);
    return cat1(t[1], tok<oA>(t[2]), [&](auto &&x) -> oA { return fo::combine(x, x, fn2<A, A, A>("f", f)); });
  }
  if (o == "o.apply2.same" && n == 4)
  {
    auto const f = tbl<R>(9, t[3]);
    return cat1(t[1], tok<oA>(t[2]), [&](auto &&x) -> opt<R> { return fo::apply(fn2<R, A, A>("f", f), x, x); });
  }
  if (o == "o.mm2.same" && n == 5)
  {
    std::optional<R> const d{tokx<R>(t[3])};
    auto const f = tbl<R>(9, t[4]);
    return cat1(t[1], tok<oA>(t[2]), [&](auto &&x) -> R { return fo::maybe_multi(thunk<R>("d", d), fn2<R, A, A>("t", f), x, x); });
  }
  if (o == "o.alt.same" && n == 3)
    return cat1(t[1], tok<oA>(t[2]), [&](auto &&x) -> oA
                {
                  return fo::alternative(x, [&x]() -> oA
                                         {
                                           lg("a", {});
                                           return x;
                                         });
                });
  if (o == "o.cmp.same" && n == 2)
  {
    oA const a{tok<oA>(t[1])};
    return "[" + show(a == a) + show(a != a) + show(a < a) + "]";
  }
  if (o == "e.apply2.same" && n == 4)
  {
    auto const f = tbl<R>(9, t[3]);
    return cat1(t[1], tok<eA>(t[2]), [&](auto &&x) -> eith<E, R> { return fe::apply(fn2<R, A, A>("f", f), x, x); });
  }
  if (o == "v.cmp.same" && n == 2)
  {
    var3 const l{tok<var3>(t[1])};
    return "[" + show(l == l) + show(l != l) + show(l < l) + "]";
  }
  if (o == "v.compare.same" && n == 3)
  {
    var3 const l{tok<var3>(t[1])};
    auto const c = tbl<bool>(27, t[2]);
    return show(fv::compare(l, l, [&c](auto const &a, auto const &b) -> bool
                            {
                              int const i = std::remove_cvref_t<decltype(a)>::tag;
                              lg("c", {i, a.v(), b.v()});
                              return c.at((i * 3 + ix(a.v())) * 3 + ix(b.v()));
                            }));
  }

  // ---------------- continuations that return a reference to (the payload of) their argument
  // (maybe / match / apply pass the result through as decltype(auto) / invoke_result_t): the result must be the
  // payload inside the source object, not that of a temporary.  Lvalue sources only.
  if (o == "o.maybe_ref" && n == 4)
  {
    int const dflt{tok<A>(t[3]).v()};
    auto const go = [&](auto &x) -> std::string
    {
      int const &r{fo::maybe(
          x,
          [&dflt]() -> int const &
          {
            lg("d", {});
            return dflt;
          },
          [](A const &a) -> int const &
          {
            lg("t", {a.v()});
            return *a.p;
          })};
      std::string const where{&r == &dflt ? "d" : (x.has_value() && &r == x.get_unsafe().p) ? "in" : "other"};
      return where + ":" + std::to_string(r);
    };
    oA x{tok<oA>(t[2])};
    if (t[1] == "L")
      return go(x);
    if (t[1] == "C")
      return go(std::as_const(x));
    throw bad_op{};
  }
  if (o == "e.match_ref" && n == 3)
  {
    auto const go = [&](auto &x) -> std::string
    {
      int const &r{fe::match(
          x,
          [](E const &a) -> int const &
          {
            lg("ff", {a.v()});
            return *a.p;
          },
          [](A const &a) -> int const &
          {
            lg("fs", {a.v()});
            return *a.p;
          })};
      int const *const in{x.has_success() ? x.get_success_unsafe().p : x.get_failure_unsafe().p};
      return std::string{&r == in ? "in" : "other"} + ":" + std::to_string(r);
    };
    eA x{tok<eA>(t[2])};
    if (t[1] == "L")
      return go(x);
    if (t[1] == "C")
      return go(std::as_const(x));
    throw bad_op{};
  }
  if ((o == "v.match_ref" || o == "v.apply_ref") && n == 3)
  {
    bool const is_match{o == "v.match_ref"};
    auto const go = [&](auto &x) -> std::string
    {
      auto const fa = [](A const &a) -> int const &
      {
        lg("a", {a.v()});
        return *a.p;
      };
      auto const fb = [](B const &a) -> int const &
      {
        lg("b", {a.v()});
        return *a.p;
      };
      auto const fc = [](C const &a) -> int const &
      {
        lg("c", {a.v()});
        return *a.p;
      };
      auto const all = [](auto const &a) -> int const &
      {
        lg("f", {std::remove_cvref_t<decltype(a)>::tag, a.v()});
        return *a.p;
      };
      int const &r{is_match ? fv::match(x, fa, fb, fc) : fv::apply(all, x)};
      int const *const in{std::visit([](auto const &a) -> int const * { return a.p; }, x.impl())};
      return std::string{&r == in ? "in" : "other"} + ":" + std::to_string(r);
    };
    var3 x{tok<var3>(t[2])};
    if (t[1] == "L")
      return go(x);
    if (t[1] == "C")
      return go(std::as_const(x));
    throw bad_op{};
  }

  // ---------------- other container types
  if (o == "o.cat.ld" && n == 3) // std::list -> std::deque
  {
    std::vector<oA> const v{tok<std::vector<oA>>(t[2])};
    return cat1(t[1], std::list<oA>(v.begin(), v.end()), [&](auto &&x) -> std::vector<A>
                {
                  std::deque<A> const r{fo::cat<std::deque<A>>(FWD(x))};
                  return std::vector<A>(r.begin(), r.end());
                });
  }
  if (o == "o.seq.dl" && n == 3) // std::deque -> std::list
  {
    std::vector<oA> const v{tok<std::vector<oA>>(t[2])};
    return cat1(t[1], std::deque<oA>(v.begin(), v.end()), [&](auto &&x) -> opt<std::vector<A>>
                {
                  return fo::map(fo::sequence<std::list<A>>(FWD(x)), [](std::list<A> &&l) { return std::vector<A>(l.begin(), l.end()); });
                });
  }
  if (o == "v.apply3" && n == 6)
  {
    auto const f = tbl<R>(27, t[5]);
    return cat3(t[1], tok<var3>(t[2]), tok<var3>(t[3]), tok<var3>(t[4]), [&](auto &&x, auto &&y, auto &&z) -> R
                {
                  return fv::apply(
                      [&f](auto &&a, auto &&b, auto &&c) -> R
                      {
                        int const i = std::remove_cvref_t<decltype(a)>::tag;
                        int const j = std::remove_cvref_t<decltype(b)>::tag;
                        int const k = std::remove_cvref_t<decltype(c)>::tag;
                        auto const a2{FWD(a)};
                        auto const b2{FWD(b)};
                        auto const c2{FWD(c)};
                        lg("f", {i, a2.v(), j, b2.v(), k, c2.v()});
                        return f.at((ix(a2.v()) * 3 + ix(b2.v())) * 3 + ix(c2.v()));
                      },
                      FWD(x), FWD(y), FWD(z));
                });
  }
  return op2(t);
}

std::string handle1(std::vector<std::string> const &t)
{
  g_log.clear();
  g_src_mod = false;
  auto const sm = [] { return std::string{g_src_mod ? " SRC-MODIFIED" : ""}; };
  try
  {
    std::string const r{op(t)};
    return r + " | " + show_log();
  }
  catch (bad_op const &)
  {
    return "bad-op";
  }
  catch (E2 const &)
  {
    return "exc:E2" + sm() + " | " + show_log();
  }
  catch (E1 const &e)
  {
    return "exc:E1:" + std::to_string(e.d) + sm() + " | " + show_log();
  }
  catch (std::exception const &)
  {
    return "exc:std" + sm() + " | " + show_log();
  }
}

std::string handle(std::vector<std::string> const &t)
{
  // make the results of the previous lines visible before running this one: a sanitizer death inside a combinator
  // must be attributed to the line that caused it (UBSan's abort path does not run vh::on_death)
  std::fflush(stdout);
  if (t.empty())
    return "bad-op";
  if (t[0] == "all9")
  {
    std::vector<std::string> rest(t.begin() + 1, t.end());
    std::size_t star = 0, count = 0;
    for (std::size_t i = 0; i < rest.size(); ++i)
      if (rest[i] == "*")
      {
        star = i;
        ++count;
      }
    if (count != 1)
      return "bad-op";
    rest[star] = "000000000";
    if (handle1(rest) == "bad-op")
      return "bad-op";
    std::uint64_t h = vh::fnv_init;
    for (unsigned i = 0; i < 19683U; ++i)
    {
      std::string tb(9, '0');
      unsigned x = i;
      for (int k = 8; k >= 0; --k)
      {
        tb[static_cast<std::size_t>(k)] = static_cast<char>('0' + x % 3U);
        x /= 3U;
      }
      rest[star] = tb;
      h = vh::fnv(h, handle1(rest));
    }
    return "D " + vh::hex64(h);
  }
  return handle1(t);
}
}

int main() { return vh::run(handle); }
