// C10 harness: bitfield instantiations with std::uint32_t storage words
#include "c10_inst.hpp"

#include <cstdint>

namespace c10
{
factory const *factory_w32(unsigned const n) { return factory_for<std::uint32_t>(n); }
ull shifted_mask_w32(unsigned const k) { return shifted_mask_for<std::uint32_t>(k); }
bool bit_test_w32(ull const x, unsigned const k) { return bit_test_for<std::uint32_t>(x, k); }
}
