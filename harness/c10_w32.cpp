// C10 harness: bitfield instantiations with std::uint32_t storage words
#include "c10_inst.hpp"

#include <cstdint>

namespace c10
{
factory const *factory_w32(unsigned const n) { return factory_for<std::uint32_t>(n); }
}
