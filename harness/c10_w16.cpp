// C10 harness: bitfield instantiations with std::uint16_t storage words
#include "c10_inst.hpp"

#include <cstdint>

namespace c10
{
factory const *factory_w16(unsigned const n) { return factory_for<std::uint16_t>(n); }
}
