// C02 harness: the character encoding of the op lines (notes/C02-protocol.md), shared by harness/c02.cpp and the
// translation units of the statically typed family.
#ifndef VERIF_HARNESS_C02_CHARS_HPP
#define VERIF_HARNESS_C02_CHARS_HPP

#include <string>
#include <type_traits>
#include <unordered_set>

namespace c02h
{
template <typename Ch>
Ch decode_char(char const c)
{
  switch (c)
  {
  case '_':
    return static_cast<Ch>(32);
  case '/':
    return static_cast<Ch>(10);
  case '^':
    return static_cast<Ch>(9);
  case '!':
    return static_cast<Ch>(46);
  case '@':
    if constexpr (std::is_same_v<Ch, wchar_t>)
      return static_cast<Ch>(0x263A);
    else
      return static_cast<Ch>(64);
  default:
    return static_cast<Ch>(c);
  }
}

template <typename Ch>
std::basic_string<Ch> decode(std::string const &s)
{
  std::basic_string<Ch> r;
  r.reserve(s.size());
  for (char const c : s)
    r.push_back(decode_char<Ch>(c));
  return r;
}

template <typename Ch>
std::unordered_set<Ch> decode_set(std::string const &s)
{
  std::unordered_set<Ch> r;
  for (char const c : s)
    r.insert(decode_char<Ch>(c));
  return r;
}

}

#endif
