// C06 correspondence harness: the real fcppt integer helpers, instantiated for every type the
// translator (tools/cxx2lean.py) translates, behind the line protocol of lean/FcpptModel/Drv/C06.lean.
#include "common/vh.hpp"

#include <fcppt/bit/mask.hpp>
#include <fcppt/bit/shifted_mask.hpp>
#include <fcppt/bit/test.hpp>
#include <fcppt/cast/truncation_check.hpp>
#include <fcppt/enum/from_int.hpp>
#include <fcppt/math/ceil_div.hpp>
#include <fcppt/math/ceil_div_signed.hpp>
#include <fcppt/math/clamp.hpp>
#include <fcppt/math/diff.hpp>
#include <fcppt/math/div.hpp>
#include <fcppt/math/is_power_of_2.hpp>
#include <fcppt/math/log2.hpp>
#include <fcppt/math/mod.hpp>
#include <fcppt/math/next_power_of_2.hpp>
#include <fcppt/math/power_of_2.hpp>
#include <fcppt/optional/object.hpp>

#include <cstdint>
#include <functional>
#include <limits>
#include <map>
#include <string>
#include <type_traits>
#include <vector>

namespace
{
using i128 = __int128;

i128 parse(std::string const &s)
{
  bool neg = false;
  std::size_t i = 0;
  if (s[0] == '-')
  {
    neg = true;
    i = 1;
  }
  i128 v = 0;
  for (; i < s.size(); ++i)
    v = v * 10 + (s[i] - '0');
  return neg ? -v : v;
}

std::string str(i128 v)
{
  if (v == 0)
    return "0";
  bool const neg = v < 0;
  std::string r;
  while (v != 0)
  {
    int d = static_cast<int>(v % 10);
    if (d < 0)
      d = -d;
    r.insert(r.begin(), static_cast<char>('0' + d));
    v /= 10;
  }
  return neg ? "-" + r : r;
}

template <typename T>
std::string show(T const v)
{
  if constexpr (std::is_same_v<T, bool>)
    return v ? "1" : "0";
  else
    return str(static_cast<i128>(v));
}

template <typename T>
std::string show(fcppt::optional::object<T> const &o)
{
  return o.has_value() ? "some " + show(o.get_unsafe()) : std::string{"none"};
}

template <typename T>
constexpr i128 lo = static_cast<i128>(std::numeric_limits<T>::min());
template <typename T>
constexpr i128 hi = static_cast<i128>(std::numeric_limits<T>::max());

using fn = std::function<std::string(i128, i128, i128)>;
std::map<std::string, fn> table;

template <typename T> char const *tn();
template <> char const *tn<std::uint8_t>() { return "u8"; }
template <> char const *tn<std::uint16_t>() { return "u16"; }
template <> char const *tn<std::uint32_t>() { return "u32"; }
template <> char const *tn<std::uint64_t>() { return "u64"; }
template <> char const *tn<std::int8_t>() { return "i8"; }
template <> char const *tn<std::int16_t>() { return "i16"; }
template <> char const *tn<std::int32_t>() { return "i32"; }
template <> char const *tn<std::int64_t>() { return "i64"; }

template <typename D, typename S>
void reg_trunc()
{
  table[std::string("truncation_check_") + tn<D>() + "_" + tn<S>()] = [](i128 a, i128, i128) {
    return show(fcppt::cast::truncation_check<D>(static_cast<S>(a)));
  };
}

template <typename D>
void reg_trunc_all()
{
  reg_trunc<D, std::uint8_t>();
  reg_trunc<D, std::uint16_t>();
  reg_trunc<D, std::uint32_t>();
  reg_trunc<D, std::uint64_t>();
  reg_trunc<D, std::int8_t>();
  reg_trunc<D, std::int16_t>();
  reg_trunc<D, std::int32_t>();
  reg_trunc<D, std::int64_t>();
}

// what the usual arithmetic conversions make of T
template <typename T>
using promoted = decltype(T{} + T{});

template <typename T>
void reg_unsigned()
{
  std::string const t = tn<T>();
  table["mod_" + t] = [](i128 a, i128 b, i128) { return show(fcppt::math::mod<T>(static_cast<T>(a), static_cast<T>(b))); };
  table["is_power_of_2_" + t] = [](i128 a, i128, i128) { return show(fcppt::math::is_power_of_2<T>(static_cast<T>(a))); };
  table["next_power_of_2_" + t] = [](i128 a, i128, i128) { return show(fcppt::math::next_power_of_2<T>(static_cast<T>(a))); };
  table["log2_" + t] = [](i128 a, i128, i128) { return show(fcppt::math::log2<T>(static_cast<T>(a))); };
  // 1 << e is undefined for e >= width of the promoted left operand
  constexpr i128 width = static_cast<i128>(sizeof(promoted<T>) * 8);
  table["power_of_2_" + t] = [](i128 e, i128, i128) {
    return e >= width ? std::string{"shift"} : show(fcppt::math::power_of_2<T>(static_cast<unsigned>(e)));
  };
  table["shifted_mask_" + t] = [](i128 e, i128, i128) {
    return e >= width ? std::string{"shift"} : show(fcppt::bit::shifted_mask<T>(static_cast<unsigned>(e)).get());
  };
  table["bit_test_" + t] = [](i128 a, i128 m, i128) {
    return show(fcppt::bit::test(static_cast<T>(a), fcppt::bit::mask<T>{static_cast<T>(m)}));
  };
}

template <typename T>
void reg_all()
{
  std::string const t = tn<T>();
  table["clamp_" + t] = [](i128 v, i128 l, i128 h) {
    return show(fcppt::math::clamp<T>(static_cast<T>(v), static_cast<T>(l), static_cast<T>(h)));
  };
  table["diff_" + t] = [](i128 a, i128 b, i128) {
    if constexpr (std::is_signed_v<T>)
    {
      // a - b (and abs of it) is computed in the promoted type: undefined if not representable there
      i128 const d = a - b;
      if (d < lo<promoted<T>> || d > hi<promoted<T>> || (d < 0 && -d > hi<promoted<T>>))
        return std::string{"signed-overflow"};
    }
    return show(fcppt::math::diff<T>(static_cast<T>(a), static_cast<T>(b)));
  };
}

template <typename T>
void reg_div()
{
  std::string const t = tn<T>();
  table["div_" + t] = [](i128 a, i128 b, i128) {
    if constexpr (std::is_signed_v<T>)
      if (b == -1 && a == lo<T>)
        return std::string{"signed-overflow"};
    return show(fcppt::math::div(static_cast<T>(a), static_cast<T>(b)));
  };
}

enum class eu8_1 : std::uint8_t { a, fcppt_maximum = a };
enum class eu8_3 : std::uint8_t { a, b, c, fcppt_maximum = c };
enum class eu8_255 : std::uint8_t { a, fcppt_maximum = 254 };
enum class eu16_3 : std::uint16_t { a, b, c, fcppt_maximum = c };
enum class eu16_257 : std::uint16_t { a, fcppt_maximum = 256 };
enum class eu16_65535 : std::uint16_t { a, fcppt_maximum = 65534 };
enum class eu32_3 : std::uint32_t { a, b, c, fcppt_maximum = c };
enum class eu32_70000 : std::uint32_t { a, fcppt_maximum = 69999 };
enum class eu64_3 : std::uint64_t { a, b, c, fcppt_maximum = c };
enum class eu64_5000000000 : std::uint64_t { a, fcppt_maximum = 4999999999ULL };

template <typename E, typename V>
std::string from_int(i128 v)
{
  auto const r = fcppt::enum_::from_int<E>(static_cast<V>(v));
  return r.has_value() ? "some " + str(static_cast<i128>(static_cast<std::underlying_type_t<E>>(r.get_unsafe()))) : std::string{"none"};
}

template <typename V>
void reg_from_int()
{
  std::string const v = tn<V>();
  table["from_int_u8_" + v] = [](i128 x, i128 size, i128) {
    return size == 1 ? from_int<eu8_1, V>(x) : size == 3 ? from_int<eu8_3, V>(x) : size == 255 ? from_int<eu8_255, V>(x) : std::string{"bad-op"};
  };
  table["from_int_u16_" + v] = [](i128 x, i128 size, i128) {
    return size == 3 ? from_int<eu16_3, V>(x) : size == 257 ? from_int<eu16_257, V>(x) : size == 65535 ? from_int<eu16_65535, V>(x) : std::string{"bad-op"};
  };
  table["from_int_u32_" + v] = [](i128 x, i128 size, i128) {
    return size == 3 ? from_int<eu32_3, V>(x) : size == 70000 ? from_int<eu32_70000, V>(x) : std::string{"bad-op"};
  };
  table["from_int_u64_" + v] = [](i128 x, i128 size, i128) {
    return size == 3 ? from_int<eu64_3, V>(x) : size == 5000000000LL ? from_int<eu64_5000000000, V>(x) : std::string{"bad-op"};
  };
}

void init()
{
  reg_trunc_all<std::uint8_t>();
  reg_trunc_all<std::uint16_t>();
  reg_trunc_all<std::uint32_t>();
  reg_trunc_all<std::uint64_t>();
  reg_trunc_all<std::int8_t>();
  reg_trunc_all<std::int16_t>();
  reg_trunc_all<std::int32_t>();
  reg_trunc_all<std::int64_t>();
  reg_unsigned<std::uint8_t>();
  reg_unsigned<std::uint16_t>();
  reg_unsigned<std::uint32_t>();
  reg_unsigned<std::uint64_t>();
  reg_all<std::uint8_t>();
  reg_all<std::uint16_t>();
  reg_all<std::uint32_t>();
  reg_all<std::uint64_t>();
  reg_all<std::int8_t>();
  reg_all<std::int16_t>();
  reg_all<std::int32_t>();
  reg_all<std::int64_t>();
  reg_div<std::uint32_t>();
  reg_div<std::int32_t>();
  reg_div<std::uint64_t>();
  reg_div<std::int64_t>();
  reg_from_int<std::uint8_t>();
  reg_from_int<std::uint16_t>();
  reg_from_int<std::uint32_t>();
  reg_from_int<std::uint64_t>();
  table["ceil_div_u32"] = [](i128 a, i128 b, i128) { return show(fcppt::math::ceil_div<std::uint32_t>(static_cast<std::uint32_t>(a), static_cast<std::uint32_t>(b))); };
  table["ceil_div_u64"] = [](i128 a, i128 b, i128) { return show(fcppt::math::ceil_div<std::uint64_t>(static_cast<std::uint64_t>(a), static_cast<std::uint64_t>(b))); };
  table["ceil_div_signed_i32"] = [](i128 a, i128 b, i128) {
    if (b == -1 && a == lo<std::int32_t>) return std::string{"signed-overflow"};
    return show(fcppt::math::ceil_div_signed<std::int32_t>(static_cast<std::int32_t>(a), static_cast<std::int32_t>(b)));
  };
  table["ceil_div_signed_i64"] = [](i128 a, i128 b, i128) {
    if (b == -1 && a == lo<std::int64_t>) return std::string{"signed-overflow"};
    return show(fcppt::math::ceil_div_signed<std::int64_t>(static_cast<std::int64_t>(a), static_cast<std::int64_t>(b)));
  };
}

// ---- 128-bit oracles for the full 16-bit squares (selfcheck) -----------------------------------
std::string oracle(std::string const &f, i128 a, i128 b)
{
  if (f == "diff_u16" || f == "diff_i16")
  {
    i128 const d = a < b ? b - a : a - b;
    // result converted back to the 16-bit type (modular)
    if (f == "diff_u16") return str(d & 0xFFFF);
    return str(static_cast<i128>(static_cast<std::int16_t>(static_cast<std::uint16_t>(d & 0xFFFF))));
  }
  if (f == "mod_u16")
    return b == 0 ? "none" : "some " + str(a % b);
  if (f == "truncation_check_i8_i16_pairs") return "";
  return "?";
}

std::string selfcheck(std::string const &f, i128 expect)
{
  auto const it = table.find(f);
  if (it == table.end())
    return "bad-op";
  bool const sgn = f.find("_i16") != std::string::npos;
  i128 const l = sgn ? -32768 : 0, h = sgn ? 32767 : 65535;
  i128 n = 0;
  for (i128 a = l; a <= h; ++a)
    for (i128 b = l; b <= h; ++b)
    {
      std::string const got = it->second(a, b, 0);
      std::string const want = oracle(f, a, b);
      if (got != want)
        return "bad " + str(a) + " " + str(b) + " got=" + got + " want=" + want;
      ++n;
    }
  (void)expect;
  return "ok " + str(n);
}

std::vector<i128> ilist(std::string const &s)
{
  std::vector<i128> r;
  if (s == "-")
    return r;
  std::size_t pos = 0;
  while (true)
  {
    std::size_t const next = s.find(',', pos);
    r.push_back(parse(s.substr(pos, next == std::string::npos ? next : next - pos)));
    if (next == std::string::npos)
      break;
    pos = next + 1;
  }
  return r;
}

std::string handle(std::vector<std::string> const &t)
{
  if (t.size() < 3)
    return "bad-op";
  if (t[0] == "selfcheck" && t.size() == 3)
    return selfcheck(t[1], parse(t[2]));
  auto const it = table.find(t[1]);
  if (it == table.end())
    return "bad-op";
  fn const &f = it->second;
  if (t[0] == "call")
    return f(parse(t[2]), t.size() > 3 ? parse(t[3]) : 0, t.size() > 4 ? parse(t[4]) : 0);
  std::uint64_t h = vh::fnv_init;
  if (t[0] == "range1" && t.size() == 4)
  {
    for (i128 a = parse(t[2]); a <= parse(t[3]); ++a)
      h = vh::fnv(h, f(a, 0, 0));
  }
  else if (t[0] == "range2" && t.size() == 6)
  {
    i128 const al = parse(t[2]), ah = parse(t[3]), bl = parse(t[4]), bh = parse(t[5]);
    for (i128 a = al; a <= ah; ++a)
      for (i128 b = bl; b <= bh; ++b)
        h = vh::fnv(h, f(a, b, 0));
  }
  else if (t[0] == "range3" && t.size() == 4)
  {
    i128 const l = parse(t[2]), u = parse(t[3]);
    for (i128 a = l; a <= u; ++a)
      for (i128 b = l; b <= u; ++b)
        for (i128 c = l; c <= u; ++c)
          h = vh::fnv(h, f(a, b, c));
  }
  else if (t[0] == "list1" && t.size() == 3)
  {
    for (i128 a : ilist(t[2]))
      h = vh::fnv(h, f(a, 0, 0));
  }
  else if (t[0] == "list2" && t.size() == 4)
  {
    auto const as = ilist(t[2]), bs = ilist(t[3]);
    for (i128 a : as)
      for (i128 b : bs)
        h = vh::fnv(h, f(a, b, 0));
  }
  else if (t[0] == "list3" && t.size() == 3)
  {
    auto const as = ilist(t[2]);
    for (i128 a : as)
      for (i128 b : as)
        for (i128 c : as)
          h = vh::fnv(h, f(a, b, c));
  }
  else
    return "bad-op";
  return "D " + vh::hex64(h);
}
}

#ifndef VERIF_NO_MAIN
int main()
{
  init();
  vh::op_budget() = 900; // CPU seconds: one `selfcheck` line walks all 2^32 operand pairs of a 16-bit instantiation (100-130 s under ASan)
  return vh::run(handle);
}
#endif
