// C06 correspondence harness: the real fcppt integer helpers, instantiated for every type the
// translator (tools/cxx2lean.py) translates, behind the line protocol of lean/FcpptModel/Drv/C06.lean.
// The second-generation instantiations are grouped behind VERIF_C06_NO_<GROUP> (BOOL, NAMED, INTERVAL, STATIC, MASKS, CASTS,
// DIV2, ENUM2): props/c06.py probes each group with a syntax-only compile before the harness is built and switches a
// group off (reporting it as a broken correspondence) when a change in /repo makes it uncompilable — the other
// functions keep their harness, so that a failing input can still be shown for them.
#include "common/vh.hpp"

#include <fcppt/bit/mask.hpp>
#include <fcppt/bit/mask_c.hpp>
#include <fcppt/bit/shifted_mask_c.hpp>
#include <fcppt/cast/promote_int.hpp>
#include <fcppt/cast/safe_numeric.hpp>
#include <fcppt/cast/size.hpp>
#include <fcppt/cast/to_signed.hpp>
#include <fcppt/cast/to_unsigned.hpp>
#include <fcppt/enum/size.hpp>
#include <fcppt/math/ceil_div_static.hpp>
#include <fcppt/math/interval_distance.hpp>
#include <fcppt/tuple/object.hpp>
#include <fcppt/bit/shifted_mask.hpp>
#include <fcppt/bit/test.hpp>
#include <fcppt/cast/truncation_check.hpp>
#include <fcppt/enum/from_int.hpp>
#include <fcppt/math/ceil_div.hpp>
#include <fcppt/math/ceil_div_signed.hpp>
#include <fcppt/math/clamp.hpp>
#include <fcppt/math/diff.hpp>
#include <fcppt/math/div.hpp>
#include <fcppt/math/is_power_of_2.hpp>
#include <fcppt/math/log2.hpp>
#include <fcppt/math/mod.hpp>
#include <fcppt/math/next_power_of_2.hpp>
#include <fcppt/math/power_of_2.hpp>
#include <fcppt/optional/object.hpp>

#include <cstdint>
#include <functional>
#include <limits>
#include <map>
#include <string>
#include <type_traits>
#include <vector>

namespace
{
using i128 = __int128;

i128 parse(std::string const &s)
{
  bool neg = false;
  std::size_t i = 0;
  if (s[0] == '-')
  {
    neg = true;
    i = 1;
  }
  i128 v = 0;
  for (; i < s.size(); ++i)
    v = v * 10 + (s[i] - '0');
  return neg ? -v : v;
}

std::string str(i128 v)
{
  if (v == 0)
    return "0";
  bool const neg = v < 0;
  std::string r;
  while (v != 0)
  {
    int d = static_cast<int>(v % 10);
    if (d < 0)
      d = -d;
    r.insert(r.begin(), static_cast<char>('0' + d));
    v /= 10;
  }
  return neg ? "-" + r : r;
}

template <typename T>
std::string show(T const v)
{
  if constexpr (std::is_same_v<T, bool>)
    return v ? "1" : "0";
  else
    return str(static_cast<i128>(v));
}

template <typename T>
std::string show(fcppt::optional::object<T> const &o)
{
  return o.has_value() ? "some " + show(o.get_unsafe()) : std::string{"none"};
}

template <typename T>
constexpr i128 lo = static_cast<i128>(std::numeric_limits<T>::min());
template <typename T>
constexpr i128 hi = static_cast<i128>(std::numeric_limits<T>::max());

using fn = std::function<std::string(i128, i128, i128)>;
std::map<std::string, fn> table;
// second generation: four-argument functions, argument-free (compile-time) functions, one object in every parameter
using fn4 = std::function<std::string(i128, i128, i128, i128)>;
std::map<std::string, fn4> table4;
std::map<std::string, std::function<std::string()>> table0;
std::map<std::string, std::function<std::string(i128)>> alias_table;

template <typename T> char const *tn();
template <> char const *tn<std::uint8_t>() { return "u8"; }
template <> char const *tn<std::uint16_t>() { return "u16"; }
template <> char const *tn<std::uint32_t>() { return "u32"; }
template <> char const *tn<std::uint64_t>() { return "u64"; }
template <> char const *tn<std::int8_t>() { return "i8"; }
template <> char const *tn<std::int16_t>() { return "i16"; }
template <> char const *tn<std::int32_t>() { return "i32"; }
template <> char const *tn<std::int64_t>() { return "i64"; }

template <typename D, typename S>
void reg_trunc()
{
  table[std::string("truncation_check_") + tn<D>() + "_" + tn<S>()] = [](i128 a, i128, i128) {
    return show(fcppt::cast::truncation_check<D>(static_cast<S>(a)));
  };
}

template <typename D>
void reg_trunc_all()
{
  reg_trunc<D, std::uint8_t>();
  reg_trunc<D, std::uint16_t>();
  reg_trunc<D, std::uint32_t>();
  reg_trunc<D, std::uint64_t>();
  reg_trunc<D, std::int8_t>();
  reg_trunc<D, std::int16_t>();
  reg_trunc<D, std::int32_t>();
  reg_trunc<D, std::int64_t>();
}

// what the usual arithmetic conversions make of T
template <typename T>
using promoted = decltype(T{} + T{});

template <typename T>
void reg_unsigned()
{
  std::string const t = tn<T>();
  table["mod_" + t] = [](i128 a, i128 b, i128) { return show(fcppt::math::mod<T>(static_cast<T>(a), static_cast<T>(b))); };
  table["is_power_of_2_" + t] = [](i128 a, i128, i128) { return show(fcppt::math::is_power_of_2<T>(static_cast<T>(a))); };
  table["next_power_of_2_" + t] = [](i128 a, i128, i128) { return show(fcppt::math::next_power_of_2<T>(static_cast<T>(a))); };
  table["log2_" + t] = [](i128 a, i128, i128) { return show(fcppt::math::log2<T>(static_cast<T>(a))); };
  // 1 << e is undefined for e >= width of the promoted left operand
  constexpr i128 width = static_cast<i128>(sizeof(promoted<T>) * 8);
  table["power_of_2_" + t] = [](i128 e, i128, i128) {
    return e >= width ? std::string{"shift"} : show(fcppt::math::power_of_2<T>(static_cast<unsigned>(e)));
  };
  table["shifted_mask_" + t] = [](i128 e, i128, i128) {
    return e >= width ? std::string{"shift"} : show(fcppt::bit::shifted_mask<T>(static_cast<unsigned>(e)).get());
  };
  table["bit_test_" + t] = [](i128 a, i128 m, i128) {
    return show(fcppt::bit::test(static_cast<T>(a), fcppt::bit::mask<T>{static_cast<T>(m)}));
  };
}

template <typename T>
void reg_alias()
{
  // the same object bound to every (reference) parameter
  std::string const t = tn<T>();
  alias_table["clamp_" + t] = [](i128 a) {
    T const x = static_cast<T>(a);
    return show(fcppt::math::clamp<T>(x, x, x));
  };
  alias_table["diff_" + t] = [](i128 a) {
    T const x = static_cast<T>(a);
    return show(fcppt::math::diff<T>(x, x));
  };
  if constexpr (std::is_unsigned_v<T>)
  {
    alias_table["mod_" + t] = [](i128 a) {
      T const x = static_cast<T>(a);
      return show(fcppt::math::mod<T>(x, x));
    };
    alias_table["bit_test_" + t] = [](i128 a) {
      T const x = static_cast<T>(a);
      return show(fcppt::bit::test(x, fcppt::bit::mask<T>{x}));
    };
  }
}

template <typename T>
void reg_all()
{
  reg_alias<T>();
  std::string const t = tn<T>();
  table["clamp_" + t] = [](i128 v, i128 l, i128 h) {
    return show(fcppt::math::clamp<T>(static_cast<T>(v), static_cast<T>(l), static_cast<T>(h)));
  };
  table["diff_" + t] = [](i128 a, i128 b, i128) {
    if constexpr (std::is_signed_v<T>)
    {
      // a - b (and abs of it) is computed in the promoted type: undefined if not representable there
      i128 const d = a - b;
      if (d < lo<promoted<T>> || d > hi<promoted<T>> || (d < 0 && -d > hi<promoted<T>>))
        return std::string{"signed-overflow"};
    }
    return show(fcppt::math::diff<T>(static_cast<T>(a), static_cast<T>(b)));
  };
}

template <typename T>
void reg_div()
{
  std::string const t = tn<T>();
  table["div_" + t] = [](i128 a, i128 b, i128) {
    // the quotient is computed in the promoted type: INT_MIN / -1 only overflows there
    if constexpr (std::is_signed_v<promoted<T>>)
      if (b == -1 && a == lo<promoted<T>>)
        return std::string{"signed-overflow"};
    return show(fcppt::math::div(static_cast<T>(a), static_cast<T>(b)));
  };
  alias_table["div_" + t] = [](i128 a) {
    T const x = static_cast<T>(a);
    return show(fcppt::math::div(x, x));
  };
}

// math::div with different operand types: the usual arithmetic conversions pick the type the division is done in
template <typename L, typename R>
void reg_div_mixed()
{
  using C = decltype(L{} / R{});
  table[std::string("div_") + tn<L>() + "_" + tn<R>()] = [](i128 a, i128 b, i128) {
    if constexpr (std::is_signed_v<C>)
      if (static_cast<i128>(static_cast<C>(static_cast<R>(b))) == -1 && static_cast<i128>(static_cast<C>(static_cast<L>(a))) == lo<C>)
        return std::string{"signed-overflow"};
    return show(fcppt::math::div(static_cast<L>(a), static_cast<R>(b)));
  };
}

// math::interval_distance.  For int and wider signed types a difference that is not representable is undefined; which
// differences are evaluated depends on the control flow, which is NOT replicated here: whenever any difference of two of
// the four operands is not representable the line answers "guard" (the driver applies the same rule), everything else
// runs the real function under UBSan.
template <typename T>
void reg_interval()
{
  table4[std::string("interval_distance_") + tn<T>()] = [](i128 a1, i128 b1, i128 a2, i128 b2) {
    using P = promoted<T>;
    if constexpr (std::is_signed_v<P> && sizeof(P) == sizeof(T))
    {
      i128 const v[4] = {a1, b1, a2, b2};
      for (i128 const x : v)
        for (i128 const y : v)
          if (x - y < lo<P> || x - y > hi<P>)
            return std::string{"guard"};
    }
    using tup = fcppt::tuple::object<T, T>;
    return show(fcppt::math::interval_distance<T>(tup{static_cast<T>(a1), static_cast<T>(b1)}, tup{static_cast<T>(a2), static_cast<T>(b2)}));
  };
}

template <typename D, typename S>
void reg_size()
{
  std::string const n = std::string(tn<D>()) + "_" + tn<S>();
  table["size_" + n] = [](i128 a, i128, i128) { return show(fcppt::cast::size<D>(static_cast<S>(a))); };
  if constexpr (sizeof(D) >= sizeof(S))
    table["safe_numeric_" + n] = [](i128 a, i128, i128) { return show(fcppt::cast::safe_numeric<D>(static_cast<S>(a))); };
}

template <typename D>
void reg_size_u()
{
  reg_size<D, std::uint8_t>();
  reg_size<D, std::uint16_t>();
  reg_size<D, std::uint32_t>();
  reg_size<D, std::uint64_t>();
}

template <typename D>
void reg_size_i()
{
  reg_size<D, std::int8_t>();
  reg_size<D, std::int16_t>();
  reg_size<D, std::int32_t>();
  reg_size<D, std::int64_t>();
}

template <typename T>
void reg_casts()
{
  std::string const t = tn<T>();
  table["promote_int_" + t] = [](i128 a, i128, i128) {
    auto const r = fcppt::cast::promote_int(static_cast<T>(a));
    static_assert(std::is_same_v<decltype(r), promoted<T> const>);
    return show(r);
  };
  if constexpr (std::is_unsigned_v<T>)
    table["to_signed_" + t] = [](i128 a, i128, i128) { return show(fcppt::cast::to_signed(static_cast<T>(a))); };
  else
    table["to_unsigned_" + t] = [](i128 a, i128, i128) { return show(fcppt::cast::to_unsigned(static_cast<T>(a))); };
}

template <typename T, T M>
void reg_mask_c()
{
  table0[std::string("mask_c_") + tn<T>() + "_" + str(static_cast<i128>(M))] = [] {
    // evaluated at run time on purpose: a change that makes the function unusable in a constant expression (or undefined
    // for some instantiation) must still leave a harness that builds, so that the failing call can be shown
    fcppt::bit::mask<T> const m{fcppt::bit::mask_c<T, M>()};
    return show(m.get());
  };
}

template <typename T, fcppt::bit::shift_count B>
void reg_shifted_mask_c()
{
  table0[std::string("shifted_mask_c_") + tn<T>() + "_" + str(static_cast<i128>(B))] = [] {
    fcppt::bit::mask<T> const m{fcppt::bit::shifted_mask_c<T, B>()};
    return show(m.get());
  };
}

// ceil_div_static: a compile-time table (the pairs the generator uses)
std::map<std::string, std::string> static_table;
template <typename T, T A, T B>
void reg_static()
{
  static_table[std::string("ceil_div_static_") + tn<T>() + " " + str(static_cast<i128>(A)) + " " + str(static_cast<i128>(B))] =
      "some " + show(fcppt::math::ceil_div_static<T, A, B>::value);
}

template <typename T, T... A>
void reg_static_row()
{
  // every dividend with the divisors 1, 2, 3, 7, 2^16, max-1, max
  constexpr T mx = std::numeric_limits<T>::max();
  (reg_static<T, A, 1>(), ...);
  (reg_static<T, A, 2>(), ...);
  (reg_static<T, A, 3>(), ...);
  (reg_static<T, A, 7>(), ...);
  (reg_static<T, A, 65536>(), ...);
  (reg_static<T, A, mx - 1>(), ...);
  (reg_static<T, A, mx>(), ...);
}

enum class eu8_1 : std::uint8_t { a, fcppt_maximum = a };
enum class eu8_3 : std::uint8_t { a, b, c, fcppt_maximum = c };
enum class eu8_255 : std::uint8_t { a, fcppt_maximum = 254 };
enum class eu16_3 : std::uint16_t { a, b, c, fcppt_maximum = c };
enum class eu16_257 : std::uint16_t { a, fcppt_maximum = 256 };
enum class eu16_65535 : std::uint16_t { a, fcppt_maximum = 65534 };
enum class eu32_3 : std::uint32_t { a, b, c, fcppt_maximum = c };
enum class eu32_70000 : std::uint32_t { a, fcppt_maximum = 69999 };
enum class eu64_3 : std::uint64_t { a, b, c, fcppt_maximum = c };
enum class eu64_5000000000 : std::uint64_t { a, fcppt_maximum = 4999999999ULL };
// enums whose underlying type is signed (size type: the unsigned counterpart); ei32_*: the default underlying type
enum class ei8_3 : std::int8_t { a, b, c, fcppt_maximum = c };
enum class ei8_128 : std::int8_t { a, fcppt_maximum = 127 };
enum class ei32_3 { a, b, c, fcppt_maximum = c };
enum class ei32_70000 { a, fcppt_maximum = 69999 };
enum class ei32_2147483648 { a, fcppt_maximum = 2147483647 };

template <typename E, typename V>
std::string from_int(i128 v)
{
  auto const r = fcppt::enum_::from_int<E>(static_cast<V>(v));
  return r.has_value() ? "some " + str(static_cast<i128>(static_cast<std::underlying_type_t<E>>(r.get_unsafe()))) : std::string{"none"};
}

template <typename V>
void reg_from_int()
{
  std::string const v = tn<V>();
  table["from_int_u8_" + v] = [](i128 x, i128 size, i128) {
    return size == 1 ? from_int<eu8_1, V>(x) : size == 3 ? from_int<eu8_3, V>(x) : size == 255 ? from_int<eu8_255, V>(x) : std::string{"bad-op"};
  };
  table["from_int_u16_" + v] = [](i128 x, i128 size, i128) {
    return size == 3 ? from_int<eu16_3, V>(x) : size == 257 ? from_int<eu16_257, V>(x) : size == 65535 ? from_int<eu16_65535, V>(x) : std::string{"bad-op"};
  };
  table["from_int_u32_" + v] = [](i128 x, i128 size, i128) {
    return size == 3 ? from_int<eu32_3, V>(x) : size == 70000 ? from_int<eu32_70000, V>(x) : std::string{"bad-op"};
  };
#ifndef VERIF_C06_NO_ENUM2
  table["from_int_i8_" + v] = [](i128 x, i128 size, i128) {
    return size == 3 ? from_int<ei8_3, V>(x) : size == 128 ? from_int<ei8_128, V>(x) : std::string{"bad-op"};
  };
  table["from_int_i32_" + v] = [](i128 x, i128 size, i128) {
    return size == 3 ? from_int<ei32_3, V>(x) : size == 70000 ? from_int<ei32_70000, V>(x) : size == 2147483648LL ? from_int<ei32_2147483648, V>(x) : std::string{"bad-op"};
  };
#endif
  table["from_int_u64_" + v] = [](i128 x, i128 size, i128) {
    return size == 3 ? from_int<eu64_3, V>(x) : size == 5000000000LL ? from_int<eu64_5000000000, V>(x) : std::string{"bad-op"};
  };
}

template <typename E>
void reg_enum_size(char const *const u, i128 const maximum)
{
  static_assert(std::is_same_v<typename fcppt::enum_::size<E>::value_type, std::make_unsigned_t<std::underlying_type_t<E>>>);
  static_table[std::string("enumsize ") + u + " " + str(maximum)] = str(static_cast<i128>(fcppt::enum_::size<E>::value));
}

template <typename T>
void reg_second()
{
#ifndef VERIF_C06_NO_INTERVAL
  reg_interval<T>();
#endif
#ifndef VERIF_C06_NO_CASTS
  reg_casts<T>();
#endif
}

// truncation_check on integral types that are not the fixed-width typedefs
template <typename D, typename S>
void reg_trunc_named(char const *const d, char const *const s)
{
  table[std::string("truncation_check_") + d + "_" + s] = [](i128 a, i128, i128) {
    auto const r = fcppt::cast::truncation_check<D>(static_cast<S>(a));
    return r.has_value() ? "some " + str(static_cast<i128>(r.get_unsafe())) : std::string{"none"};
  };
}

void init2()
{
  static_assert(std::is_signed_v<char> && sizeof(wchar_t) == 4 && std::is_signed_v<wchar_t> && sizeof(long long) == 8);
#ifndef VERIF_C06_NO_NAMED
  reg_trunc_named<long long, std::int32_t>("ll", "i32");
  reg_trunc_named<std::int32_t, long long>("i32", "ll");
  reg_trunc_named<long long, std::uint64_t>("ll", "u64");
  reg_trunc_named<unsigned long long, std::int64_t>("ull", "i64");
  reg_trunc_named<std::uint64_t, unsigned long long>("u64", "ull");
  reg_trunc_named<std::int64_t, long long>("i64", "ll");
  reg_trunc_named<unsigned long long, long long>("ull", "ll");
  reg_trunc_named<std::uint8_t, long long>("u8", "ll");
  reg_trunc_named<char, std::int32_t>("ch", "i32");
  reg_trunc_named<char, std::uint8_t>("ch", "u8");
  reg_trunc_named<std::uint8_t, char>("u8", "ch");
  reg_trunc_named<std::int8_t, char>("i8", "ch");
  reg_trunc_named<wchar_t, std::int64_t>("wc", "i64");
  reg_trunc_named<wchar_t, std::uint32_t>("wc", "u32");
  reg_trunc_named<std::uint16_t, wchar_t>("u16", "wc");
  reg_trunc_named<char8_t, std::int16_t>("c8", "i16");
  reg_trunc_named<char16_t, std::int32_t>("c16", "i32");
  reg_trunc_named<char16_t, char32_t>("c16", "c32");
  reg_trunc_named<char32_t, std::int64_t>("c32", "i64");
  reg_trunc_named<std::int16_t, char16_t>("i16", "c16");
#endif
  // bool is an (unsigned) integral type
#ifndef VERIF_C06_NO_BOOL
  reg_trunc_named<bool, std::uint8_t>("b", "u8");
  reg_trunc_named<bool, std::uint16_t>("b", "u16");
  reg_trunc_named<bool, std::uint32_t>("b", "u32");
  reg_trunc_named<bool, std::uint64_t>("b", "u64");
  reg_trunc_named<bool, std::int8_t>("b", "i8");
  reg_trunc_named<bool, std::int16_t>("b", "i16");
  reg_trunc_named<bool, std::int32_t>("b", "i32");
  reg_trunc_named<bool, std::int64_t>("b", "i64");
  reg_trunc_named<std::uint8_t, bool>("u8", "b");
  reg_trunc_named<std::uint64_t, bool>("u64", "b");
  reg_trunc_named<std::int8_t, bool>("i8", "b");
  reg_trunc_named<std::int32_t, bool>("i32", "b");
  reg_trunc_named<std::int64_t, bool>("i64", "b");
#endif
  reg_second<std::uint8_t>();
  reg_second<std::uint16_t>();
  reg_second<std::uint32_t>();
  reg_second<std::uint64_t>();
  reg_second<std::int8_t>();
  reg_second<std::int16_t>();
  reg_second<std::int32_t>();
  reg_second<std::int64_t>();
#ifndef VERIF_C06_NO_DIV2
  reg_div<std::uint8_t>();
  reg_div<std::int8_t>();
  reg_div<std::uint16_t>();
  reg_div<std::int16_t>();
  reg_div_mixed<std::int32_t, std::uint32_t>();
  reg_div_mixed<std::uint32_t, std::int32_t>();
  reg_div_mixed<std::int8_t, std::uint8_t>();
  reg_div_mixed<std::uint8_t, std::int64_t>();
  reg_div_mixed<std::int64_t, std::uint64_t>();
  reg_div_mixed<std::uint16_t, std::int32_t>();
  reg_div_mixed<std::int16_t, std::uint64_t>();
  reg_div_mixed<std::uint64_t, std::int8_t>();
  reg_div_mixed<std::int32_t, std::int64_t>();
  reg_div_mixed<std::uint32_t, std::uint64_t>();
#endif
#ifndef VERIF_C06_NO_CASTS
  reg_size_u<std::uint8_t>();
  reg_size_u<std::uint16_t>();
  reg_size_u<std::uint32_t>();
  reg_size_u<std::uint64_t>();
  reg_size_i<std::int8_t>();
  reg_size_i<std::int16_t>();
  reg_size_i<std::int32_t>();
  reg_size_i<std::int64_t>();
#endif
#ifndef VERIF_C06_NO_MASKS
  reg_mask_c<std::uint8_t, 0>();
  reg_mask_c<std::uint8_t, 1>();
  reg_mask_c<std::uint8_t, 5>();
  reg_mask_c<std::uint8_t, 255>();
  reg_mask_c<std::uint16_t, 0>();
  reg_mask_c<std::uint16_t, 256>();
  reg_mask_c<std::uint16_t, 65535>();
  reg_mask_c<std::uint32_t, 0>();
  reg_mask_c<std::uint32_t, 65536>();
  reg_mask_c<std::uint32_t, 4294967295U>();
  reg_mask_c<std::uint64_t, 0>();
  reg_mask_c<std::uint64_t, 4294967296ULL>();
  reg_mask_c<std::uint64_t, 18446744073709551615ULL>();
  reg_shifted_mask_c<std::uint8_t, 0>();
  reg_shifted_mask_c<std::uint8_t, 3>();
  reg_shifted_mask_c<std::uint8_t, 7>();
  reg_shifted_mask_c<std::uint16_t, 0>();
  reg_shifted_mask_c<std::uint16_t, 8>();
  reg_shifted_mask_c<std::uint16_t, 15>();
  reg_shifted_mask_c<std::uint32_t, 0>();
  reg_shifted_mask_c<std::uint32_t, 16>();
  reg_shifted_mask_c<std::uint32_t, 31>();
  reg_shifted_mask_c<std::uint64_t, 0>();
  reg_shifted_mask_c<std::uint64_t, 32>();
  reg_shifted_mask_c<std::uint64_t, 63>();
#endif
#ifndef VERIF_C06_NO_STATIC
  reg_static_row<std::uint32_t, 0, 1, 2, 3, 6, 7, 8, 65535, 65536, 65537, 2147483648U, 4294967294U, 4294967295U>();
  reg_static_row<std::uint64_t, 0, 1, 2, 3, 6, 7, 8, 65535, 65536, 65537, 4294967296ULL, 9223372036854775808ULL, 18446744073709551614ULL,
                 18446744073709551615ULL>();
  reg_enum_size<eu8_1>("u8", 0);
  reg_enum_size<eu8_3>("u8", 2);
  reg_enum_size<eu8_255>("u8", 254);
  reg_enum_size<eu16_3>("u16", 2);
  reg_enum_size<eu16_257>("u16", 256);
  reg_enum_size<eu16_65535>("u16", 65534);
  reg_enum_size<eu32_3>("u32", 2);
  reg_enum_size<eu32_70000>("u32", 69999);
  reg_enum_size<eu64_3>("u64", 2);
  reg_enum_size<eu64_5000000000>("u64", 4999999999LL);
  reg_enum_size<ei8_3>("i8", 2);
  reg_enum_size<ei8_128>("i8", 127);
  reg_enum_size<ei32_3>("i32", 2);
  reg_enum_size<ei32_70000>("i32", 69999);
  reg_enum_size<ei32_2147483648>("i32", 2147483647);
#endif
#ifndef VERIF_C06_NO_DIV2
  // narrow ceil_div_signed: quotient and remainder are computed in int (never overflows) and cast back
  table["ceil_div_signed_i8"] = [](i128 a, i128 b, i128) {
    return show(fcppt::math::ceil_div_signed<std::int8_t>(static_cast<std::int8_t>(a), static_cast<std::int8_t>(b)));
  };
  table["ceil_div_signed_i16"] = [](i128 a, i128 b, i128) {
    return show(fcppt::math::ceil_div_signed<std::int16_t>(static_cast<std::int16_t>(a), static_cast<std::int16_t>(b)));
  };
  alias_table["ceil_div_signed_i8"] = [](i128 a) {
    std::int8_t const x = static_cast<std::int8_t>(a);
    return show(fcppt::math::ceil_div_signed<std::int8_t>(x, x));
  };
  alias_table["ceil_div_signed_i16"] = [](i128 a) {
    std::int16_t const x = static_cast<std::int16_t>(a);
    return show(fcppt::math::ceil_div_signed<std::int16_t>(x, x));
  };
#endif
  alias_table["ceil_div_u32"] = [](i128 a) {
    std::uint32_t const x = static_cast<std::uint32_t>(a);
    return show(fcppt::math::ceil_div<std::uint32_t>(x, x));
  };
  alias_table["ceil_div_u64"] = [](i128 a) {
    std::uint64_t const x = static_cast<std::uint64_t>(a);
    return show(fcppt::math::ceil_div<std::uint64_t>(x, x));
  };
  alias_table["ceil_div_signed_i32"] = [](i128 a) {
    std::int32_t const x = static_cast<std::int32_t>(a);
    return show(fcppt::math::ceil_div_signed<std::int32_t>(x, x));
  };
  alias_table["ceil_div_signed_i64"] = [](i128 a) {
    std::int64_t const x = static_cast<std::int64_t>(a);
    return show(fcppt::math::ceil_div_signed<std::int64_t>(x, x));
  };
}

void init()
{
  init2();
  reg_trunc_all<std::uint8_t>();
  reg_trunc_all<std::uint16_t>();
  reg_trunc_all<std::uint32_t>();
  reg_trunc_all<std::uint64_t>();
  reg_trunc_all<std::int8_t>();
  reg_trunc_all<std::int16_t>();
  reg_trunc_all<std::int32_t>();
  reg_trunc_all<std::int64_t>();
  reg_unsigned<std::uint8_t>();
  reg_unsigned<std::uint16_t>();
  reg_unsigned<std::uint32_t>();
  reg_unsigned<std::uint64_t>();
  reg_all<std::uint8_t>();
  reg_all<std::uint16_t>();
  reg_all<std::uint32_t>();
  reg_all<std::uint64_t>();
  reg_all<std::int8_t>();
  reg_all<std::int16_t>();
  reg_all<std::int32_t>();
  reg_all<std::int64_t>();
  reg_div<std::uint32_t>();
  reg_div<std::int32_t>();
  reg_div<std::uint64_t>();
  reg_div<std::int64_t>();
  reg_from_int<std::uint8_t>();
  reg_from_int<std::uint16_t>();
  reg_from_int<std::uint32_t>();
  reg_from_int<std::uint64_t>();
  table["ceil_div_u32"] = [](i128 a, i128 b, i128) { return show(fcppt::math::ceil_div<std::uint32_t>(static_cast<std::uint32_t>(a), static_cast<std::uint32_t>(b))); };
  table["ceil_div_u64"] = [](i128 a, i128 b, i128) { return show(fcppt::math::ceil_div<std::uint64_t>(static_cast<std::uint64_t>(a), static_cast<std::uint64_t>(b))); };
  table["ceil_div_signed_i32"] = [](i128 a, i128 b, i128) {
    if (b == -1 && a == lo<std::int32_t>) return std::string{"signed-overflow"};
    return show(fcppt::math::ceil_div_signed<std::int32_t>(static_cast<std::int32_t>(a), static_cast<std::int32_t>(b)));
  };
  table["ceil_div_signed_i64"] = [](i128 a, i128 b, i128) {
    if (b == -1 && a == lo<std::int64_t>) return std::string{"signed-overflow"};
    return show(fcppt::math::ceil_div_signed<std::int64_t>(static_cast<std::int64_t>(a), static_cast<std::int64_t>(b)));
  };
}

// ---- the full 16-bit squares (selfcheck): the real function against an oracle in wider arithmetic, compared as numbers
// (no strings in the inner loop: 2^32 evaluations per function).  An optional result is encoded as value, or `none_code`.
constexpr long long none_code = 1LL << 40;

template <typename T>
long long enc(T const v) { return static_cast<long long>(v); }
template <typename T>
long long enc(fcppt::optional::object<T> const &o) { return o.has_value() ? static_cast<long long>(o.get_unsafe()) : none_code; }

long long floor_div(long long const x, long long const y)
{
  long long const q = x / y;
  return (x % y != 0 && ((x < 0) != (y < 0))) ? q - 1 : q;
}

template <typename T, typename Impl, typename Oracle>
std::string selfcheck_rows(i128 const alo, i128 const ahi, Impl const impl, Oracle const oracle)
{
  long long const l = static_cast<long long>(lo<T>), h = static_cast<long long>(hi<T>);
  if (alo < l || ahi > h)
    return "bad-op";
  long long n = 0;
  for (long long a = static_cast<long long>(alo); a <= static_cast<long long>(ahi); ++a)
    for (long long b = l; b <= h; ++b)
    {
      long long const got = enc(impl(static_cast<T>(a), static_cast<T>(b)));
      long long const want = oracle(a, b);
      if (got != want)
        return "bad " + str(a) + " " + str(b) + " got=" + str(got) + " want=" + str(want);
      ++n;
    }
  return "ok " + str(n);
}

// rows [alo, ahi] of the square (all second operands); the full square is split over several lines
std::string selfcheck(std::string const &f, i128 const alo, i128 const ahi)
{
  using u16 = std::uint16_t;
  using i16 = std::int16_t;
  auto const absdiff = [](long long a, long long b) { return a < b ? b - a : a - b; };
  if (f == "diff_u16")
    return selfcheck_rows<u16>(alo, ahi, [](u16 a, u16 b) { return fcppt::math::diff<u16>(a, b); },
                               [&](long long a, long long b) { return absdiff(a, b) & 0xFFFF; });
  if (f == "diff_i16")   // |a - b| can be 65535: converted back to int16_t (modular)
    return selfcheck_rows<i16>(alo, ahi, [](i16 a, i16 b) { return fcppt::math::diff<i16>(a, b); },
                               [&](long long a, long long b) { long long const d = absdiff(a, b) & 0xFFFF; return d >= 32768 ? d - 65536 : d; });
  if (f == "mod_u16")
    return selfcheck_rows<u16>(alo, ahi, [](u16 a, u16 b) { return fcppt::math::mod<u16>(a, b); },
                               [](long long a, long long b) { return b == 0 ? none_code : a % b; });
  if (f == "bit_test_u16")
    return selfcheck_rows<u16>(alo, ahi, [](u16 a, u16 b) { return fcppt::bit::test(a, fcppt::bit::mask<u16>{b}); },
                               [](long long a, long long b) { return static_cast<long long>((a & b) != 0); });
#ifndef VERIF_C06_NO_DIV2
  if (f == "div_u16")
    return selfcheck_rows<u16>(alo, ahi, [](u16 a, u16 b) { return fcppt::math::div(a, b); },
                               [](long long a, long long b) { return b == 0 ? none_code : a / b; });
  if (f == "div_i16")    // computed in int: -32768 / -1 = 32768 is representable there
    return selfcheck_rows<i16>(alo, ahi, [](i16 a, i16 b) { return fcppt::math::div(a, b); },
                               [](long long a, long long b) { return b == 0 ? none_code : a / b; });
  if (f == "ceil_div_signed_i16")   // the ceiling as minus the floor of the negated quotient; 32768 wraps to -32768
    return selfcheck_rows<i16>(alo, ahi, [](i16 a, i16 b) { return fcppt::math::ceil_div_signed<i16>(a, b); },
                               [](long long a, long long b) {
                                 if (b == 0) return none_code;
                                 long long const c = -floor_div(-a, b);
                                 return c > 32767 ? c - 65536 : c;
                               });
#endif
  return "bad-op";
}

std::vector<i128> ilist(std::string const &s)
{
  std::vector<i128> r;
  if (s == "-")
    return r;
  std::size_t pos = 0;
  while (true)
  {
    std::size_t const next = s.find(',', pos);
    r.push_back(parse(s.substr(pos, next == std::string::npos ? next : next - pos)));
    if (next == std::string::npos)
      break;
    pos = next + 1;
  }
  return r;
}

std::string handle2(std::vector<std::string> const &t, bool &done)
{
  done = true;
  if (t[0] == "call" && t.size() == 2)
  {
    auto const it = table0.find(t[1]);
    return it == table0.end() ? "bad-op" : it->second();
  }
  if ((t[0] == "call" && t.size() == 6) || (t[0] == "list4" && t.size() == 3))
  {
    auto const it = table4.find(t[1]);
    if (it == table4.end())
      return "bad-op";
    if (t[0] == "call")
      return it->second(parse(t[2]), parse(t[3]), parse(t[4]), parse(t[5]));
    std::uint64_t h = vh::fnv_init;
    auto const as = ilist(t[2]);
    for (i128 a : as)
      for (i128 b : as)
        for (i128 c : as)
          for (i128 d : as)
            h = vh::fnv(h, it->second(a, b, c, d));
    return "D " + vh::hex64(h);
  }
  if (t[0] == "alias" || t[0] == "aliasl" || t[0] == "aliasr")
  {
    auto const it = alias_table.find(t[1]);
    if (it == alias_table.end())
      return "bad-op";
    if (t[0] == "alias" && t.size() == 3)
      return it->second(parse(t[2]));
    std::uint64_t h = vh::fnv_init;
    if (t[0] == "aliasl" && t.size() == 3)
    {
      for (i128 a : ilist(t[2]))
        h = vh::fnv(h, it->second(a));
    }
    else if (t[0] == "aliasr" && t.size() == 4)
    {
      for (i128 a = parse(t[2]); a <= parse(t[3]); ++a)
        h = vh::fnv(h, it->second(a));
    }
    else
      return "bad-op";
    return "D " + vh::hex64(h);
  }
  if (t[0] == "static2" && t.size() == 4)
  {
    auto const it = static_table.find(t[1] + " " + t[2] + " " + t[3]);
    return it == static_table.end() ? "bad-op" : it->second;
  }
  if (t[0] == "enumsize" && t.size() == 3)
  {
    auto const it = static_table.find("enumsize " + t[1] + " " + t[2]);
    return it == static_table.end() ? "bad-op" : it->second;
  }
  done = false;
  return "";
}

std::string handle(std::vector<std::string> const &t)
{
  if (t.size() < 2)
    return "bad-op";
  {
    bool done = false;
    std::string r = handle2(t, done);
    if (done)
      return r;
  }
  if (t.size() < 3)
    return "bad-op";
  if (t[0] == "selfcheck" && t.size() == 3)
  {
    bool const sgn = t[1].find("_i16") != std::string::npos;
    return selfcheck(t[1], sgn ? -32768 : 0, sgn ? 32767 : 65535);
  }
  if (t[0] == "selfcheck" && t.size() == 4)
    return selfcheck(t[1], parse(t[2]), parse(t[3]));
  auto const it = table.find(t[1]);
  if (it == table.end())
    return "bad-op";
  fn const &f = it->second;
  if (t[0] == "call")
    return f(parse(t[2]), t.size() > 3 ? parse(t[3]) : 0, t.size() > 4 ? parse(t[4]) : 0);
  std::uint64_t h = vh::fnv_init;
  if (t[0] == "range1" && t.size() == 4)
  {
    for (i128 a = parse(t[2]); a <= parse(t[3]); ++a)
      h = vh::fnv(h, f(a, 0, 0));
  }
  else if (t[0] == "range2" && t.size() == 6)
  {
    i128 const al = parse(t[2]), ah = parse(t[3]), bl = parse(t[4]), bh = parse(t[5]);
    for (i128 a = al; a <= ah; ++a)
      for (i128 b = bl; b <= bh; ++b)
        h = vh::fnv(h, f(a, b, 0));
  }
  else if (t[0] == "range3" && t.size() == 4)
  {
    i128 const l = parse(t[2]), u = parse(t[3]);
    for (i128 a = l; a <= u; ++a)
      for (i128 b = l; b <= u; ++b)
        for (i128 c = l; c <= u; ++c)
          h = vh::fnv(h, f(a, b, c));
  }
  else if (t[0] == "list1" && t.size() == 3)
  {
    for (i128 a : ilist(t[2]))
      h = vh::fnv(h, f(a, 0, 0));
  }
  else if (t[0] == "list2" && t.size() == 4)
  {
    auto const as = ilist(t[2]), bs = ilist(t[3]);
    for (i128 a : as)
      for (i128 b : bs)
        h = vh::fnv(h, f(a, b, 0));
  }
  else if (t[0] == "list3" && t.size() == 3)
  {
    auto const as = ilist(t[2]);
    for (i128 a : as)
      for (i128 b : as)
        for (i128 c : as)
          h = vh::fnv(h, f(a, b, c));
  }
  else
    return "bad-op";
  return "D " + vh::hex64(h);
}
}

#ifndef VERIF_NO_MAIN
int main()
{
  init();
  vh::op_budget() = 900; // CPU seconds: one `selfcheck` line walks all 2^32 operand pairs of a 16-bit instantiation (100-130 s under ASan)
  return vh::run(handle);
}
#endif
