// C14 correspondence harness: runs the real fcppt::math vector / dim / matrix templates on the operation lines
// described in /verif/lean/FcpptModel/Drv/C14.lean and prints the same canonical result lines.
//
// Storage modes: 's' static storage, 'b' a read-only view into a larger caller-owned buffer (a storage type
// defined here that implements fcppt's storage concept: storage_size + operator[]), 'r' (vectors) the row view
// fcppt::math::matrix::detail::row_view obtained from get_unsafe(1) of a static 3 x N matrix.
//
// Three-way: besides printing what fcppt computes, every line recomputes the results naively on plain
// std::vector<long> and reports nv=1 when they agree (nv=0:<what> otherwise); the Lean model prints nv=1.
#include "common/vh.hpp"
#include "common/route.hpp"

#include <fcppt/cast/size_fun.hpp>
#include <fcppt/math/size_type.hpp>
#include <fcppt/math/static_size.hpp>
#include <fcppt/math/size_constant.hpp>
#include <fcppt/math/to_array.hpp>
#include <fcppt/math/dim/arithmetic.hpp>
#include <fcppt/math/dim/at.hpp>
#include <fcppt/math/dim/comparison.hpp>
#include <fcppt/math/dim/fill.hpp>
#include <fcppt/math/dim/init.hpp>
#include <fcppt/math/dim/narrow_cast.hpp>
#include <fcppt/math/dim/null.hpp>
#include <fcppt/math/dim/object_impl.hpp>
#include <fcppt/math/dim/push_back.hpp>
#include <fcppt/math/dim/static.hpp>
#include <fcppt/math/dim/structure_cast.hpp>
#include <fcppt/math/matrix/adjugate.hpp>
#include <fcppt/math/matrix/arithmetic.hpp>
#include <fcppt/math/matrix/at_r.hpp>
#include <fcppt/math/matrix/at_r_c.hpp>
#include <fcppt/math/matrix/comparison.hpp>
#include <fcppt/math/matrix/delete_row_and_column.hpp>
#include <fcppt/math/matrix/determinant.hpp>
#include <fcppt/math/matrix/identity.hpp>
#include <fcppt/math/matrix/index.hpp>
#include <fcppt/math/matrix/init.hpp>
#include <fcppt/math/matrix/inverse.hpp>
#include <fcppt/math/matrix/object_impl.hpp>
#include <fcppt/math/matrix/row.hpp>
#include <fcppt/math/matrix/scaling.hpp>
#include <fcppt/math/matrix/static.hpp>
#include <fcppt/math/matrix/structure_cast.hpp>
#include <fcppt/math/matrix/translation.hpp>
#include <fcppt/math/matrix/transpose.hpp>
#include <fcppt/math/matrix/vector.hpp>
#include <fcppt/math/vector/arithmetic.hpp>
#include <fcppt/math/vector/at.hpp>
#include <fcppt/math/vector/bit_strings.hpp>
#include <fcppt/math/vector/comparison.hpp>
#include <fcppt/math/vector/cross.hpp>
#include <fcppt/math/vector/dot.hpp>
#include <fcppt/math/vector/fill.hpp>
#include <fcppt/math/vector/init.hpp>
#include <fcppt/math/vector/length_square.hpp>
#include <fcppt/math/vector/narrow_cast.hpp>
#include <fcppt/math/vector/null.hpp>
#include <fcppt/math/vector/object_impl.hpp>
#include <fcppt/math/vector/push_back.hpp>
#include <fcppt/math/vector/static.hpp>
#include <fcppt/math/vector/structure_cast.hpp>
#include <fcppt/optional/maybe.hpp>
#include <fcppt/optional/object_impl.hpp>

#include <array>
#include <cstdint>
#include <cstdlib>
#include <optional>
#include <string>
#include <type_traits>
#include <utility>
#include <vector>

// harness/c14_member.cpp (second translation unit): the ops `mem` and `mems` (member operators on objects in one memory)
std::string c14_member_handle(std::vector<std::string> const &);
// harness/c14_extra.cpp (third translation unit): the ops `nb`, `md`, `tp`, `inf` (neighbouring public API)
std::string c14_extra_handle(std::vector<std::string> const &);

namespace
{
namespace fm = fcppt::math;
using T = long;
using sz = fm::size_type;
using ints = std::vector<long>;
using grid = std::vector<ints>; // rows

constexpr long bound = 1000;

// ------------------------------------------------------------------ the buffer view storage

template <typename U, sz N>
class buffer_view
{
public:
  using value_type = U;
  using size_type = sz;
  using storage_size = fm::static_size<N>;
  using reference = U const &;
  using const_reference = U const &;
  using pointer = U const *;
  using const_pointer = U const *;
  explicit buffer_view(U const *_p) : p_{_p} {}
  const_reference operator[](size_type const _i) const
  {
    if (_i >= N)
      std::abort(); // the library indexed a storage outside storage_size
    return p_[_i];
  }
  [[nodiscard]] const_pointer data() const { return p_; }

private:
  U const *p_;
};

template <sz N>
using svec = fm::vector::static_<T, N>;
template <sz N>
using sdim = fm::dim::static_<T, N>;
template <sz R, sz C>
using smat = fm::matrix::static_<T, R, C>;
template <sz N>
using bvec = fm::vector::object<T, N, buffer_view<T, N>>;
template <sz N>
using bdim = fm::dim::object<T, N, buffer_view<T, N>>;
template <sz R, sz C>
using bmat = fm::matrix::object<T, R, C, buffer_view<T, R * C>>;

// ------------------------------------------------------------------ parsing / printing

std::optional<long> scalar(std::string const &s)
{
  try
  {
    std::size_t used = 0;
    long long const v = std::stoll(s, &used);
    if (used != s.size() || v < -bound || v > bound)
      return std::nullopt;
    return static_cast<long>(v);
  }
  catch (...)
  {
    return std::nullopt;
  }
}

std::optional<unsigned> nat(std::string const &s)
{
  if (s.empty() || s.size() > 6)
    return std::nullopt;
  for (char c : s)
    if (c < '0' || c > '9')
      return std::nullopt;
  return static_cast<unsigned>(std::stoul(s));
}

std::optional<unsigned> dim_in(std::string const &s, unsigned lo, unsigned hi)
{
  auto const n = nat(s);
  if (!n || *n < lo || *n > hi)
    return std::nullopt;
  return n;
}

std::optional<ints> int_list(std::string const &s, std::size_t want)
{
  ints r;
  if (s != "-")
  {
    std::size_t pos = 0;
    while (true)
    {
      std::size_t const next = s.find(',', pos);
      auto const v = scalar(s.substr(pos, next == std::string::npos ? next : next - pos));
      if (!v)
        return std::nullopt;
      r.push_back(*v);
      if (next == std::string::npos)
        break;
      pos = next + 1;
    }
  }
  if (r.size() != want)
    return std::nullopt;
  return r;
}

template <sz N>
std::array<T, N> to_arr(ints const &v)
{
  std::array<T, N> a{};
  for (sz i = 0; i < N; ++i)
    a[i] = v[i];
  return a;
}

std::string show(ints const &v) { return vh::join(v); }

std::string show(grid const &g)
{
  if (g.empty())
    return "-";
  std::string r;
  for (std::size_t i = 0; i < g.size(); ++i)
  {
    if (i)
      r += ';';
    r += vh::join(g[i]);
  }
  return r;
}

char const *b01(bool b) { return b ? "1" : "0"; }

// ------------------------------------------------------------------ reading fcppt objects through the public API

// vector / dim: run-time get_unsafe over the static size
template <typename V>
ints vals(V const &v)
{
  ints r;
  for (sz i = 0; i < V::static_size::value; ++i)
    r.push_back(static_cast<long>(v.get_unsafe(i)));
  return r;
}

// matrix: at_r_c<I, J> for every static index pair
template <typename M>
grid mvals(M const &m)
{
  constexpr sz R = M::static_rows::value;
  constexpr sz C = M::static_columns::value;
  grid g(R, ints(C, 0));
  [&]<std::size_t... A>(std::index_sequence<A...>)
  { ((g[A / C][A % C] = static_cast<long>(fm::matrix::at_r_c<A / C, A % C>(m))), ...); }(std::make_index_sequence<R * C>{});
  return g;
}

template <typename O, typename F>
std::string show_opt(O const &o, F f)
{
  return fcppt::optional::maybe(
      o, [] { return std::string{"none"}; }, [&f](auto const &x) { return f(x); });
}

// ------------------------------------------------------------------ operand holders

// Every static vector / dim / matrix the operations are applied to travels through a special member of its class first
// (common/route.hpp, notes/sweep.md): copy / move construction, copy / move assignment over an object holding different
// elements, self assignment, swap.  The route is a function of the elements; mismatches are collected here and appended
// to the result line by handle().
std::string sm_mismatch;

template <std::size_t K>
unsigned sm_route(std::array<T, K> const &a)
{
  unsigned h{static_cast<unsigned>(K)};
  for (T const e : a)
    h = h * 31U + static_cast<unsigned>(e) + 7U;
  return h ^ (h >> 9U);
}

template <sz N>
svec<N> make_svec(std::array<T, N> const &a)
{
  return vh::sm::checked(
      sm_mismatch,
      "math::vector::object",
      sm_route(a),
      fm::vector::init<svec<N>>([&a]<sz I>(fm::size_constant<I>) { return a[I]; }),
      [&a] { return fm::vector::init<svec<N>>([&a]<sz I>(fm::size_constant<I>) { return a[I] + 1 + static_cast<T>(I); }); },
      [](svec<N> const &v) { return show(vals(v)); });
}
template <sz N>
sdim<N> make_sdim(std::array<T, N> const &a)
{
  return vh::sm::checked(
      sm_mismatch,
      "math::dim::object",
      sm_route(a),
      fm::dim::init<sdim<N>>([&a]<sz I>(fm::size_constant<I>) { return a[I]; }),
      [&a] { return fm::dim::init<sdim<N>>([&a]<sz I>(fm::size_constant<I>) { return a[I] + 1 + static_cast<T>(I); }); },
      [](sdim<N> const &v) { return show(vals(v)); });
}
// the harness's own row-major convention: element (Row, Col) is a[Row * C + Col]
template <sz R, sz C>
smat<R, C> make_smat(std::array<T, R * C> const &a)
{
  return vh::sm::checked(
      sm_mismatch,
      "math::matrix::object",
      sm_route(a),
      fm::matrix::init<smat<R, C>>([&a]<sz Row, sz Col>(fm::matrix::index<Row, Col>) { return a[Row * C + Col]; }),
      [&a]
      {
        return fm::matrix::init<smat<R, C>>([&a]<sz Row, sz Col>(fm::matrix::index<Row, Col>)
                                            { return a[Row * C + Col] + 1 + static_cast<T>(Row * C + Col); });
      },
      [](smat<R, C> const &m) { return show(mvals(m)); });
}
template <sz N>
struct buf_holder
{
  std::array<T, N + 5> buf;
  explicit buf_holder(std::array<T, N> const &a)
  {
    buf[0] = 101;
    buf[1] = 102;
    for (sz i = 0; i < N; ++i)
      buf[2 + i] = a[i];
    buf[N + 2] = 103;
    buf[N + 3] = 104;
    buf[N + 4] = 105;
  }
  buf_holder(buf_holder const &) = delete;
  buf_holder &operator=(buf_holder const &) = delete;
  [[nodiscard]] buffer_view<T, N> view() const { return buffer_view<T, N>{buf.data() + 2}; }
};

template <sz N>
smat<3, N> row_carrier(std::array<T, N> const &a)
{
  std::array<T, 3 * N> all{};
  for (sz k = 0; k < N; ++k)
  {
    all[k] = 201 + static_cast<long>(k);
    all[N + k] = a[k];
    all[2 * N + k] = 301 + static_cast<long>(k);
  }
  return make_smat<3, N>(all);
}

enum class fam
{
  vector,
  dim
};

// calls f(l, r) with the two operands in the requested storage modes
// N = 2, 3: also operands of two different storage types
constexpr bool vec_mixed(sz n) { return n == 2 || n == 3; }

template <fam K, sz N, typename F>
std::string with2(std::string const &lr, std::array<T, N> const &a, std::array<T, N> const &b, F f)
{
  constexpr bool Mixed = vec_mixed(N);
  if constexpr (K == fam::vector)
  {
    if (lr == "ss")
      return f(make_svec<N>(a), make_svec<N>(b));
    if (lr == "bb")
    {
      buf_holder<N> const ha{a}, hb{b};
      return f(bvec<N>{ha.view()}, bvec<N>{hb.view()});
    }
    if (lr == "rr")
    {
      smat<3, N> const ma{row_carrier<N>(a)}, mb{row_carrier<N>(b)};
      return f(ma.get_unsafe(1), mb.get_unsafe(1));
    }
    if constexpr (Mixed)
    if (lr == "sr")
    {
      smat<3, N> const mb{row_carrier<N>(b)};
      return f(make_svec<N>(a), fm::matrix::at_r<1>(mb));
    }
    if constexpr (Mixed)
    if (lr == "rb")
    {
      smat<3, N> const ma{row_carrier<N>(a)};
      buf_holder<N> const hb{b};
      return f(fm::matrix::at_r<1>(ma), bvec<N>{hb.view()});
    }
    if constexpr (Mixed)
    if (lr == "bs")
    {
      buf_holder<N> const ha{a};
      return f(bvec<N>{ha.view()}, make_svec<N>(b));
    }
  }
  else
  {
    if (lr == "ss")
      return f(make_sdim<N>(a), make_sdim<N>(b));
    if (lr == "bb")
    {
      buf_holder<N> const ha{a}, hb{b};
      return f(bdim<N>{ha.view()}, bdim<N>{hb.view()});
    }
    if constexpr (Mixed)
      if (lr == "sb")
      {
        buf_holder<N> const hb{b};
        return f(make_sdim<N>(a), bdim<N>{hb.view()});
      }
  }
  return "bad-op";
}

template <sz R, sz C, bool Views, typename F>
std::string with_mat(char mode, std::array<T, R * C> const &a, F f)
{
  if (mode == 's')
  {
    smat<R, C> const m{make_smat<R, C>(a)};
    return f(m);
  }
  if constexpr (Views)
  if (mode == 'b')
  {
    buf_holder<R * C> const h{a};
    bmat<R, C> const m{h.view()};
    return f(m);
  }
  return "bad-op";
}

// ss, bb, sb
template <sz R1, sz C1, sz R2, sz C2, bool Views, typename F>
std::string with_mat2(std::string const &lr, std::array<T, R1 * C1> const &a, std::array<T, R2 * C2> const &b, F f)
{
  if (lr == "ss")
  {
    smat<R1, C1> const ma{make_smat<R1, C1>(a)};
    smat<R2, C2> const mb{make_smat<R2, C2>(b)};
    return f(ma, mb);
  }
  if constexpr (Views)
  {
  if (lr == "bb")
  {
    buf_holder<R1 * C1> const ha{a};
    buf_holder<R2 * C2> const hb{b};
    bmat<R1, C1> const ma{ha.view()};
    bmat<R2, C2> const mb{hb.view()};
    return f(ma, mb);
  }
  if (lr == "sb")
  {
    smat<R1, C1> const ma{make_smat<R1, C1>(a)};
    buf_holder<R2 * C2> const hb{b};
    bmat<R2, C2> const mb{hb.view()};
    return f(ma, mb);
  }
  }
  return "bad-op";
}

// which shapes are instantiated (the Lean driver has the same tables); everything else is bad-op
constexpr bool in_list(unsigned code, std::initializer_list<unsigned> l)
{
  for (unsigned x : l)
    if (x == code)
      return true;
  return false;
}
constexpr bool mat_shape(sz r, sz c) { return r == c || in_list(r * 10 + c, {23, 32, 34, 43, 14, 41}); }
constexpr bool mat_views(sz r, sz c) { return in_list(r * 10 + c, {22, 23, 33, 44}); }
constexpr bool mul_shape_ok(sz m, sz n, sz p) { return in_list(m * 100 + n * 10 + p, {111, 222, 333, 444, 232, 323, 234, 342, 141, 414, 123, 431}); }
constexpr bool mul_views(sz m, sz n, sz p) { return in_list(m * 100 + n * 10 + p, {222, 234, 333}); }
constexpr bool mv_shape_ok(sz r, sz c) { return r == c || in_list(r * 10 + c, {23, 32, 34, 43}); }
constexpr bool mv_views(sz r, sz c) { return in_list(r * 10 + c, {23, 33, 44}); }
constexpr bool del_shape_ok(sz r, sz c) { return r == c || in_list(r * 10 + c, {23, 32, 34, 43}); }
constexpr bool del_views(sz r, sz c) { return in_list(r * 10 + c, {33, 34}); }
constexpr bool sq_views(sz) { return true; }
constexpr bool pair_views(sz n) { return n == 2 || n == 3; }

template <unsigned Lo, unsigned Hi, typename F>
std::string dispatch(unsigned n, F f)
{
  if constexpr (Lo > Hi)
  {
    return "bad-op";
  }
  else
  {
    if (n == Lo)
      return f(std::integral_constant<unsigned, Lo>{});
    return dispatch<Lo + 1, Hi>(n, f);
  }
}

// ------------------------------------------------------------------ naive reference computations on plain arrays

grid n_grid(ints const &a, std::size_t r, std::size_t c)
{
  grid g(r, ints(c, 0));
  for (std::size_t i = 0; i < r; ++i)
    for (std::size_t j = 0; j < c; ++j)
      g[i][j] = a[i * c + j];
  return g;
}
grid n_zip(grid const &a, grid const &b, long sign)
{
  grid g{a};
  for (std::size_t i = 0; i < a.size(); ++i)
    for (std::size_t j = 0; j < a[i].size(); ++j)
      g[i][j] = a[i][j] + sign * b[i][j];
  return g;
}
grid n_scale(grid const &a, long k)
{
  grid g{a};
  for (auto &rw : g)
    for (auto &e : rw)
      e *= k;
  return g;
}
grid n_mul(grid const &a, grid const &b)
{
  std::size_t const m = a.size(), n = b.size(), p = n ? b[0].size() : 0;
  grid g(m, ints(p, 0));
  for (std::size_t i = 0; i < m; ++i)
    for (std::size_t j = 0; j < p; ++j)
      for (std::size_t k = 0; k < n; ++k)
        g[i][j] += a[i][k] * b[k][j];
  return g;
}
grid n_tr(grid const &a)
{
  std::size_t const r = a.size(), c = r ? a[0].size() : 0;
  grid g(c, ints(r, 0));
  for (std::size_t i = 0; i < r; ++i)
    for (std::size_t j = 0; j < c; ++j)
      g[j][i] = a[i][j];
  return g;
}
grid n_minor(grid const &a, std::size_t dr, std::size_t dc)
{
  grid g;
  for (std::size_t i = 0; i < a.size(); ++i)
  {
    if (i == dr)
      continue;
    ints rw;
    for (std::size_t j = 0; j < a[i].size(); ++j)
      if (j != dc)
        rw.push_back(a[i][j]);
    g.push_back(rw);
  }
  return g;
}
// Laplace along the first ROW (the library expands along the first column)
long n_det(grid const &a)
{
  if (a.empty())
    return 1;
  long s = 0;
  for (std::size_t j = 0; j < a.size(); ++j)
    s += (j % 2 == 0 ? 1 : -1) * a[0][j] * n_det(n_minor(a, 0, j));
  return s;
}
grid n_adj(grid const &a)
{
  std::size_t const n = a.size();
  grid g(n, ints(n, 0));
  for (std::size_t i = 0; i < n; ++i)
    for (std::size_t j = 0; j < n; ++j)
      g[i][j] = ((i + j) % 2 == 0 ? 1 : -1) * n_det(n_minor(a, j, i));
  return g;
}
grid n_id(std::size_t n)
{
  grid g(n, ints(n, 0));
  for (std::size_t i = 0; i < n; ++i)
    g[i][i] = 1;
  return g;
}
long n_dot(ints const &a, ints const &b)
{
  long s = 0;
  for (std::size_t i = 0; i < a.size(); ++i)
    s += a[i] * b[i];
  return s;
}

struct naive
{
  std::string bad;
  template <typename A, typename B>
  void eq(char const *what, A const &x, B const &y)
  {
    if (bad.empty() && !(x == y))
      bad = what;
  }
  [[nodiscard]] std::string flag() const { return bad.empty() ? std::string{"nv=1"} : "nv=0:" + bad; }
};

// ------------------------------------------------------------------ converters for structure_cast

// 2 * x + 1: shows that Conv is applied to every element
struct twice_plus_one_fun
{
  template <typename Dest, typename Source>
  static constexpr Dest execute(Source const &_source) noexcept
  {
    return static_cast<Dest>(2 * _source + 1);
  }
};

// ------------------------------------------------------------------ family traits (vector / dim have the same free functions in different namespaces)

template <fam K>
struct family;

template <>
struct family<fam::vector>
{
  template <typename U, sz N>
  using st = fm::vector::static_<U, N>;
  template <typename D, typename V>
  static D narrow(V const &v) { return fm::vector::narrow_cast<D>(v); }
  template <typename V>
  static auto push(V const &v, T const &k) { return fm::vector::push_back(v, k); }
  template <typename D, typename Conv, typename V>
  static D scast(V const &v) { return fm::vector::structure_cast<D, Conv>(v); }
  template <typename V>
  static auto null() { return fm::vector::null<V>(); }
  template <typename V>
  static V fill(T const &k) { return fm::vector::fill<V>(k); }
  template <sz I, typename V>
  static long at(V const &v) { return fm::vector::at<I>(v); }
};

template <>
struct family<fam::dim>
{
  template <typename U, sz N>
  using st = fm::dim::static_<U, N>;
  template <typename D, typename V>
  static D narrow(V const &v) { return fm::dim::narrow_cast<D>(v); }
  template <typename V>
  static auto push(V const &v, T const &k) { return fm::dim::push_back(v, k); }
  template <typename D, typename Conv, typename V>
  static D scast(V const &v) { return fm::dim::structure_cast<D, Conv>(v); }
  template <typename V>
  static auto null() { return fm::dim::null<V>(); }
  template <typename V>
  static V fill(T const &k) { return fm::dim::fill<V>(k); }
  template <sz I, typename V>
  static long at(V const &v) { return fm::dim::at<I>(v); }
};

// ------------------------------------------------------------------ vec

template <fam K, sz N, typename L, typename R>
std::string vec_line(L const &l, R const &r, ints const &a, ints const &b, long k, unsigned idx)
{
  using F = family<K>;
  using S = typename F::template st<T, N>;
  naive nv;
  std::string out;
  auto const lv = [](auto const &v) { return show(vals(v)); };

  auto const neg = -l;
  auto const add = l + r;
  auto const sub = l - r;
  auto const mul = l * r;
  auto const smr = l * k;
  auto const sml = k * r;
  static_assert(std::is_same_v<std::remove_cv_t<decltype(add)>, S>);
  {
    ints e_neg, e_add, e_sub, e_mul, e_smr, e_sml;
    for (sz i = 0; i < N; ++i)
    {
      e_neg.push_back(-a[i]);
      e_add.push_back(a[i] + b[i]);
      e_sub.push_back(a[i] - b[i]);
      e_mul.push_back(a[i] * b[i]);
      e_smr.push_back(a[i] * k);
      e_sml.push_back(k * b[i]);
    }
    nv.eq("neg", vals(neg), e_neg);
    nv.eq("add", vals(add), e_add);
    nv.eq("sub", vals(sub), e_sub);
    nv.eq("mul", vals(mul), e_mul);
    nv.eq("smr", vals(smr), e_smr);
    nv.eq("sml", vals(sml), e_sml);
  }
  out += "neg=" + lv(neg) + " add=" + lv(add) + " sub=" + lv(sub) + " mul=" + lv(mul) + " smr=" + lv(smr) + " sml=" + lv(sml);
  out += " div=" + show_opt(l / r, lv) + " sdiv=" + show_opt(l / k, lv);
  if constexpr (K == fam::vector)
  {
    long const d = fm::vector::dot(l, r);
    long const q = fm::vector::length_square(r);
    nv.eq("dot", d, n_dot(a, b));
    nv.eq("lsq", q, n_dot(b, b));
    out += " dot=" + std::to_string(d) + " lsq=" + std::to_string(q);
  }
  bool const eq = l == r, ne = l != r;
  // operator< & co. are declared for two storage types S1, S2 but detail::array_less(T const &, T const &) takes one
  // type only: the ordering operators do not instantiate for operands of different storage types (see notes/C14.md).
  // For mixed operands both are first copied into static storage (converting constructor, detail::copy).
  auto const ordered = [](auto const &p, auto const &q) { return std::array<bool, 4>{p < q, p > q, p <= q, p >= q}; };
  std::array<bool, 4> const ord{[&]
                                {
                                  if constexpr (std::is_same_v<L, R>)
                                    return ordered(l, r);
                                  else
                                    return ordered(S(l), S(r));
                                }()};
  bool const lt = ord[0], gt = ord[1], le = ord[2], ge = ord[3];
  nv.eq("eq", eq, a == b);
  nv.eq("lt", lt, a < b); // std::vector's lexicographic order
  out += std::string{" eq="} + b01(eq) + " ne=" + b01(ne) + " lt=" + b01(lt) + " gt=" + b01(gt) + " le=" + b01(le) + " ge=" + b01(ge);
  // narrow_cast to every smaller dimension >= 1
  {
    std::string parts;
    [&]<std::size_t... M>(std::index_sequence<M...>)
    {
      (
          [&]
          {
            constexpr sz m = static_cast<sz>(M) + 1U;
            auto const nrw = F::template narrow<typename F::template st<T, m>>(l);
            nv.eq("nar", vals(nrw), ints(a.begin(), a.begin() + m));
            if (!parts.empty())
              parts += '|';
            parts += lv(nrw);
          }(),
          ...);
    }(std::make_index_sequence<N - 1>{});
    out += " nar=" + (parts.empty() ? std::string{"-"} : parts);
  }
  {
    auto const pb = F::push(l, k);
    ints e{a};
    e.push_back(k);
    nv.eq("pb", vals(pb), e);
    out += " pb=" + lv(pb);
  }
  out += " sc=" + lv(F::template scast<typename F::template st<int, N>, fcppt::cast::size_fun>(r));
  out += " sc2=" + lv(F::template scast<typename F::template st<long long, N>, twice_plus_one_fun>(r));
  out += " null=" + lv(F::template null<R>());
  out += " fill=" + lv(F::template fill<S>(k));
  {
    ints at;
    [&]<std::size_t... I>(std::index_sequence<I...>) { (at.push_back(F::template at<I>(r)), ...); }(std::make_index_sequence<N>{});
    nv.eq("at", at, b);
    out += " at=" + show(at);
  }
  if constexpr (K == fam::vector)
  {
    ints c;
    c.push_back(l.x());
    if constexpr (N >= 2)
      c.push_back(l.y());
    if constexpr (N >= 3)
      c.push_back(l.z());
    if constexpr (N >= 4)
      c.push_back(l.w());
    out += " xyzw=" + show(c);
  }
  // get_unsafe(i) has the precondition i < N; the harness checks it and does not call the library outside it
  out += " get=" + (idx < N ? std::to_string(l.get_unsafe(idx)) : std::string{"oob"});
  out += " cp=" + lv(S(l));
  return out + " " + nv.flag();
}

template <fam K>
std::string vec_op(std::vector<std::string> const &t)
{
  auto const n = dim_in(t[3], 1, 4);
  auto const k = scalar(t[6]);
  auto const idx = nat(t[7]);
  if (!n || !k || !idx)
    return "bad-op";
  auto const a = int_list(t[4], *n), b = int_list(t[5], *n);
  if (!a || !b)
    return "bad-op";
  return dispatch<1, 4>(
      *n,
      [&]<unsigned N>(std::integral_constant<unsigned, N>)
      {
        return with2<K, N>(
            t[2], to_arr<N>(*a), to_arr<N>(*b), [&](auto const &l, auto const &r) { return vec_line<K, N>(l, r, *a, *b, *k, *idx); });
      });
}

std::string cross_op(std::vector<std::string> const &t)
{
  auto const a = int_list(t[2], 3), b = int_list(t[3], 3);
  if (!a || !b)
    return "bad-op";
  return with2<fam::vector, 3>(
      t[1],
      to_arr<3>(*a),
      to_arr<3>(*b),
      [&](auto const &l, auto const &r)
      {
        auto const c = fm::vector::cross(l, r);
        auto const anti = fm::vector::cross(r, l);
        long const ll = fm::vector::length_square(l), rr = fm::vector::length_square(r), lr = fm::vector::dot(l, r);
        bool const lag = fm::vector::length_square(c) == ll * rr - lr * lr;
        return "c=" + show(vals(c)) + " dl=" + std::to_string(fm::vector::dot(l, c)) + " dr=" + std::to_string(fm::vector::dot(r, c)) +
               " anti=" + show(vals(anti)) + " lag=" + b01(lag);
      });
}

// ------------------------------------------------------------------ mat

template <sz R, sz C, typename A, typename B>
std::string mat_line(A const &ma, B const &mb, ints const &a, ints const &b, long k, unsigned j, unsigned i)
{
  naive nv;
  grid const ga = n_grid(a, R, C), gb = n_grid(b, R, C);
  auto const add = ma + mb;
  auto const sub = ma - mb;
  auto const smr = ma * k;
  auto const sml = k * mb;
  auto const tr = fm::matrix::transpose(ma);
  static_assert(std::is_same_v<std::remove_cv_t<decltype(tr)>, smat<C, R>>);
  nv.eq("add", mvals(add), n_zip(ga, gb, 1));
  nv.eq("sub", mvals(sub), n_zip(ga, gb, -1));
  nv.eq("smr", mvals(smr), n_scale(ga, k));
  nv.eq("sml", mvals(sml), n_scale(gb, k));
  nv.eq("tr", mvals(tr), n_tr(ga));
  nv.eq("read", mvals(ma), ga);
  bool const eq = ma == mb, ne = ma != mb;
  nv.eq("eq", eq, a == b);
  auto const sc = fm::matrix::structure_cast<fm::matrix::static_<int, R, C>, fcppt::cast::size_fun>(mb);
  auto const sc2 = fm::matrix::structure_cast<fm::matrix::static_<long long, R, C>, twice_plus_one_fun>(mb);
  // rebuild from the rows: every row view is copied into a row_type, the row constructor puts them together
  smat<R, C> const rebuilt{[&]<std::size_t... Rw>(std::index_sequence<Rw...>)
                           { return smat<R, C>{typename smat<R, C>::row_type{fm::matrix::at_r<Rw>(ma)}...}; }(std::make_index_sequence<R>{})};
  nv.eq("rc", mvals(rebuilt), ga);
  auto const lin = fm::to_array(ma);
  ints linv;
  for (auto const &e : lin)
    linv.push_back(e);
  nv.eq("lin", linv, a);
  std::string out = "add=" + show(mvals(add)) + " sub=" + show(mvals(sub)) + " smr=" + show(mvals(smr)) + " sml=" + show(mvals(sml)) +
                    " tr=" + show(mvals(tr)) + " eq=" + b01(eq) + " ne=" + b01(ne) + " sc=" + show(mvals(sc)) + " sc2=" + show(mvals(sc2)) +
                    " rc=" + show(mvals(rebuilt)) + " lin=" + show(linv);
  // get_unsafe: preconditions j < R, i < C checked here
  out += " get=" + ((j < R && i < C) ? std::to_string(ma.get_unsafe(j).get_unsafe(i)) : std::string{"oob"});
  out += " row=" + (j < R ? show(vals(ma.get_unsafe(j))) : std::string{"oob"});
  return out + " " + nv.flag();
}

std::string mat_op(std::vector<std::string> const &t)
{
  auto const r = dim_in(t[2], 1, 4), c = dim_in(t[3], 1, 4);
  auto const k = scalar(t[6]);
  auto const j = nat(t[7]), i = nat(t[8]);
  if (!r || !c || !k || !j || !i)
    return "bad-op";
  auto const a = int_list(t[4], *r * *c), b = int_list(t[5], *r * *c);
  if (!a || !b)
    return "bad-op";
  return dispatch<1, 4>(
      *r,
      [&]<unsigned R>(std::integral_constant<unsigned, R>)
      {
        return dispatch<1, 4>(
            *c,
            [&]<unsigned C>(std::integral_constant<unsigned, C>)
            {
              if constexpr (mat_shape(R, C))
                return with_mat2<R, C, R, C, mat_views(R, C)>(
                    t[1],
                    to_arr<R * C>(*a),
                    to_arr<R * C>(*b),
                    [&](auto const &ma, auto const &mb) { return mat_line<R, C>(ma, mb, *a, *b, *k, *j, *i); });
              else
                return std::string{"bad-op"};
            });
      });
}

// ------------------------------------------------------------------ mul, mv

template <sz M, sz N, sz P>
std::string mul_shape(std::string const &lr, ints const &a, ints const &b)
{
  return with_mat2<M, N, N, P, mul_views(M, N, P)>(
      lr,
      to_arr<M * N>(a),
      to_arr<N * P>(b),
      [&](auto const &ma, auto const &mb)
      {
        naive nv;
        auto const ab = ma * mb;
        static_assert(std::is_same_v<std::remove_cv_t<decltype(ab)>, smat<M, P>>);
        auto const tab = fm::matrix::transpose(ab);
        auto const btat = fm::matrix::transpose(mb) * fm::matrix::transpose(ma);
        grid const e = n_mul(n_grid(a, M, N), n_grid(b, N, P));
        nv.eq("ab", mvals(ab), e);
        nv.eq("tab", mvals(tab), n_tr(e));
        nv.eq("btat", mvals(btat), n_tr(e));
        return "ab=" + show(mvals(ab)) + " tab=" + show(mvals(tab)) + " btat=" + show(mvals(btat)) + " " + nv.flag();
      });
}

std::string mul_op(std::vector<std::string> const &t)
{
  auto const m = dim_in(t[2], 1, 4), n = dim_in(t[3], 1, 4), p = dim_in(t[4], 1, 4);
  if (!m || !n || !p)
    return "bad-op";
  auto const a = int_list(t[5], *m * *n), b = int_list(t[6], *n * *p);
  if (!a || !b)
    return "bad-op";
  return dispatch<1, 4>(
      *m,
      [&]<unsigned M>(std::integral_constant<unsigned, M>)
      {
        return dispatch<1, 4>(
            *n,
            [&]<unsigned N>(std::integral_constant<unsigned, N>)
            {
              return dispatch<1, 4>(
                  *p,
                  [&]<unsigned P>(std::integral_constant<unsigned, P>)
                  {
                    if constexpr (mul_shape_ok(M, N, P))
                      return mul_shape<M, N, P>(t[1], *a, *b);
                    else
                      return std::string{"bad-op"};
                  });
            });
      });
}

template <sz R, sz C>
std::string mv_shape(char mm, char vm, ints const &a, ints const &v)
{
  return with_mat<R, C, mv_views(R, C)>(
      mm,
      to_arr<R * C>(a),
      [&](auto const &ma)
      {
        auto const body = [&](auto const &vec)
        {
          naive nv;
          auto const av = ma * vec;
          static_assert(std::is_same_v<std::remove_cv_t<decltype(av)>, svec<R>>);
          ints e(R, 0);
          for (sz i = 0; i < R; ++i)
            for (sz j = 0; j < C; ++j)
              e[i] += a[i * C + j] * v[j];
          nv.eq("av", vals(av), e);
          return "av=" + show(vals(av)) + " " + nv.flag();
        };
        std::array<T, C> const va{to_arr<C>(v)};
        if (vm == 's')
          return body(make_svec<C>(va));
        if constexpr (mv_views(R, C))
        {
          if (vm == 'b')
          {
            buf_holder<C> const h{va};
            return body(bvec<C>{h.view()});
          }
          if (vm == 'r')
          {
            smat<3, C> const carrier{row_carrier<C>(va)};
            return body(carrier.get_unsafe(1));
          }
        }
        return std::string{"bad-op"};
      });
}

std::string mv_op(std::vector<std::string> const &t)
{
  auto const r = dim_in(t[3], 1, 4), c = dim_in(t[4], 1, 4);
  if (!r || !c || t[1].size() != 1 || t[2].size() != 1)
    return "bad-op";
  auto const a = int_list(t[5], *r * *c), v = int_list(t[6], *c);
  if (!a || !v)
    return "bad-op";
  return dispatch<1, 4>(
      *r,
      [&]<unsigned R>(std::integral_constant<unsigned, R>)
      {
        return dispatch<1, 4>(
            *c,
            [&]<unsigned C>(std::integral_constant<unsigned, C>)
            {
              if constexpr (mv_shape_ok(R, C))
                return mv_shape<R, C>(t[1][0], t[2][0], *a, *v);
              else
                return std::string{"bad-op"};
            });
      });
}

// ------------------------------------------------------------------ sq, del

template <sz N, typename A>
std::string sq_line(A const &ma, ints const &a)
{
  naive nv;
  grid const ga = n_grid(a, N, N);
  long const det = fm::matrix::determinant(ma);
  long const dett = fm::matrix::determinant(fm::matrix::transpose(ma));
  auto const adj = fm::matrix::adjugate(ma);
  auto const aadj = ma * adj;
  auto const adja = adj * ma;
  auto const id = fm::matrix::identity<A>();
  static_assert(std::is_same_v<std::remove_cv_t<decltype(id)>, smat<N, N>>);
  auto const detid = det * id;
  nv.eq("det", det, n_det(ga));
  nv.eq("dett", dett, n_det(ga));
  nv.eq("adj", mvals(adj), n_adj(ga));
  nv.eq("aadj", mvals(aadj), n_scale(n_id(N), n_det(ga)));
  nv.eq("adja", mvals(adja), n_scale(n_id(N), n_det(ga)));
  nv.eq("id", mvals(id), n_id(N));
  std::string out = "det=" + std::to_string(det) + " dett=" + std::to_string(dett) + " adj=" + show(mvals(adj)) + " aadj=" + show(mvals(aadj)) +
                    " adja=" + show(mvals(adja));
  // inverse divides 1 by the determinant: precondition det != 0 checked here
  if (det == 0)
    out += " inv=div-zero";
  else
  {
    auto const inv = fm::matrix::inverse(ma);
    if (det == 1 || det == -1)
      nv.eq("inv", mvals(ma * inv), n_id(N));
    out += " inv=" + show(mvals(inv));
  }
  out += " id=" + show(mvals(id)) + " detid=" + show(mvals(detid));
  return out + " " + nv.flag();
}

std::string sq_op(std::vector<std::string> const &t)
{
  auto const n = dim_in(t[2], 1, 4);
  if (!n || t[1].size() != 1)
    return "bad-op";
  auto const a = int_list(t[3], *n * *n);
  if (!a)
    return "bad-op";
  return dispatch<1, 4>(
      *n,
      [&]<unsigned N>(std::integral_constant<unsigned, N>)
      { return with_mat<N, N, sq_views(N)>(t[1][0], to_arr<N * N>(*a), [&](auto const &ma) { return sq_line<N>(ma, *a); }); });
}

template <sz R, sz C>
std::string del_shape(char mode, unsigned dr, unsigned dc, ints const &a)
{
  return with_mat<R, C, del_views(R, C)>(
      mode,
      to_arr<R * C>(a),
      [&](auto const &ma)
      {
        std::string res = "bad-op";
        [&]<std::size_t... K>(std::index_sequence<K...>)
        {
          (
              [&]
              {
                constexpr sz DR = static_cast<sz>(K) / C;
                constexpr sz DC = static_cast<sz>(K) % C;
                if (dr == DR && dc == DC)
                {
                  auto const d = fm::matrix::delete_row_and_column<DR, DC>(ma);
                  static_assert(std::is_same_v<std::remove_cv_t<decltype(d)>, smat<R - 1, C - 1>>);
                  res = show(mvals(d));
                  if (mvals(d) != n_minor(n_grid(a, R, C), DR, DC) && !(R == 1 || C == 1))
                    res += " nv=0";
                }
              }(),
              ...);
        }(std::make_index_sequence<R * C>{});
        return res;
      });
}

std::string del_op(std::vector<std::string> const &t)
{
  auto const r = dim_in(t[2], 1, 4), c = dim_in(t[3], 1, 4);
  auto const dr = nat(t[4]), dc = nat(t[5]);
  if (!r || !c || !dr || !dc || t[1].size() != 1 || *dr >= *r || *dc >= *c)
    return "bad-op";
  auto const a = int_list(t[6], *r * *c);
  if (!a)
    return "bad-op";
  return dispatch<1, 4>(
      *r,
      [&]<unsigned R>(std::integral_constant<unsigned, R>)
      {
        return dispatch<1, 4>(
            *c,
            [&]<unsigned C>(std::integral_constant<unsigned, C>)
            {
              if constexpr (del_shape_ok(R, C))
                return del_shape<R, C>(t[1][0], *dr, *dc, *a);
              else
                return std::string{"bad-op"};
            });
      });
}

// ------------------------------------------------------------------ pair, trio and their digests

template <typename A, typename B>
std::string pair_line(A const &ma, B const &mb)
{
  auto const ab = ma * mb;
  auto const tab = fm::matrix::transpose(ab);
  auto const btat = fm::matrix::transpose(mb) * fm::matrix::transpose(ma);
  return "ab=" + show(mvals(ab)) + " tab=" + show(mvals(tab)) + " btat=" + show(mvals(btat)) + " add=" + show(mvals(ma + mb)) +
         " sub=" + show(mvals(ma - mb)) + " dab=" + std::to_string(fm::matrix::determinant(ab)) +
         " da=" + std::to_string(fm::matrix::determinant(ma)) + " db=" + std::to_string(fm::matrix::determinant(mb)) + " eq=" + b01(ma == mb);
}

template <typename A, typename F>
auto trio_mats(A const &a, A const &b, A const &c, F f)
{
  return f((a * b) * c, a * (b * c), a * (b + c), (a * b) + (a * c), (a + b) * c, (a * c) + (b * c));
}

std::array<T, 4> decode2(unsigned a)
{
  std::array<T, 4> r{};
  for (unsigned k = 0; k < 4; ++k)
  {
    r[k] = static_cast<long>(a % 4U) - 1;
    a /= 4U;
  }
  return r;
}

inline std::uint64_t mix(std::uint64_t h, long x) { return (h ^ static_cast<std::uint64_t>(static_cast<std::int64_t>(x))) * 1099511628211ULL; }

template <typename M>
std::uint64_t mix_mat(std::uint64_t h, M const &m)
{
  constexpr sz R = M::static_rows::value;
  constexpr sz C = M::static_columns::value;
  [&]<std::size_t... A>(std::index_sequence<A...>)
  { ((h = mix(h, fm::matrix::at_r_c<A / C, A % C>(m))), ...); }(std::make_index_sequence<R * C>{});
  return h;
}

// two / three square matrices of the same storage kind
template <sz N, bool Views, typename F>
std::string with_same2(char mode, std::array<T, N * N> const &a, std::array<T, N * N> const &b, F f)
{
  if (mode == 's')
  {
    smat<N, N> const ma{make_smat<N, N>(a)}, mb{make_smat<N, N>(b)};
    return f(ma, mb);
  }
  if constexpr (Views)
    if (mode == 'b')
    {
      buf_holder<N * N> const ha{a}, hb{b};
      bmat<N, N> const ma{ha.view()}, mb{hb.view()};
      return f(ma, mb);
    }
  return "bad-op";
}

template <sz N, bool Views, typename F>
std::string with_same3(char mode, std::array<T, N * N> const &a, std::array<T, N * N> const &b, std::array<T, N * N> const &c, F f)
{
  if (mode == 's')
  {
    smat<N, N> const ma{make_smat<N, N>(a)}, mb{make_smat<N, N>(b)}, mc{make_smat<N, N>(c)};
    return f(ma, mb, mc);
  }
  if constexpr (Views)
    if (mode == 'b')
    {
      buf_holder<N * N> const ha{a}, hb{b}, hc{c};
      bmat<N, N> const ma{ha.view()}, mb{hb.view()}, mc{hc.view()};
      return f(ma, mb, mc);
    }
  return "bad-op";
}

std::string pair_op(std::vector<std::string> const &t)
{
  auto const n = dim_in(t[2], 1, 4);
  if (!n || t[1].size() != 1)
    return "bad-op";
  auto const a = int_list(t[3], *n * *n), b = int_list(t[4], *n * *n);
  if (!a || !b)
    return "bad-op";
  return dispatch<1, 4>(
      *n,
      [&]<unsigned N>(std::integral_constant<unsigned, N>)
      {
        return with_same2<N, pair_views(N)>(
            t[1][0], to_arr<N * N>(*a), to_arr<N * N>(*b), [&](auto const &ma, auto const &mb) { return pair_line(ma, mb); });
      });
}

std::string pairs_op(std::vector<std::string> const &t)
{
  auto const a = dim_in(t[2], 0, 255);
  if (!a || t[1].size() != 1 || (t[1][0] != 's' && t[1][0] != 'b'))
    return "bad-op";
  std::uint64_t h = vh::fnv_init;
  for (unsigned b = 0; b < 256; ++b)
    h = vh::fnv(h, with_same2<2, true>(t[1][0], decode2(*a), decode2(b), [&](auto const &ma, auto const &mb) { return pair_line(ma, mb); }));
  return "D " + vh::hex64(h);
}

std::string trio_op(std::vector<std::string> const &t)
{
  auto const n = dim_in(t[2], 1, 4);
  if (!n || t[1].size() != 1)
    return "bad-op";
  auto const a = int_list(t[3], *n * *n), b = int_list(t[4], *n * *n), c = int_list(t[5], *n * *n);
  if (!a || !b || !c)
    return "bad-op";
  return dispatch<1, 4>(
      *n,
      [&]<unsigned N>(std::integral_constant<unsigned, N>)
      {
        return with_same3<N, pair_views(N)>(
            t[1][0],
            to_arr<N * N>(*a),
            to_arr<N * N>(*b),
            to_arr<N * N>(*c),
            [&](auto const &ma, auto const &mb, auto const &mc)
            {
              return trio_mats(
                  ma,
                  mb,
                  mc,
                  [](auto const &l1, auto const &r1, auto const &l2, auto const &r2, auto const &l3, auto const &r3)
                  {
                    return "l1=" + show(mvals(l1)) + " r1=" + show(mvals(r1)) + " l2=" + show(mvals(l2)) + " r2=" + show(mvals(r2)) +
                           " l3=" + show(mvals(l3)) + " r3=" + show(mvals(r3));
                  });
            });
      });
}

std::string trios_op(std::vector<std::string> const &t)
{
  auto const a = dim_in(t[2], 0, 255), b = dim_in(t[3], 0, 255);
  if (!a || !b || t[1].size() != 1)
    return "bad-op";
  auto const digest = [](auto const &ma, auto const &mb, auto make)
  {
    std::uint64_t h = vh::fnv_init;
    for (unsigned c = 0; c < 256; ++c)
    {
      std::array<T, 4> const ec{decode2(c)};
      make(
          ec,
          [&](auto const &mc)
          {
            trio_mats(
                ma,
                mb,
                mc,
                [&h](auto const &...m)
                {
                  ((h = mix_mat(h, m)), ...);
                  return 0;
                });
          });
    }
    return "D " + vh::hex64(h);
  };
  std::array<T, 4> const ea{decode2(*a)}, eb{decode2(*b)};
  if (t[1][0] == 's')
  {
    smat<2, 2> const ma{make_smat<2, 2>(ea)}, mb{make_smat<2, 2>(eb)};
    return digest(
        ma,
        mb,
        [](std::array<T, 4> const &e, auto k)
        {
          smat<2, 2> const mc{make_smat<2, 2>(e)};
          k(mc);
        });
  }
  if (t[1][0] == 'b')
  {
    buf_holder<4> const ha{ea}, hb{eb};
    bmat<2, 2> const ma{ha.view()}, mb{hb.view()};
    return digest(
        ma,
        mb,
        [](std::array<T, 4> const &e, auto k)
        {
          buf_holder<4> const hc{e};
          bmat<2, 2> const mc{hc.view()};
          k(mc);
        });
  }
  return "bad-op";
}

// ------------------------------------------------------------------ builders, bits, det0

std::string builders_op(std::vector<std::string> const &t)
{
  auto const x = scalar(t[1]), y = scalar(t[2]), z = scalar(t[3]), a = scalar(t[4]), b = scalar(t[5]), d = scalar(t[6]);
  if (!x || !y || !z || !a || !b || !d)
    return "bad-op";
  svec<3> const v3{*x, *y, *z};
  auto const vi = fm::vector::init<svec<4>>([&]<sz I>(fm::size_constant<I>) { return *a * static_cast<long>(I) + *b; });
  auto const mi = [&]<sz R, sz C>(fm::matrix::index<R, C>)
  {
    return fm::matrix::init<smat<R, C>>([&]<sz Row, sz Col>(fm::matrix::index<Row, Col>)
                                        { return *a * static_cast<long>(Row) + *b * static_cast<long>(Col) + *d; });
  };
  return "tr=" + show(mvals(fm::matrix::translation(*x, *y, *z))) + " trv=" + show(mvals(fm::matrix::translation(v3))) +
         " sc=" + show(mvals(fm::matrix::scaling(*x, *y, *z))) + " scv=" + show(mvals(fm::matrix::scaling(v3))) +
         " id1=" + show(mvals(fm::matrix::identity<smat<1, 1>>())) + " id2=" + show(mvals(fm::matrix::identity<smat<2, 2>>())) +
         " id3=" + show(mvals(fm::matrix::identity<smat<3, 3>>())) + " id4=" + show(mvals(fm::matrix::identity<smat<4, 4>>())) +
         " vi=" + show(vals(vi)) + " mi23=" + show(mvals(mi(fm::matrix::index<2, 3>{}))) + " mi32=" + show(mvals(mi(fm::matrix::index<3, 2>{}))) +
         " mi34=" + show(mvals(mi(fm::matrix::index<3, 4>{}))) + " mi41=" + show(mvals(mi(fm::matrix::index<4, 1>{}))) +
         // matrix::row + the row constructor, called directly
         " rows=" + show(mvals(smat<2, 3>{fm::matrix::row(*x, *y, *z), fm::matrix::row(*a, *b, *d)}));
}

std::string bits_op(std::vector<std::string> const &t)
{
  auto const n = dim_in(t[1], 1, 5);
  if (!n)
    return "bad-op";
  return dispatch<1, 5>(
      *n,
      [&]<unsigned N>(std::integral_constant<unsigned, N>)
      {
        auto const bs = fm::vector::bit_strings<T, N>();
        std::string r;
        for (auto const &v : bs)
        {
          if (!r.empty())
            r += '|';
          r += show(vals(v));
        }
        return r;
      });
}

std::string det0_op()
{
  auto const empty = fm::matrix::init<smat<0, 0>>([]<sz Row, sz Col>(fm::matrix::index<Row, Col>) { return 0L; });
  return std::to_string(fm::matrix::determinant(empty));
}

// ---- operands of DIFFERENT element types (int with long, short with int, long long with short): the operators are declared for
// two value types and compute in the common type; the reference is plain arithmetic per component in long long.  A conversion of
// one operand to the other operand's type before the operation (a seeded regression) only shows when a value does not fit.
template <typename L, typename R, fcppt::math::size_type N>
std::string mixed_check_one(std::array<long long, N> const &a, std::array<long long, N> const &b, char const *name)
{
  namespace fv = fcppt::math::vector;
  namespace fd = fcppt::math::dim;
  using lv = fv::static_<L, N>;
  using rv = fv::static_<R, N>;
  using ld = fd::static_<L, N>;
  using rd = fd::static_<R, N>;
  using ct = std::common_type_t<L, R>;
  lv const x{fv::init<lv>([&a](auto const i) { return static_cast<L>(a[i()]); })};
  rv const y{fv::init<rv>([&b](auto const i) { return static_cast<R>(b[i()]); })};
  ld const dx{fd::init<ld>([&a](auto const i) { return static_cast<L>(a[i()]); })};
  rd const dy{fd::init<rd>([&b](auto const i) { return static_cast<R>(b[i()]); })};
  auto const add = x + y;
  auto const sub = x - y;
  auto const bus = y - x;
  auto const mul = x * y;
  auto const dadd = dx + dy;
  auto const dsub = dx - dy;
  auto const dmul = dx * dy;
  static_assert(std::is_same_v<typename decltype(sub)::value_type, ct>);
  for (fcppt::math::size_type i = 0; i < N; ++i)
  {
    long long const l = static_cast<long long>(static_cast<L>(a[i]));
    long long const r = static_cast<long long>(static_cast<R>(b[i]));
    if (static_cast<long long>(add.get_unsafe(i)) != l + r) return std::string{"MISMATCH:"} + name + ":vector+";
    if (static_cast<long long>(sub.get_unsafe(i)) != l - r) return std::string{"MISMATCH:"} + name + ":vector-";
    if (static_cast<long long>(bus.get_unsafe(i)) != r - l) return std::string{"MISMATCH:"} + name + ":vector-(swapped)";
    if (static_cast<long long>(mul.get_unsafe(i)) != l * r) return std::string{"MISMATCH:"} + name + ":vector*";
    if (static_cast<long long>(dadd.get_unsafe(i)) != l + r) return std::string{"MISMATCH:"} + name + ":dim+";
    if (static_cast<long long>(dsub.get_unsafe(i)) != l - r) return std::string{"MISMATCH:"} + name + ":dim-";
    if (static_cast<long long>(dmul.get_unsafe(i)) != l * r) return std::string{"MISMATCH:"} + name + ":dim*";
  }
  return "ok";
}

std::string mixed_check(unsigned long long seed)
{
  // a small LCG: reproducible operands; the wide operand takes values far outside the narrow type, the narrow one stays small
  auto next = [&seed] { seed = seed * 6364136223846793005ULL + 1442695040888963407ULL; return seed >> 33; };
  std::array<long long, 3> small{}, wide{};
  for (std::size_t i = 0; i < 3; ++i)
  {
    small[i] = static_cast<long long>(next() % 2001) - 1000;
    wide[i] = (static_cast<long long>(next() % 2001) - 1000) * (next() % 4 == 0 ? 1LL : 5000011LL);
  }
  std::string r;
  if ((r = mixed_check_one<int, long, 3>(small, wide, "int.long")) != "ok") return r;
  if ((r = mixed_check_one<long, int, 3>(wide, small, "long.int")) != "ok") return r;
  std::array<long long, 3> tiny{}, mid{};
  for (std::size_t i = 0; i < 3; ++i)
  {
    tiny[i] = static_cast<long long>(next() % 21) - 10; // products with the wide operand stay inside int
    mid[i] = (static_cast<long long>(next() % 2001) - 1000) * (next() % 4 == 0 ? 1LL : 70001LL);
  }
  if ((r = mixed_check_one<short, int, 3>(tiny, mid, "short.int")) != "ok") return r;
  if ((r = mixed_check_one<int, short, 3>(mid, tiny, "int.short")) != "ok") return r;
  if ((r = mixed_check_one<long long, short, 3>(wide, tiny, "longlong.short")) != "ok") return r;
  return "ok";
}


std::string handle1(std::vector<std::string> const &t)
{
  try
  {
    if (t.empty())
      return "bad-op";
    if (t[0] == "vec" && t.size() == 8)
    {
      if (t[1] == "v")
        return vec_op<fam::vector>(t);
      if (t[1] == "d")
        return vec_op<fam::dim>(t);
      return "bad-op";
    }
    if (t[0] == "cross" && t.size() == 4)
      return cross_op(t);
    if (t[0] == "mat" && t.size() == 9)
      return mat_op(t);
    if (t[0] == "mul" && t.size() == 7)
      return mul_op(t);
    if (t[0] == "mv" && t.size() == 7)
      return mv_op(t);
    if (t[0] == "sq" && t.size() == 4)
      return sq_op(t);
    if (t[0] == "del" && t.size() == 7)
      return del_op(t);
    if (t[0] == "pair" && t.size() == 5)
      return pair_op(t);
    if (t[0] == "pairs" && t.size() == 3)
      return pairs_op(t);
    if (t[0] == "trio" && t.size() == 6)
      return trio_op(t);
    if (t[0] == "trios" && t.size() == 4)
      return trios_op(t);
    if (t[0] == "builders" && t.size() == 7)
      return builders_op(t);
    if (t[0] == "bits" && t.size() == 2)
      return bits_op(t);
    if (t[0] == "det0" && t.size() == 1)
      return det0_op();
    if (t[0] == "mixchk" && t.size() == 2)
      return mixed_check(static_cast<unsigned long long>(vh::to_ll(t[1])));
    if (t[0] == "mem" || t[0] == "mems")
      return c14_member_handle(t);
    if (t[0] == "nb" || t[0] == "md" || t[0] == "tp" || t[0] == "inf")
      return c14_extra_handle(t);
    return "bad-op";
  }
  catch (std::exception const &)
  {
    return "exc:std";
  }
  catch (...)
  {
    return "exc:unknown";
  }
}

// ------------------------------------------------------------------ digests of systematic families of the lines above

ints enum_digits(unsigned n, unsigned idx, unsigned base)
{
  ints r;
  for (unsigned j = 0; j < n; ++j)
  {
    r.push_back(static_cast<long>(idx % base) - 1);
    idx /= base;
  }
  return r;
}

template <typename F>
std::string digest_of(unsigned count, F line)
{
  std::uint64_t h = vh::fnv_init;
  for (unsigned k = 0; k < count; ++k)
  {
    std::string const s = handle1(line(k));
    if (s == "bad-op")
      return s;
    h = vh::fnv(h, s);
  }
  return "D " + vh::hex64(h);
}

std::string handle0(std::vector<std::string> const &t);


std::string handle(std::vector<std::string> const &t)
{
  sm_mismatch.clear();
  std::string const r{handle0(t)};
  return r + sm_mismatch;
}

std::string handle0(std::vector<std::string> const &t)
{
  using toks = std::vector<std::string>;
  if (t.size() == 5 && t[0] == "vecs")
  {
    auto const n = dim_in(t[3], 1, 4);
    auto const ia = nat(t[4]);
    if (!n || !ia || *ia >= (1U << (2 * *n)))
      return "bad-op";
    return digest_of(
        1U << (2 * *n),
        [&](unsigned ib)
        {
          return toks{"vec", t[1], t[2], t[3], show(enum_digits(*n, *ia, 4)), show(enum_digits(*n, ib, 4)),
                      std::to_string(static_cast<long>((*ia + ib) % 7U) - 3), std::to_string((*ia + 2 * ib) % (*n + 2))};
        });
  }
  if (t.size() == 3 && t[0] == "crs")
  {
    auto const ia = dim_in(t[2], 0, 63);
    if (!ia)
      return "bad-op";
    return digest_of(64, [&](unsigned ib) { return toks{"cross", t[1], show(enum_digits(3, *ia, 4)), show(enum_digits(3, ib, 4))}; });
  }
  if (t.size() == 3 && t[0] == "sqs")
  {
    auto const a = dim_in(t[2], 0, 80);
    if (!a)
      return "bad-op";
    return digest_of(
        243,
        [&](unsigned lo)
        {
          ints e = enum_digits(5, lo, 3);
          ints const hi = enum_digits(4, *a, 3);
          e.insert(e.end(), hi.begin(), hi.end());
          return toks{"sq", t[1], "3", show(e)};
        });
  }
  if (t.size() == 4 && t[0] == "mvs")
  {
    auto const a = dim_in(t[3], 0, 4095);
    if (!a)
      return "bad-op";
    return digest_of(64, [&](unsigned iv) { return toks{"mv", t[1], t[2], "2", "3", show(enum_digits(6, *a, 4)), show(enum_digits(3, iv, 4))}; });
  }
  return handle1(t);
}
}

int main() { return vh::run(handle); }
