// C19 ThreadSanitizer stress harness: several threads hammer ONE fcppt::log::context
// (set / get / object creation / object.level() / object.enabled() / object.log()).
//
// Built with -fsanitize=thread -DENABLE_THREADS -pthread.  Data races are found by TSan itself
// (TSAN_OPTIONS=exitcode=96:halt_on_error=1, handled by the caller).  In addition the harness
// checks that every observed level is JUSTIFIED by the sets that ran (a sound necessary
// condition for linearizability of "latest set on a prefix wins") and that every emitted text
// is exactly the documented one.
//
// Op line:  run <seed> <nthreads 2..6> <nops per thread> <rootlvl 0..5 or -> <yieldmode 0..2>
// Result:   ok threads=.. sets=.. gets=.. objs=.. levels=.. enabled=.. logs=.. emitted=.. overlap=..
//         | UNJUSTIFIED kind=.. loc=.. observed=.. justified=.. s=.. e=.. relevant=..
//         | BADTEXT expected=.. got=..
//         | exc:<kind> | error:<what>
//
// The worker threads share NOTHING but the context under test, a start flag and a relaxed
// tick counter (relaxed on purpose: TSan must not derive happens-before edges from it).
// Every log object is thread-local, and thread t only ever logs at level t so that each of the
// six (not thread-safe) ostringstream sinks has a single writer.
#include "common/vh.hpp"

#include <fcppt/make_ref.hpp>
#include <fcppt/string.hpp>
#include <fcppt/enum/array_init.hpp>
#include <fcppt/log/context.hpp>
#include <fcppt/log/level.hpp>
#include <fcppt/log/level_stream.hpp>
#include <fcppt/log/level_stream_array.hpp>
#include <fcppt/log/location.hpp>
#include <fcppt/log/name.hpp>
#include <fcppt/log/object.hpp>
#include <fcppt/log/optional_level.hpp>
#include <fcppt/log/out.hpp>
#include <fcppt/log/parameters.hpp>
#include <fcppt/log/parameters_no_function.hpp>
#include <fcppt/log/format/default_level.hpp>
#include <fcppt/log/format/function.hpp>
#include <fcppt/log/format/optional_function.hpp>

#include <algorithm>
#include <array>
#include <atomic>
#include <cstdint>
#include <exception>
#include <limits>
#include <memory>
#include <new>
#include <sstream>
#include <string>
#include <thread>
#include <unordered_map>
#include <vector>

namespace
{
using u64 = std::uint64_t;
constexpr u64 inf = std::numeric_limits<u64>::max();
constexpr int empty_level = 6;

char const *const level_names[6] = {"verbose", "debug", "info", "warning", "error", "fatal"};

// ---- the only two things shared between the workers besides the context -----------------
std::atomic<u64> g_clock{0};
std::atomic<bool> g_start{false};
// part of the start barrier only (never touched after the start): main raises g_start once every
// worker has arrived, otherwise a late-scheduled thread would miss the whole run of the others
std::atomic<unsigned> g_arrived{0};

inline u64 tick() { return g_clock.fetch_add(1, std::memory_order_relaxed); }

// ---- PRNG ---------------------------------------------------------------------------------
struct splitmix
{
  u64 x;
  u64 next()
  {
    u64 z = (x += 0x9e3779b97f4a7c15ULL);
    z = (z ^ (z >> 30)) * 0xbf58476d1ce4e5b9ULL;
    z = (z ^ (z >> 27)) * 0x94d049bb133111ebULL;
    return z ^ (z >> 31);
  }
  unsigned below(unsigned n) { return static_cast<unsigned>(next() % n); }
};

// ---- conversions ----------------------------------------------------------------------------
// a location is a string over {a,b,c}, one character per name, root first
fcppt::log::location make_location(std::string const &l)
{
  fcppt::log::location r{};
  for (char c : l)
    r /= fcppt::log::name{fcppt::string(1, c)};
  return r;
}

fcppt::log::optional_level to_level(int v)
{
  return v == empty_level ? fcppt::log::optional_level{}
                          : fcppt::log::optional_level{static_cast<fcppt::log::level>(v)};
}

int from_level(fcppt::log::optional_level const &l)
{
  return l.has_value() ? static_cast<int>(l.get_unsafe()) : empty_level;
}

std::string show_loc(std::string const &l)
{
  if (l.empty())
    return "-";
  std::string r;
  for (std::size_t i = 0; i < l.size(); ++i)
  {
    if (i != 0)
      r += '.';
    r += l[i];
  }
  return r;
}

std::string escape(std::string const &s)
{
  std::string r;
  for (char c : s)
  {
    if (c == '\n')
      r += "\\n";
    else if (c == '\\')
      r += "\\\\";
    else if (c == ' ')
      r += "\\s";
    else
      r += c;
  }
  return r.empty() ? "<empty>" : r;
}

// ---- records --------------------------------------------------------------------------------
struct set_rec
{
  std::string loc;
  int val;
  u64 s, e;
};

enum class obs_kind { get, level, enabled, log, final_ };

struct obs_rec
{
  obs_kind kind;
  std::string loc;
  int val;     // get/level/final: observed value 0..6; enabled/log: the level k that was asked
  bool result; // enabled/log only
  u64 s, e;
};

struct owned_object
{
  std::unique_ptr<fcppt::log::object> obj;
  std::string loc;
  bool tagged;
};

struct thread_data
{
  std::vector<set_rec> sets;
  std::vector<obs_rec> obs;
  u64 n_sets = 0, n_gets = 0, n_objs = 0, n_levels = 0, n_enabled = 0, n_logs = 0, n_emitted = 0;
  std::string badtext; // first text mismatch
  std::string exc;     // exception kind, if any
};

// thread-local scratch for the busy spin of yield mode 2
thread_local volatile unsigned tl_spin = 0;

void pause_between(splitmix &rng, int mode)
{
  if (mode == 0)
    return;
  if (mode == 1)
  {
    if (rng.below(2) == 0)
      std::this_thread::yield();
    return;
  }
  switch (rng.below(3))
  {
  case 0:
    break;
  case 1:
    std::this_thread::yield();
    break;
  default:
  {
    unsigned const n = rng.below(201);
    for (unsigned i = 0; i < n; ++i)
      tl_spin = tl_spin + 1U;
  }
  }
}

std::string random_loc(splitmix &rng)
{
  unsigned const depth = rng.below(4);
  std::string r;
  for (unsigned i = 0; i < depth; ++i)
    r += static_cast<char>('a' + rng.below(3));
  return r;
}

std::string expected_text(owned_object const &o, int lvl, std::string const &msg)
{
  std::string inner;
  for (char c : o.loc)
  {
    inner += c;
    inner += ": ";
  }
  inner += level_names[lvl];
  inner += ": ";
  inner += msg;
  inner += "\n";
  return o.tagged ? "T<" + inner + ">" : inner;
}

void create_object(
    fcppt::log::context &ctx, splitmix &rng, std::vector<owned_object> &objs, thread_data &td)
{
  unsigned kind = rng.below(3);
  char const namec = static_cast<char>('a' + rng.below(3));
  bool const tagged = rng.below(2) == 0;
  std::string const ctor_loc = random_loc(rng);                                  // used by kind 1
  std::size_t const parent = objs.empty() ? 0U : rng.below(static_cast<unsigned>(objs.size())); // kind 2
  if (kind == 2 && objs.empty())
    kind = 0;

  auto const params = [&]() -> fcppt::log::parameters {
    fcppt::log::name nm{fcppt::string(1, namec)};
    if (!tagged)
      return fcppt::log::parameters_no_function(std::move(nm));
    return fcppt::log::parameters{
        std::move(nm),
        fcppt::log::format::optional_function{fcppt::log::format::function{
            [](fcppt::string const &s) -> fcppt::string { return "T<" + s + ">"; }}}};
  }();

  owned_object o;
  o.tagged = tagged;
  switch (kind)
  {
  case 0:
    o.loc = std::string(1, namec);
    o.obj = std::make_unique<fcppt::log::object>(fcppt::make_ref(ctx), params);
    break;
  case 1:
  {
    o.loc = ctor_loc + namec;
    fcppt::log::location const l{make_location(ctor_loc)};
    o.obj = std::make_unique<fcppt::log::object>(fcppt::make_ref(ctx), l, params);
    break;
  }
  default:
    o.loc = objs[parent].loc + namec;
    o.obj = std::make_unique<fcppt::log::object>(*objs[parent].obj, params);
    break;
  }
  objs.push_back(std::move(o));
  ++td.n_objs;
}

void worker_body(
    fcppt::log::context &ctx,
    std::array<std::ostringstream, 6> &sinks,
    unsigned const t,
    u64 const seed,
    unsigned const nops,
    int const yieldmode,
    thread_data &td)
{
  splitmix rng{seed * 0x2545f4914f6cdd1dULL + (static_cast<u64>(t) + 1U) * 0xd1342543de82ef95ULL};
  rng.next();
  std::vector<owned_object> objs;
  td.sets.reserve(nops / 3 + 8);
  td.obs.reserve(nops + 8);

  g_arrived.fetch_add(1, std::memory_order_relaxed);
  while (!g_start.load(std::memory_order_acquire))
  {
  }

  for (unsigned i = 0; i < nops; ++i)
  {
    unsigned const r = rng.below(100);
    if (r < 25)
    {
      std::string const l = random_loc(rng);
      int const v = static_cast<int>(rng.below(7));
      fcppt::log::location const loc{make_location(l)};
      fcppt::log::optional_level const lv{to_level(v)};
      u64 const s = tick();
      ctx.set(loc, lv);
      u64 const e = tick();
      td.sets.push_back(set_rec{l, v, s, e});
      ++td.n_sets;
    }
    else if (r < 50)
    {
      std::string const l = random_loc(rng);
      fcppt::log::location const loc{make_location(l)};
      u64 const s = tick();
      fcppt::log::optional_level const got{ctx.get(loc)};
      u64 const e = tick();
      td.obs.push_back(obs_rec{obs_kind::get, l, from_level(got), false, s, e});
      ++td.n_gets;
    }
    else if (r < 65 || objs.empty())
    {
      create_object(ctx, rng, objs, td);
    }
    else if (r < 85)
    {
      owned_object const &o = objs[rng.below(static_cast<unsigned>(objs.size()))];
      {
        u64 const s = tick();
        fcppt::log::optional_level const got{o.obj->level()};
        u64 const e = tick();
        td.obs.push_back(obs_rec{obs_kind::level, o.loc, from_level(got), false, s, e});
        ++td.n_levels;
      }
      {
        int const k = static_cast<int>(rng.below(6));
        u64 const s = tick();
        bool const en = o.obj->enabled(static_cast<fcppt::log::level>(k));
        u64 const e = tick();
        td.obs.push_back(obs_rec{obs_kind::enabled, o.loc, k, en, s, e});
        ++td.n_enabled;
      }
    }
    else
    {
      owned_object const &o = objs[rng.below(static_cast<unsigned>(objs.size()))];
      std::string const msg = "m" + std::to_string(i);
      int const k = static_cast<int>(t); // thread t is the only writer of sink t
      u64 const s = tick();
      o.obj->log(static_cast<fcppt::log::level>(k), fcppt::log::out << msg);
      u64 const e = tick();
      std::string const text = sinks[t].str();
      sinks[t].str("");
      bool const emitted = !text.empty();
      td.obs.push_back(obs_rec{obs_kind::log, o.loc, k, emitted, s, e});
      ++td.n_logs;
      if (emitted)
      {
        ++td.n_emitted;
        std::string const want = expected_text(o, k, msg);
        if (text != want && td.badtext.empty())
          td.badtext = "BADTEXT expected=" + escape(want) + " got=" + escape(text);
      }
    }
    pause_between(rng, yieldmode);
  }
  // the objects are destroyed here, by the thread that made them (children before parents)
  while (!objs.empty())
    objs.pop_back();
}

void worker(
    fcppt::log::context &ctx,
    std::array<std::ostringstream, 6> &sinks,
    unsigned const t,
    u64 const seed,
    unsigned const nops,
    int const yieldmode,
    thread_data &td)
{
  try
  {
    worker_body(ctx, sinks, t, seed, nops, yieldmode, td);
  }
  catch (std::bad_alloc const &)
  {
    td.exc = "bad_alloc";
  }
  catch (std::exception const &)
  {
    td.exc = "std";
  }
  catch (...)
  {
    td.exc = "unknown";
  }
}

// ---- the justification check -------------------------------------------------------------
struct justified
{
  bool v[7] = {false, false, false, false, false, false, false};
  unsigned distinct() const
  {
    unsigned n = 0;
    for (bool b : v)
      n += b ? 1U : 0U;
    return n;
  }
  std::string list() const
  {
    std::string r;
    for (int i = 0; i < 7; ++i)
      if (v[i])
      {
        if (!r.empty())
          r += ',';
        r += std::to_string(i);
      }
    return r.empty() ? "-" : r;
  }
};

// all sets of a run, grouped by location
using set_index = std::unordered_map<std::string, std::vector<set_rec const *>>;

template <typename F>
void for_relevant(set_index const &idx, std::string const &p, F const &f)
{
  for (std::size_t len = 0; len <= p.size(); ++len)
  {
    auto const it = idx.find(p.substr(0, len));
    if (it != idx.end())
      for (set_rec const *k : it->second)
        f(*k);
  }
}

// J(P, s, e): v_k of every relevant set k (location a prefix of P) with s_k < e, unless another
// relevant set k' has e_k < s_k' and e_k' < s (k' ran entirely after k and entirely before the
// observation).  The root level, unless some relevant set k' has e_k' < s.
// Sound for a linearizable implementation: if k' is linearized before k then s_k' happens-before
// e_k (through the context mutex), hence s_k' < e_k in the modification order of the tick counter.
justified justify(set_index const &idx, int const rootlvl, std::string const &p, u64 const s, u64 const e)
{
  justified j;
  // largest start among the relevant sets that finished before the observation started:
  // k is certainly overwritten iff that start is later than e_k
  bool any_done = false;
  u64 max_start_done = 0;
  for_relevant(idx, p, [&](set_rec const &k) {
    if (k.e < s)
    {
      any_done = true;
      max_start_done = std::max(max_start_done, k.s);
    }
  });
  for_relevant(idx, p, [&](set_rec const &k) {
    if (k.s < e && !(any_done && k.e < max_start_done))
      j.v[k.val] = true;
  });
  if (!any_done)
    j.v[rootlvl] = true;
  return j;
}

std::vector<set_rec const *> relevant_sets(set_index const &idx, std::string const &p)
{
  std::vector<set_rec const *> r;
  for_relevant(idx, p, [&r](set_rec const &k) { r.push_back(&k); });
  return r;
}

std::string show_time(u64 t) { return t == inf ? "inf" : std::to_string(t); }

std::string unjustified(
    char const *kind,
    std::string const &loc,
    std::string const &observed,
    justified const &j,
    u64 s,
    u64 e,
    set_index const &idx)
{
  std::string r = std::string("UNJUSTIFIED kind=") + kind + " loc=" + show_loc(loc) + " observed=" + observed +
                  " justified=" + j.list() + " s=" + show_time(s) + " e=" + show_time(e) + " relevant=";
  // only sets that started before the observation ended can matter, and of those the most recent
  // ones are the interesting ones; keep the line bounded
  std::vector<set_rec const *> rel = relevant_sets(idx, loc);
  rel.erase(std::remove_if(rel.begin(), rel.end(), [e](set_rec const *k) { return !(k->s < e); }), rel.end());
  std::sort(rel.begin(), rel.end(), [](set_rec const *a, set_rec const *b) { return a->s < b->s; });
  std::size_t const cap = 48;
  std::size_t const from = rel.size() > cap ? rel.size() - cap : 0U;
  if (from != 0)
    r += "(" + std::to_string(from) + "_older_omitted),";
  if (rel.empty())
    r += "-";
  for (std::size_t i = from; i < rel.size(); ++i)
  {
    if (i != from)
      r += ',';
    r += show_loc(rel[i]->loc) + ":" + std::to_string(rel[i]->val) + ":" + std::to_string(rel[i]->s) + ":" +
         std::to_string(rel[i]->e);
  }
  return r;
}

bool constraint_ok(justified const &j, int const k, bool const result)
{
  for (int v = 0; v < 7; ++v)
    if (j.v[v])
    {
      bool const would = v != empty_level && k >= v;
      if (would == result)
        return true;
    }
  return false;
}

std::string run_one(u64 const seed, unsigned const nthreads, unsigned const nops, int const rootlvl, int const yieldmode)
{
  std::array<std::ostringstream, 6> sinks;
  std::vector<thread_data> tds(nthreads);
  std::vector<set_rec> all_sets;
  std::vector<obs_rec> finals;
  g_clock.store(0, std::memory_order_relaxed);
  g_start.store(false, std::memory_order_relaxed);
  g_arrived.store(0, std::memory_order_relaxed);
  {
    fcppt::log::context ctx{
        to_level(rootlvl),
        fcppt::enum_::array_init<fcppt::log::level_stream_array>([&sinks](fcppt::log::level const l) {
          return fcppt::log::level_stream{
              sinks[static_cast<std::size_t>(l)],
              fcppt::log::format::optional_function{fcppt::log::format::default_level(l)}};
        })};

    std::vector<std::thread> threads;
    threads.reserve(nthreads);
    for (unsigned t = 0; t < nthreads; ++t)
      threads.emplace_back(
          worker, std::ref(ctx), std::ref(sinks), t, seed, nops, yieldmode, std::ref(tds[t]));
    while (g_arrived.load(std::memory_order_relaxed) != nthreads)
      std::this_thread::yield();
    g_start.store(true, std::memory_order_release);
    for (std::thread &th : threads)
      th.join();

    // quiescent sweep: every location of depth <= 3, sequentially, by main
    std::vector<std::string> locs{""};
    for (std::size_t i = 0; i < locs.size(); ++i)
      if (locs[i].size() < 3)
        for (char c : {'a', 'b', 'c'})
          locs.push_back(locs[i] + c);
    for (std::string const &l : locs)
      finals.push_back(obs_rec{obs_kind::final_, l, from_level(ctx.get(make_location(l))), false, inf, inf});
  } // the context is destroyed by main, after all objects are gone

  for (thread_data const &td : tds)
    if (!td.exc.empty())
      return "exc:" + td.exc;
  for (thread_data const &td : tds)
    if (!td.badtext.empty())
      return td.badtext;

  u64 n_sets = 0, n_gets = 0, n_objs = 0, n_levels = 0, n_enabled = 0, n_logs = 0, n_emitted = 0, overlap = 0;
  for (thread_data const &td : tds)
  {
    all_sets.insert(all_sets.end(), td.sets.begin(), td.sets.end());
    n_sets += td.n_sets;
    n_gets += td.n_gets;
    n_objs += td.n_objs;
    n_levels += td.n_levels;
    n_enabled += td.n_enabled;
    n_logs += td.n_logs;
    n_emitted += td.n_emitted;
  }

  set_index idx;
  for (set_rec const &k : all_sets)
    idx[k.loc].push_back(&k);

  for (thread_data const &td : tds)
    for (obs_rec const &o : td.obs)
    {
      justified const j = justify(idx, rootlvl, o.loc, o.s, o.e);
      if (j.distinct() >= 2)
        ++overlap;
      switch (o.kind)
      {
      case obs_kind::get:
      case obs_kind::level:
        if (!j.v[o.val])
          return unjustified(
              o.kind == obs_kind::get ? "get" : "level", o.loc, std::to_string(o.val), j, o.s, o.e, idx);
        break;
      case obs_kind::enabled:
      case obs_kind::log:
        if (!constraint_ok(j, o.val, o.result))
          return unjustified(
              o.kind == obs_kind::enabled ? "enabled" : "log",
              o.loc,
              std::string(o.kind == obs_kind::enabled ? "enabled(" : "emitted(") + std::to_string(o.val) +
                  ")=" + (o.result ? "1" : "0"),
              j,
              o.s,
              o.e,
              idx);
        break;
      case obs_kind::final_:
        break;
      }
    }

  for (obs_rec const &o : finals)
  {
    justified j = justify(idx, rootlvl, o.loc, inf, inf);
    // stronger rule for the quiescent state: a relevant set that started after every other
    // relevant set had ended decides the value
    // (the relevant set with the largest start is the only candidate)
    set_rec const *last = nullptr;
    for_relevant(idx, o.loc, [&last](set_rec const &k) {
      if (last == nullptr || k.s > last->s)
        last = &k;
    });
    if (last != nullptr)
    {
      bool after_all = true;
      for_relevant(idx, o.loc, [&after_all, last](set_rec const &k) {
        if (&k != last && !(last->s > k.e))
          after_all = false;
      });
      if (after_all)
      {
        for (bool &b : j.v)
          b = false;
        j.v[last->val] = true;
      }
    }
    if (!j.v[o.val])
      return unjustified("final", o.loc, std::to_string(o.val), j, inf, inf, idx);
  }

  return "ok threads=" + std::to_string(nthreads) + " sets=" + std::to_string(n_sets) + " gets=" +
         std::to_string(n_gets) + " objs=" + std::to_string(n_objs) + " levels=" + std::to_string(n_levels) +
         " enabled=" + std::to_string(n_enabled) + " logs=" + std::to_string(n_logs) + " emitted=" +
         std::to_string(n_emitted) + " overlap=" + std::to_string(overlap);
}

std::string handle(std::vector<std::string> const &tok)
{
  try
  {
    if (tok.empty())
      return "error:empty";
    if (tok[0] != "run" || tok.size() != 6)
      return "error:usage";
    u64 const seed = vh::to_ull(tok[1]);
    long long const nthreads = vh::to_ll(tok[2]);
    long long const nops = vh::to_ll(tok[3]);
    int const rootlvl = tok[4] == "-" ? empty_level : static_cast<int>(vh::to_ll(tok[4]));
    long long const yieldmode = vh::to_ll(tok[5]);
    if (nthreads < 2 || nthreads > 6 || nops < 0 || nops > 1000000 || rootlvl < 0 || rootlvl > 6 ||
        yieldmode < 0 || yieldmode > 2)
      return "error:range";
    return run_one(
        seed, static_cast<unsigned>(nthreads), static_cast<unsigned>(nops), rootlvl, static_cast<int>(yieldmode));
  }
  catch (std::exception const &)
  {
    return "error:parse";
  }
}
}

int main()
{
  vh::op_budget() = 60;
  return vh::run(handle);
}
