//          Copyright Carl Philipp Reh 2009 - 2010.
// Distributed under the Boost Software License, Version 1.0.
//    (See accompanying file LICENSE_1_0.txt or copy at
//          http://www.boost.org/LICENSE_1_0.txt)


#ifndef FCPPT_PUBLIC_CONFIG_HPP_INCLUDED
#define FCPPT_PUBLIC_CONFIG_HPP_INCLUDED

// All configuration that changes API or ABI is included here

// String config
#define FCPPT_NARROW_STRING

#endif
