//          Copyright Carl Philipp Reh 2009 - 2010.
// Distributed under the Boost Software License, Version 1.0.
//    (See accompanying file LICENSE_1_0.txt or copy at
//          http://www.boost.org/LICENSE_1_0.txt)


#ifndef FCPPT_VERSION_HPP_INCLUDED
#define FCPPT_VERSION_HPP_INCLUDED

// The version consists of three digits for every version "part"
// FCPPT_VERSION / 100000 is the major version,
// FCPPT_VERSION / 1000 % 1000 is the minor version
// FCPPT_VERSION % 1000 is the micro version
#define FCPPT_VERSION 4000000UL

#endif
