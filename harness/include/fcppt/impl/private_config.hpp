//          Copyright Carl Philipp Reh 2009 - 2013.
// Distributed under the Boost Software License, Version 1.0.
//    (See accompanying file LICENSE_1_0.txt or copy at
//          http://www.boost.org/LICENSE_1_0.txt)


#ifndef FCPPT_IMPL_PRIVATE_CONFIG_HPP_INCLUDED
#define FCPPT_IMPL_PRIVATE_CONFIG_HPP_INCLUDED

#define FCPPT_HAVE_GCC_DEMANGLE


#endif
