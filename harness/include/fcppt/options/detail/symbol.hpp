
#ifndef FCPPT_OPTIONS_DETAIL_SYMBOL_HPP_INCLUDED
#define FCPPT_OPTIONS_DETAIL_SYMBOL_HPP_INCLUDED

#if defined(FCPPT_STATIC_LINK)
#	define FCPPT_OPTIONS_DETAIL_SYMBOL
#elif defined(fcppt_options_EXPORTS)
#	include <fcppt/symbol/export.hpp>
#	define FCPPT_OPTIONS_DETAIL_SYMBOL FCPPT_SYMBOL_EXPORT
#else
#	include <fcppt/symbol/import.hpp>
#	define FCPPT_OPTIONS_DETAIL_SYMBOL FCPPT_SYMBOL_IMPORT
#endif

#endif
