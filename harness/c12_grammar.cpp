// Part of harness/c12.cpp (textually included there, after `kase<Ch>`): the clients of
// get_position / set_position.  Grammars and skippers are built at run time out of the REAL
// combinator templates over type-erased children (fcppt::parse::base for parsers, `skip_ref` for
// skippers), run over a `trace_stream` that forwards every basic_stream call to the real
// detail::stream and records call, answer, istream state bits and the stored location.
#include <fcppt/make_cref.hpp>
#include <fcppt/unit.hpp>
#include <fcppt/either/object_impl.hpp>
#include <fcppt/parse/alternative_decl.hpp>
#include <fcppt/parse/alternative_impl.hpp>
#include <fcppt/parse/base_impl.hpp>
#include <fcppt/parse/base_unique_ptr.hpp>
#include <fcppt/parse/basic_string.hpp>
#include <fcppt/parse/fatal_decl.hpp>
#include <fcppt/parse/fatal_impl.hpp>
#include <fcppt/parse/grammar.hpp>
#include <fcppt/parse/grammar_parse_stream.hpp>
#include <fcppt/parse/ignore.hpp>
#include <fcppt/parse/location_equal.hpp>
#include <fcppt/parse/location_output.hpp>
#include <fcppt/parse/make_base.hpp>
#include <fcppt/parse/make_fatal.hpp>
#include <fcppt/parse/make_ignore.hpp>
#include <fcppt/parse/not_decl.hpp>
#include <fcppt/parse/not_impl.hpp>
#include <fcppt/parse/optional_decl.hpp>
#include <fcppt/parse/optional_impl.hpp>
#include <fcppt/parse/parse_stream.hpp>
#include <fcppt/parse/phrase_parse.hpp>
#include <fcppt/parse/phrase_parse_stream.hpp>
#include <fcppt/parse/position_equal.hpp>
#include <fcppt/parse/position_output.hpp>
#include <fcppt/parse/repetition_decl.hpp>
#include <fcppt/parse/repetition_impl.hpp>
#include <fcppt/parse/repetition_plus_decl.hpp>
#include <fcppt/parse/repetition_plus_impl.hpp>
#include <fcppt/parse/sequence_decl.hpp>
#include <fcppt/parse/sequence_impl.hpp>
#include <fcppt/parse/operators/alternative.hpp>
#include <fcppt/parse/operators/not.hpp>
#include <fcppt/parse/operators/optional.hpp>
#include <fcppt/parse/operators/repetition.hpp>
#include <fcppt/parse/operators/repetition_plus.hpp>
#include <fcppt/parse/operators/sequence.hpp>
#include <fcppt/parse/skipper/basic_space.hpp>
#include <fcppt/parse/skipper/epsilon.hpp>
#include <fcppt/parse/skipper/repetition_decl.hpp>
#include <fcppt/parse/skipper/repetition_impl.hpp>
#include <fcppt/parse/skipper/result.hpp>
#include <fcppt/parse/skipper/sequence_decl.hpp>
#include <fcppt/parse/skipper/sequence_impl.hpp>
#include <fcppt/parse/skipper/tag.hpp>

#include <deque>

namespace
{
namespace fp = fcppt::parse;
namespace fsk = fcppt::parse::skipper;

// ---------------------------------------------------------------- traced stream
struct ev
{
  int op; // 0 get, 1 pos, 2 set
  obs o;
  long long soff;               // set: the argument
  unsigned long long sl, sc;    // set: its location (sl = 0: none)
};

inline std::string ev_str(ev const &e)
{
  if (e.op != 2)
    return obs_str(e.op == 0 ? 'g' : 'p', e.o);
  std::string const arg{
      std::to_string(e.soff) + "@" +
      (e.sl == 0 ? std::string{"-"} : std::to_string(e.sl) + ":" + std::to_string(e.sc))};
  std::string r{obs_str('s', e.o)};
  return "s[" + arg + "]" + r.substr(1);
}

inline std::uint64_t mix_ev(std::uint64_t h, ev const &e)
{
  h = mix(h, 32U + static_cast<unsigned>(e.op));
  if (e.op == 2)
    h = mix(mix(mix(h, static_cast<std::uint64_t>(e.soff)), e.sl), e.sc);
  return mix_obs(h, e.o);
}

template <typename Ch>
class trace_stream : public fp::basic_stream<Ch>
{
  FCPPT_NONMOVABLE(trace_stream);

public:
  using position = fp::position<Ch>;

  explicit trace_stream(kase<Ch> &_k) : fp::basic_stream<Ch>{}, k_{_k}, log{} {}
  ~trace_stream() override = default;

  [[nodiscard]] fcppt::optional::object<Ch> get_char() override
  {
    try
    {
      fcppt::optional::object<Ch> const r{k_.st->get_char()};
      log.push_back(ev{
          0,
          k_.stamp(fcppt::optional::maybe(
              r,
              [this] { return obs{2, 0, 0, 0, k_.flags()}; },
              [this](Ch const _c) { return obs{1, unsigned_of<Ch>::code(_c), 0, 0, k_.flags()}; })),
          0,
          0,
          0});
      return r;
    }
    catch (fp::detail::exception<Ch> const &)
    {
      log.push_back(ev{0, k_.stamp(obs{3, 0, 0, 0, k_.flags()}), 0, 0, 0});
      throw;
    }
  }

  [[nodiscard]] position get_position() const override
  {
    try
    {
      position const p{static_cast<fp::basic_stream<Ch> const &>(*k_.st).get_position()};
      log.push_back(ev{1, k_.stamp(kase<Ch>::pos_obs(p, k_.flags())), 0, 0, 0});
      return p;
    }
    catch (fp::detail::exception<Ch> const &)
    {
      log.push_back(ev{1, k_.stamp(obs{3, 0, 0, 0, k_.flags()}), 0, 0, 0});
      throw;
    }
  }

  void set_position(position const &_p) override
  {
    obs const arg{kase<Ch>::pos_obs(_p, 0)};
    long long const off = static_cast<long long>(arg.a);
    try
    {
      k_.st->set_position(_p);
      log.push_back(ev{2, k_.stamp(obs{5, 0, 0, 0, k_.flags()}), off, arg.b, arg.c});
    }
    catch (fp::detail::exception<Ch> const &)
    {
      log.push_back(ev{2, k_.stamp(obs{3, 0, 0, 0, k_.flags()}), off, arg.b, arg.c});
      throw;
    }
  }

private:
  kase<Ch> &k_;

public:
  mutable std::vector<ev> log;
};

// ---------------------------------------------------------------- type-erased skippers
template <typename Ch>
using stream_ref = fcppt::reference<fp::basic_stream<Ch>>;

template <typename Ch>
struct skip_base
{
  skip_base() = default;
  skip_base(skip_base const &) = delete;
  skip_base &operator=(skip_base const &) = delete;
  virtual ~skip_base() = default;
  [[nodiscard]] virtual fsk::result<Ch> skip(stream_ref<Ch>) const = 0;
};

template <typename Ch, typename S>
struct skip_impl : skip_base<Ch>
{
  explicit skip_impl(S &&_s) : s{std::move(_s)} {}
  [[nodiscard]] fsk::result<Ch> skip(stream_ref<Ch> const _state) const override { return fsk::run(s, _state); }
  S s;
};

// what the combinators see: a skipper (derives from skipper::tag) that forwards to a node
template <typename Ch>
class skip_ref : private fsk::tag
{
public:
  explicit skip_ref(skip_base<Ch> const *const _p) : p_{_p} {}
  [[nodiscard]] fsk::result<Ch> skip(stream_ref<Ch> const _state) const { return p_->skip(_state); }

private:
  skip_base<Ch> const *p_;
};

// ---------------------------------------------------------------- grammar text
// prefix notation, tokens separated by '.':  any | lit:C | cset:CS | str:S | seq | alt | opt | rep |
// plus | not | fatal   (skippers: eps | lit:C | cset:CS | seq | rep); C a code, CS/S code lists or '-'
struct gnode
{
  std::string name;
  std::vector<long long> arg;
  std::vector<std::size_t> kids;
};

struct gast
{
  std::vector<gnode> nodes;
  std::size_t root = 0;
};

inline std::vector<std::string> split_dots(std::string const &s)
{
  std::vector<std::string> r;
  std::size_t pos = 0;
  while (true)
  {
    std::size_t const next = s.find('.', pos);
    r.push_back(s.substr(pos, next == std::string::npos ? next : next - pos));
    if (next == std::string::npos)
      break;
    pos = next + 1;
  }
  return r;
}

// returns false on any malformation
inline bool parse_gexpr(
    std::vector<std::string> const &toks, std::size_t &pos, gast &ast, bool const skipper, long long const max,
    unsigned const depth, std::size_t &out)
{
  if (pos >= toks.size() || depth > 40 || ast.nodes.size() > 200)
    return false;
  std::string const &tok = toks[pos++];
  std::size_t const colon = tok.find(':');
  gnode n{tok.substr(0, colon), {}, {}};
  bool const has_arg = colon != std::string::npos;
  unsigned arity = 0;
  bool want_arg = false;
  bool single = false;
  if (n.name == "lit")
    want_arg = single = true;
  else if (n.name == "cset" || (!skipper && n.name == "str"))
    want_arg = true;
  else if (n.name == "seq" || (!skipper && n.name == "alt"))
    arity = 2;
  else if (n.name == "rep" || (!skipper && (n.name == "opt" || n.name == "plus" || n.name == "not" || n.name == "fatal")))
    arity = 1;
  else if (!(skipper ? (n.name == "eps" || n.name == "space") : (n.name == "any" || n.name == "k1" || n.name == "k2")))
    return false;
  if (want_arg != has_arg)
    return false;
  if (want_arg && (!parse_list(tok.substr(colon + 1), max, n.arg) || (single && n.arg.size() != 1)))
    return false;
  for (unsigned i = 0; i < arity; ++i)
  {
    std::size_t kid = 0;
    if (!parse_gexpr(toks, pos, ast, skipper, max, depth + 1, kid))
      return false;
    n.kids.push_back(kid);
  }
  ast.nodes.push_back(std::move(n));
  out = ast.nodes.size() - 1;
  return true;
}

inline bool parse_gtext(std::string const &text, bool const skipper, long long const max, gast &ast)
{
  std::vector<std::string> const toks{split_dots(text)};
  std::size_t pos = 0;
  return parse_gexpr(toks, pos, ast, skipper, max, 0, ast.root) && pos == toks.size();
}

// "a success consumed at least one character" (syntactic); repetition bodies must satisfy it, as
// either::loop never ends otherwise.  Same definition as P.consumes / Sk.consumes of the model.
inline bool consumes(gast const &a, std::size_t const i)
{
  gnode const &n = a.nodes[i];
  if (n.name == "any" || n.name == "lit" || n.name == "cset")
    return true;
  if (n.name == "str")
    return !n.arg.empty();
  if (n.name == "k2")
    return true;
  if (n.name == "seq")
    return consumes(a, n.kids[0]) || consumes(a, n.kids[1]);
  if (n.name == "alt")
    return consumes(a, n.kids[0]) && consumes(a, n.kids[1]);
  if (n.name == "plus" || n.name == "fatal")
    return consumes(a, n.kids[0]);
  return false; // eps, opt, rep, not
}

inline bool well_formed(gast const &a)
{
  for (gnode const &n : a.nodes)
    if ((n.name == "rep" || n.name == "plus") && !consumes(a, n.kids[0]))
      return false;
  return true;
}

// ---------------------------------------------------------------- building the real combinators
// Sk = skip_ref<Ch> (run-time skipper) or skipper::epsilon (for parse_stream, which fixes the skipper type)
template <typename Ch, typename Sk = skip_ref<Ch>>
class world
{
public:
  using sk_t = skip_ref<Ch>;
  using base_t = fp::base<fcppt::unit, Ch, Sk>;
  using ptr_t = fp::base_unique_ptr<fcppt::unit, Ch, Sk>;
  using set_t = typename fp::basic_char_set<Ch>::char_set_type;

  world(gast const &_parser, gast const &_skipper) : past_{_parser}, sast_{_skipper}
  {
    skipper_ = this->build_skipper(sast_.root);
    (void)this->build(past_.root);
  }
  world(world const &) = delete;
  world &operator=(world const &) = delete;

  [[nodiscard]] ptr_t const &start_ptr() const { return nodes_.back(); }
  [[nodiscard]] base_t const &start() const { return *nodes_.back().get_pointer(); }
  [[nodiscard]] sk_t skipper() const { return sk_t{skipper_}; }
  [[nodiscard]] gast const &parser_ast() const { return past_; }
  [[nodiscard]] gast const &skipper_ast() const { return sast_; }

private:
  static set_t make_set(std::vector<long long> const &_v)
  {
    set_t r{};
    for (long long const c : _v)
      r.insert(static_cast<Ch>(c));
    return r;
  }

  // sets of one or two characters go through the initializer_list constructor, the others through the
  // container constructor; chars() must hand back what was put in
  template <typename Set>
  static Set make_cset(std::vector<long long> const &_v)
  {
    set_t const expect{make_set(_v)};
    Set r{_v.size() == 1   ? Set{static_cast<Ch>(_v[0])}
          : _v.size() == 2 ? Set{static_cast<Ch>(_v[0]), static_cast<Ch>(_v[1])}
                           : Set{make_set(_v)}};
    if (r.chars() != expect)
      throw std::logic_error{"chars() differs from the constructor argument"};
    return r;
  }

  template <typename S>
  skip_base<Ch> const *add_skipper(S &&_s)
  {
    skippers_.push_back(std::make_unique<skip_impl<Ch, std::remove_cvref_t<S>>>(std::forward<S>(_s)));
    return skippers_.back().get();
  }

  skip_base<Ch> const *build_skipper(std::size_t const _i)
  {
    gnode const &n = sast_.nodes[_i];
    if (n.name == "eps")
      return this->add_skipper(fsk::epsilon{});
    if (n.name == "space")
      // the library's own whitespace skipper: repetition over a concrete (not type-erased) char_set skipper
      return this->add_skipper(fsk::basic_space<Ch>());
    if (n.name == "lit")
      return this->add_skipper(fsk::basic_literal<Ch>{static_cast<Ch>(n.arg[0])});
    if (n.name == "cset")
      return this->add_skipper(make_cset<fsk::basic_char_set<Ch>>(n.arg));
    if (n.name == "seq")
    {
      sk_t a{this->build_skipper(n.kids[0])};
      sk_t b{this->build_skipper(n.kids[1])};
      return this->add_skipper(fsk::sequence<sk_t, sk_t>{std::move(a), std::move(b)});
    }
    // rep
    return this->add_skipper(fsk::repetition<sk_t>{sk_t{this->build_skipper(n.kids[0])}});
  }

  template <typename Parser>
  base_t const &add(Parser &&_parser)
  {
    nodes_.push_back(fp::make_base<Ch, Sk>(std::forward<Parser>(_parser)));
    return *nodes_.back().get_pointer();
  }

  base_t const &build(std::size_t const _i)
  {
    gnode const &n = past_.nodes[_i];
    auto const kid = [this, &n](std::size_t const k) { return fcppt::make_cref(this->build(n.kids[k])); };
    if (n.name == "any")
      return this->add(fp::make_ignore(fp::basic_char<Ch>{}));
    if (n.name == "lit")
      return this->add(fp::basic_literal<Ch>{static_cast<Ch>(n.arg[0])});
    if (n.name == "cset")
      return this->add(fp::make_ignore(make_cset<fp::basic_char_set<Ch>>(n.arg)));
    if (n.name == "str")
      return this->add(fp::basic_string<Ch>{to_text<Ch>(n.arg)});
    if (n.name == "k1")
      // children held BY VALUE (no reference, no type erasure): *(lit a | lit \n) >> !any
      return this->add(fp::make_ignore(
          *(fp::basic_literal<Ch>{static_cast<Ch>(97)} | fp::basic_literal<Ch>{static_cast<Ch>(10)}) >>
          !fp::make_ignore(fp::basic_char<Ch>{})));
    if (n.name == "k2")
    {
      // children held by fcppt::unique_ptr: -(lit a) >> +(set{a, \n})
      auto a = fp::make_base<Ch, Sk>(fp::basic_literal<Ch>{static_cast<Ch>(97)});
      auto b = fp::make_base<Ch, Sk>(
          fp::make_ignore(fp::basic_char_set<Ch>{static_cast<Ch>(97), static_cast<Ch>(10)}));
      return this->add(fp::make_ignore(-std::move(a) >> +std::move(b)));
    }
    if (n.name == "seq")
    {
      auto a = kid(0);
      auto b = kid(1);
      return this->add(fp::make_ignore(std::move(a) >> std::move(b)));
    }
    if (n.name == "alt")
    {
      auto a = kid(0);
      auto b = kid(1);
      return this->add(fp::make_ignore(std::move(a) | std::move(b)));
    }
    if (n.name == "opt")
      return this->add(fp::make_ignore(-kid(0)));
    if (n.name == "rep")
      return this->add(fp::make_ignore(*kid(0)));
    if (n.name == "plus")
      return this->add(fp::make_ignore(+kid(0)));
    if (n.name == "not")
      return this->add(!kid(0));
    // fatal
    return this->add(fp::make_fatal(kid(0)));
  }

  gast const &past_;
  gast const &sast_;
  std::deque<std::unique_ptr<skip_base<Ch>>> skippers_;
  skip_base<Ch> const *skipper_{nullptr};
  std::deque<ptr_t> nodes_;
};

// the grammar class of fcppt::parse (start symbol + skipper) over such a world
template <typename Ch>
class dyn_grammar : public fp::grammar<fcppt::unit, Ch, skip_ref<Ch>>
{
  FCPPT_NONMOVABLE(dyn_grammar);

public:
  explicit dyn_grammar(world<Ch> const &_w)
      : fp::grammar<fcppt::unit, Ch, skip_ref<Ch>>{fcppt::make_cref(_w.start_ptr()), _w.skipper()}
  {
  }
  ~dyn_grammar() = default;
};

// ---------------------------------------------------------------- error skeletons
// Only the *shape* of a message is compared: E "EOF", L<l>:<c> "Line l:c: Expected", X "Expected"
// without location, N "NOT", { "{ ", | " OR ", } " }", P "Parsing failed: " (the rest is ignored).
// The character after ", got " is skipped; expected strings come from the grammar, whose generators
// use only the characters a, b, newline, blank, tab, so they cannot imitate a keyword.
template <typename Ch>
bool starts_at(std::basic_string<Ch> const &m, std::size_t const k, char const *const lit)
{
  std::size_t i = 0;
  for (; lit[i] != 0; ++i)
    if (k + i >= m.size() || m[k + i] != static_cast<Ch>(lit[i]))
      return false;
  return true;
}

struct atom
{
  char kind;
  unsigned long long l, c;
};

template <typename Ch>
std::vector<atom> skeleton(std::basic_string<Ch> const &m)
{
  std::vector<atom> r;
  std::size_t k = 0;
  auto number = [&m, &k](unsigned long long &out) {
    std::size_t const start = k;
    out = 0;
    while (k < m.size() && m[k] >= Ch('0') && m[k] <= Ch('9') && k - start < 18)
      out = out * 10ULL + static_cast<unsigned long long>(m[k++] - Ch('0'));
    return k > start;
  };
  while (k < m.size())
  {
    if (starts_at(m, k, "Parsing failed: "))
    {
      r.push_back({'P', 0, 0});
      break;
    }
    if (starts_at(m, k, "Line "))
    {
      std::size_t const save = k;
      k += 5;
      unsigned long long l = 0, c = 0;
      if (number(l) && starts_at(m, k, ":") && (++k, number(c)) && starts_at(m, k, ": Expected "))
      {
        k += 11;
        r.push_back({'L', l, c});
        continue;
      }
      k = save + 1;
      r.push_back({'?', 0, 0}); // a "Line" that is not followed by l:c: Expected — never predicted
      continue;
    }
    if (starts_at(m, k, "Expected "))
    {
      k += 9;
      r.push_back({'X', 0, 0});
      continue;
    }
    if (starts_at(m, k, ", got "))
    {
      // the offending character is arbitrary text ('}' after a blank would read as " }"): skip it unseen
      k += 7;
      continue;
    }
    if (starts_at(m, k, "EOF"))
    {
      k += 3;
      r.push_back({'E', 0, 0});
      continue;
    }
    if (starts_at(m, k, "NOT"))
    {
      k += 3;
      r.push_back({'N', 0, 0});
      continue;
    }
    if (starts_at(m, k, "{ "))
    {
      k += 2;
      r.push_back({'{', 0, 0});
      continue;
    }
    if (starts_at(m, k, " OR "))
    {
      k += 4;
      r.push_back({'|', 0, 0});
      continue;
    }
    if (starts_at(m, k, " }"))
    {
      k += 2;
      r.push_back({'}', 0, 0});
      continue;
    }
    ++k;
  }
  return r;
}

struct gres
{
  int kind; // 1 ok, 2 fail, 3 fatal, 4 stream exception escaped (never predicted), 5 other exception
  std::vector<atom> atoms;
};

inline std::string gres_str(gres const &r)
{
  if (r.kind == 1)
    return "ok";
  if (r.kind == 4)
    return "exc";
  if (r.kind == 5)
    return "exc:other";
  std::string s{r.kind == 2 ? "fail:" : "fatal:"};
  if (r.atoms.empty())
    s += '-';
  bool first = true;
  for (atom const &a : r.atoms)
  {
    if (!first)
      s += ',';
    first = false;
    s += a.kind;
    if (a.kind == 'L')
      s += std::to_string(a.l) + ":" + std::to_string(a.c);
  }
  return s;
}

inline std::uint64_t mix_gres(std::uint64_t h, gres const &r)
{
  h = mix(h, 64U + static_cast<unsigned>(r.kind));
  for (atom const &a : r.atoms)
  {
    h = mix(h, static_cast<unsigned char>(a.kind));
    if (a.kind == 'L')
      h = mix(mix(h, a.l), a.c);
  }
  return mix(h, 99U);
}

template <typename Ch>
gres to_gres(fp::result<Ch, fcppt::unit> const &_r)
{
  return fcppt::either::match(
      _r,
      [](fp::error<Ch> const &_e) { return gres{_e.is_fatal() ? 3 : 2, skeleton(_e.get())}; },
      [](fcppt::unit const &) { return gres{1, {}}; });
}

// ---------------------------------------------------------------- running
// entry: 't' phrase_parse over the traced stream (after the prefix history `pre`);
//        'p' phrase_parse_stream / 'e' parse_stream (epsilon skipper) / 'g' grammar_parse_stream on the
//        istream after `nraw` direct istream::get() calls
struct grun
{
  gres res;
  std::vector<ev> log;
  std::vector<obs> post;
};

template <typename Ch>
grun run_traced(
    world<Ch> const &w, std::basic_string<Ch> const &text, long long const fa, std::vector<op> const &pre)
{
  kase<Ch> k{text, fa};
  for (op const &o : pre)
    (void)k.step(o);
  trace_stream<Ch> ts{k};
  grun out{};
  try
  {
    out.res = to_gres<Ch>(fp::phrase_parse(w.start(), static_cast<fp::basic_stream<Ch> &>(ts), w.skipper()));
  }
  catch (fp::detail::exception<Ch> const &)
  {
    out.res = gres{4, {}};
  }
  catch (...)
  {
    out.res = gres{5, {}};
  }
  out.log = std::move(ts.log);
  out.post.push_back(k.step(op{1, 0}));
  out.post.push_back(k.step(op{0, 0}));
  return out;
}

template <typename Ch>
std::string grun_str(grun const &r)
{
  std::string s{"r=" + gres_str(r.res)};
  for (ev const &e : r.log)
    s += " " + ev_str(e);
  s += " | " + obs_str('p', r.post[0]) + " " + obs_str('g', r.post[1]);
  return s;
}

inline std::uint64_t mix_grun(std::uint64_t h, grun const &r)
{
  h = mix_gres(h, r.res);
  for (ev const &e : r.log)
    h = mix_ev(h, e);
  for (obs const &o : r.post)
    h = mix_obs(h, o);
  return h;
}

// result, istream state bits when the entry point returns, and the get index after clear()
template <typename Ch>
std::string run_entry(
    world<Ch> const &w, char const entry, std::basic_string<Ch> const &text, long long const fa,
    unsigned long long const nraw)
{
  std::unique_ptr<failing_buf<Ch>> fbuf;
  std::unique_ptr<std::basic_istream<Ch>> is;
  if (fa < 0)
    is = std::make_unique<std::basic_istringstream<Ch>>(text);
  else
  {
    fbuf = std::make_unique<failing_buf<Ch>>(text, static_cast<unsigned long long>(fa));
    is = std::make_unique<std::basic_istream<Ch>>(fbuf.get());
  }
  for (unsigned long long i = 0; i < nraw; ++i)
    (void)is->get();
  gres res{};
  try
  {
    switch (entry)
    {
    case 'p':
      res = to_gres<Ch>(fp::phrase_parse_stream(w.start(), *is, w.skipper()));
      break;
    case 'e':
    {
      // parse_stream fixes the skipper to epsilon (and has a template parameter `Skipper` that cannot be
      // deduced: it must be given explicitly)
      world<Ch, fsk::epsilon> const we{w.parser_ast(), w.skipper_ast()};
      res = to_gres<Ch>(
          fp::parse_stream<Ch, typename world<Ch, fsk::epsilon>::base_t, fsk::epsilon>(we.start(), *is));
      break;
    }
    default:
    {
      dyn_grammar<Ch> const g{w};
      res = to_gres<Ch>(fp::grammar_parse_stream(*is, g));
      break;
    }
    }
  }
  catch (fp::detail::exception<Ch> const &)
  {
    res = gres{4, {}};
  }
  catch (...)
  {
    res = gres{5, {}};
  }
  auto const s = is->rdstate();
  unsigned const flags = ((s & std::ios_base::eofbit) ? 1U : 0U) | ((s & std::ios_base::failbit) ? 2U : 0U) |
                         ((s & std::ios_base::badbit) ? 4U : 0U);
  is->clear();
  long long const at = static_cast<long long>(std::streamoff(is->tellg()));
  return "r=" + gres_str(res) + flags_str(flags) + " at=" + std::to_string(at);
}
}
