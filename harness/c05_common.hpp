// C05 correspondence harness, shared part: the instrumented element type, the user's functions, the line protocol and the
// argument / printing helpers. Included by harness/c05.cpp (dispatch) and the family units harness/c05_*.cpp.
#ifndef VERIF_C05_COMMON_HPP
#define VERIF_C05_COMMON_HPP
#include "common/vh.hpp"

#include <fcppt/no_init.hpp>
#include <fcppt/optional/object.hpp>

#include <algorithm>
#include <deque>
#include <list>
#include <map>
#include <set>
#include <stdexcept>
#include <string>
#include <type_traits>
#include <utility>
#include <vector>

namespace c05
{
// ---------------------------------------------------------------- the instrumented element type

struct event_log
{
  std::vector<int> cp, mv, ram, lost;
  // the value category with which the library handed an element to a user's function, one entry per element and call
  std::vector<char> uc;
  // values made from nothing: by the user's functions (`derive`, fresh values) or read from a string
  int made{0};
  void clear()
  {
    cp.clear();
    mv.clear();
    ram.clear();
    lost.clear();
    uc.clear();
    made = 0;
  }
};
inline event_log g_log;

// identity + state; `orig` marks the objects the harness passed in as (part of) an argument and is not propagated.
template <bool Copyable>
struct tok_t
{
  static constexpr bool copyable = Copyable;
  int id;
  bool live;
  bool orig;

  explicit tok_t(int const _id) noexcept : id{_id}, live{true}, orig{false} { ++g_log.made; }
  // for fcppt::extract_from_string (options::argument / option read a value from the command line)
  explicit tok_t(fcppt::no_init const &) noexcept : id{0}, live{true}, orig{false} { ++g_log.made; }

  tok_t(tok_t const &_o) requires Copyable : id{_o.id}, live{_o.live}, orig{false}
  {
    g_log.cp.push_back(_o.id);
    if (!_o.live)
      g_log.ram.push_back(_o.id);
  }
  tok_t(tok_t &&_o) noexcept : id{_o.id}, live{_o.live}, orig{false} { _o.moved_out(); }
  tok_t &operator=(tok_t const &_o) requires Copyable
  {
    if (this != &_o)
    {
      g_log.cp.push_back(_o.id);
      if (!_o.live)
        g_log.ram.push_back(_o.id);
      overwritten();
      id = _o.id;
      live = _o.live;
    }
    return *this;
  }
  tok_t &operator=(tok_t &&_o) noexcept
  {
    if (this != &_o)
    {
      overwritten();
      id = _o.id;
      live = _o.live;
      _o.moved_out();
    }
    return *this;
  }
  // a live value that is destroyed (or overwritten by an assignment) is lost
  ~tok_t() { overwritten(); }

  // every use of the payload goes through here
  int read() const
  {
    if (!live)
      g_log.ram.push_back(id);
    return id;
  }
  // what the user's function does with an lvalue: read it and make a new value from it
  tok_t derive(int const _k) const { return tok_t{read() + 100 * _k}; }

  friend bool operator==(tok_t const &_a, tok_t const &_b) { return _a.read() == _b.read(); }
  friend bool operator!=(tok_t const &_a, tok_t const &_b) { return !(_a == _b); }
  friend bool operator<(tok_t const &_a, tok_t const &_b) { return _a.read() < _b.read(); }

private:
  void overwritten() noexcept
  {
    if (live)
      g_log.lost.push_back(id);
  }
  void moved_out() noexcept
  {
    if (orig)
      g_log.mv.push_back(id);
    if (!live)
      g_log.ram.push_back(id);
    live = false;
  }
};

template <typename Ch, typename Tr, bool C>
std::basic_ostream<Ch, Tr> &operator<<(std::basic_ostream<Ch, Tr> &_s, tok_t<C> const &_t)
{
  return _s << _t.read();
}
template <typename Ch, typename Tr, bool C>
std::basic_istream<Ch, Tr> &operator>>(std::basic_istream<Ch, Tr> &_s, tok_t<C> &_t)
{
  return _s >> _t.id;
}

using Tok = tok_t<true>;
using MTok = tok_t<false>;
static_assert(std::is_copy_constructible_v<Tok> && std::is_nothrow_move_constructible_v<Tok>);
static_assert(!std::is_copy_constructible_v<MTok> && !std::is_copy_assignable_v<MTok> && std::is_nothrow_move_constructible_v<MTok>);

// ---------------------------------------------------------------- the user's functions

// Every function the harness gives to the library is generic in the value category of what it is handed and records it:
// `l` = lvalue (T & or T const &), `r` = rvalue (T &&), `k` = const rvalue (cannot be stolen; never expected).
template <typename U>
constexpr char cat_of()
{
  if constexpr (std::is_lvalue_reference_v<U>)
    return 'l';
  else if constexpr (std::is_const_v<std::remove_reference_t<U>>)
    return 'k';
  else
    return 'r';
}
template <typename U>
void note()
{
  g_log.uc.push_back(cat_of<U>());
}
// comparators that std algorithms call an unspecified number of times only report what must never happen (a non-lvalue)
template <typename U>
void cmp_note()
{
  if constexpr (cat_of<U>() != 'l')
    g_log.uc.push_back(cat_of<U>());
}
// what a function with a by-value parameter does with its argument: an rvalue is stolen (move-constructed into the parameter, which
// dies at the end of the call unless it is handed on), an lvalue is referred to. Use as `auto &&x{take(FWD(e))};`
template <typename U>
decltype(auto) take(U &&_u)
{
  note<U>();
  if constexpr (cat_of<U>() == 'r')
    return std::remove_cvref_t<U>(std::move(_u));
  else
    return static_cast<std::remove_reference_t<U> const &>(_u);
}
// a function that only looks at its argument (predicates, actions)
template <typename U>
void ask(U &&_u)
{
  auto &&x{take(std::forward<U>(_u))};
  x.read();
}

// identity on identities: an rvalue is moved through (stolen and handed on), an lvalue is read and a new value derived from it
struct thru
{
  template <typename U>
  std::remove_cvref_t<U> operator()(U &&_u) const
  {
    note<U>();
    if constexpr (cat_of<U>() == 'r')
      return std::remove_cvref_t<U>(std::move(_u));
    else
      return _u.derive(1);
  }
};

struct bad_op
{
};

// ---------------------------------------------------------------- protocol

struct arg_t
{
  char cat;
  std::vector<int> ids;
};

struct line_t
{
  bool mo;
  std::vector<arg_t> args;
  std::vector<int> par;
  std::size_t n(std::size_t const a) const { return args.at(a).ids.size(); }
  char cat(std::size_t const a) const { return args.at(a).cat; }
};

inline void need(bool const _c)
{
  if (!_c)
    throw bad_op{};
}

template <typename T>
std::string slot(T const &_t)
{
  return (_t.live ? "" : "~") + std::to_string(_t.id);
}

struct slots_t
{
  std::string s;
  template <typename T>
  void add(T const &_t)
  {
    if (!s.empty())
      s += ',';
    s += slot(_t);
  }
  template <typename R>
  void add_range(R const &_r)
  {
    for (auto const &e : _r)
      add(e);
  }
  std::string str() const { return s.empty() ? "-" : s; }
};

template <typename R>
std::string slots(R const &_r)
{
  slots_t s;
  s.add_range(_r);
  return s.str();
}

template <typename T>
std::string map_slots(std::map<int, T> const &_m)
{
  slots_t s;
  for (auto const &e : _m)
    s.add(e.second);
  return s.str();
}

inline std::string ids(std::vector<int> v, bool const _dedup)
{
  std::sort(v.begin(), v.end());
  if (_dedup)
    v.erase(std::unique(v.begin(), v.end()), v.end());
  return vh::join(v);
}

inline std::string finish(std::string const &_tag, std::string const &_res, std::vector<std::string> const &_args, event_log const &_log)
{
  std::string r{"t=" + _tag + " r=" + _res};
  for (std::size_t i = 0; i < _args.size(); ++i)
    r += " a" + std::to_string(i) + "=" + _args[i];
  r += " cp=" + ids(_log.cp, true) + " mv=" + ids(_log.mv, false) + " ram=" + ids(_log.ram, true) + " lost=" + ids(_log.lost, false) +
       " mk=" + std::to_string(_log.made) + " uc=";
  if (_log.uc.empty())
    r += "-";
  for (std::size_t i = 0; i < _log.uc.size(); ++i)
    r += std::string(i == 0 ? "" : ",") + _log.uc[i];
  return r;
}

// ---------------------------------------------------------------- arguments

template <typename T>
std::vector<T> mk_vec(arg_t const &_a)
{
  std::vector<T> v;
  v.reserve(32); // headroom: a join into an rvalue first argument must not reallocate the caller's objects
  for (int const i : _a.ids)
    v.emplace_back(i);
  return v;
}

template <typename T>
std::deque<T> mk_deque(arg_t const &_a)
{
  std::deque<T> v;
  for (int const i : _a.ids)
    v.emplace_back(i);
  return v;
}

template <typename T>
std::map<int, T> mk_map(arg_t const &_a)
{
  std::map<int, T> m;
  int k = 0;
  for (int const i : _a.ids)
    m.emplace(k++, i);
  return m;
}

// mark the element objects of a finished argument as the caller's (done in place, after the last move of the container)
template <bool C>
void mark(tok_t<C> &_t)
{
  _t.orig = true;
}
template <typename T>
void mark(fcppt::optional::object<T> &_o)
{
  if (_o.has_value())
    mark(_o.get_unsafe());
}
template <typename T>
void mark(std::vector<T> &_v)
{
  for (auto &e : _v)
    mark(e);
}
template <typename T>
void mark(std::deque<T> &_v)
{
  for (auto &e : _v)
    mark(e);
}
template <typename T>
void mark(std::map<int, T> &_m)
{
  for (auto &e : _m)
    mark(e.second);
}

// Calls f with the container in the value category named by cat. LvOk = false: the lvalue instantiation needs a copy
// constructor the element type does not have (the model's program contains a copy there).
template <bool LvOk, typename C, typename F>
auto with_cat(char const _cat, C &_c, F const &_f) -> decltype(_f(std::move(_c)))
{
  switch (_cat)
  {
  case 'r':
    return _f(std::move(_c));
  case 'l':
    if constexpr (LvOk)
      return _f(_c);
    else
      throw bad_op{};
  case 'c':
    if constexpr (LvOk)
      return _f(std::as_const(_c));
    else
      throw bad_op{};
  default:
    throw bad_op{};
  }
}

#define FWD(x) std::forward<decltype(x)>(x)

template <typename T>
struct acc
{
  T marker;
  std::vector<T> items;
};

template <typename T>
std::string acc_slots(acc<T> const &_a)
{
  slots_t s;
  s.add(_a.marker);
  s.add_range(_a.items);
  return s.str();
}
template <typename T>
using opt = fcppt::optional::object<T>;

template <typename T>
opt<T> mk_opt(arg_t const &_a)
{
  need(_a.ids.size() <= 1);
  if (_a.ids.empty())
    return opt<T>{};
  return opt<T>{T{_a.ids[0]}};
}

template <typename T>
std::string opt_slots(opt<T> const &_o)
{
  slots_t s;
  if (_o.has_value())
    s.add(_o.get_unsafe());
  return s.str();
}

template <typename T>
std::string opt_tag(opt<T> const &_o)
{
  return _o.has_value() ? "J" : "N";
}

// vector of optionals: the present entries (mask bit 1) carry the identities in order
template <typename T>
std::vector<opt<T>> mk_optvec(arg_t const &_a, std::vector<int> const &_mask)
{
  std::vector<opt<T>> v;
  v.reserve(32);
  std::size_t k{0};
  for (int const m : _mask)
  {
    need(m == 0 || m == 1);
    if (m == 1)
    {
      need(k < _a.ids.size());
      v.emplace_back(T{_a.ids[k++]});
    }
    else
      v.emplace_back();
  }
  need(k == _a.ids.size());
  return v;
}

template <typename T>
std::string optvec_slots(std::vector<opt<T>> const &_v)
{
  slots_t s;
  for (auto const &o : _v)
    if (o.has_value())
      s.add(o.get_unsafe());
  return s.str();
}

// fail<T> / w1<T> / w2<T> (a token wrapped in a struct with a member `t`) or a token -> the token, moving an rvalue through and
// deriving from an lvalue
struct to_tok
{
  template <typename U>
  auto operator()(U &&_u) const
  {
    if constexpr (requires { _u.t; })
    {
      if constexpr (std::is_lvalue_reference_v<U>)
        return thru{}(_u.t);
      else
        return thru{}(std::move(_u.t));
    }
    else
      return thru{}(std::forward<U>(_u));
  }
};

// what a function of two arguments hands on: both, each with the value category it arrived with
template <typename T>
struct pair2
{
  T a;
  T b;
};

struct both
{
  template <typename A, typename B>
  auto operator()(A &&_a, B &&_b) const
  {
    using tok = decltype(to_tok{}(std::forward<A>(_a)));
    // braced initialisation: left to right
    return pair2<tok>{to_tok{}(std::forward<A>(_a)), to_tok{}(std::forward<B>(_b))};
  }
};

template <typename T>
void add_pair(slots_t &_s, pair2<T> const &_p)
{
  _s.add(_p.a);
  _s.add(_p.b);
}

// for functions whose result type is fixed to T (optional::combine): the second argument is consumed (an rvalue is moved into a local
// that dies, an lvalue is read), the first is handed on
struct sink_second
{
  template <typename A, typename B>
  std::remove_cvref_t<A> operator()(A &&_a, B &&_b) const
  {
    ask(std::forward<B>(_b));
    return thru{}(std::forward<A>(_a));
  }
};

// a function of any number of arguments: hands every argument on, in order
template <typename T>
struct collect
{
  template <typename... Args>
  std::vector<T> operator()(Args &&..._args) const
  {
    std::vector<T> v;
    v.reserve(sizeof...(Args) + 1U);
    (v.push_back(to_tok{}(std::forward<Args>(_args))), ...);
    return v;
  }
};

// two scalar arguments, each in its own value category
template <bool LvOk, typename A, typename B, typename F>
auto with_cats2(line_t const &L, A &_a, B &_b, F const &_f)
{
  return with_cat<LvOk>(L.cat(0), _a, [&](auto &&x) { return with_cat<LvOk>(L.cat(1), _b, [&](auto &&y) { return _f(FWD(x), FWD(y)); }); });
}

// the families (one translation unit each): return true and set _out when the operation is theirs
#define C05_FAMILY(name) bool name(std::string const &_op, line_t const &L, bool _mo, std::string &_out)
C05_FAMILY(family_alg);
C05_FAMILY(family_alg2);
C05_FAMILY(family_opt);
C05_FAMILY(family_eith);
C05_FAMILY(family_tup);
C05_FAMILY(family_rec);
C05_FAMILY(family_grid);
C05_FAMILY(family_tree);
C05_FAMILY(family_opts);
C05_FAMILY(family_parse);

// instantiate a family's dispatch with the copyable element type or its move-only twin
#ifdef C05_NO_MOVE_ONLY
#define C05_RUN(fn) (_mo ? throw bad_op{} : fn<Tok>(_op, L, _out))
#else
#define C05_RUN(fn) (_mo ? fn<MTok>(_op, L, _out) : fn<Tok>(_op, L, _out))
#endif
}
#endif
