// C05 correspondence harness, family unit `opts` (see harness/c05_common.hpp and harness/c05.cpp)
#include "c05_common.hpp"

#include <fcppt/either/match.hpp>
#include <fcppt/record/get.hpp>
#include <fcppt/record/make_label.hpp>
#include <fcppt/string.hpp>
#include <fcppt/args_vector.hpp>
#include <fcppt/from_std_string.hpp>
#include <fcppt/text.hpp>
#include <fcppt/variant/match.hpp>
#include <fcppt/options/active_value.hpp>
#include <fcppt/options/apply.hpp>
#include <fcppt/options/argument.hpp>
#include <fcppt/options/make_many.hpp>
#include <fcppt/options/make_optional.hpp>
#include <fcppt/options/make_sum.hpp>
#include <fcppt/options/default_value.hpp>
#include <fcppt/options/flag.hpp>
#include <fcppt/options/inactive_value.hpp>
#include <fcppt/options/long_name.hpp>
#include <fcppt/options/option.hpp>
#include <fcppt/options/optional_help_text.hpp>
#include <fcppt/options/optional_short_name.hpp>
#include <fcppt/options/parse_context.hpp>
#include <fcppt/options/parse_error.hpp>
#include <fcppt/options/result_of.hpp>
#include <fcppt/options/state.hpp>
#include <fcppt/options/state_with_value.hpp>

namespace c05
{
namespace
{
// ---------------------------------------------------------------- options: the constructors that take element values

FCPPT_RECORD_MAKE_LABEL(lopt);

// what a parser built from the element type stores is shown by parsing (outside the logged window)
template <typename P>
std::string parse_value(P const &_p, fcppt::args_vector _args)
{
  using result_type = fcppt::options::result_of<P>;
  return fcppt::either::match(
      _p.parse(fcppt::options::state{std::move(_args)}, fcppt::options::parse_context{_p.option_names()}),
      [](fcppt::options::parse_error const &) { return std::string{"?"}; },
      [](fcppt::options::state_with_value<result_type> const &_r) { return slot(fcppt::record::get<lopt>(_r.value())); });
}

template <typename T>
std::string op_options(std::string const &_op, line_t const &L)
{
  namespace fo = fcppt::options;
  if (_op == "optsflag")
  {
    need(L.args.size() == 2 && L.n(0) == 1 && L.n(1) == 1 && L.cat(0) == 'r' && L.cat(1) == 'r' && L.par.empty());
    fo::active_value<T> a{T{L.args[0].ids[0]}};
    fo::inactive_value<T> b{T{L.args[1].ids[0]}};
    mark(a.get());
    mark(b.get());
    g_log.clear();
    std::string res;
    try
    {
      fo::flag<lopt, T> const f{
          fo::optional_short_name{}, fo::long_name{fcppt::string{"flag"}}, std::move(a), std::move(b), fo::optional_help_text{}};
      event_log const log{g_log};
      if constexpr (T::copyable)
        res = parse_value(f, fcppt::args_vector{fcppt::string{"--flag"}}) + "," + parse_value(f, fcppt::args_vector{});
      else
        res = "?";
      slots_t sa, sb;
      sa.add(a.get());
      sb.add(b.get());
      return finish("-", res, {sa.str(), sb.str()}, log);
    }
    catch (fcppt::options::exception const &)
    {
      event_log const log{g_log};
      slots_t sa, sb;
      sa.add(a.get());
      sb.add(b.get());
      return finish("exc:options", "-", {sa.str(), sb.str()}, log);
    }
  }
  if (_op == "optsoption")
  {
    need(L.args.size() == 1 && L.n(0) <= 1 && L.cat(0) == 'r' && L.par.empty());
    using dv = typename fo::option<lopt, T>::optional_default_value;
    dv d{mk_opt<T>(L.args[0])};
    mark(d.get());
    g_log.clear();
    fo::option<lopt, T> const o{fo::optional_short_name{}, fo::long_name{fcppt::string{"opt"}}, std::move(d), fo::optional_help_text{}};
    event_log const log{g_log};
    std::string res{"-"};
    if constexpr (T::copyable)
    {
      if (L.n(0) == 1)
        res = parse_value(o, fcppt::args_vector{});
    }
    else if (L.n(0) == 1)
      res = "?";
    return finish("-", res, {opt_slots(d.get())}, log);
  }
  throw bad_op{};
}

// ---------------------------------------------------------------- options: result records moved through the combinators

FCPPT_RECORD_MAKE_LABEL(lar0);
FCPPT_RECORD_MAKE_LABEL(lar1);
FCPPT_RECORD_MAKE_LABEL(lar2);
FCPPT_RECORD_MAKE_LABEL(lsum);

template <typename P>
auto run_parser(P const &_p, fcppt::args_vector _args)
{
  return _p.parse(fcppt::options::state{std::move(_args)}, fcppt::options::parse_context{_p.option_names()});
}

template <typename T>
std::string op_options_more(std::string const &_op, line_t const &L)
{
  namespace fo = fcppt::options;
  need(L.args.empty() && L.par.size() == 1 && L.par[0] >= 0 && L.par[0] <= 16);
  int const k{L.par[0]};
  fcppt::args_vector args;
  for (int i = 0; i < (_op == "optssum" ? (k == 0 ? 2 : 1) : k); ++i)
    args.push_back(fcppt::from_std_string(std::to_string(1000 + i)));
  auto const arg0{[] { return fo::argument<lar0, T>{fo::long_name{fcppt::string{FCPPT_TEXT("a0")}}, fo::optional_help_text{}}; }};
  auto const arg1{[] { return fo::argument<lar1, T>{fo::long_name{fcppt::string{FCPPT_TEXT("a1")}}, fo::optional_help_text{}}; }};
  auto const arg2{[] { return fo::argument<lar2, T>{fo::long_name{fcppt::string{FCPPT_TEXT("a2")}}, fo::optional_help_text{}}; }};
  g_log.clear();
  if (_op == "optsarg")
  {
    need(k <= 1);
    auto const p{arg0()};
    auto const r{run_parser(p, std::move(args))};
    event_log const log{g_log};
    slots_t sr;
    if (r.has_success())
      sr.add(fcppt::record::get<lar0>(r.get_success_unsafe().value()));
    return finish(r.has_success() ? "S" : "F", sr.str(), {}, log);
  }
  if (_op == "optsoptional")
  {
    need(k <= 1);
    auto const p{fo::make_optional(arg0())};
    auto const r{run_parser(p, std::move(args))};
    event_log const log{g_log};
    slots_t sr;
    std::string tag{"F"};
    if (r.has_success())
    {
      auto const &o{fcppt::record::get<lar0>(r.get_success_unsafe().value())};
      tag = o.has_value() ? "SJ" : "SN";
      if (o.has_value())
        sr.add(o.get_unsafe());
    }
    return finish(tag, sr.str(), {}, log);
  }
  if (_op == "optsproduct")
  {
    need(k <= 2);
    auto const p{fo::apply(arg0(), arg1())};
    auto const r{run_parser(p, std::move(args))};
    event_log const log{g_log};
    slots_t sr;
    if (r.has_success())
    {
      sr.add(fcppt::record::get<lar0>(r.get_success_unsafe().value()));
      sr.add(fcppt::record::get<lar1>(r.get_success_unsafe().value()));
    }
    return finish(r.has_success() ? "S" : "F", sr.str(), {}, log);
  }
  if (_op == "optsmany")
  {
    auto const p{fo::make_many(arg0())};
    auto const r{run_parser(p, std::move(args))};
    event_log const log{g_log};
    slots_t sr;
    if (r.has_success())
      sr.add_range(fcppt::record::get<lar0>(r.get_success_unsafe().value()));
    return finish(r.has_success() ? "S" : "F", sr.str(), {}, log);
  }
  if (_op == "optssum")
  {
    need(k <= 1);
    auto const p{fo::make_sum<lsum>(fo::apply(arg0(), arg1()), arg2())};
    auto const r{run_parser(p, std::move(args))};
    event_log const log{g_log};
    slots_t sr;
    std::string tag{"F"};
    if (r.has_success())
    {
      auto const &v{fcppt::record::get<lsum>(r.get_success_unsafe().value())};
      tag = fcppt::variant::match(
          v,
          [&sr](auto const &_left) -> std::string
          requires requires { fcppt::record::get<lar0>(_left.get()); }
          {
            sr.add(fcppt::record::get<lar0>(_left.get()));
            sr.add(fcppt::record::get<lar1>(_left.get()));
            return "L";
          },
          [&sr](auto const &_right) -> std::string
          requires requires { fcppt::record::get<lar2>(_right.get()); }
          {
            sr.add(fcppt::record::get<lar2>(_right.get()));
            return "R";
          });
    }
    return finish(tag, sr.str(), {}, log);
  }
  throw bad_op{};
}

template <typename T>
bool dispatch(std::string const &_op, line_t const &L, std::string &_out)
{
  if (_op == "optsflag")
    return (_out = op_options<T>(_op, L), true);
  if (_op == "optsoption")
    return (_out = op_options<T>(_op, L), true);
  if (_op == "optsarg" || _op == "optsoptional" || _op == "optsproduct" || _op == "optsmany" || _op == "optssum")
    return (_out = op_options_more<T>(_op, L), true);
  return false;
}
}

C05_FAMILY(family_opts) { return C05_RUN(dispatch); }
}
