// C20 correspondence harness: runs the real fcppt::random templates on the operation lines described in
// /verif/lean/FcpptModel/Drv/C20.lean and prints the same canonical result lines.
//
// Lines starting with `std` are *oracle* lines: they use nothing but <random> (the equivalent std:: engine /
// distribution pair, same seed, same parameters, same sequence of construct / param / reset / draw) and print
// the produced numbers.  props/c20.py runs them first and puts the numbers ("tape") into the operation lines,
// so that the Lean driver can reproduce fcppt's decorated sequence from the standard one.
#include "c20_common.hpp"

namespace
{
// what can be read back from a distribution::basic built from the parameters p
// (Parameters::convert_to, basic::param() const and basic::operator()(Rng &, param_type const &) cannot be
// instantiated on the pinned tree - see notes/C20.md - so the parameters are read through convert_from and
// through the wrapped distribution)
template <typename K, typename R, typename D>
std::string readbacks(D const &d, typename D::param_type const &p, bool const fresh = true)
{
  using sh = shape<R>;
  auto const wp{p.convert_from()};
  D const again{p};
  return " min=" + sh::print(d.min()) + " max=" + sh::print(d.max()) + " a=" + sh::inner(K::first(d.distribution())) +
         " b=" + sh::inner(K::second(d.distribution())) + " cf=" + sh::inner(K::first(wp)) + "," +
         sh::inner(K::second(wp)) +
         // == of the standard distributions may look at internal state (normal_distribution's saved value):
         // only a distribution nothing was drawn from yet is compared
         (fresh ? std::string{" eq="} + (again == d ? "1" : "0") + " ne=" + (again != d ? "1" : "0") : std::string{" eq=- ne=-"});
}

template <typename K, typename R>
std::string ends_field(
    std::vector<typename shape<R>::base> const &seen, typename shape<R>::base const a, typename shape<R>::base const b)
{
  if constexpr (K::has_ends)
  {
    using B = typename shape<R>::base;
    using U = std::make_unsigned_t<B>;
    if (seen.size() < 400U || static_cast<U>(static_cast<U>(b) - static_cast<U>(a)) > U{16})
      return " ends=-";
    bool lo = false, hi = false;
    for (B const x : seen)
    {
      lo = lo || x == a;
      hi = hi || x == b;
    }
    return std::string{" ends="} + (lo && hi ? "1" : "0");
  }
  else
    return "";
}

// K: distribution kind, R: result type, FG: fcppt generator, W: uniform_int wrapper
template <typename K, typename R, typename FG, typename W>
std::string run_dist(std::vector<std::string> const &t, std::size_t const seed_at)
{
  using P = typename K::template params<R, W>;
  using D = fcppt::random::distribution::basic<P>;
  using V = fcppt::random::variate<FG, D>;
  using sh = shape<R>;
  using B = typename sh::base;
  static_assert(std::is_same_v<typename D::result_type, R>);
  static_assert(std::is_same_v<typename V::result_type, R>);
  if (t.size() < seed_at + 3U)
    throw bad_op{};
  FG gen{typename FG::seed{parse_base<typename FG::result_type>(t[seed_at])}};
  std::string const &ctor = t[seed_at + 1U];
  std::optional<D> held;
  std::optional<P> held_p;
  std::string out;
  for (std::size_t i = seed_at + 2U; i < t.size(); ++i)
  {
    seg const s{parse_seg(t[i], !std::is_same_v<FG, fc_ctr>)};
    B const a{parse_base<B>(s.p1)}, b{parse_base<B>(s.p2)};
    R const ra{sh::make(a)}, rb{sh::make(b)};
    P const p{K::template make<P>(ra, rb)};
    std::vector<std::string> seq;
    std::vector<B> seen;
    std::string rb_text;
    auto const record = [&seq, &seen](R const &r) {
      seq.push_back(sh::print(r));
      seen.push_back(sh::strip(r));
    };
    if (i != seed_at + 2U && ctor != "d" && s.a != act::new_)
      throw bad_op{};
    if (i == seed_at + 2U && s.a != act::new_)
      throw bad_op{};
    if (ctor == "d")
    {
      switch (s.a)
      {
      case act::new_:
        held.emplace(p);
        held_p.emplace(p);
        break;
      case act::set:
        held->param(p);
        held_p.emplace(p);
        break;
      case act::rst:
        held->reset();
        break;
      }
      rb_text = readbacks<K, R>(*held, s.a == act::rst ? *held_p : p, s.a == act::new_);
      for (std::size_t k = 0; k < s.n; ++k)
        record((*held)(gen));
    }
    else if (ctor == "v")
    {
      D const d{p};
      rb_text = readbacks<K, R>(d, p);
      V var{fcppt::make_ref(gen), d};
      for (std::size_t k = 0; k < s.n; ++k)
        record(var());
    }
    else if (ctor == "v2")
    {
      D const d{K::template make2<D>(ra, rb)};
      rb_text = readbacks<K, R>(d, p);
      V var{fcppt::make_ref(gen), d};
      for (std::size_t k = 0; k < s.n; ++k)
        record(var());
    }
    else if (ctor == "vp")
    {
      rb_text = readbacks<K, R>(D{p}, p);
      V var{fcppt::make_ref(gen), p};
      for (std::size_t k = 0; k < s.n; ++k)
        record(var());
    }
    else if (ctor == "mk")
    {
      auto const d{fcppt::random::distribution::make_basic(p)};
      rb_text = readbacks<K, R>(d, p);
      auto var{fcppt::random::make_variate(fcppt::make_ref(gen), d)};
      static_assert(std::is_same_v<decltype(var), V>);
      for (std::size_t k = 0; k < s.n; ++k)
        record(var());
    }
    else
      throw bad_op{};
    if (!out.empty())
      out += " | ";
    out += "seq=" + join_str(seq) + rb_text + ends_field<K, R>(seen, a, b);
  }
  return out;
}

// the equivalent std:: run
template <typename K, typename B, typename Eng>
std::string run_std(std::vector<std::string> const &t, std::size_t const seed_at)
{
  using SD = typename K::template stddist<B>;
  if (t.size() < seed_at + 2U)
    throw bad_op{};
  Eng eng{parse_base<typename Eng::result_type>(t[seed_at])};
  std::optional<SD> held;
  std::string out;
  for (std::size_t i = seed_at + 1U; i < t.size(); ++i)
  {
    seg const s{parse_seg(t[i], false)};
    B const a{parse_base<B>(s.p1)}, b{parse_base<B>(s.p2)};
    typename SD::param_type const p{a, b};
    switch (s.a)
    {
    case act::new_:
      held.emplace(p);
      break;
    case act::set:
      if (!held)
        throw bad_op{};
      held->param(p);
      break;
    case act::rst:
      if (!held)
        throw bad_op{};
      held->reset();
      break;
    }
    std::vector<std::string> seq;
    for (std::size_t k = 0; k < s.n; ++k)
      seq.push_back(shape<B>::inner((*held)(eng)));
    if (i != seed_at + 1U)
      out += "|";
    out += join_str(seq);
  }
  return out;
}

// ---------------------------------------------------------------- dispatch on the textual type codes
template <typename K, typename R, typename W>
std::string with_engine(std::vector<std::string> const &t, std::size_t const eng_at)
{
  if (t.size() <= eng_at)
    throw bad_op{};
  if (t[eng_at] == "minstd")
    return run_dist<K, R, fc_minstd, W>(t, eng_at + 1U);
  if (t[eng_at] == "mt")
    return run_dist<K, R, fc_mt, W>(t, eng_at + 1U);
  throw bad_op{};
}

template <typename K, typename T, typename W>
std::string with_deco(std::vector<std::string> const &t, std::string const &deco, std::size_t const eng_at)
{
  if (deco == "p")
    return with_engine<K, T, W>(t, eng_at);
  if (deco == "s")
    return with_engine<K, typename st<T>::one, W>(t, eng_at);
  if (deco == "ss")
    return with_engine<K, typename st<T>::two, W>(t, eng_at);
  throw bad_op{};
}

std::string op_I(std::vector<std::string> const &t)
{
  // I <T> <deco> <eng> <seed> <ctor> <seg>+
  if (t.size() < 7U)
    throw bad_op{};
  std::string const &ty = t[1], &deco = t[2];
  if (deco.size() >= 2U && deco[0] == 'e')
  {
    if (ty != "i")
      throw bad_op{};
    return with_enum(static_cast<unsigned>(std::stoul(deco.substr(1))), [&t]<typename E>(tag<E>) {
      return with_engine<k_int, E, uiw>(t, 3U);
    });
  }
  if (deco == "se3")
  {
    if (ty != "i")
      throw bad_op{};
    return with_engine<k_int, strong_e3, uiw>(t, 3U);
  }
  if (ty == "s")
    return with_deco<k_int, short, uiw>(t, deco, 3U);
  if (ty == "i")
    return with_deco<k_int, int, uiw>(t, deco, 3U);
  if (ty == "l")
    return with_deco<k_int, long, uiw>(t, deco, 3U);
  throw bad_op{};
}

std::string op_R(std::vector<std::string> const &t)
{
  // R <kind> <T> <deco> <eng> <seed> <ctor> <seg>+
  if (t.size() < 8U)
    throw bad_op{};
  std::string const &kind = t[1], &ty = t[2], &deco = t[3];
  if (deco != "p" && deco != "s")
    throw bad_op{};
  if (kind == "ur" && ty == "f")
    return with_deco<k_real, float, no_wrapper>(t, deco, 4U);
  if (kind == "ur" && ty == "d")
    return with_deco<k_real, double, no_wrapper>(t, deco, 4U);
  if (kind == "no" && ty == "f")
    return with_deco<k_normal, float, no_wrapper>(t, deco, 4U);
  if (kind == "no" && ty == "d")
    return with_deco<k_normal, double, no_wrapper>(t, deco, 4U);
  throw bad_op{};
}

std::string op_X(std::vector<std::string> const &t)
{
  // X <T> <deco> <seed> <ctor> <seg>+      (ctr_engine + mod_dist, no tape)
  if (t.size() < 6U)
    throw bad_op{};
  std::string const &ty = t[1], &deco = t[2];
  if (deco == "e5" && ty == "i")
    return run_dist<k_int, e5, fc_ctr, mod_wrapper>(t, 3U);
  if (deco != "p" && deco != "s")
    throw bad_op{};
  if (ty == "s")
    return deco == "p" ? run_dist<k_int, short, fc_ctr, mod_wrapper>(t, 3U)
                       : run_dist<k_int, st<short>::one, fc_ctr, mod_wrapper>(t, 3U);
  if (ty == "i")
    return deco == "p" ? run_dist<k_int, int, fc_ctr, mod_wrapper>(t, 3U)
                       : run_dist<k_int, st<int>::one, fc_ctr, mod_wrapper>(t, 3U);
  if (ty == "l")
    return deco == "p" ? run_dist<k_int, long, fc_ctr, mod_wrapper>(t, 3U)
                       : run_dist<k_int, st<long>::one, fc_ctr, mod_wrapper>(t, 3U);
  throw bad_op{};
}

// ---------------------------------------------------------------- enum factory
template <typename E, typename FG, typename W>
std::string run_enum(std::string const &seed, std::string const &ctor, std::string const &segtok, bool const with_tape)
{
  using P = fcppt::random::distribution::parameters::uniform_int<E, W>;
  using D = fcppt::random::distribution::basic<P>;
  using V = fcppt::random::variate<FG, D>;
  using sh = shape<E>;
  using B = typename sh::base;
  auto const f = split(segtok, ':');
  if (f.size() != (with_tape ? 2U : 1U))
    throw bad_op{};
  std::size_t const n = std::stoul(f[0]);
  if (n > 100000U)
    throw bad_op{};
  FG gen{typename FG::seed{parse_base<typename FG::result_type>(seed)}};
  P const p{[] {
    if constexpr (std::is_same_v<W, uiw>)
    {
      static_assert(std::is_same_v<decltype(fcppt::random::distribution::parameters::make_uniform_enum<E>()), P>);
      return fcppt::random::distribution::parameters::make_uniform_enum<E>();
    }
    else
      return fcppt::random::distribution::parameters::make_uniform_enum_advanced<W, E>();
  }()};
  std::vector<std::string> seq;
  std::vector<B> seen;
  auto const record = [&seq, &seen](E const r) {
    seq.push_back(sh::print(r));
    seen.push_back(sh::strip(r));
  };
  D d{p};
  std::string const rb_text{readbacks<k_int, E>(d, p)};
  if (ctor == "d")
    for (std::size_t k = 0; k < n; ++k)
      record(d(gen));
  else if (ctor == "v")
  {
    V var{fcppt::make_ref(gen), d};
    for (std::size_t k = 0; k < n; ++k)
      record(var());
  }
  else if (ctor == "vp")
  {
    V var{fcppt::make_ref(gen), p};
    for (std::size_t k = 0; k < n; ++k)
      record(var());
  }
  else
    throw bad_op{};
  // the ends of an enum distribution are the first and the last enumerator
  B const lo{0}, hi{static_cast<B>(E::fcppt_maximum)};
  return "seq=" + join_str(seq) + rb_text + ends_field<k_int, E>(seen, lo, hi);
}

std::string op_EN(std::vector<std::string> const &t)
{
  // EN <k> <eng> <seed> <ctor> <n>:<tape>
  if (t.size() != 6U)
    throw bad_op{};
  return with_enum(static_cast<unsigned>(std::stoul(t[1])), [&t]<typename E>(tag<E>) {
    if (t[2] == "minstd")
      return run_enum<E, fc_minstd, uiw>(t[3], t[4], t[5], true);
    if (t[2] == "mt")
      return run_enum<E, fc_mt, uiw>(t[3], t[4], t[5], true);
    throw bad_op{};
  });
}

std::string op_XE(std::vector<std::string> const &t)
{
  // XE <k> <seed> <ctor> <n>      k in {1,5,9}
  if (t.size() != 5U)
    throw bad_op{};
  if (t[1] == "1")
    return run_enum<e1, fc_ctr, mod_wrapper>(t[2], t[3], t[4], false);
  if (t[1] == "5")
    return run_enum<e5, fc_ctr, mod_wrapper>(t[2], t[3], t[4], false);
  if (t[1] == "9")
    return run_enum<e9, fc_ctr, mod_wrapper>(t[2], t[3], t[4], false);
  throw bad_op{};
}

// ---------------------------------------------------------------- containers
// Cont: possibly const container type; `advanced`: use the _advanced factories with wrapper W
template <typename Cont, typename FG, typename W, bool advanced>
std::string run_container(std::string const &seed, std::string const &elems, std::string const &segtok, bool const with_tape)
{
  using plain = std::remove_const_t<Cont>;
  auto const f = split(segtok, ':');
  if (f.size() != (with_tape ? 2U : 1U))
    throw bad_op{};
  std::size_t const n = std::stoul(f[0]);
  if (n > 100000U)
    throw bad_op{};
  plain storage;
  for (long long const e : vh::int_list(elems))
    storage.push_back(static_cast<typename plain::value_type>(e));
  Cont &c{storage};
  FG gen{typename FG::seed{parse_base<typename FG::result_type>(seed)}};
  auto const ind{[&c] {
    if constexpr (advanced)
      return fcppt::random::distribution::parameters::make_uniform_indices_advanced<W>(c);
    else
      return fcppt::random::distribution::parameters::make_uniform_indices(c);
  }()};
  auto cont{[&c] {
    if constexpr (advanced)
      return fcppt::random::wrapper::make_uniform_container_advanced<W>(fcppt::reference<Cont>{c});
    else
      return fcppt::random::wrapper::make_uniform_container(fcppt::reference<Cont>{c});
  }()};
  static_assert(std::is_same_v<
                typename decltype(cont)::value_type,
                fcppt::random::wrapper::uniform_container<Cont, W>>);
  std::string out{"ind="};
  if (ind.has_value())
  {
    auto const wp{ind.get_unsafe().convert_from()};
    out += std::to_string(wp.a()) + "," + std::to_string(wp.b());
  }
  else
    out += "none";
  if (!cont.has_value())
    return out + " cont=none";
  out += " cont=some";
  std::vector<std::string> seq, idx;
  for (std::size_t k = 0; k < n; ++k)
  {
    auto &r{cont.get_unsafe()(gen)};
    static_assert(std::is_same_v<decltype(r), std::conditional_t<std::is_const_v<Cont>, typename plain::value_type const, typename plain::value_type> &>);
    idx.push_back(std::to_string(index_of(storage, r)));
    seq.push_back(std::to_string(r));
  }
  return out + " seq=" + join_str(seq) + " idx=" + join_str(idx);
}

template <typename Cont>
std::string container_engine(std::vector<std::string> const &t)
{
  if (t[2] == "minstd")
    return run_container<Cont, fc_minstd, uiw, false>(t[3], t[4], t[5], true);
  if (t[2] == "mt")
    return run_container<Cont, fc_mt, uiw, false>(t[3], t[4], t[5], true);
  throw bad_op{};
}

std::string op_C(std::vector<std::string> const &t)
{
  // C <ctype> <eng> <seed> <elems|-> <n>:<tape>
  if (t.size() != 6U)
    throw bad_op{};
  if (t[1] == "vc")
    return container_engine<std::vector<int> const>(t);
  if (t[1] == "vm")
    return container_engine<std::vector<long>>(t);
  if (t[1] == "dq")
    return container_engine<std::deque<int> const>(t);
  if (t[1] == "adv")
  {
    // the _advanced factories with the standard wrapper spelled out
    if (t[2] == "minstd")
      return run_container<std::vector<int> const, fc_minstd, uiw, true>(t[3], t[4], t[5], true);
    if (t[2] == "mt")
      return run_container<std::vector<int> const, fc_mt, uiw, true>(t[3], t[4], t[5], true);
  }
  throw bad_op{};
}

std::string op_XC(std::vector<std::string> const &t)
{
  // XC <seed> <elems|-> <n>
  if (t.size() != 4U)
    throw bad_op{};
  return run_container<std::vector<int> const, fc_ctr, mod_wrapper, true>(t[1], t[2], t[3], false);
}

// ---------------------------------------------------------------- raw generators
template <typename FG, typename Eng>
std::string run_gen(std::string const &mode, std::string const &seed, std::size_t const n, bool const fc)
{
  auto const s{parse_base<typename Eng::result_type>(seed)};
  std::vector<std::string> seq;
  std::string mn, mx;
  auto const draw = [&seq, n, &mn, &mx](auto &g) {
    using G = std::remove_reference_t<decltype(g)>;
    for (std::size_t k = 0; k < n; ++k)
      seq.push_back(std::to_string(g()));
    mn = std::to_string(G::min());
    mx = std::to_string(G::max());
  };
  if (mode == "v")
  {
    if (fc)
    {
      FG g{typename FG::seed{s}};
      draw(g);
    }
    else
    {
      Eng g{s};
      draw(g);
    }
  }
  else if (mode == "q")
  {
    if constexpr (std::is_same_v<Eng, ctr_engine>)
      throw bad_op{};
    else
    {
    std::seed_seq sq{static_cast<std::uint32_t>(s), static_cast<std::uint32_t>(s >> 7U), 77U};
    if (fc)
    {
      FG g{sq};
      draw(g);
    }
    else
    {
      Eng g{sq};
      draw(g);
    }
    }
  }
  else
    throw bad_op{};
  return fc ? "seq=" + join_str(seq) + " min=" + mn + " max=" + mx : mn + ":" + mx + ":" + join_str(seq);
}

std::string op_G(std::vector<std::string> const &t, bool const fc)
{
  // G <eng> <mode> <seed> <n>[:<min>:<max>:<tape>]
  if (t.size() != 5U)
    throw bad_op{};
  auto const f = split(t[4], ':');
  if (f.size() != (fc ? 4U : 1U))
    throw bad_op{};
  std::size_t const n = std::stoul(f[0]);
  if (n > 100000U)
    throw bad_op{};
  if (t[1] == "minstd")
    return run_gen<fc_minstd, std::minstd_rand>(t[2], t[3], n, fc);
  if (t[1] == "mt")
    return run_gen<fc_mt, std::mt19937>(t[2], t[3], n, fc);
  if (t[1] == "ctr" && fc)
    return run_gen<fc_ctr, ctr_engine>(t[2], t[3], n, fc);
  throw bad_op{};
}


// ---------------------------------------------------------------- oracle lines
template <typename K, typename B>
std::string std_engine(std::vector<std::string> const &t, std::size_t const eng_at)
{
  if (t.size() <= eng_at)
    throw bad_op{};
  if (t[eng_at] == "minstd")
    return run_std<K, B, std::minstd_rand>(t, eng_at + 1U);
  if (t[eng_at] == "mt")
    return run_std<K, B, std::mt19937>(t, eng_at + 1U);
  throw bad_op{};
}

std::string op_std(std::vector<std::string> const &t)
{
  if (t.size() < 2U)
    throw bad_op{};
  if (t[1] == "I")
  {
    // std I <T> <eng> <seed> <act:a:b:n>+
    if (t.size() < 6U)
      throw bad_op{};
    if (t[2] == "s")
      return std_engine<k_int, short>(t, 3U);
    if (t[2] == "i")
      return std_engine<k_int, int>(t, 3U);
    if (t[2] == "l")
      return std_engine<k_int, long>(t, 3U);
    if (t[2] == "z")
      return std_engine<k_int, std::size_t>(t, 3U);
    throw bad_op{};
  }
  if (t[1] == "R")
  {
    // std R <kind> <T> <eng> <seed> <act:a:b:n>+
    if (t.size() < 7U)
      throw bad_op{};
    if (t[2] == "ur" && t[3] == "f")
      return std_engine<k_real, float>(t, 4U);
    if (t[2] == "ur" && t[3] == "d")
      return std_engine<k_real, double>(t, 4U);
    if (t[2] == "no" && t[3] == "f")
      return std_engine<k_normal, float>(t, 4U);
    if (t[2] == "no" && t[3] == "d")
      return std_engine<k_normal, double>(t, 4U);
    throw bad_op{};
  }
  if (t[1] == "G")
    return op_G(std::vector<std::string>(t.begin() + 1, t.end()), false);
  if (t[1] == "G2" || t[1] == "IS" || t[1] == "RS")
    return c20_scripts(t);
  throw bad_op{};
}

std::string handle(std::vector<std::string> const &t)
{
  try
  {
    if (t.empty())
      return "bad-op";
    if (t[0] == "I")
      return op_I(t);
    if (t[0] == "EN")
      return op_EN(t);
    if (t[0] == "C")
      return op_C(t);
    if (t[0] == "R")
      return op_R(t);
    if (t[0] == "G")
      return op_G(t, true);
    if (t[0] == "X")
      return op_X(t);
    if (t[0] == "XE")
      return op_XE(t);
    if (t[0] == "XC")
      return op_XC(t);
    if (t[0] == "XS" || t[0] == "IS" || t[0] == "RS" || t[0] == "XU" || t[0] == "G2" || t[0] == "TI" || t[0] == "SC")
      return c20_scripts(t);
    if (t[0] == "std")
      return op_std(t);
    return "bad-op";
  }
  catch (bad_op const &)
  {
    return "bad-op";
  }
  catch (std::invalid_argument const &)
  {
    return "bad-op";
  }
  catch (std::out_of_range const &)
  {
    return "bad-op";
  }
  catch (std::exception const &)
  {
    return "exc:std";
  }
  catch (...)
  {
    return "exc:unknown";
  }
}
}

int main() { return vh::run(handle); }
