// C10 correspondence harness: runs the real fcppt::container::bitfield on the operation lines
// described in /verif/lean/FcpptModel/Drv/C10.lean and prints the same canonical result lines.
//
// The real templates are instantiated in c10_w8/16/32/64.cpp (c10_inst.hpp) for enums with
// 1, 3, 5, 8, 9, 17, 33 and 64 enumerators; this file only holds the protocol.
// Every public member / free function of libs/core/include/fcppt/container/bitfield is reached:
//   object(initializer_list), object(array_type const&), operator[] const / mutable, set, get,
//   array() const / mutable (read and write through begin()/end(), get_unsafe), null();
//   proxy copy / move construction, proxy = proxy (re-binding), proxy = bool, proxy -> bool on
//   proxy<array> and proxy<array const>;
//   |=(index) |=(object) &= ^= ~ &(index) |(index) | & ^ (operators.hpp), == != (comparison.hpp),
//   is_subset_eq, init, hash / std::hash, underlying_value, operator<< (char and wchar_t).
// Not reachable: object(no_init const&) does not compile on this tree (notes/C10.md).
#include "common/vh.hpp"
#include "c10_iface.hpp"

#include <algorithm>
#include <cstdint>
#include <memory>
#include <optional>
#include <string>
#include <vector>

namespace
{
using c10::factory;
using c10::ull;
using c10::val;
using vp = std::unique_ptr<val>;

std::optional<std::vector<ull>> dots(std::string const &s)
{
  std::vector<ull> r;
  if (s.empty())
    return std::nullopt;
  std::size_t pos = 0;
  while (true)
  {
    std::size_t const next = s.find('.', pos);
    std::string const part = s.substr(pos, next == std::string::npos ? next : next - pos);
    if (part.empty() || part.find_first_not_of("0123456789") != std::string::npos || part.size() > 20)
      return std::nullopt;
    r.push_back(vh::to_ull(part));
    if (next == std::string::npos)
      break;
    pos = next + 1;
  }
  return r;
}

std::string b01(bool b) { return b ? "1" : "0"; }

struct ctx
{
  factory const &f;
  unsigned n;

  bool mask_ok(ull m) const { return n >= 64U || (m >> n) == 0U; }
  bool word_ok(ull x) const { return f.wbits >= 64U || (x >> f.wbits) == 0U; }

  // one element at a time: operator|=(index), operator|(object) with a one-element initializer list, operator|(index) in turn
  vp from_mask(ull m) const
  {
    vp r{f.null()};
    for (unsigned i = 0; i < n; ++i)
      if ((m >> i) & 1U)
      {
        if (i % 3U == 0U)
        {
          bool ok = false;
          r->or_idx_assign(i, ok);
          if (!ok)
            return f.null();
        }
        else if (i % 3U == 1U)
          r = r->bor(*f.il({i}));
        else
          r = r->or_idx(i);
      }
    return r;
  }

  // a set through one initializer list
  vp il_mask(ull m) const
  {
    std::vector<unsigned> es;
    for (unsigned i = 0; i < n; ++i)
      if ((m >> i) & 1U)
        es.push_back(i);
    return f.il(es);
  }

  // members as seen through get, const operator[], operator&(index) and the mutable operator[]
  ull obs(val const &b) const
  {
    ull m = 0;
    vp copy{b.clone()};
    for (unsigned i = 0; i < n; ++i)
    {
      bool const g1 = b.get(i);
      bool const g2 = b.idx_const(i);
      bool const g3 = b.and_idx(i);
      bool const g4 = copy->idx_mut(i);
      if (g1 != g2 || g1 != g3 || g1 != g4)
        return ~0ULL - 1U; // the readers disagree: never equals a model mask
      if (g1)
        m |= 1ULL << i;
    }
    if (copy->words() != b.words())
      return ~0ULL - 2U; // reading changed something
    return m;
  }

  std::string ws(val const &b) const
  {
    std::vector<ull> const w{b.words()};
    std::string r{vh::join(w)};
    if (w.size() != f.nwords || w != b.words_unsafe())
      r += "#";
    return r;
  }

  std::string mw(val const &b) const { return std::to_string(obs(b)) + "/" + ws(b); }

  ull hash(val const &b) const
  {
    ull const h1 = b.hash_fcppt();
    ull const h2 = b.hash_std();
    return h1 == h2 ? h1 : ~h1; // both hash objects must agree
  }

  bool is_canon(val const &b) const
  {
    unsigned next = 0;
    bool order_ok = true;
    // init must ask for every enumerator exactly once, in order
    vp const c{f.init([&b, &next, &order_ok](unsigned const e) {
      if (e != next)
        order_ok = false;
      ++next;
      return b.get(e);
    })};
    return order_ok && next == n && b.eq(*c) && !b.ne(*c) && hash(b) == hash(*c);
  }

  // the part of a `pair` line that depends on the first operand only
  std::string pair_a(val const &a) const
  {
    vp const c{a.bnot()};
    bool r1 = false, r2 = false, r3 = false;
    // the same object on both sides
    vp s1{a.clone()}; s1->or_assign(*s1, r1);
    vp s2{a.clone()}; s2->and_assign(*s2, r2);
    vp s3{a.clone()}; s3->xor_assign(*s3, r3);
    vp const s4{a.bor(a)}, s5{a.band(a)}, s6{a.bxor(a)};
    bool const self_ok = s4->eq(*s1) && s5->eq(*s2) && s6->eq(*s3) && r1 && r2 && r3;
    bool const self_eq = a.eq(a) && !a.ne(a);
    bool const self_sub = a.subset(a);
    return "na=" + mw(*c) + " ha=" + std::to_string(hash(a)) + " hc=" + std::to_string(hash(*c)) + " self=" + ws(*s1) + "/" +
           ws(*s2) + "/" + ws(*s3) + "/" + b01(self_eq) + b01(self_sub) + " canonc=" + b01(self_ok && is_canon(*c));
  }

  std::string pair_b(val const &a, ull A, ull B) const
  {
    vp const b{from_mask(B)};
    std::vector<ull> const a0{a.words()};
    std::vector<ull> const b0{b->words()};
    vp const o{a.bor(*b)};
    vp const n_{a.band(*b)};
    vp const x{a.bxor(*b)};
    // the assigning forms must agree with the binary ones and return their left operand
    bool r1 = false, r2 = false, r3 = false;
    vp o2{a.clone()}; o2->or_assign(*b, r1);
    vp n2{a.clone()}; n2->and_assign(*b, r2);
    vp x2{a.clone()}; x2->xor_assign(*b, r3);
    bool const assign_ok = o2->eq(*o) && n2->eq(*n_) && x2->eq(*x) && r1 && r2 && r3;
    bool const e = a.eq(*b);
    bool const ne = a.ne(*b);
    bool const sub = a.subset(*b);
    std::string r = "or=" + mw(*o) + " and=" + mw(*n_) + " xor=" + mw(*x) + " sub=" + b01(sub) +
                    " eq=" + b01(e) + " ne=" + b01(ne) + " hx=" + std::to_string(hash(*x)) + " canon=" +
                    b01(assign_ok && is_canon(*o) && is_canon(*n_) && is_canon(*x));
    // no observer or operator changed its operands
    r += " pure=" + b01(a.words() == a0 && b->words() == b0 && a0 == from_mask(A)->words() && b0 == from_mask(B)->words());
    return r;
  }

  std::string pair_line(ull A, ull B) const
  {
    vp const a{from_mask(A)};
    std::string const rb{pair_b(*a, A, B)};
    return rb + " " + pair_a(*a);
  }

  std::string pairs_digest(ull A) const
  {
    vp const a{from_mask(A)};
    std::string sa;
    std::uint64_t h = vh::fnv_init;
    for (ull B = 0; B < (1ULL << n); ++B)
    {
      std::string const rb{pair_b(*a, A, B)};
      // the operand-only part once per digest, but after the first pair so that a changed operand would show
      if (B == 0)
        sa = " " + pair_a(*a);
      h = vh::fnv(h, rb + sa);
    }
    return "D " + vh::hex64(h);
  }

  std::string bit_line(ull A, unsigned i) const
  {
    vp const base{from_mask(A)};
    unsigned const j = (i + 1U) % n;
    bool const g = base->get(i);
    std::string r;
    std::string rd;
    std::string ps;
    bool rest = true;
    for (int v = 1; v >= 0; --v)
    {
      bool const val_ = v == 1;
      std::string const sv = std::to_string(v);
      bool ok = false;
      vp s{base->clone()}; s->set(i, val_);
      vp t{base->clone()}; t->idx_assign(i, val_);
      vp m{base->clone()}; m->proxy_moved_assign(i, val_, ok); rest = rest && ok;
      vp c{base->clone()}; c->proxy_rebind_assign(j, i, val_, ok); rest = rest && ok;
      r += "S" + sv + "=" + ws(*s) + " T" + sv + "=" + ws(*t) + " M" + sv + "=" + ws(*m) + " C" + sv + "=" + ws(*c) + " ";
      if (val_)
      {
        vp o{base->clone()}; o->or_idx_assign(i, ok); rest = rest && ok;
        vp const o2{base->or_idx(i)};
        r += "O1=" + ws(*o) + " o1=" + ws(*o2) + " ";
      }
      rd += std::string(val_ ? "" : ",") + std::to_string(obs(*s));
      vp ps_{base->clone()};
      ps += b01(ps_->proxy_sees_write(i, val_));
      // save - mutate - restore
      s->set(i, g);
      if (!s->eq(*base) || s->ne(*base))
        rest = false;
    }
    return r + "rd=" + rd + " ps=" + ps + " cr=" + b01(base->const_proxy_rebind_read(i, j)) + " rest=" + b01(rest) + " g=" + b01(g);
  }

  std::string bits_digest(ull A) const
  {
    std::uint64_t h = vh::fnv_init;
    for (unsigned i = 0; i < n; ++i)
      h = vh::fnv(h, bit_line(A, i));
    return "D " + vh::hex64(h);
  }

  std::optional<vp> rpn(std::vector<std::string> const &toks, std::size_t from, std::size_t to) const
  {
    std::vector<vp> st;
    for (std::size_t k = from; k < to; ++k)
    {
      std::string const &t = toks[k];
      bool ok = true;
      if (t == "|" || t == "&" || t == "^" || t == "|=" || t == "&=" || t == "^=")
      {
        if (st.size() < 2)
          return std::nullopt;
        vp const b{std::move(st.back())};
        st.pop_back();
        vp &a = st.back();
        if (t == "|") a = a->bor(*b);
        else if (t == "&") a = a->band(*b);
        else if (t == "^") a = a->bxor(*b);
        else if (t == "|=") a->or_assign(*b, ok);
        else if (t == "&=") a->and_assign(*b, ok);
        else a->xor_assign(*b, ok);
        if (!ok)
          return std::nullopt;
        continue;
      }
      if (t == "|@" || t == "&@" || t == "^@" || t == "|2" || t == "&2" || t == "^2" || t == "=@" || t == "~")
      {
        if (st.empty())
          return std::nullopt;
        vp &a = st.back();
        if (t == "|@") a->or_assign(*a, ok);
        else if (t == "&@") a->and_assign(*a, ok);
        else if (t == "^@") a->xor_assign(*a, ok);
        else if (t == "|2") a = a->bor(*a);
        else if (t == "&2") a = a->band(*a);
        else if (t == "^2") a = a->bxor(*a);
        else if (t == "=@") a->assign(*a);
        else a = a->bnot();
        if (!ok)
          return std::nullopt;
        continue;
      }
      if (t == "N") { st.push_back(f.null()); continue; }
      if (t == "Z") { st.push_back(f.il({})); continue; }
      char const c = t[0];
      auto const args = dots(t.substr(1));
      if (!args)
        return std::nullopt;
      std::vector<ull> const &a = *args;
      if (c == 'L' && a.size() == 1)
      {
        if (!mask_ok(a[0])) return std::nullopt;
        st.push_back(il_mask(a[0]));
      }
      else if (c == 'D')
      {
        if (a.size() > 64) return std::nullopt;
        std::vector<unsigned> es;
        for (auto i : a)
        {
          if (i >= n) return std::nullopt;
          es.push_back(static_cast<unsigned>(i));
        }
        st.push_back(f.il(es));
      }
      else if (c == 'I' && a.size() == 1)
      {
        ull const m = a[0];
        if (!mask_ok(m)) return std::nullopt;
        st.push_back(f.init([m](unsigned const e) { return ((m >> e) & 1ULL) != 0; }));
      }
      else if (c == 'A')
      {
        if (a.size() != f.nwords) return std::nullopt;
        for (ull x : a)
          if (!word_ok(x)) return std::nullopt;
        st.push_back(f.from_array(a));
      }
      else if ((c == 'S' || c == 'U' || c == 'T' || c == 'F' || c == 'O' || c == 'o') && a.size() == 1)
      {
        if (st.empty() || a[0] >= n) return std::nullopt;
        vp &b = st.back();
        unsigned const e = static_cast<unsigned>(a[0]);
        if (c == 'S') b->set(e, true);
        else if (c == 'U') b->set(e, false);
        else if (c == 'T') b->idx_assign(e, true);
        else if (c == 'F') b->idx_assign(e, false);
        else if (c == 'O') b->or_idx_assign(e, ok);
        else b = b->or_idx(e);
      }
      else if (c == 'M' && a.size() == 2)
      {
        if (st.empty() || a[0] >= n || a[1] >= 2) return std::nullopt;
        st.back()->proxy_moved_assign(static_cast<unsigned>(a[0]), a[1] == 1, ok);
      }
      else if (c == 'C' && a.size() == 3)
      {
        if (st.empty() || a[0] >= n || a[1] >= n || a[2] >= 2) return std::nullopt;
        st.back()->proxy_rebind_assign(static_cast<unsigned>(a[0]), static_cast<unsigned>(a[1]), a[2] == 1, ok);
      }
      else if (c == 'W' && a.size() == 2)
      {
        if (st.empty() || a[0] >= f.nwords || !word_ok(a[1])) return std::nullopt;
        st.back()->poke(static_cast<std::size_t>(a[0]), a[1]);
      }
      else
        return std::nullopt;
      if (!ok)
        return std::nullopt;
    }
    if (st.size() != 1)
      return std::nullopt;
    return std::move(st.back());
  }

  static std::string uv(val const &b)
  {
    auto const u = b.underlying();
    return u ? std::to_string(*u) : "-";
  }

  static std::string out(val const &b)
  {
    std::string const r{b.out()};
    if (std::wstring(r.begin(), r.end()) != b.wout())
      return "WIDE-MISMATCH";
    return r;
  }

  std::string expr_line(std::vector<std::string> const &toks) const
  {
    std::size_t semi = 3;
    while (semi < toks.size() && toks[semi] != ";")
      ++semi;
    if (semi >= toks.size())
      return "bad-op";
    auto const pa = rpn(toks, 3, semi);
    auto const pb = rpn(toks, semi + 1, toks.size());
    if (!pa || !pb)
      return "bad-op";
    val const &a = **pa;
    val const &b = **pb;
    return "m1=" + mw(a) + " m2=" + mw(b) + " eq=" + b01(a.eq(b)) + " ne=" + b01(a.ne(b)) +
           " h1=" + std::to_string(hash(a)) + " h2=" + std::to_string(hash(b)) +
           " sub=" + b01(a.subset(b)) + " bus=" + b01(b.subset(a)) +
           " canon=" + b01(is_canon(a)) + b01(is_canon(b)) + " uv=" + uv(a) + "," + uv(b) + " out=" + out(a);
  }

  std::string handle(std::vector<std::string> const &t) const
  {
    if (t[0] == "pair" && t.size() == 5)
    {
      auto const A = vh::to_ull(t[3]), B = vh::to_ull(t[4]);
      if (!mask_ok(A) || !mask_ok(B)) return "bad-op";
      return pair_line(A, B);
    }
    if (t[0] == "pairs" && t.size() == 4)
    {
      auto const A = vh::to_ull(t[3]);
      if (n > 16U || !mask_ok(A)) return "bad-op";
      return pairs_digest(A);
    }
    if (t[0] == "bit" && t.size() == 5)
    {
      auto const A = vh::to_ull(t[3]), i = vh::to_ull(t[4]);
      if (!mask_ok(A) || i >= n) return "bad-op";
      return bit_line(A, static_cast<unsigned>(i));
    }
    if (t[0] == "bits" && t.size() == 4)
    {
      auto const A = vh::to_ull(t[3]);
      if (!mask_ok(A)) return "bad-op";
      return bits_digest(A);
    }
    if (t[0] == "expr")
      return expr_line(t);
    return "bad-op";
  }
};

// `mask w k`: fcppt::bit::shifted_mask<W>(k);  `test w x k`: fcppt::bit::test(x, shifted_mask<W>(k))
std::string bit_ops(std::vector<std::string> const &t)
{
  unsigned const w = static_cast<unsigned>(vh::to_ull(t[1]));
  if (w != 8 && w != 16 && w != 32 && w != 64)
    return "bad-op";
  if (t[0] == "mask" && t.size() == 3)
  {
    unsigned const k = static_cast<unsigned>(vh::to_ull(t[2]));
    if (k >= w) return "bad-op";
    return std::to_string(w == 8 ? c10::shifted_mask_w8(k) : w == 16 ? c10::shifted_mask_w16(k) : w == 32 ? c10::shifted_mask_w32(k) : c10::shifted_mask_w64(k));
  }
  if (t[0] == "test" && t.size() == 4)
  {
    ull const x = vh::to_ull(t[2]);
    unsigned const k = static_cast<unsigned>(vh::to_ull(t[3]));
    if (k >= w || (w < 64 && (x >> w) != 0U)) return "bad-op";
    return b01(w == 8 ? c10::bit_test_w8(x, k) : w == 16 ? c10::bit_test_w16(x, k) : w == 32 ? c10::bit_test_w32(x, k) : c10::bit_test_w64(x, k));
  }
  return "bad-op";
}

std::string handle(std::vector<std::string> const &t)
{
  if (t.size() < 3)
    return "bad-op";
  if (t[0] == "mask" || t[0] == "test")
    return bit_ops(t);
  unsigned const n = static_cast<unsigned>(vh::to_ull(t[1]));
  unsigned const w = static_cast<unsigned>(vh::to_ull(t[2]));
  factory const *f = nullptr;
  switch (w)
  {
  case 8: f = c10::factory_w8(n); break;
  case 16: f = c10::factory_w16(n); break;
  case 32: f = c10::factory_w32(n); break;
  case 64: f = c10::factory_w64(n); break;
  default: break;
  }
  if (f == nullptr || f->n != n || f->wbits != w)
    return "bad-op";
  return ctx{*f, n}.handle(t);
}
}

int main() { return vh::run(handle); }
