// C10 correspondence harness: runs the real fcppt::container::bitfield on the operation lines
// described in /verif/lean/FcpptModel/Drv/C10.lean and prints the same canonical result lines.
#include "common/vh.hpp"

#include <fcppt/container/bitfield/comparison.hpp>
#include <fcppt/container/bitfield/hash.hpp>
#include <fcppt/container/bitfield/init.hpp>
#include <fcppt/container/bitfield/is_subset_eq.hpp>
#include <fcppt/container/bitfield/object.hpp>
#include <fcppt/container/bitfield/operators.hpp>
#include <fcppt/container/bitfield/std_hash.hpp>
#include <fcppt/cast/int_to_enum.hpp>
#include <fcppt/cast/enum_to_int.hpp>

#include <cstdint>
#include <optional>
#include <string>
#include <vector>

namespace
{
// enums with N enumerators: e0 .. e(N-1)
enum class e1 { v0, fcppt_maximum = v0 };
enum class e3 { v0, v1, v2, fcppt_maximum = v2 };
enum class e8 { v0, v1, v2, v3, v4, v5, v6, v7, fcppt_maximum = v7 };
enum class e9 { v0, v1, v2, v3, v4, v5, v6, v7, v8, fcppt_maximum = v8 };
enum class e17 { v0, v1, v2, v3, v4, v5, v6, v7, v8, v9, v10, v11, v12, v13, v14, v15, v16, fcppt_maximum = v16 };
// an enum with a narrow underlying type as well
enum class e5 : unsigned char { v0, v1, v2, v3, v4, fcppt_maximum = v4 };

template <typename E, typename W>
struct inst
{
  using bf = fcppt::container::bitfield::object<E, W>;
  static constexpr unsigned n = static_cast<unsigned>(bf::static_size::value);

  static E en(unsigned i) { return static_cast<E>(i); }

  static bf from_mask(unsigned long long m)
  {
    // through the initializer-list constructor, one element at a time via operator|= as well
    bf r{bf::null()};
    for (unsigned i = 0; i < n; ++i)
      if ((m >> i) & 1U)
      {
        if (i % 2U == 0U)
          r |= en(i);
        else
          r = r | bf{en(i)};
      }
    return r;
  }

  static unsigned long long obs(bf const &b)
  {
    unsigned long long m = 0;
    for (unsigned i = 0; i < n; ++i)
    {
      bool const g1 = b.get(en(i));
      bool const g2 = b[en(i)];
      bool const g3 = b & en(i);
      if (g1 != g2 || g1 != g3)
        return ~0ULL; // get / operator[] / operator& disagree: never equals a model mask
      if (g1)
        m |= 1ULL << i;
    }
    return m;
  }

  static bf canon(bf const &b)
  {
    return fcppt::container::bitfield::init<bf>([&b](E const e) { return b.get(e); });
  }

  static std::size_t hash(bf const &b)
  {
    std::size_t const h1 = fcppt::container::bitfield::hash<bf>{}(b);
    std::size_t const h2 = std::hash<bf>{}(b);
    return h1 == h2 ? h1 : ~h1; // both hash objects must agree
  }

  static bool is_canon(bf const &b)
  {
    bf const c{canon(b)};
    return b == c && !(b != c) && hash(b) == hash(c);
  }

  static std::string pair_line(unsigned long long A, unsigned long long B)
  {
    bf const a{from_mask(A)};
    bf const b{from_mask(B)};
    bf const o{a | b};
    bf const n_{a & b};
    bf const x{a ^ b};
    bf const c{~a};
    // the assigning forms must agree with the binary ones
    bf o2{a}; o2 |= b;
    bf n2{a}; n2 &= b;
    bf x2{a}; x2 ^= b;
    bool const assign_ok = o2 == o && n2 == n_ && x2 == x;
    bool const e = a == b;
    std::string heq = "-";
    if (e)
      heq = hash(a) == hash(b) ? "1" : "0";
    return "or=" + std::to_string(obs(o)) + " and=" + std::to_string(obs(n_)) +
           " xor=" + std::to_string(obs(x)) + " na=" + std::to_string(obs(c)) +
           " sub=" + (fcppt::container::bitfield::is_subset_eq(a, b) ? "1" : "0") +
           " eq=" + (e ? "1" : "0") + " ne=" + (a != b ? "1" : "0") + " heq=" + heq +
           " canon=" + (assign_ok && is_canon(o) && is_canon(n_) && is_canon(x) && is_canon(c) ? "1" : "0");
  }

  static std::string pairs_digest(unsigned long long A)
  {
    std::uint64_t h = vh::fnv_init;
    for (unsigned long long B = 0; B < (1ULL << n); ++B)
      h = vh::fnv(h, pair_line(A, B));
    return "D " + vh::hex64(h);
  }

  static std::optional<bf> rpn(std::vector<std::string> const &toks, std::size_t from, std::size_t to)
  {
    std::vector<bf> st;
    for (std::size_t k = from; k < to; ++k)
    {
      std::string const &t = toks[k];
      char const c = t[0];
      auto arg = [&t] { return vh::to_ull(t.substr(1)); };
      if (c == 'L')
      {
        unsigned long long const m = arg();
        // really through the initializer-list constructor
        bf r{bf::null()};
        switch (n)
        {
        default:
        {
          std::vector<E> es;
          for (unsigned i = 0; i < n; ++i)
            if ((m >> i) & 1U)
              es.push_back(en(i));
          if (es.size() == 0) r = bf{};
          else if (es.size() == 1) r = bf{es[0]};
          else if (es.size() == 2) r = bf{es[0], es[1]};
          else if (es.size() == 3) r = bf{es[0], es[1], es[2]};
          else
          {
            r = bf{es[0], es[1], es[2]};
            for (std::size_t q = 3; q < es.size(); ++q)
              r.set(es[q], true);
          }
        }
        }
        st.push_back(r);
      }
      else if (c == 'I')
      {
        unsigned long long const m = arg();
        st.push_back(fcppt::container::bitfield::init<bf>(
            [m](E const e) { return ((m >> static_cast<unsigned>(e)) & 1ULL) != 0; }));
      }
      else if (c == 'S' || c == 'U')
      {
        unsigned long long const i = arg();
        if (st.empty() || i >= n)
          return std::nullopt;
        if (i % 2U == 0U)
          st.back().set(en(static_cast<unsigned>(i)), c == 'S');
        else
          st.back()[en(static_cast<unsigned>(i))] = (c == 'S');
      }
      else if (c == '|' || c == '&' || c == '^')
      {
        if (st.size() < 2)
          return std::nullopt;
        bf const b{st.back()};
        st.pop_back();
        bf const a{st.back()};
        st.pop_back();
        st.push_back(c == '|' ? a | b : c == '&' ? a & b : a ^ b);
      }
      else if (c == '~')
      {
        if (st.empty())
          return std::nullopt;
        st.back() = ~st.back();
      }
      else
        return std::nullopt;
    }
    if (st.size() != 1)
      return std::nullopt;
    return st.back();
  }

  static std::string expr_line(std::vector<std::string> const &toks)
  {
    std::size_t semi = 3;
    while (semi < toks.size() && toks[semi] != ";")
      ++semi;
    if (semi >= toks.size())
      return "bad-op";
    auto const a = rpn(toks, 3, semi);
    auto const b = rpn(toks, semi + 1, toks.size());
    if (!a || !b)
      return "bad-op";
    bool const e = *a == *b;
    std::string heq = "-";
    if (e)
      heq = hash(*a) == hash(*b) ? "1" : "0";
    return "m1=" + std::to_string(obs(*a)) + " m2=" + std::to_string(obs(*b)) + " eq=" + (e ? "1" : "0") +
           " ne=" + (*a != *b ? "1" : "0") + " heq=" + heq +
           " sub=" + (fcppt::container::bitfield::is_subset_eq(*a, *b) ? "1" : "0") +
           " canon=" + (is_canon(*a) && is_canon(*b) ? "1" : "0");
  }

  static std::string handle(std::vector<std::string> const &t)
  {
    if (t[0] == "pair" && t.size() == 5)
    {
      auto const A = vh::to_ull(t[3]), B = vh::to_ull(t[4]);
      if (A >= (1ULL << n) || B >= (1ULL << n)) return "bad-op";
      return pair_line(A, B);
    }
    if (t[0] == "pairs" && t.size() == 4)
    {
      auto const A = vh::to_ull(t[3]);
      if (A >= (1ULL << n)) return "bad-op";
      return pairs_digest(A);
    }
    if (t[0] == "expr")
      return expr_line(t);
    return "bad-op";
  }
};

template <typename E>
std::string by_word(unsigned w, std::vector<std::string> const &t)
{
  switch (w)
  {
  case 8: return inst<E, std::uint8_t>::handle(t);
  case 16: return inst<E, std::uint16_t>::handle(t);
  case 32: return inst<E, std::uint32_t>::handle(t);
  case 64: return inst<E, std::uint64_t>::handle(t);
  default: return "bad-op";
  }
}

std::string handle(std::vector<std::string> const &t)
{
  if (t.size() < 3)
    return "bad-op";
  unsigned const n = static_cast<unsigned>(vh::to_ull(t[1]));
  unsigned const w = static_cast<unsigned>(vh::to_ull(t[2]));
  switch (n)
  {
  case 1: return by_word<e1>(w, t);
  case 3: return by_word<e3>(w, t);
  case 5: return by_word<e5>(w, t);
  case 8: return by_word<e8>(w, t);
  case 9: return by_word<e9>(w, t);
  case 17: return by_word<e17>(w, t);
  default: return "bad-op";
  }
}
}

int main() { return vh::run(handle); }
