// C16 correspondence harness, shared part: includes, parsing/printing, source and probe types.
// The evaluation of one `s` line is spread over c16_a.cpp … c16_h.cpp (compiled in parallel); each part returns
// nothing for a function name that is not its own.
#ifndef VERIF_C16_COMMON_HPP
#define VERIF_C16_COMMON_HPP
#include "common/vh.hpp"
#include "common/route.hpp"

#include <fcppt/function_impl.hpp>
#include <fcppt/int_range_impl.hpp>
#include <fcppt/loop.hpp>
#include <fcppt/make_int_range.hpp>
#include <fcppt/reference_impl.hpp>
#include <fcppt/tag.hpp>
#include <fcppt/algorithm/all_of.hpp>
#include <fcppt/algorithm/binary_search.hpp>
#include <fcppt/algorithm/contains.hpp>
#include <fcppt/algorithm/contains_if.hpp>
#include <fcppt/algorithm/equal.hpp>
#include <fcppt/algorithm/equal_range.hpp>
#include <fcppt/algorithm/find_by_opt.hpp>
#include <fcppt/algorithm/find_if_opt.hpp>
#include <fcppt/algorithm/find_opt.hpp>
#include <fcppt/algorithm/fold.hpp>
#include <fcppt/algorithm/fold_break.hpp>
#include <fcppt/algorithm/generate_n.hpp>
#include <fcppt/algorithm/index_of.hpp>
#include <fcppt/algorithm/join_strings.hpp>
#include <fcppt/algorithm/loop.hpp>
#include <fcppt/algorithm/loop_break.hpp>
#include <fcppt/algorithm/loop_break_mpl.hpp>
#include <fcppt/algorithm/loop_break_tuple.hpp>
#include <fcppt/algorithm/map.hpp>
#include <fcppt/algorithm/map_array.hpp>
#include <fcppt/algorithm/map_concat.hpp>
#include <fcppt/algorithm/map_iteration.hpp>
#include <fcppt/algorithm/map_iteration_second.hpp>
#include <fcppt/algorithm/map_optional.hpp>
#include <fcppt/algorithm/map_tuple.hpp>
#include <fcppt/algorithm/remove.hpp>
#include <fcppt/algorithm/remove_if.hpp>
#include <fcppt/algorithm/repeat.hpp>
#include <fcppt/algorithm/reverse.hpp>
#include <fcppt/algorithm/sequence_iteration.hpp>
#include <fcppt/algorithm/split_string.hpp>
#include <fcppt/algorithm/unique.hpp>
#include <fcppt/algorithm/unique_if.hpp>
#include <fcppt/algorithm/update_action.hpp>
#include <fcppt/array/append.hpp>
#include <fcppt/array/from_range.hpp>
#include <fcppt/array/init.hpp>
#include <fcppt/array/join.hpp>
#include <fcppt/array/map.hpp>
#include <fcppt/array/object.hpp>
#include <fcppt/array/push_back.hpp>
#include <fcppt/container/at_optional.hpp>
#include <fcppt/container/contains.hpp>
#include <fcppt/container/data.hpp>
#include <fcppt/container/data_end.hpp>
#include <fcppt/container/dynamic_array.hpp>
#include <fcppt/container/find_opt.hpp>
#include <fcppt/container/find_opt_iterator.hpp>
#include <fcppt/container/insert.hpp>
#include <fcppt/container/make.hpp>
#include <fcppt/container/make_move_range.hpp>
#include <fcppt/container/maybe_back.hpp>
#include <fcppt/container/maybe_front.hpp>
#include <fcppt/container/output.hpp>
#include <fcppt/container/pop_back.hpp>
#include <fcppt/container/pop_front.hpp>
#include <fcppt/container/size.hpp>
#include <fcppt/container/find_opt_mapped.hpp>
#include <fcppt/container/get_or_insert.hpp>
#include <fcppt/container/get_or_insert_with_result.hpp>
#include <fcppt/container/index_map.hpp>
#include <fcppt/container/join.hpp>
#include <fcppt/container/key_set.hpp>
#include <fcppt/container/map_values_copy.hpp>
#include <fcppt/container/map_values_ref.hpp>
#include <fcppt/container/set_difference.hpp>
#include <fcppt/container/set_intersection.hpp>
#include <fcppt/container/set_union.hpp>
#include <fcppt/enum/range_impl.hpp>
#include <fcppt/iterator/make_range.hpp>
#include <fcppt/iterator/range_impl.hpp>
#include <fcppt/mpl/list/object.hpp>
#include <fcppt/optional/object.hpp>
#include <fcppt/range/begin.hpp>
#include <fcppt/range/end.hpp>
#include <fcppt/range/singular.hpp>
#include <fcppt/tuple/concat.hpp>
#include <fcppt/tuple/get.hpp>
#include <fcppt/tuple/map.hpp>
#include <fcppt/tuple/object.hpp>
#include <fcppt/tuple/push_back.hpp>

#include <array>
#include <cstddef>
#include <deque>
#include <forward_list>
#include <iterator>
#include <list>
#include <map>
#include <optional>
#include <sstream>
#include <set>
#include <string>
#include <type_traits>
#include <utility>
#include <vector>

// one mismatch collector for all translation units of the harness (the helpers below live in an unnamed namespace)
namespace c16sm
{
inline std::string mismatch{};
}

namespace
{
using seq = std::vector<int>;
using ulong = unsigned long;
enum class en3 { v0, v1, v2, fcppt_maximum = v2 };

std::string const bad{"bad-op"};
#define SZ(n) (std::remove_cvref_t<decltype(n)>::value)

// ---------------------------------------------------------------- parsing and printing

std::optional<seq> parse_seq(std::string const &s)
{
  seq r;
  if (s == "-")
    return r;
  for (char c : s)
  {
    if (c < '0' || c > '9')
      return std::nullopt;
    r.push_back(c - '0');
  }
  return r;
}

bool all_lt3(seq const &v)
{
  for (int x : v)
    if (x >= 3)
      return false;
  return true;
}

inline int val(int x) { return x; }
inline int val(long x) { return static_cast<int>(x); }
inline int val(short x) { return static_cast<int>(x); }
inline int val(en3 x) { return static_cast<int>(x); }
inline int val(std::pair<int const, int> const &p) { return p.second; }
template <typename T>
inline int val(fcppt::tag<T>) { return T::value; }

// probe element: a moved-from object shows the marker 9
struct pe
{
  int v;
  pe(int const x) : v(x) {} // NOLINT
  pe(pe const &) = default;
  pe(pe &&o) noexcept : v(o.v) { o.v = 9; }
  pe &operator=(pe const &) = default;
  pe &operator=(pe &&o) noexcept
  {
    if (&o != this) { v = o.v; o.v = 9; }
    return *this;
  }
  ~pe() = default;
  friend bool operator<(pe const &a, pe const &b) { return a.v < b.v; }
  friend bool operator==(pe const &a, pe const &b) { return a.v == b.v; }
};
inline int val(pe const &p) { return p.v; }

// probe target container for algorithm::map: records the calls of reserve()
struct rc
{
  using value_type = int;
  using size_type = std::size_t;
  using iterator = std::vector<int>::iterator;
  using const_iterator = std::vector<int>::const_iterator;
  std::vector<int> impl{};
  std::vector<std::size_t> reserved{};
  void reserve(size_type const n) { reserved.push_back(n); impl.reserve(n); }
  iterator begin() { return impl.begin(); }
  iterator end() { return impl.end(); }
  const_iterator begin() const { return impl.begin(); }
  const_iterator end() const { return impl.end(); }
  iterator insert(iterator const pos, int const x) { return impl.insert(pos, x); }
  std::string cap() const
  {
    std::size_t m = 0;
    for (auto const n : reserved) m = n > m ? n : m;
    return std::to_string(m) + (reserved.size() > 1 ? "!multi" : "");
  }
};

template <typename C>
std::string ds(C const &c)
{
  std::string r;
  for (auto const &e : c)
    r += std::to_string(val(e));
  return r.empty() ? "-" : r;
}

template <typename C>
std::string nl(C const &c)
{
  std::string r;
  bool first = true;
  for (auto const &e : c)
  {
    if (!first)
      r += ',';
    first = false;
    r += std::to_string(val(e));
  }
  return r.empty() ? "-" : r;
}

std::optional<ulong> to_nat(std::string const &s)
{
  if (s.empty() || s.size() > 9)
    return std::nullopt;
  for (char c : s)
    if (c < '0' || c > '9')
      return std::nullopt;
  return std::stoul(s);
}

inline bool bit(ulong m, int x) { return ((m >> x) & 1UL) != 0; }
inline ulong pw(ulong b, int e) { ulong r = 1; while (e-- > 0) r *= b; return r; }
inline int tbl_f(ulong F, int x) { return static_cast<int>((F / pw(3, x)) % 3); }
inline fcppt::optional::object<int> tbl_g(ulong G, int x)
{
  ulong const d = (G / pw(4, x)) % 4;
  return d == 0 ? fcppt::optional::object<int>{} : fcppt::optional::object<int>{static_cast<int>(d) - 1};
}
inline seq tbl_h(ulong H, int x)
{
  switch ((H / pw(4, x)) % 4)
  {
  case 0: return {};
  case 1: return {x};
  case 2: return {x, (x + 1) % 3};
  default: return {2, x, x};
  }
}
inline bool rel(ulong R, int a, int b) { return bit(R, 3 * a + b); }
inline char const *b01(bool b) { return b ? "1" : "0"; }

// run `f(std::integral_constant<size_t, n>)` for a run-time n <= Max
template <std::size_t Max, typename F>
std::string with_size(std::size_t const n, F const &f)
{
  std::string r{bad};
  [&]<std::size_t... I>(std::index_sequence<I...>)
  {
    ((n == I ? (r = f(std::integral_constant<std::size_t, I>{}), 0) : 0), ...);
  }
  (std::make_index_sequence<Max + 1>{});
  return r;
}

// ---- special-member routing (common/route.hpp, notes/sweep.md): every fcppt::array::object / fcppt::tuple::object the
// operations are applied to travels through a special member of its class first; the route is a function of the
// elements.  Mismatches are collected here and appended to the result line by handle().

inline unsigned sm_route(seq const &v, std::size_t const off, std::size_t const n)
{
  unsigned h{static_cast<unsigned>(off * 7U + n)};
  for (std::size_t i{0U}; i < n; ++i)
    h = h * 31U + static_cast<unsigned>(v[off + i]) + 3U;
  return h ^ (h >> 7U);
}

template <typename T, std::size_t N>
std::string sm_show(fcppt::array::object<T, N> const &a)
{
  std::string r{"a"};
  for (T const &e : a)
    r += std::to_string(val(e)) + ",";
  return r;
}

template <typename... Ts>
std::string sm_show(fcppt::tuple::object<Ts...> const &t)
{
  std::string r{"t"};
  [&]<std::size_t... I>(std::index_sequence<I...>) { ((r += std::to_string(val(fcppt::tuple::get<I>(t))) + ","), ...); }
  (std::make_index_sequence<sizeof...(Ts)>{});
  return r;
}

template <std::size_t N>
fcppt::array::object<int, N> mk_array(seq const &v, std::size_t const off)
{
  using type = fcppt::array::object<int, N>;
  return vh::sm::checked(
      c16sm::mismatch,
      "array::object",
      sm_route(v, off, N),
      fcppt::array::init<type>([&v, off]<std::size_t I>(std::integral_constant<std::size_t, I>) { return v[off + I]; }),
      [&v, off]
      { return fcppt::array::init<type>([&v, off]<std::size_t I>(std::integral_constant<std::size_t, I>) { return v[off + I] + 1 + static_cast<int>(I); }); },
      [](type const &a) { return sm_show(a); });
}

template <std::size_t N> struct tuple_of;
template <> struct tuple_of<0> { using type = fcppt::tuple::object<>; };
template <> struct tuple_of<1> { using type = fcppt::tuple::object<int>; };
template <> struct tuple_of<2> { using type = fcppt::tuple::object<int, long>; };
template <> struct tuple_of<3> { using type = fcppt::tuple::object<int, long, short>; };

template <std::size_t N>
typename tuple_of<N>::type mk_tuple_raw(seq const &v, std::size_t const off, int const d)
{
  if constexpr (N == 0) return fcppt::tuple::object<>{};
  else if constexpr (N == 1) return fcppt::tuple::object<int>{v[off] + d};
  else if constexpr (N == 2) return fcppt::tuple::object<int, long>{v[off] + d, static_cast<long>(v[off + 1] + 2 * d)};
  else return fcppt::tuple::object<int, long, short>{v[off] + d, static_cast<long>(v[off + 1] + 2 * d), static_cast<short>(v[off + 2] + 3 * d)};
}

template <std::size_t N>
typename tuple_of<N>::type mk_tuple(seq const &v, std::size_t const off)
{
  using type = typename tuple_of<N>::type;
  return vh::sm::checked(
      c16sm::mismatch,
      "tuple::object",
      sm_route(v, off, N),
      mk_tuple_raw<N>(v, off, 0),
      [&v, off] { return mk_tuple_raw<N>(v, off, 1); },
      [](type const &t) { return sm_show(t); });
}

template <typename... Ts>
std::string ds_tuple(fcppt::tuple::object<Ts...> const &t)
{
  std::string r;
  [&]<std::size_t... I>(std::index_sequence<I...>)
  {
    ((r += std::to_string(val(fcppt::tuple::get<I>(t)))), ...);
  }
  (std::make_index_sequence<sizeof...(Ts)>{});
  return r.empty() ? "-" : r;
}

template <int... D>
using ml = fcppt::mpl::list::object<std::integral_constant<int, D>...>;

template <typename F, int... D>
std::string with_mpl_rec(seq const &v, std::size_t const i, F const &f)
{
  if (i == v.size()) return f(ml<D...>{});
  if constexpr (sizeof...(D) >= 3) return bad;
  else
    switch (v[i])
    {
    case 0: return with_mpl_rec<F, D..., 0>(v, i + 1, f);
    case 1: return with_mpl_rec<F, D..., 1>(v, i + 1, f);
    case 2: return with_mpl_rec<F, D..., 2>(v, i + 1, f);
    default: return bad;
    }
}

template <typename F>
std::string with_mpl(seq const &v, F const &f)
{
  return with_mpl_rec<F>(v, 0, f);
}

// arrays and tuples of probe elements (routed like the int ones; the probe elements record moves, so only the routes
// that leave the elements un-moved-from are compared: the object that comes out is a fresh copy in every route)
template <std::size_t N>
fcppt::array::object<pe, N> mk_parray(seq const &v, std::size_t const off)
{
  using type = fcppt::array::object<pe, N>;
  return vh::sm::checked(
      c16sm::mismatch,
      "array::object<probe>",
      sm_route(v, off, N) + 1U,
      fcppt::array::init<type>([&v, off]<std::size_t I>(std::integral_constant<std::size_t, I>) { return pe{v[off + I]}; }),
      [&v, off]
      { return fcppt::array::init<type>([&v, off]<std::size_t I>(std::integral_constant<std::size_t, I>) { return pe{v[off + I] + 1 + static_cast<int>(I)}; }); },
      [](type const &a) { return sm_show(a); });
}

template <std::size_t N> struct ptuple_of;
template <> struct ptuple_of<0> { using type = fcppt::tuple::object<>; };
template <> struct ptuple_of<1> { using type = fcppt::tuple::object<pe>; };
template <> struct ptuple_of<2> { using type = fcppt::tuple::object<pe, pe>; };
template <> struct ptuple_of<3> { using type = fcppt::tuple::object<pe, pe, pe>; };

template <std::size_t N>
typename ptuple_of<N>::type mk_ptuple_raw(seq const &v, std::size_t const off, int const d)
{
  if constexpr (N == 0) return fcppt::tuple::object<>{};
  else if constexpr (N == 1) return fcppt::tuple::object<pe>{pe{v[off] + d}};
  else if constexpr (N == 2) return fcppt::tuple::object<pe, pe>{pe{v[off] + d}, pe{v[off + 1] + 2 * d}};
  else return fcppt::tuple::object<pe, pe, pe>{pe{v[off] + d}, pe{v[off + 1] + 2 * d}, pe{v[off + 2] + 3 * d}};
}

template <std::size_t N>
typename ptuple_of<N>::type mk_ptuple(seq const &v, std::size_t const off)
{
  using type = typename ptuple_of<N>::type;
  return vh::sm::checked(
      c16sm::mismatch,
      "tuple::object<probe>",
      sm_route(v, off, N) + 1U,
      mk_ptuple_raw<N>(v, off, 0),
      [&v, off] { return mk_ptuple_raw<N>(v, off, 1); },
      [](type const &t) { return sm_show(t); });
}

// pass x on as const lvalue (0), lvalue (1) or rvalue (2)
template <typename T, typename G>
std::string with_cat(ulong const cat, T &x, G const &g)
{
  switch (cat)
  {
  case 0: return g(std::as_const(x));
  case 1: return g(x);
  case 2: return g(std::move(x));
  default: return bad;
  }
}
// lvalue (1) or rvalue (2) only
template <typename T, typename G>
std::string with_cat2(ulong const cat, T &x, G const &g)
{
  switch (cat)
  {
  case 1: return g(x);
  case 2: return g(std::move(x));
  default: return bad;
  }
}
#define FWD(x) std::forward<decltype(x)>(x)

// tuple::concat with arguments of any value category; where the overload set rejects lvalue tuples (see notes/C16.md,
// DEFECT CANDIDATE 2) an lvalue argument is replaced by an rvalue copy, which has the same observable effect
template <typename T>
decltype(auto) concat_arg(T &&t)
{
  using plain = std::remove_cvref_t<T>;
  if constexpr (requires(plain &l) { fcppt::tuple::concat(l); }) return std::forward<T>(t);
  else if constexpr (std::is_lvalue_reference_v<T>) return plain{t};
  else return std::forward<T>(t);
}

// ---------------------------------------------------------------- sources

// read-only range kinds: v l d f s m i e.  `f` is called with a const container.
template <typename F>
std::string with_ro(char const k, seq const &v, F const &f)
{
  switch (k)
  {
  case 'v': { std::vector<int> const c(v.begin(), v.end()); return f(c); }
  case 'l': { std::list<int> const c(v.begin(), v.end()); return f(c); }
  case 'd': { std::deque<int> const c(v.begin(), v.end()); return f(c); }
  case 'f': { std::forward_list<int> const c(v.begin(), v.end()); return f(c); }
  case 's': { std::set<int> const c(v.begin(), v.end()); return f(c); }
  case 'm':
  {
    std::map<int, int> c;
    for (std::size_t i = 0; i < v.size(); ++i)
      c.emplace(static_cast<int>(i), v[i]);
    std::map<int, int> const &cc{c};
    return f(cc);
  }
  case 'i': { if (v.size() != 2 || v[0] > 3 || v[1] > 3) return bad; fcppt::int_range<int> const c{fcppt::make_int_range(v[0], v[1])}; return f(c); }
  case 'e':
  {
    if (v.size() != 2 || v[0] > v[1] || v[1] > 3) return bad;
    fcppt::enum_::range<en3> const c{static_cast<unsigned>(v[0]), static_cast<unsigned>(v[1])};
    return f(c);
  }
  default: return bad;
  }
}

template <typename F>
std::string with_vldf(char const k, seq const &v, F const &f)
{
  switch (k)
  {
  case 'v': { std::vector<int> const c(v.begin(), v.end()); return f(c); }
  case 'l': { std::list<int> const c(v.begin(), v.end()); return f(c); }
  case 'd': { std::deque<int> const c(v.begin(), v.end()); return f(c); }
  case 'f': { std::forward_list<int> const c(v.begin(), v.end()); return f(c); }
  default: return bad;
  }
}

// mutable sequence kinds: v l d (+ s when allowed)
template <typename F>
std::string with_seq(char const k, seq const &v, F const &f)
{
  switch (k)
  {
  case 'v': { std::vector<int> c(v.begin(), v.end()); return f(c); }
  case 'l': { std::list<int> c(v.begin(), v.end()); return f(c); }
  case 'd': { std::deque<int> c(v.begin(), v.end()); return f(c); }
  default: return bad;
  }
}
template <typename F>
std::string with_seq_set(char const k, seq const &v, F const &f)
{
  if (k == 's') { std::set<int> c(v.begin(), v.end()); return f(c); }
  return with_seq(k, v, f);
}

template <typename T> struct elem_of { static T from(int x) { return static_cast<T>(x); } };

template <typename C>
using elem_t = std::remove_cvref_t<decltype(*std::declval<C const &>().begin())>;

// run with a target container type chosen by t: 0 vector, 1 list, 2 deque, 3 set
template <typename F>
std::string with_target(ulong const t, F const &f)
{
  switch (t)
  {
  case 0: return f(std::vector<int>{});
  case 1: return f(std::list<int>{});
  case 2: return f(std::deque<int>{});
  case 3: return f(std::set<int>{});
  default: return bad;
  }
}

// containers of probe elements: v l d
template <typename F>
std::string with_pseq(char const k, seq const &v, F const &f)
{
  switch (k)
  {
  case 'v': { std::vector<pe> c(v.begin(), v.end()); return f(c); }
  case 'l': { std::list<pe> c(v.begin(), v.end()); return f(c); }
  case 'd': { std::deque<pe> c(v.begin(), v.end()); return f(c); }
  default: return bad;
  }
}

std::string const skip{"skip"};

template <typename C, typename It>
std::string opt_idx(C &c, fcppt::optional::object<It> const &o)
{
  if (!o.has_value())
    return "none";
  auto const pos = std::distance(c.begin(), It{o.get_unsafe()});
  if (pos < 0 || pos >= std::distance(c.begin(), c.end()))
    return std::to_string(pos) + ":oob";
  return std::to_string(pos) + ":" + std::to_string(val(*o.get_unsafe()));
}

constexpr bool is_ro(char k) { return k == 'v' || k == 'l' || k == 'd' || k == 'f' || k == 's' || k == 'm' || k == 'i' || k == 'e'; }
constexpr bool is_sq(char k) { return k == 'v' || k == 'l' || k == 'd'; }


#define C16_PREAMBLE \
  namespace alg = fcppt::algorithm; \
  namespace con = fcppt::container; \
  bool const ro = is_ro(k); \
  bool const sq = is_sq(k); \
  std::size_t const np = ps.size(); \
  (void)ro; (void)sq; (void)np;
}

namespace c16
{
using result = std::optional<std::string>;
using params = std::vector<unsigned long>;
result eval_a(std::string const &fn, char k, params const &ps, std::vector<int> const &v);
result eval_b(std::string const &fn, char k, params const &ps, std::vector<int> const &v);
result eval_c(std::string const &fn, char k, params const &ps, std::vector<int> const &v);
result eval_d(std::string const &fn, char k, params const &ps, std::vector<int> const &v);
result eval_e(std::string const &fn, char k, params const &ps, std::vector<int> const &v);
result eval_f(std::string const &fn, char k, params const &ps, std::vector<int> const &v);
result eval_g(std::string const &fn, char k, params const &ps, std::vector<int> const &v);
result eval_h(std::string const &fn, char k, params const &ps, std::vector<int> const &v);
}

#endif
