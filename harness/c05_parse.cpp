// C05 correspondence harness, family unit `parse` (see harness/c05_common.hpp and harness/c05.cpp)
#include "c05_common.hpp"

#include <fcppt/tuple/get.hpp>
#include <fcppt/parse/as_struct.hpp>
#include <fcppt/parse/basic_char.hpp>
#include <fcppt/parse/basic_char_set.hpp>
#include <fcppt/parse/list.hpp>
#include <fcppt/parse/literal.hpp>
#include <fcppt/parse/separator.hpp>
#include <fcppt/parse/operators/alternative.hpp>
#include <fcppt/parse/operators/optional.hpp>
#include <fcppt/parse/operators/repetition_plus.hpp>
#include <fcppt/parse/make_convert.hpp>
#include <fcppt/parse/parse_string.hpp>
#include <fcppt/parse/operators/repetition.hpp>
#include <fcppt/parse/operators/sequence.hpp>

namespace c05
{
namespace
{
// ---------------------------------------------------------------- parse: results built from sub-results

template <typename T>
std::string op_parse(std::string const &_op, line_t const &L)
{
  namespace fp = fcppt::parse;
  need(L.args.empty() && L.par.size() == 1 && L.par[0] >= 0 && L.par[0] <= 8);
  std::string const input(static_cast<std::size_t>(L.par[0]), 'x');
  int next{1000};
  auto const one{[&next]
                 {
                   return fp::make_convert(
                       fp::basic_char<char>{},
                       [&next](char &&)
                       {
                         return T{next++};
                       });
                 }};
  g_log.clear();
  if (_op == "parseseq")
  {
    auto const p{one() >> one()};
    auto const r{fp::parse_string(p, std::string{input})};
    event_log const log{g_log};
    slots_t sr;
    if (r.has_success())
    {
      sr.add(fcppt::tuple::get<0>(r.get_success_unsafe()));
      sr.add(fcppt::tuple::get<1>(r.get_success_unsafe()));
    }
    return finish(r.has_success() ? "S" : "F", sr.str(), {}, log);
  }
  if (_op == "parserep")
  {
    auto const p{*one()};
    auto const r{fp::parse_string(p, std::string{input})};
    event_log const log{g_log};
    return finish(r.has_success() ? "S" : "F", r.has_success() ? slots(r.get_success_unsafe()) : "-", {}, log);
  }
  throw bad_op{};
}

// ---------------------------------------------------------------- parse: alternative, optional, convert, as_struct, separator, list, +

template <typename T>
struct two_t
{
  T a;
  T b;
};

template <typename T>
std::string op_parse_more(std::string const &_op, line_t const &L)
{
  namespace fp = fcppt::parse;
  need(L.args.empty() && L.par.size() == 1 && L.par[0] >= 0 && L.par[0] <= 8);
  int const k{L.par[0]};
  int next{1000};
  // a parser for the character c whose converter makes the next value
  auto const one{[&next](char const c)
                 { return fp::make_convert(fp::basic_char_set<char>{c}, [&next](char &&) { return T{next++}; }); }};
  auto const done{[](auto const &r, auto const &show)
                  {
                    event_log const log{g_log};
                    slots_t sr;
                    if (r.has_success())
                      show(sr, r.get_success_unsafe());
                    return std::make_pair(std::string{r.has_success() ? "S" : "F"}, std::make_pair(sr.str(), log));
                  }};
  auto const fin{[](auto const &p) { return finish(p.first, p.second.first, {}, p.second.second); }};
  g_log.clear();
  if (_op == "parsealt")
  {
    need(k <= 2);
    auto const p{one('x') | one('y')};
    auto const r{fp::parse_string(p, std::string{k == 0 ? "x" : k == 1 ? "y" : "z"})};
    return fin(done(r, [](slots_t &s, T const &t) { s.add(t); }));
  }
  if (_op == "parseopt")
  {
    need(k <= 1);
    auto const p{-one('x')};
    auto const r{fp::parse_string(p, std::string{k == 1 ? "x" : ""})};
    auto d{done(
        r,
        [](slots_t &s, fcppt::optional::object<T> const &o)
        {
          if (o.has_value())
            s.add(o.get_unsafe());
        })};
    d.first = r.has_success() && r.get_success_unsafe().has_value() ? "J" : "N";
    return fin(d);
  }
  if (_op == "parseconv")
  {
    need(k <= 1);
    auto const p{fp::make_convert(one('x'), [](T &&t) { return T{std::move(t)}; })};
    auto const r{fp::parse_string(p, std::string{k == 1 ? "x" : "z"})};
    return fin(done(r, [](slots_t &s, T const &t) { s.add(t); }));
  }
  if (_op == "parsestruct")
  {
    need(k <= 2);
    auto const p{fp::as_struct<two_t<T>>(one('x') >> one('x'))};
    auto const r{fp::parse_string(p, std::string(static_cast<std::size_t>(k), 'x'))};
    return fin(done(
        r,
        [](slots_t &s, two_t<T> const &t)
        {
          s.add(t.a);
          s.add(t.b);
        }));
  }
  std::string input;
  for (int i = 0; i < k; ++i)
    input += (i == 0 || _op == "parserepplus") ? "x" : ",x";
  if (_op == "parsesep")
  {
    auto const p{fp::separator{one('x'), fp::literal{','}}};
    auto const r{fp::parse_string(p, std::string{input})};
    return fin(done(r, [](slots_t &s, std::vector<T> const &v) { s.add_range(v); }));
  }
  if (_op == "parselist")
  {
    // copyable result types only: list::parse uses convert_const{end, result_type{}}, whose parse copies the stored (empty) vector -
    // no element is ever copied, but the instantiation needs a copyable element type
    if constexpr (T::copyable)
    {
      auto const p{fp::list{fp::literal{'['}, one('x'), fp::literal{','}, fp::literal{']'}}};
      auto const r{fp::parse_string(p, "[" + input + "]")};
      return fin(done(r, [](slots_t &s, std::vector<T> const &v) { s.add_range(v); }));
    }
    else
      throw bad_op{};
  }
  if (_op == "parserepplus")
  {
    // since /repo fix aef45df the first result is moved (container::make) instead of copied through an initializer_list
    auto const p{+one('x')};
    auto const r{fp::parse_string(p, std::string{input})};
    return fin(done(r, [](slots_t &s, std::vector<T> const &v) { s.add_range(v); }));
  }
  throw bad_op{};
}

template <typename T>
bool dispatch(std::string const &_op, line_t const &L, std::string &_out)
{
  if (_op == "parseseq")
    return (_out = op_parse<T>(_op, L), true);
  if (_op == "parserep")
    return (_out = op_parse<T>(_op, L), true);
  if (_op == "parsealt" || _op == "parseopt" || _op == "parseconv" || _op == "parsestruct" || _op == "parsesep" || _op == "parselist" ||
      _op == "parserepplus")
    return (_out = op_parse_more<T>(_op, L), true);
  return false;
}
}

C05_FAMILY(family_parse) { return C05_RUN(dispatch); }
}
