// C05 correspondence harness, family unit `parse` (see harness/c05_common.hpp and harness/c05.cpp)
#include "c05_common.hpp"

#include <fcppt/tuple/get.hpp>
#include <fcppt/parse/basic_char.hpp>
#include <fcppt/parse/make_convert.hpp>
#include <fcppt/parse/parse_string.hpp>
#include <fcppt/parse/operators/repetition.hpp>
#include <fcppt/parse/operators/sequence.hpp>

namespace c05
{
namespace
{
// ---------------------------------------------------------------- parse: results built from sub-results

template <typename T>
std::string op_parse(std::string const &_op, line_t const &L)
{
  namespace fp = fcppt::parse;
  need(L.args.empty() && L.par.size() == 1 && L.par[0] >= 0 && L.par[0] <= 8);
  std::string const input(static_cast<std::size_t>(L.par[0]), 'x');
  int next{1000};
  auto const one{[&next]
                 {
                   return fp::make_convert(
                       fp::basic_char<char>{},
                       [&next](char &&)
                       {
                         return T{next++};
                       });
                 }};
  g_log.clear();
  if (_op == "parseseq")
  {
    auto const p{one() >> one()};
    auto const r{fp::parse_string(p, std::string{input})};
    event_log const log{g_log};
    slots_t sr;
    if (r.has_success())
    {
      sr.add(fcppt::tuple::get<0>(r.get_success_unsafe()));
      sr.add(fcppt::tuple::get<1>(r.get_success_unsafe()));
    }
    return finish(r.has_success() ? "S" : "F", sr.str(), {}, log);
  }
  if (_op == "parserep")
  {
    auto const p{*one()};
    auto const r{fp::parse_string(p, std::string{input})};
    event_log const log{g_log};
    return finish(r.has_success() ? "S" : "F", r.has_success() ? slots(r.get_success_unsafe()) : "-", {}, log);
  }
  throw bad_op{};
}

template <typename T>
bool dispatch(std::string const &_op, line_t const &L, std::string &_out)
{
  if (_op == "parseseq")
    return (_out = op_parse<T>(_op, L), true);
  if (_op == "parserep")
    return (_out = op_parse<T>(_op, L), true);
  return false;
}
}

C05_FAMILY(family_parse) { return C05_RUN(dispatch); }
}
