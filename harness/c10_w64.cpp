// C10 harness: bitfield instantiations with std::uint64_t storage words
#include "c10_inst.hpp"

#include <cstdint>

namespace c10
{
factory const *factory_w64(unsigned const n) { return factory_for<std::uint64_t>(n); }
ull shifted_mask_w64(unsigned const k) { return shifted_mask_for<std::uint64_t>(k); }
bool bit_test_w64(ull const x, unsigned const k) { return bit_test_for<std::uint64_t>(x, k); }
}
