// C02 harness, typed family: one hand-written RECURSIVE statically typed grammar - the grammar of
// /repo/examples/parse/grammar.cpp (an fcppt::parse::grammar with two mutually recursive rules, a recursive result struct,
// construct, list, make_recursive, grammar_parse_string) with other delimiters:
//   list  = 'x' (entry ('y' entry)*)? 'z'        result: struct rlist { std::vector<entry> }
//   entry = +[abc] 'e' list                      result: tuple<basic_string, fcppt::recursive<rlist>>
// Grammar text of the op line (rule 0 = list, rule 1 = entry):
//   con:21.list.lit:x.ref:1.lit:y.lit:z;seq.seq.plus.cset:abc.lit:e.rec.ref:0
#include "c02_typed.hpp"

#include <fcppt/make_cref.hpp>
#include <fcppt/nonmovable.hpp>
#include <fcppt/recursive_impl.hpp>
#include <fcppt/parse/grammar.hpp>
#include <fcppt/parse/grammar_parse_string.hpp>
#include <fcppt/parse/make_recursive.hpp>

namespace c02typed
{
template <typename Ch>
struct rlist;
template <typename Ch>
using rentry = fcppt::tuple::object<std::basic_string<Ch>, fcppt::recursive<rlist<Ch>>>;
template <typename Ch>
struct rlist
{
  std::vector<rentry<Ch>> elements;
};

template <typename Ch>
struct tn<rlist<Ch>>
{
  static std::string get() { return "K21"; }
};
// fcppt::recursive<T> is printed as T
template <typename T>
struct tn<fcppt::recursive<T>>
{
  static std::string get() { return tname<T>(); }
};
template <typename Ch>
void tp(rlist<Ch> const &, std::string &);
template <typename T>
void tp(fcppt::recursive<T> const &v, std::string &o)
{
  tp(v.get(), o);
}
template <typename Ch>
void tp(rlist<Ch> const &v, std::string &o)
{
  o += "k21(";
  tp(v.elements, o);
  o += ')';
}

template <typename Ch, typename Sk>
class rgrammar : public fp::grammar<rlist<Ch>, Ch, Sk>
{
  FCPPT_NONMOVABLE(rgrammar);
  using grammar_base = fp::grammar<rlist<Ch>, Ch, Sk>;

public:
  explicit rgrammar(Sk &&_sk)
      : grammar_base{fcppt::make_cref(list_p), std::move(_sk)},
        list_p{grammar_base::make_base(fp::construct<rlist<Ch>>(fp::list{
            lit<Ch>('x'), fcppt::make_cref(entry_p), lit<Ch>('y'), lit<Ch>('z')}))},
        entry_p{grammar_base::make_base(
            +cs<Ch>("abc") >> lit<Ch>('e') >> fp::make_recursive(fcppt::make_cref(list_p)))}
  {
  }
  ~rgrammar() = default;

private:
  typename grammar_base::template base_type<rlist<Ch>> list_p;
  typename grammar_base::template base_type<rentry<Ch>> entry_p;
};

template <typename Ch, typename Sk>
std::string rec_one(rgrammar<Ch, Sk> const &_grammar, std::basic_string<Ch> &&_in, tcounts &_counts)
{
  ++_counts.n;
  try
  {
    fp::result<Ch, rlist<Ch>> const res{fp::grammar_parse_string(std::move(_in), _grammar)};
    if (res.has_success())
    {
      ++_counts.ok;
      std::string out{"ok " + tname<rlist<Ch>>() + " "};
      tp(res.get_success_unsafe(), out);
      return out;
    }
    if (res.get_failure_unsafe().is_fatal())
    {
      ++_counts.fatal;
      return "fatal";
    }
    ++_counts.fail;
    return "fail";
  }
  catch (fcppt::exception const &)
  {
    return "exc:fcppt::exception";
  }
  catch (std::exception const &)
  {
    return "exc:std::exception";
  }
  catch (...)
  {
    return "exc:unknown";
  }
}

bool chunk_rec(
    unsigned const _world,
    wchar_t const _skip,
    std::string const &_grammar,
    top const &_op,
    std::string &_result)
{
  if (_grammar != "con:21.list.lit:x.ref:1.lit:y.lit:z;seq.seq.plus.cset:abc.lit:e.rec.ref:0" || _op.entry != 'g')
    return false;
  if (_world == 0)
  {
    rgrammar<char, fsk::epsilon> const grammar{fsk::epsilon{}};
    _result = go<char>(
        [&grammar](std::string &&_in, tcounts &_c) { return rec_one(grammar, std::move(_in), _c); }, _op);
  }
  else
  {
    using lit_t = fsk::basic_literal<wchar_t>;
    rgrammar<wchar_t, lit_t> const grammar{lit_t{_skip}};
    _result = go<wchar_t>(
        [&grammar](std::wstring &&_in, tcounts &_c) { return rec_one(grammar, std::move(_in), _c); }, _op);
  }
  return true;
}
}
