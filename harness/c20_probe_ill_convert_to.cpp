// expect: error in parameters/uniform_int_impl.hpp (decorated_value called without its Result argument)
#include "c20_probe.hpp"
int main()
{
  auto const p{P::convert_to(std::uniform_int_distribution<int>(0, 1))};
  (void)p;
}
