// C16 correspondence harness, part f of the per-function evaluation (see c16_common.hpp)
#include "c16_common.hpp"

c16::result c16::eval_f(std::string const &fn, char const k, params const &ps, std::vector<int> const &v)
{
  C16_PREAMBLE
  if (fn == "mapopt" && np == 2)
  {
    ulong const t = ps[0], G = ps[1];
    if (!ro || t > 3 || G >= 64) return bad;
    return with_ro(k, v, [&](auto const &c) {
      return with_target(t, [&](auto target) {
        using target_type = decltype(target);
        seq log;
        auto const r{alg::map_optional<target_type>(c, [&](auto const &e) { log.push_back(val(e)); return tbl_g(G, val(e)); })};
        return ds(r) + "|" + ds(log);
      });
    });
  }
  if (fn == "mapcat" && np == 2)
  {
    ulong const t = ps[0], H = ps[1];
    if (!ro || t > 3 || H >= 64) return bad;
    return with_ro(k, v, [&](auto const &c) {
      return with_target(t, [&](auto target) {
        using target_type = decltype(target);
        seq log;
        auto const r{alg::map_concat<target_type>(c, [&](auto const &e) {
          log.push_back(val(e));
          seq const h{tbl_h(H, val(e))};
          return target_type(h.begin(), h.end());
        })};
        return ds(r) + "|" + ds(log);
      });
    });
  }
  return std::nullopt;
}
