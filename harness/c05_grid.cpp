// C05 correspondence harness, family unit `grid` (see harness/c05_common.hpp and harness/c05.cpp)
#include "c05_common.hpp"

#include <fcppt/array/init.hpp>
#include <fcppt/array/object.hpp>
#include <fcppt/container/grid/apply.hpp>
#include <fcppt/container/grid/fill.hpp>
#include <fcppt/container/grid/static_row.hpp>
#include <fcppt/container/grid/dim.hpp>
#include <fcppt/container/grid/map.hpp>
#include <fcppt/container/grid/object.hpp>
#include <fcppt/container/grid/pos.hpp>
#include <fcppt/container/grid/resize.hpp>

namespace c05
{
namespace
{
// ---------------------------------------------------------------- grid (2 dimensions, storage order = x fastest)

template <typename T>
using grid2 = fcppt::container::grid::object<T, 2>;

template <typename T>
grid2<T> mk_grid(arg_t const &_a, int const _w, int const _h)
{
  need(_w >= 0 && _h >= 0 && static_cast<std::size_t>(_w * _h) == _a.ids.size());
  using dim = typename grid2<T>::dim;
  using pos = typename grid2<T>::pos;
  return grid2<T>{
      dim{static_cast<std::size_t>(_w), static_cast<std::size_t>(_h)},
      [&](pos const p) { return T{_a.ids.at(p.y() * static_cast<std::size_t>(_w) + p.x())}; }};
}
template <typename T>
void mark(grid2<T> &_g)
{
  for (auto &e : _g)
    mark(e);
}

template <typename T>
std::string op_grid(std::string const &_op, line_t const &L)
{
  using dim = typename grid2<T>::dim;
  using pos = typename grid2<T>::pos;
  if (_op == "gridmap")
  {
    need(L.args.size() == 1 && L.par.size() == 2);
    auto g{mk_grid<T>(L.args[0], L.par[0], L.par[1])};
    mark(g);
    g_log.clear();
    grid2<T> const r{with_cat<true>(L.cat(0), g, [](auto &&x) { return fcppt::container::grid::map(FWD(x), thru{}); })};
    event_log const log{g_log};
    return finish("-", slots(r), {slots(g)}, log);
  }
  if (_op == "gridapply2")
  {
    need(L.args.size() == 2 && L.par.size() == 4);
    auto g{mk_grid<T>(L.args[0], L.par[0], L.par[1])};
    mark(g);
    auto h{mk_grid<T>(L.args[1], L.par[2], L.par[3])};
    mark(h);
    g_log.clear();
    grid2<pair2<T>> const r{with_cat<true>(
        L.cat(0),
        g,
        [&](auto &&x)
        { return with_cat<true>(L.cat(1), h, [&](auto &&y) { return fcppt::container::grid::apply(both{}, FWD(x), FWD(y)); }); })};
    event_log const log{g_log};
    slots_t sr;
    for (auto const &p : r)
      add_pair(sr, p);
    return finish("-", sr.str(), {slots(g), slots(h)}, log);
  }
  if (_op == "gridresize")
  {
    need(L.args.size() == 1 && L.par.size() == 4 && L.par[2] >= 0 && L.par[3] >= 0);
    auto g{mk_grid<T>(L.args[0], L.par[0], L.par[1])};
    mark(g);
    std::size_t const nw{static_cast<std::size_t>(L.par[2])};
    dim const nd{nw, static_cast<std::size_t>(L.par[3])};
    g_log.clear();
    grid2<T> const r{with_cat<T::copyable>(
        L.cat(0),
        g,
        [&](auto &&x)
        {
          return fcppt::container::grid::resize(
              FWD(x), nd, [nw](pos const p) { return T{1000 + static_cast<int>(p.y() * nw + p.x())}; });
        })};
    event_log const log{g_log};
    return finish("-", slots(r), {slots(g)}, log);
  }
  throw bad_op{};
}


// ---------------------------------------------------------------- grid: constructors, assignment, fill

template <typename T>
std::string op_grid_more(std::string const &_op, line_t const &L)
{
  using dim = typename grid2<T>::dim;
  using pos = typename grid2<T>::pos;
  auto const dims{[&L](std::size_t i)
                  {
                    need(L.par.size() >= i + 2 && L.par[i] >= 0 && L.par[i + 1] >= 0 && L.par[i] <= 8 && L.par[i + 1] <= 8);
                    return dim{static_cast<std::size_t>(L.par[i]), static_cast<std::size_t>(L.par[i + 1])};
                  }};
  if (_op == "gridctorfn")
  {
    need(L.args.empty() && L.par.size() == 2);
    dim const d{dims(0)};
    std::size_t const w{d.w()};
    g_log.clear();
    grid2<T> const r{d, [w](pos const p) { return T{1000 + static_cast<int>(p.y() * w + p.x())}; }};
    event_log const log{g_log};
    return finish("-", slots(r), {}, log);
  }
  if (_op == "gridctorvalue")
  {
    need(L.args.size() == 1 && L.n(0) == 1 && L.cat(0) == 'c' && L.par.size() == 2);
    if constexpr (T::copyable)
    {
      T const x{L.args[0].ids[0]};
      g_log.clear();
      grid2<T> const r{dims(0), x};
      event_log const log{g_log};
      slots_t sx;
      sx.add(x);
      return finish("-", slots(r), {sx.str()}, log);
    }
    else
      throw bad_op{};
  }
  if (_op == "gridstaticrow2")
  {
    need(L.args.size() == 2 && L.n(0) == 1 && L.n(1) == 1 && L.par.empty());
    T x{L.args[0].ids[0]};
    T y{L.args[1].ids[0]};
    mark(x);
    mark(y);
    g_log.clear();
    auto const r{with_cats2<T::copyable>(L, x, y, [](auto &&a, auto &&b) { return fcppt::container::grid::static_row(FWD(a), FWD(b)); })};
    event_log const log{g_log};
    slots_t sx, sy;
    sx.add(x);
    sy.add(y);
    return finish("-", slots(r.impl()), {sx.str(), sy.str()}, log);
  }
  if (_op == "gridctorrows2")
  {
    // two rows of the same length (1 or 2)
    need(L.args.size() == 2 && L.n(0) == L.n(1) && (L.n(0) == 1 || L.n(0) == 2) && L.par.empty());
    auto const go{[&L](auto N) -> std::string
                  {
                    constexpr std::size_t n{decltype(N)::value};
                    using row = fcppt::array::object<T, n>;
                    auto const mk{[](arg_t const &a)
                                  { return fcppt::array::init<row>([&a]<std::size_t I>(std::integral_constant<std::size_t, I>) { return T{a.ids[I]}; }); }};
                    row r0{mk(L.args[0])};
                    row r1{mk(L.args[1])};
                    for (auto &e : r0.impl())
                      mark(e);
                    for (auto &e : r1.impl())
                      mark(e);
                    g_log.clear();
                    // only rvalue rows: the enable_if of the constructor applies is_static_row to `Arg` with its reference
                    need(L.cat(0) == 'r' && L.cat(1) == 'r');
                    grid2<T> const r{std::move(r0), std::move(r1)};
                    event_log const log{g_log};
                    return finish("-", slots(r), {slots(r0.impl()), slots(r1.impl())}, log);
                  }};
    return L.n(0) == 1 ? go(std::integral_constant<std::size_t, 1>{}) : go(std::integral_constant<std::size_t, 2>{});
  }
  if (_op == "gridctorgrid")
  {
    need(L.args.size() == 1 && L.par.size() == 2);
    auto g{mk_grid<T>(L.args[0], L.par[0], L.par[1])};
    mark(g);
    g_log.clear();
    grid2<T> const r{with_cat<T::copyable>(L.cat(0), g, [](auto &&x) { return grid2<T>{FWD(x)}; })};
    event_log const log{g_log};
    return finish("-", slots(r), {slots(g)}, log);
  }
  if (_op == "gridassign")
  {
    // grids of one row
    need(L.args.size() == 2 && L.cat(0) == 'i' && L.par.empty());
    auto g{mk_grid<T>(L.args[0], static_cast<int>(L.n(0)), L.n(0) == 0 ? 0 : 1)};
    mark(g);
    auto h{mk_grid<T>(L.args[1], static_cast<int>(L.n(1)), L.n(1) == 0 ? 0 : 1)};
    mark(h);
    g_log.clear();
    with_cat<T::copyable>(
        L.cat(1),
        h,
        [&g](auto &&x)
        {
          g = FWD(x);
          return 0;
        });
    event_log const log{g_log};
    return finish("-", "-", {slots(g), slots(h)}, log);
  }
  if (_op == "gridselfassign")
  {
    need(L.args.size() == 1 && L.cat(0) == 'i' && L.par.size() == 1 && (L.par[0] == 0 || L.par[0] == 1));
    auto g{mk_grid<T>(L.args[0], static_cast<int>(L.n(0)), L.n(0) == 0 ? 0 : 1)};
    mark(g);
    grid2<T> &alias{g};
    g_log.clear();
    if (L.par[0] == 1)
      g = std::move(alias);
    else if constexpr (T::copyable)
      g = alias;
    else
      throw bad_op{};
    event_log const log{g_log};
    return finish("-", "-", {slots(g)}, log);
  }
  if (_op == "gridfill")
  {
    need(L.args.size() == 1 && L.cat(0) == 'i' && L.par.empty());
    auto g{mk_grid<T>(L.args[0], static_cast<int>(L.n(0)), L.n(0) == 0 ? 0 : 1)};
    mark(g);
    g_log.clear();
    fcppt::container::grid::fill(g, [](pos const p) { return T{1000 + static_cast<int>(p.x())}; });
    event_log const log{g_log};
    return finish("-", "-", {slots(g)}, log);
  }
  throw bad_op{};
}

template <typename T>
bool dispatch(std::string const &_op, line_t const &L, std::string &_out)
{
  if (_op == "gridmap")
    return (_out = op_grid<T>(_op, L), true);
  if (_op == "gridapply2")
    return (_out = op_grid<T>(_op, L), true);
  if (_op == "gridresize")
    return (_out = op_grid<T>(_op, L), true);
  if (_op == "gridctorfn" || _op == "gridctorvalue" || _op == "gridstaticrow2" || _op == "gridctorrows2" || _op == "gridctorgrid" ||
      _op == "gridassign" || _op == "gridselfassign" || _op == "gridfill")
    return (_out = op_grid_more<T>(_op, L), true);
  return false;
}
}

C05_FAMILY(family_grid) { return C05_RUN(dispatch); }
}
