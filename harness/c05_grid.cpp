// C05 correspondence harness, family unit `grid` (see harness/c05_common.hpp and harness/c05.cpp)
#include "c05_common.hpp"

#include <fcppt/container/grid/apply.hpp>
#include <fcppt/container/grid/dim.hpp>
#include <fcppt/container/grid/map.hpp>
#include <fcppt/container/grid/object.hpp>
#include <fcppt/container/grid/pos.hpp>
#include <fcppt/container/grid/resize.hpp>
#include <fcppt/container/tree/map.hpp>
#include <fcppt/container/tree/object.hpp>

namespace c05
{
namespace
{
// ---------------------------------------------------------------- grid (2 dimensions, storage order = x fastest)

template <typename T>
using grid2 = fcppt::container::grid::object<T, 2>;

template <typename T>
grid2<T> mk_grid(arg_t const &_a, int const _w, int const _h)
{
  need(_w >= 0 && _h >= 0 && static_cast<std::size_t>(_w * _h) == _a.ids.size());
  using dim = typename grid2<T>::dim;
  using pos = typename grid2<T>::pos;
  return grid2<T>{
      dim{static_cast<std::size_t>(_w), static_cast<std::size_t>(_h)},
      [&](pos const p) { return T{_a.ids.at(p.y() * static_cast<std::size_t>(_w) + p.x())}; }};
}
template <typename T>
void mark(grid2<T> &_g)
{
  for (auto &e : _g)
    mark(e);
}

template <typename T>
std::string op_grid(std::string const &_op, line_t const &L)
{
  using dim = typename grid2<T>::dim;
  using pos = typename grid2<T>::pos;
  if (_op == "gridmap")
  {
    need(L.args.size() == 1 && L.par.size() == 2);
    auto g{mk_grid<T>(L.args[0], L.par[0], L.par[1])};
    mark(g);
    g_log.clear();
    grid2<T> const r{with_cat<true>(L.cat(0), g, [](auto &&x) { return fcppt::container::grid::map(FWD(x), thru{}); })};
    event_log const log{g_log};
    return finish("-", slots(r), {slots(g)}, log);
  }
  if (_op == "gridapply2")
  {
    need(L.args.size() == 2 && L.par.size() == 4);
    auto g{mk_grid<T>(L.args[0], L.par[0], L.par[1])};
    mark(g);
    auto h{mk_grid<T>(L.args[1], L.par[2], L.par[3])};
    mark(h);
    g_log.clear();
    grid2<pair2<T>> const r{with_cat<true>(
        L.cat(0),
        g,
        [&](auto &&x)
        { return with_cat<true>(L.cat(1), h, [&](auto &&y) { return fcppt::container::grid::apply(both{}, FWD(x), FWD(y)); }); })};
    event_log const log{g_log};
    slots_t sr;
    for (auto const &p : r)
      add_pair(sr, p);
    return finish("-", sr.str(), {slots(g), slots(h)}, log);
  }
  if (_op == "gridresize")
  {
    need(L.args.size() == 1 && L.par.size() == 4 && L.par[2] >= 0 && L.par[3] >= 0);
    auto g{mk_grid<T>(L.args[0], L.par[0], L.par[1])};
    mark(g);
    std::size_t const nw{static_cast<std::size_t>(L.par[2])};
    dim const nd{nw, static_cast<std::size_t>(L.par[3])};
    g_log.clear();
    grid2<T> const r{with_cat<T::copyable>(
        L.cat(0),
        g,
        [&](auto &&x)
        {
          return fcppt::container::grid::resize(
              FWD(x), nd, [nw](pos const p) { return T{1000 + static_cast<int>(p.y() * nw + p.x())}; });
        })};
    event_log const log{g_log};
    return finish("-", slots(r), {slots(g)}, log);
  }
  throw bad_op{};
}

// ---------------------------------------------------------------- tree (root value + leaf children)

template <typename T>
using tree = fcppt::container::tree::object<T>;

template <typename T>
tree<T> mk_tree(arg_t const &_a)
{
  need(!_a.ids.empty());
  tree<T> t{T{_a.ids[0]}};
  for (std::size_t i = 1; i < _a.ids.size(); ++i)
    t.push_back(T{_a.ids[i]});
  return t;
}
template <typename T>
void mark(tree<T> &_t)
{
  mark(_t.value());
  for (auto &c : _t)
    mark(c);
}
template <typename T>
void tree_add(slots_t &_s, tree<T> const &_t)
{
  _s.add(_t.value());
  for (auto const &c : _t)
    tree_add(_s, c);
}
template <typename T>
std::string tree_slots(tree<T> const &_t)
{
  slots_t s;
  tree_add(s, _t);
  return s.str();
}

template <typename T>
std::string op_tree(std::string const &_op, line_t const &L)
{
  if (_op == "treector")
  {
    need(L.args.size() == 1 && L.n(0) == 1 && L.par.empty());
    T x{L.args[0].ids[0]};
    mark(x);
    g_log.clear();
    tree<T> const r{with_cat<T::copyable>(L.cat(0), x, [](auto &&v) { return tree<T>{FWD(v)}; })};
    event_log const log{g_log};
    slots_t sx;
    sx.add(x);
    return finish("-", tree_slots(r), {sx.str()}, log);
  }
  if (_op == "treepushval" || _op == "treepushtree")
  {
    need(L.args.size() == 2 && L.cat(0) == 'i' && L.n(1) == 1 && L.par.empty());
    auto t{mk_tree<T>(L.args[0])};
    mark(t);
    if (_op == "treepushval")
    {
      T x{L.args[1].ids[0]};
      mark(x);
      g_log.clear();
      switch (L.cat(1))
      {
      case 'r':
        t.push_back(std::move(x));
        break;
      case 'l':
        if constexpr (T::copyable)
          t.push_back(x);
        else
          throw bad_op{};
        break;
      case 'c':
        if constexpr (T::copyable)
          t.push_back(std::as_const(x));
        else
          throw bad_op{};
        break;
      default:
        throw bad_op{};
      }
      event_log const log{g_log};
      slots_t sx;
      sx.add(x);
      return finish("-", "-", {tree_slots(t), sx.str()}, log);
    }
    need(L.cat(1) == 'r');
    tree<T> c{T{L.args[1].ids[0]}};
    mark(c);
    g_log.clear();
    t.push_back(std::move(c));
    event_log const log{g_log};
    return finish("-", "-", {tree_slots(t), tree_slots(c)}, log);
  }
  if (_op == "treerelease")
  {
    need(L.args.size() == 1 && L.cat(0) == 'i' && L.par.size() == 1 && L.par[0] >= 0 && static_cast<std::size_t>(L.par[0]) + 1 < L.n(0));
    auto t{mk_tree<T>(L.args[0])};
    mark(t);
    g_log.clear();
    tree<T> const r{t.release(std::next(t.begin(), L.par[0]))};
    event_log const log{g_log};
    return finish("-", tree_slots(r), {tree_slots(t)}, log);
  }
  if (_op == "treemap")
  {
    need(L.args.size() == 1 && L.par.empty());
    auto t{mk_tree<T>(L.args[0])};
    mark(t);
    g_log.clear();
    tree<T> const r{
        with_cat<true>(L.cat(0), t, [](auto &&x) { return fcppt::container::tree::map<tree<T>>(FWD(x), [](T const &v) { return v.derive(1); }); })};
    event_log const log{g_log};
    return finish("-", tree_slots(r), {tree_slots(t)}, log);
  }
  throw bad_op{};
}

template <typename T>
bool dispatch(std::string const &_op, line_t const &L, std::string &_out)
{
  if (_op == "gridmap")
    return (_out = op_grid<T>(_op, L), true);
  if (_op == "gridapply2")
    return (_out = op_grid<T>(_op, L), true);
  if (_op == "gridresize")
    return (_out = op_grid<T>(_op, L), true);
  if (_op == "treector")
    return (_out = op_tree<T>(_op, L), true);
  if (_op == "treepushval")
    return (_out = op_tree<T>(_op, L), true);
  if (_op == "treepushtree")
    return (_out = op_tree<T>(_op, L), true);
  if (_op == "treerelease")
    return (_out = op_tree<T>(_op, L), true);
  if (_op == "treemap")
    return (_out = op_tree<T>(_op, L), true);
  return false;
}
}

C05_FAMILY(family_grid) { return C05_RUN(dispatch); }
}
