// C11 correspondence harness: runs the real fcppt::intrusive::list / base and fcppt::signal::object on
// the operation lines described in lean/FcpptModel/Drv/C11.lean and prints the same canonical lines.
//
// Every list head and every element is its own heap allocation, so that AddressSanitizer sees a
// stale link the moment it is followed.  The prev_/next_ members are private; they are read (never
// written) through the friend declarations `template <typename T> friend class list;` in base and
// `template <typename T> friend class base;` in list, by explicit specialisations for two tag types.
#include "common/vh.hpp"

#include <fcppt/intrusive/base.hpp>
#include <fcppt/intrusive/list.hpp>
#include <fcppt/signal/auto_connection.hpp>
#include <fcppt/signal/auto_connection_container.hpp>
#include <fcppt/signal/connection.hpp>
#include <fcppt/signal/optional_auto_connection.hpp>
#include <fcppt/signal/base.hpp>
#include <fcppt/signal/object.hpp>
#include <fcppt/signal/unregister/base.hpp>
#include <fcppt/signal/unregister/function.hpp>

#include <algorithm>
#include <functional>
#include <map>
#include <memory>
#include <optional>
#include <string>
#include <type_traits>
#include <utility>
#include <variant>
#include <vector>

namespace vspy
{
struct tag;
}

// read-only access to base<T>::prev_ / next_  (base<T> befriends every list<U>)
template <>
class fcppt::intrusive::list<vspy::tag>
{
public:
  template <typename T>
  static fcppt::intrusive::base<T> const *prev(fcppt::intrusive::base<T> const &b)
  {
    return b.prev_;
  }
  template <typename T>
  static fcppt::intrusive::base<T> const *next(fcppt::intrusive::base<T> const &b)
  {
    return b.next_;
  }
};
// read-only access to list<T>::head_  (list<T> befriends every base<U>)
template <>
class fcppt::intrusive::base<vspy::tag>
{
public:
  template <typename T>
  static fcppt::intrusive::base<T> const *head(fcppt::intrusive::list<T> const &l)
  {
    return &l.head_;
  }
};

namespace
{
constexpr unsigned max_lists = 8, max_elems = 16, walk_cap = 64;

class elem;
using list_t = fcppt::intrusive::list<elem>;
using base_t = fcppt::intrusive::base<elem>;
using spy_links = fcppt::intrusive::list<vspy::tag>;
using spy_head = fcppt::intrusive::base<vspy::tag>;

class elem : public base_t
{
public:
  explicit elem(list_t &l) : base_t{l} {}
  elem(elem &&) noexcept = default;
  elem &operator=(elem &&) noexcept = default;
  ~elem() = default;
  elem(elem const &) = delete;
  elem &operator=(elem const &) = delete;
};

std::unique_ptr<list_t> lists[max_lists];
std::unique_ptr<elem> elems[max_elems];

std::string node_name(base_t const *p)
{
  for (unsigned k = 0; k < max_lists; ++k)
    if (lists[k] && spy_head::head(*lists[k]) == p)
      return "h" + std::to_string(k);
  for (unsigned e = 0; e < max_elems; ++e)
    if (elems[e] && static_cast<base_t const *>(elems[e].get()) == p)
      return "e" + std::to_string(e);
  return "?";
}

std::string names(std::vector<std::string> const &v)
{
  if (v.empty())
    return "-";
  std::string r;
  for (auto const &s : v)
  {
    if (!r.empty())
      r += ',';
    r += s;
  }
  return r;
}

// forward walk with pre-increment; L is `list_t` or `list_t const` (iterator / const_iterator)
template <typename L>
std::string walk_fwd(L &l)
{
  std::vector<std::string> v;
  unsigned steps = 0;
  for (auto it = l.begin(); it != l.end(); ++it)
  {
    if (++steps > walk_cap)
      return "overrun";
    v.push_back(node_name(static_cast<base_t const *>(&*it)));
  }
  return names(v);
}

// the same loop written with `*it++`, `operator->` and `==`
template <typename L>
std::string walk_fwd_post(L &l)
{
  std::vector<std::string> v;
  unsigned steps = 0;
  auto it = l.begin();
  while (!(it == l.end()))
  {
    if (++steps > walk_cap)
      return "overrun";
    base_t const *const via_arrow = it.operator->();
    auto &ref = *it++;
    if (static_cast<base_t const *>(&ref) != via_arrow)
      return "arrow-mismatch";
    v.push_back(node_name(via_arrow));
  }
  return names(v);
}

// the same loop through the iterator's own public members (what fcppt::iterator::base forwards to)
template <typename L>
std::string walk_fwd_members(L &l)
{
  std::vector<std::string> v;
  unsigned steps = 0;
  auto it = l.begin();
  auto const e = l.end();
  while (!it.equal(e))
  {
    if (++steps > walk_cap)
      return "overrun";
    v.push_back(node_name(static_cast<base_t const *>(&it.dereference())));
    it.increment();
  }
  // and back again to begin()
  std::vector<std::string> w;
  while (!it.equal(l.begin()))
  {
    if (++steps > 2 * walk_cap + 2)
      return "overrun";
    it.decrement();
    w.push_back(node_name(static_cast<base_t const *>(&it.dereference())));
  }
  if (!std::equal(v.rbegin(), v.rend(), w.begin(), w.end()))
    return "member-mismatch";
  return names(v);
}

template <typename L>
std::string walk_bwd(L &l)
{
  std::vector<std::string> v;
  unsigned steps = 0;
  auto it = l.end();
  while (true)
  {
    --it;
    if (it == l.end())
      break;
    if (++steps > walk_cap)
      return "overrun";
    v.push_back(node_name(static_cast<base_t const *>(&*it)));
  }
  return names(v);
}

// backwards with `it--`: the returned iterator is the old position
template <typename L>
std::string walk_bwd_post(L &l)
{
  std::vector<std::string> v;
  unsigned steps = 0;
  auto it = l.end();
  it--;
  while (it != l.end())
  {
    if (++steps > walk_cap)
      return "overrun";
    auto const old = it--;
    v.push_back(node_name(static_cast<base_t const *>(&*old)));
  }
  return names(v);
}

// ------------------------------------------------------------------ iterator slots
constexpr unsigned max_iters = 8;
using it_t = list_t::iterator;
using cit_t = list_t::const_iterator;
using slot_t = std::variant<std::monostate, it_t, cit_t>;
slot_t its[max_iters];

static_assert(std::is_same_v<std::iterator_traits<it_t>::iterator_category, std::bidirectional_iterator_tag>);
static_assert(std::is_same_v<decltype(*std::declval<cit_t>()), elem const &>);
static_assert(std::is_same_v<decltype(*std::declval<it_t>()), elem &>);

// where an iterator stands, found with the public API only: `==` against end() of every live list, against
// iterator{&element} of every live element and against the default-constructed iterator
template <typename It>
std::string iter_name(It const &it)
{
  if (it == It{})
    return "null";
  for (unsigned k = 0; k < max_lists; ++k)
    if (lists[k])
    {
      bool e = false;
      if constexpr (std::is_same_v<It, it_t>)
        e = it == lists[k]->end();
      else
        e = it == static_cast<list_t const &>(*lists[k]).end();
      if (e)
        return "h" + std::to_string(k);
    }
  for (unsigned e = 0; e < max_elems; ++e)
    if (elems[e])
    {
      if constexpr (std::is_same_v<It, it_t>)
      {
        if (it == it_t{static_cast<base_t *>(elems[e].get())})
          return "e" + std::to_string(e);
      }
      else if (it == cit_t{static_cast<base_t const *>(elems[e].get())})
        return "e" + std::to_string(e);
    }
  return "?";
}

std::string slot_name(slot_t const &s)
{
  if (auto const *p = std::get_if<it_t>(&s))
    return iter_name(*p);
  if (auto const *p = std::get_if<cit_t>(&s))
    return iter_name(*p) + "c";
  return "none";
}

// the caller may not use an iterator to a destroyed node: drop the slots that stand on it (decided with `==` before the delete)
void drop_slots_at_elem(unsigned e)
{
  for (auto &s : its)
  {
    if (auto const *p = std::get_if<it_t>(&s); p && *p == it_t{static_cast<base_t *>(elems[e].get())})
      s = std::monostate{};
    else if (auto const *q = std::get_if<cit_t>(&s); q && *q == cit_t{static_cast<base_t const *>(elems[e].get())})
      s = std::monostate{};
  }
}

void drop_slots_at_head(unsigned k)
{
  for (auto &s : its)
  {
    if (auto const *p = std::get_if<it_t>(&s); p && *p == lists[k]->end())
      s = std::monostate{};
    else if (auto const *q = std::get_if<cit_t>(&s); q && *q == static_cast<list_t const &>(*lists[k]).end())
      s = std::monostate{};
  }
}

std::string list_dump()
{
  std::string r;
  for (unsigned k = 0; k < max_lists; ++k)
    if (lists[k])
    {
      list_t const &cl = *lists[k];
      // const and non-const iteration, pre- and post-increment / decrement must all agree
      std::string f = walk_fwd(*lists[k]);
      if (walk_fwd(cl) != f)
        f = "const-mismatch";
      else if (walk_fwd_post(*lists[k]) != f || walk_fwd_post(cl) != f)
        f = "post-mismatch";
      else if (walk_fwd_members(*lists[k]) != f || walk_fwd_members(cl) != f)
        f = "member-mismatch";
      std::string b = walk_bwd(*lists[k]);
      if (walk_bwd(cl) != b)
        b = "const-mismatch";
      else if (walk_bwd_post(*lists[k]) != b || walk_bwd_post(cl) != b)
        b = "post-mismatch";
      r += " L" + std::to_string(k) + "=" + f + "|" + b + "|" + (cl.empty() ? "1" : "0");
    }
  for (unsigned k = 0; k < max_lists; ++k)
    if (lists[k])
    {
      base_t const *h = spy_head::head(*lists[k]);
      r += " h" + std::to_string(k) + ":" + node_name(spy_links::prev(*h)) + "," + node_name(spy_links::next(*h));
    }
  for (unsigned e = 0; e < max_elems; ++e)
    if (elems[e])
    {
      base_t const &b = *elems[e];
      r += " e" + std::to_string(e) + ":" + node_name(spy_links::prev(b)) + "," + node_name(spy_links::next(b));
    }
  for (unsigned i = 0; i < max_iters; ++i)
    if (its[i].index() != 0)
      r += " i" + std::to_string(i) + "=" + slot_name(its[i]);
  return r;
}

// ------------------------------------------------------------------ signals
// four instantiations: S = int(int)/unregister::base, P = int(int)/signal::base, V = void(int)/unregister::base, W = void(int)/signal::base
using usig_t = fcppt::signal::object<int(int), fcppt::signal::unregister::base>;
using psig_t = fcppt::signal::object<int(int), fcppt::signal::base>;
using vsig_t = fcppt::signal::object<void(int), fcppt::signal::unregister::base>;
using wsig_t = fcppt::signal::object<void(int), fcppt::signal::base>;

std::unique_ptr<usig_t> usigs[max_lists];
std::unique_ptr<psig_t> psigs[max_lists];
std::unique_ptr<vsig_t> vsigs[max_lists];
std::unique_ptr<wsig_t> wsigs[max_lists];

// owners of connections
constexpr unsigned max_conts = 4;
fcppt::signal::optional_auto_connection holders[max_elems];
fcppt::signal::auto_connection_container conts[max_conts];
// bookkeeping for the validity of operation lines only (which connection id an owner holds; -1 = none)
int held[max_elems];
std::vector<int> cheld[max_conts];

std::map<unsigned, unsigned> unreg_count;
std::vector<int> call_log;

struct overrun_exc
{
};

int sig_family(unsigned s) { return usigs[s] ? 0 : psigs[s] ? 1 : vsigs[s] ? 2 : wsigs[s] ? 3 : -1; }
bool sig_live(unsigned s) { return sig_family(s) >= 0; }

template <typename F>
auto with_sig(unsigned s, F f)
{
  switch (sig_family(s))
  {
  case 0:
    return f(*usigs[s]);
  case 1:
    return f(*psigs[s]);
  case 2:
    return f(*vsigs[s]);
  default:
    return f(*wsigs[s]);
  }
}

int cb_fn(int f, int arg) { return (f * 7 + arg) % 1000; }
long long comb_fn(long long c, long long acc, long long x) { return (acc * 31 + x + c) % 1000003; }

template <typename Sig>
typename Sig::combiner_function make_combiner(int c)
{
  return typename Sig::combiner_function{[c](int a, int b) { return static_cast<int>(comb_fn(c, a, b)); }};
}

template <typename Sig>
constexpr bool is_void_sig = std::is_void_v<typename Sig::result_type>;

// a call may be nested inside another one (an unregister function that runs while a callback lets go of a connection
// looks at every signal): the outer log is put aside and restored
struct log_guard
{
  std::vector<int> saved;
  log_guard() { saved.swap(call_log); }
  ~log_guard() { call_log.swap(saved); }
  log_guard(log_guard const &) = delete;
  log_guard &operator=(log_guard const &) = delete;
};

template <typename Sig>
std::string call_str(Sig &s, int init, int arg)
{
  log_guard const guard{};
  std::string res = "v";
  try
  {
    if constexpr (is_void_sig<Sig>)
      s(arg);
    else
      res = std::to_string(s(typename Sig::initial_value{init}, arg));
  }
  catch (std::bad_function_call const &)
  {
    return "nocomb";
  }
  catch (overrun_exc const &)
  {
    return "overrun";
  }
  if (call_log.size() > walk_cap)
    return "overrun";
  return vh::join(call_log) + ":" + res;
}

// the callbacks of the connections met when iterating connections() from end() backwards (const_iterator and
// iterator, `--it` and `it--` must agree)
template <typename Sig>
std::string bwd_str(Sig &s)
{
  auto &l = s.connections();
  auto const &cl = l;
  std::vector<int> a, b;
  log_guard const guard{};
  try
  {
    unsigned steps = 0;
    auto it = l.end();
    while (true)
    {
      --it;
      if (it == l.end())
        break;
      if (++steps > walk_cap)
        return "overrun";
      (void)it->function()(2);
    }
    a = call_log;
    call_log.clear();
    steps = 0;
    auto cit = cl.end();
    cit--;
    while (cit != cl.end())
    {
      if (++steps > walk_cap)
        return "overrun";
      auto const old = cit--;
      (void)(*old).function()(2);
    }
    b = call_log;
  }
  catch (overrun_exc const &)
  {
    return "overrun";
  }
  return a == b ? vh::join(a) : std::string("const-mismatch");
}

std::string call_any(unsigned s, int init, int arg)
{
  return with_sig(s, [init, arg](auto &sg) { return call_str(sg, init, arg); });
}

// every unregister function that ran during the current operation line, in order, with what it saw
std::vector<std::string> unreg_saw;

// what every live signal would invoke right now (used from inside an unregister function)
std::string sig_calls()
{
  std::string r;
  for (unsigned s = 0; s < max_lists; ++s)
    if (sig_live(s))
      r += (r.empty() ? "S" : ",S") + std::to_string(s) + "=" + call_any(s, 1, 2);
  return r.empty() ? "-" : r;
}

std::string saw_suffix()
{
  std::string r;
  for (auto const &e : unreg_saw)
    r += (r.empty() ? "" : ";") + e;
  return " saw=" + (r.empty() ? std::string("-") : r);
}

std::string sig_dump()
{
  std::string r;
  for (unsigned s = 0; s < max_lists; ++s)
    if (sig_live(s))
    {
      bool const e = with_sig(s, [](auto &sg) { return sg.empty(); });
      std::string const bw = with_sig(s, [](auto &sg) { return bwd_str(sg); });
      r += " S" + std::to_string(s) + "=" + call_any(s, 1, 2) + "|" + (e ? "1" : "0") + "|" + bw;
    }
  std::string u;
  for (auto const &[id, cnt] : unreg_count)
    if (cnt > 0)
      u += (u.empty() ? "" : ",") + std::to_string(id) + ":" + std::to_string(cnt);
  return r + " unreg=" + (u.empty() ? "-" : u);
}

// callbacks with effects: what callback f does besides returning its value, while `acts_on` (inside rcall / rvcall)
struct action
{
  int kind = 0; // 0 nothing, 1 reset holder a, 2 clear container a, 3 connect callback c (unregister d) to signal b into holder a
  unsigned a = 0, b = 0, c = 0, d = 0;
};
action actions[100];
bool acts_on = false;
void run_action(int f);

auto make_callback(int f)
{
  return [f](int arg)
  {
    // the effect may destroy the connection this function object lives in: nothing is read from the closure afterwards
    int const id = f;
    // a runaway iteration must end: the watchdog would catch it, but an exception is cheaper
    if (call_log.size() > walk_cap + 1)
      throw overrun_exc{};
    call_log.push_back(id);
    if (acts_on)
      run_action(id);
    return cb_fn(id, arg);
  };
}

auto make_void_callback(int f)
{
  return [f](int)
  {
    int const id = f;
    if (call_log.size() > walk_cap + 1)
      throw overrun_exc{};
    call_log.push_back(id);
    if (acts_on)
      run_action(id);
  };
}

fcppt::signal::unregister::function make_unregister(unsigned d)
{
  return fcppt::signal::unregister::function{[d]
                                             {
                                               ++unreg_count[d];
                                               // the dying connection must already be out of every signal
                                               bool const saved = acts_on;
                                               acts_on = false;
                                               unreg_saw.push_back("u" + std::to_string(d) + "@" + sig_calls());
                                               acts_on = saved;
                                             }};
}

bool conn_id_in_use(unsigned x)
{
  for (int h : held)
    if (h == static_cast<int>(x))
      return true;
  for (auto const &c : cheld)
    for (int h : c)
      if (h == static_cast<int>(x))
        return true;
  return false;
}

void connect_into(unsigned h, unsigned s, int f, unsigned u)
{
  switch (sig_family(s))
  {
  case 0:
    holders[h] = fcppt::signal::optional_auto_connection{usigs[s]->connect(usig_t::function{make_callback(f)}, make_unregister(u))};
    break;
  case 1:
    holders[h] = fcppt::signal::optional_auto_connection{psigs[s]->connect(psig_t::function{make_callback(f)})};
    break;
  case 2:
    holders[h] = fcppt::signal::optional_auto_connection{vsigs[s]->connect(vsig_t::function{make_void_callback(f)}, make_unregister(u))};
    break;
  default:
    holders[h] = fcppt::signal::optional_auto_connection{wsigs[s]->connect(wsig_t::function{make_void_callback(f)})};
  }
  held[h] = static_cast<int>(h);
}

void run_action(int f)
{
  action const &ac = actions[f];
  switch (ac.kind)
  {
  case 1:
    if (held[ac.a] >= 0)
    {
      holders[ac.a] = fcppt::signal::optional_auto_connection{};
      held[ac.a] = -1;
    }
    break;
  case 2:
    conts[ac.a].clear();
    cheld[ac.a].clear();
    break;
  case 3:
    if (held[ac.a] < 0 && !conn_id_in_use(ac.a) && sig_live(ac.b))
      connect_into(ac.a, ac.b, static_cast<int>(ac.c), ac.d);
    break;
  default:
    break;
  }
}

void reset_all()
{
  for (auto &ac : actions)
    ac = action{};
  acts_on = false;
  // connections and elements first, then their lists (any order is legal; this one is the usual one)
  for (auto &c : conts)
    c.clear();
  for (auto &c : cheld)
    c.clear();
  for (auto &h : holders)
    h = fcppt::signal::optional_auto_connection{};
  for (int &h : held)
    h = -1;
  for (auto &i : its)
    i = std::monostate{};
  for (auto &e : elems)
    e.reset();
  for (auto &l : lists)
    l.reset();
  for (auto &s : usigs)
    s.reset();
  for (auto &s : psigs)
    s.reset();
  for (auto &s : vsigs)
    s.reset();
  for (auto &s : wsigs)
    s.reset();
  unreg_count.clear();
  unreg_saw.clear();
}

bool num(std::string const &s, unsigned lim, unsigned &out)
{
  if (s.empty() || s.size() > 6)
    return false;
  for (char c : s)
    if (c < '0' || c > '9')
      return false;
  out = static_cast<unsigned>(std::stoul(s));
  return out < lim;
}

std::string handle(std::vector<std::string> const &t)
{
  if (t.empty())
    return "bad-op";
  std::string const &o = t[0];
  unsigned a = 0, b = 0, c = 0, d = 0;
  if (o == "reset" && t.size() == 1)
  {
    reset_all();
    return "ok";
  }
  // ---- lists
  if (o == "L" && t.size() == 2 && num(t[1], max_lists, a))
  {
    if (lists[a])
      return "bad-op";
    lists[a] = std::make_unique<list_t>();
    return "ok" + list_dump();
  }
  if (o == "E" && t.size() == 3 && num(t[1], max_elems, a) && num(t[2], max_lists, b))
  {
    if (elems[a] || !lists[b])
      return "bad-op";
    elems[a] = std::make_unique<elem>(*lists[b]);
    return "ok" + list_dump();
  }
  if (o == "d" && t.size() == 2 && num(t[1], max_elems, a))
  {
    if (!elems[a])
      return "bad-op";
    drop_slots_at_elem(a);
    elems[a].reset();
    return "ok" + list_dump();
  }
  if (o == "u" && t.size() == 2 && num(t[1], max_elems, a))
  {
    if (!elems[a])
      return "bad-op";
    elems[a]->unlink();
    return "ok" + list_dump();
  }
  if (o == "M" && t.size() == 3 && num(t[1], max_elems, a) && num(t[2], max_elems, b))
  {
    if (elems[a] || !elems[b])
      return "bad-op";
    elems[a] = std::make_unique<elem>(std::move(*elems[b]));
    return "ok" + list_dump();
  }
  if (o == "A" && t.size() == 3 && num(t[1], max_elems, a) && num(t[2], max_elems, b))
  {
    if (!elems[a] || !elems[b])
      return "bad-op";
    *elems[a] = std::move(*elems[b]);
    return "ok" + list_dump();
  }
  if (o == "LM" && t.size() == 3 && num(t[1], max_lists, a) && num(t[2], max_lists, b))
  {
    if (lists[a] || !lists[b])
      return "bad-op";
    lists[a] = std::make_unique<list_t>(std::move(*lists[b]));
    return "ok" + list_dump();
  }
  if (o == "LA" && t.size() == 3 && num(t[1], max_lists, a) && num(t[2], max_lists, b))
  {
    if (!lists[a] || !lists[b])
      return "bad-op";
    *lists[a] = std::move(*lists[b]);
    return "ok" + list_dump();
  }
  if (o == "LS" && t.size() == 3 && num(t[1], max_lists - 1, a) && num(t[2], max_lists - 1, b))
  {
    if (!lists[a] || !lists[b])
      return "bad-op";
    std::swap(*lists[a], *lists[b]); // a == b: self-swap
    return "ok" + list_dump();
  }
  if (o == "ES" && t.size() == 3 && num(t[1], max_elems - 1, a) && num(t[2], max_elems - 1, b))
  {
    if (!elems[a] || !elems[b])
      return "bad-op";
    std::swap(*elems[a], *elems[b]);
    return "ok" + list_dump();
  }
  if (o == "LD" && t.size() == 2 && num(t[1], max_lists, a))
  {
    if (!lists[a])
      return "bad-op";
    drop_slots_at_head(a);
    lists[a].reset();
    return "ok" + list_dump();
  }
  // ---- iterator objects
  if ((o == "IB" || o == "IE" || o == "CB" || o == "CE") && t.size() == 3 && num(t[1], max_iters, a) && num(t[2], max_lists, b))
  {
    if (!lists[b])
      return "bad-op";
    list_t const &cl = *lists[b];
    if (o == "IB")
      its[a] = lists[b]->begin();
    else if (o == "IE")
      its[a] = lists[b]->end();
    else if (o == "CB")
      its[a] = cl.begin();
    else
      its[a] = cl.end();
    return "ok" + list_dump();
  }
  if ((o == "IP" || o == "CP") && t.size() == 3 && num(t[1], max_iters, a) && num(t[2], max_elems, b))
  {
    if (!elems[b])
      return "bad-op";
    if (o == "IP")
      its[a] = it_t{static_cast<base_t *>(elems[b].get())};
    else
      its[a] = cit_t{static_cast<base_t const *>(elems[b].get())};
    return "ok" + list_dump();
  }
  if ((o == "IN" || o == "CN") && t.size() == 2 && num(t[1], max_iters, a))
  {
    if (o == "IN")
      its[a] = it_t{};
    else
      its[a] = cit_t{};
    return "ok" + list_dump();
  }
  if (o == "IC" && t.size() == 3 && num(t[1], max_iters, a) && num(t[2], max_iters, b))
  {
    if (its[b].index() == 0)
      return "bad-op";
    slot_t const copy{its[b]};
    its[a] = copy;
    return "ok" + list_dump();
  }
  if (o == "IX" && t.size() == 2 && num(t[1], max_iters, a))
  {
    if (its[a].index() == 0)
      return "bad-op";
    its[a] = std::monostate{};
    return "ok" + list_dump();
  }
  if ((o == "I+" || o == "I-" || o == "Ip" || o == "Im") && t.size() == 2 && num(t[1], max_iters, a))
  {
    if (its[a].index() == 0)
      return "bad-op";
    std::string extra;
    bool bad = false;
    std::visit(
        [&](auto &it)
        {
          using It = std::decay_t<decltype(it)>;
          if constexpr (std::is_same_v<It, std::monostate>)
            bad = true;
          else
          {
            if (it == It{})
            {
              bad = true; // nullptr->next_
              return;
            }
            if (o == "I+")
            {
              It &r = ++it;
              if (&r != &it)
                extra = " ret=not-self";
            }
            else if (o == "I-")
            {
              It &r = --it;
              if (&r != &it)
                extra = " ret=not-self";
            }
            else if (o == "Ip")
            {
              It const r = it++;
              extra = " ret=" + iter_name(r);
            }
            else
            {
              It const r = it--;
              extra = " ret=" + iter_name(r);
            }
          }
        },
        its[a]);
    if (bad)
      return "bad-op";
    return "ok" + list_dump() + extra;
  }
  if (o == "I=" && t.size() == 3 && num(t[1], max_iters, a) && num(t[2], max_iters, b))
  {
    if (its[a].index() == 0 || its[a].index() != its[b].index())
      return "bad-op";
    bool eq = false, ne = false;
    if (auto const *p = std::get_if<it_t>(&its[a]))
    {
      eq = *p == std::get<it_t>(its[b]);
      ne = *p != std::get<it_t>(its[b]);
    }
    else
    {
      eq = std::get<cit_t>(its[a]) == std::get<cit_t>(its[b]);
      ne = std::get<cit_t>(its[a]) != std::get<cit_t>(its[b]);
    }
    return "ok" + list_dump() + " eq=" + (eq ? "1" : "0") + " ne=" + (ne ? "1" : "0");
  }
  if (o == "IS" && t.size() == 3 && num(t[1], max_iters, a) && num(t[2], max_iters, b))
  {
    if (its[a].index() == 0 || its[a].index() != its[b].index())
      return "bad-op";
    // member swap of fcppt::iterator::base (self-swap when a == b)
    if (auto *p = std::get_if<it_t>(&its[a]))
      p->swap(std::get<it_t>(its[b]));
    else
      std::get<cit_t>(its[a]).swap(std::get<cit_t>(its[b]));
    return "ok" + list_dump();
  }
  if (o == "I*" && t.size() == 2 && num(t[1], max_iters, a))
  {
    if (its[a].index() == 0)
      return "bad-op";
    std::string const where = slot_name(its[a]);
    // only an element may be dereferenced (a list head is not a `Type`)
    if (where[0] != 'e')
      return "bad-op";
    base_t const *p1 = nullptr, *p2 = nullptr;
    std::visit(
        [&](auto &it)
        {
          using It = std::decay_t<decltype(it)>;
          if constexpr (!std::is_same_v<It, std::monostate>)
          {
            p1 = &*it;
            p2 = it.operator->();
          }
        },
        its[a]);
    return "ok" + list_dump() + " deref=" + (p1 == p2 ? node_name(p1) : std::string("arrow-mismatch"));
  }
  // ---- signals
  if ((o == "SN" || o == "PN") && t.size() == 3 && num(t[1], max_lists, a) && num(t[2], 64, b))
  {
    if (sig_live(a))
      return "bad-op";
    if (o == "SN")
      usigs[a] = std::make_unique<usig_t>(make_combiner<usig_t>(static_cast<int>(b)));
    else
      psigs[a] = std::make_unique<psig_t>(make_combiner<psig_t>(static_cast<int>(b)));
    return "ok" + sig_dump();
  }
  if ((o == "VN" || o == "WN") && t.size() == 2 && num(t[1], max_lists, a))
  {
    if (sig_live(a))
      return "bad-op";
    if (o == "VN")
      vsigs[a] = std::make_unique<vsig_t>();
    else
      wsigs[a] = std::make_unique<wsig_t>();
    return "ok" + sig_dump();
  }
  if ((o == "SC" || o == "VC") && t.size() == 5 && num(t[1], max_elems, a) && num(t[2], max_lists, b) && num(t[3], 100, c) && num(t[4], 64, d))
  {
    if (held[a] >= 0 || conn_id_in_use(a) || sig_family(b) != (o == "SC" ? 0 : 2))
      return "bad-op";
    if (o == "SC")
      holders[a] = fcppt::signal::optional_auto_connection{
          usigs[b]->connect(usig_t::function{make_callback(static_cast<int>(c))}, make_unregister(d))};
    else
      holders[a] = fcppt::signal::optional_auto_connection{
          vsigs[b]->connect(vsig_t::function{make_void_callback(static_cast<int>(c))}, make_unregister(d))};
    held[a] = static_cast<int>(a);
    return "ok" + sig_dump();
  }
  if ((o == "PC" || o == "WC") && t.size() == 4 && num(t[1], max_elems, a) && num(t[2], max_lists, b) && num(t[3], 100, c))
  {
    if (held[a] >= 0 || conn_id_in_use(a) || sig_family(b) != (o == "PC" ? 1 : 3))
      return "bad-op";
    if (o == "PC")
      holders[a] = fcppt::signal::optional_auto_connection{psigs[b]->connect(psig_t::function{make_callback(static_cast<int>(c))})};
    else
      holders[a] = fcppt::signal::optional_auto_connection{wsigs[b]->connect(wsig_t::function{make_void_callback(static_cast<int>(c))})};
    held[a] = static_cast<int>(a);
    return "ok" + sig_dump();
  }
  if (o == "SX" && t.size() == 2 && num(t[1], max_elems, a))
  {
    if (held[a] < 0)
      return "bad-op";
    unreg_saw.clear();
    holders[a] = fcppt::signal::optional_auto_connection{};
    held[a] = -1;
    return "ok" + sig_dump() + saw_suffix();
  }
  if (o == "HA" && t.size() == 3 && num(t[1], max_elems, a) && num(t[2], max_elems, b))
  {
    if (held[b] < 0)
      return "bad-op";
    unreg_saw.clear();
    auto &src = holders[b]; // a == b: self-move-assignment, must leave the connection alone
    holders[a] = std::move(src); // an engaged target: unique_ptr move assignment destroys the old connection
    if (a != b)
    {
      held[a] = held[b];
      held[b] = -1;
    }
    return "ok" + sig_dump() + saw_suffix();
  }
  if (o == "HW" && t.size() == 3 && num(t[1], max_elems, a) && num(t[2], max_elems, b))
  {
    unreg_saw.clear();
    std::swap(holders[a], holders[b]); // a == b: self-swap
    std::swap(held[a], held[b]);
    return "ok" + sig_dump() + saw_suffix();
  }
  if (o == "KP" && t.size() == 3 && num(t[1], max_conts, a) && num(t[2], max_elems, b))
  {
    if (held[b] < 0)
      return "bad-op";
    unreg_saw.clear();
    conts[a].push_back(std::move(holders[b].get_unsafe()));
    cheld[a].push_back(held[b]);
    held[b] = -1;
    return "ok" + sig_dump() + saw_suffix();
  }
  if (o == "KO" && t.size() == 3 && num(t[1], max_conts, a) && num(t[2], max_elems, b))
  {
    if (held[b] >= 0 || cheld[a].empty())
      return "bad-op";
    unreg_saw.clear();
    holders[b] = fcppt::signal::optional_auto_connection{std::move(conts[a].back())};
    conts[a].pop_back();
    held[b] = cheld[a].back();
    cheld[a].pop_back();
    return "ok" + sig_dump() + saw_suffix();
  }
  if (o == "KE" && t.size() == 3 && num(t[1], max_conts, a) && num(t[2], 64, b))
  {
    if (b >= cheld[a].size())
      return "bad-op";
    unreg_saw.clear();
    conts[a].erase(conts[a].begin() + static_cast<std::ptrdiff_t>(b));
    cheld[a].erase(cheld[a].begin() + static_cast<std::ptrdiff_t>(b));
    return "ok" + sig_dump() + saw_suffix();
  }
  if (o == "KC" && t.size() == 2 && num(t[1], max_conts, a))
  {
    unreg_saw.clear();
    conts[a].clear();
    cheld[a].clear();
    return "ok" + sig_dump() + saw_suffix();
  }
  if (o == "KA" && t.size() == 3 && num(t[1], max_conts, a) && num(t[2], max_conts, b))
  {
    if (a == b)
      return "bad-op";
    unreg_saw.clear();
    conts[a] = std::move(conts[b]);
    conts[b].clear(); // moved-from vector: valid but unspecified; libstdc++ leaves it empty
    cheld[a] = std::move(cheld[b]);
    cheld[b].clear();
    return "ok" + sig_dump() + saw_suffix();
  }
  if (o == "SM" && t.size() == 3 && num(t[1], max_lists, a) && num(t[2], max_lists, b))
  {
    if (sig_live(a) || !sig_live(b))
      return "bad-op";
    switch (sig_family(b))
    {
    case 0:
      usigs[a] = std::make_unique<usig_t>(std::move(*usigs[b]));
      break;
    case 1:
      psigs[a] = std::make_unique<psig_t>(std::move(*psigs[b]));
      break;
    case 2:
      vsigs[a] = std::make_unique<vsig_t>(std::move(*vsigs[b]));
      break;
    default:
      wsigs[a] = std::make_unique<wsig_t>(std::move(*wsigs[b]));
    }
    return "ok" + sig_dump();
  }
  if (o == "SA" && t.size() == 3 && num(t[1], max_lists, a) && num(t[2], max_lists, b))
  {
    if (!sig_live(a) || !sig_live(b) || sig_family(a) != sig_family(b))
      return "bad-op";
    switch (sig_family(a))
    {
    case 0:
      *usigs[a] = std::move(*usigs[b]);
      break;
    case 1:
      *psigs[a] = std::move(*psigs[b]);
      break;
    case 2:
      *vsigs[a] = std::move(*vsigs[b]);
      break;
    default:
      *wsigs[a] = std::move(*wsigs[b]);
    }
    return "ok" + sig_dump();
  }
  if (o == "SS" && t.size() == 3 && num(t[1], max_lists - 1, a) && num(t[2], max_lists - 1, b))
  {
    if (!sig_live(a) || !sig_live(b) || sig_family(a) != sig_family(b))
      return "bad-op";
    switch (sig_family(a))
    {
    case 0:
      std::swap(*usigs[a], *usigs[b]);
      break;
    case 1:
      std::swap(*psigs[a], *psigs[b]);
      break;
    case 2:
      std::swap(*vsigs[a], *vsigs[b]);
      break;
    default:
      std::swap(*wsigs[a], *wsigs[b]);
    }
    return "ok" + sig_dump();
  }
  if (o == "SD" && t.size() == 2 && num(t[1], max_lists, a))
  {
    if (!sig_live(a))
      return "bad-op";
    usigs[a].reset();
    psigs[a].reset();
    vsigs[a].reset();
    wsigs[a].reset();
    return "ok" + sig_dump();
  }
  if (o == "AN" && t.size() == 2 && num(t[1], 100, a))
  {
    actions[a] = action{};
    return "ok";
  }
  if (o == "AR" && t.size() == 3 && num(t[1], 100, a) && num(t[2], max_elems, b))
  {
    actions[a] = action{1, b, 0, 0, 0};
    return "ok";
  }
  if (o == "AK" && t.size() == 3 && num(t[1], 100, a) && num(t[2], max_conts, b))
  {
    actions[a] = action{2, b, 0, 0, 0};
    return "ok";
  }
  if (o == "AC" && t.size() == 6 && num(t[1], 100, a) && num(t[2], max_elems, b) && num(t[3], max_lists, c) && num(t[4], 100, d))
  {
    unsigned u = 0;
    if (!num(t[5], 64, u))
      return "bad-op";
    actions[a] = action{3, b, c, d, u};
    return "ok";
  }
  if ((o == "rcall" && t.size() == 4 && num(t[1], max_lists, a) && num(t[2], 1000, b) && num(t[3], 1000, c)) ||
      (o == "rvcall" && t.size() == 3 && num(t[1], max_lists, a) && num(t[2], 1000, c)))
  {
    if (!sig_live(a) || (sig_family(a) >= 2) != (o == "rvcall"))
      return "bad-op";
    unreg_saw.clear();
    acts_on = true;
    std::string const r = call_any(a, o == "rcall" ? static_cast<int>(b) : 0, static_cast<int>(c));
    acts_on = false;
    if (r == "overrun" || r == "nocomb")
      return "ok " + r;
    return "ok " + r + sig_dump();
  }
  if (o == "call" && t.size() == 4 && num(t[1], max_lists, a) && num(t[2], 1000, b) && num(t[3], 1000, c))
  {
    if (!sig_live(a) || sig_family(a) >= 2)
      return "bad-op";
    return "ok " + call_any(a, static_cast<int>(b), static_cast<int>(c));
  }
  if (o == "vcall" && t.size() == 3 && num(t[1], max_lists, a) && num(t[2], 1000, b))
  {
    if (!sig_live(a) || sig_family(a) < 2)
      return "bad-op";
    return "ok " + call_any(a, 0, static_cast<int>(b));
  }
  return "bad-op";
}
}

int main()
{
  int const r = vh::run(handle);
  reset_all();
  return r;
}
