// C11 correspondence harness: runs the real fcppt::intrusive::list / base and fcppt::signal::object on
// the operation lines described in lean/FcpptModel/Drv/C11.lean and prints the same canonical lines.
//
// Every list head and every element is its own heap allocation, so that AddressSanitizer sees a
// stale link the moment it is followed.  The prev_/next_ members are private; they are read (never
// written) through the friend declarations `template <typename T> friend class list;` in base and
// `template <typename T> friend class base;` in list, by explicit specialisations for two tag types.
#include "common/vh.hpp"

#include <fcppt/intrusive/base.hpp>
#include <fcppt/intrusive/list.hpp>
#include <fcppt/signal/auto_connection.hpp>
#include <fcppt/signal/base.hpp>
#include <fcppt/signal/object.hpp>
#include <fcppt/signal/unregister/base.hpp>
#include <fcppt/signal/unregister/function.hpp>

#include <functional>
#include <map>
#include <memory>
#include <optional>
#include <string>
#include <utility>
#include <vector>

namespace vspy
{
struct tag;
}

// read-only access to base<T>::prev_ / next_  (base<T> befriends every list<U>)
template <>
class fcppt::intrusive::list<vspy::tag>
{
public:
  template <typename T>
  static fcppt::intrusive::base<T> const *prev(fcppt::intrusive::base<T> const &b)
  {
    return b.prev_;
  }
  template <typename T>
  static fcppt::intrusive::base<T> const *next(fcppt::intrusive::base<T> const &b)
  {
    return b.next_;
  }
};
// read-only access to list<T>::head_  (list<T> befriends every base<U>)
template <>
class fcppt::intrusive::base<vspy::tag>
{
public:
  template <typename T>
  static fcppt::intrusive::base<T> const *head(fcppt::intrusive::list<T> const &l)
  {
    return &l.head_;
  }
};

namespace
{
constexpr unsigned max_lists = 8, max_elems = 16, walk_cap = 64;

class elem;
using list_t = fcppt::intrusive::list<elem>;
using base_t = fcppt::intrusive::base<elem>;
using spy_links = fcppt::intrusive::list<vspy::tag>;
using spy_head = fcppt::intrusive::base<vspy::tag>;

class elem : public base_t
{
public:
  explicit elem(list_t &l) : base_t{l} {}
  elem(elem &&) noexcept = default;
  elem &operator=(elem &&) noexcept = default;
  ~elem() = default;
  elem(elem const &) = delete;
  elem &operator=(elem const &) = delete;
};

std::unique_ptr<list_t> lists[max_lists];
std::unique_ptr<elem> elems[max_elems];

std::string node_name(base_t const *p)
{
  for (unsigned k = 0; k < max_lists; ++k)
    if (lists[k] && spy_head::head(*lists[k]) == p)
      return "h" + std::to_string(k);
  for (unsigned e = 0; e < max_elems; ++e)
    if (elems[e] && static_cast<base_t const *>(elems[e].get()) == p)
      return "e" + std::to_string(e);
  return "?";
}

std::string names(std::vector<std::string> const &v)
{
  if (v.empty())
    return "-";
  std::string r;
  for (auto const &s : v)
  {
    if (!r.empty())
      r += ',';
    r += s;
  }
  return r;
}

std::string walk_fwd(list_t &l)
{
  std::vector<std::string> v;
  unsigned steps = 0;
  for (auto it = l.begin(); it != l.end(); ++it)
  {
    if (++steps > walk_cap)
      return "overrun";
    v.push_back(node_name(static_cast<base_t const *>(&*it)));
  }
  return names(v);
}

std::string walk_bwd(list_t &l)
{
  std::vector<std::string> v;
  unsigned steps = 0;
  auto it = l.end();
  while (true)
  {
    --it;
    if (it == l.end())
      break;
    if (++steps > walk_cap)
      return "overrun";
    v.push_back(node_name(static_cast<base_t const *>(&*it)));
  }
  return names(v);
}

std::string list_dump()
{
  std::string r;
  for (unsigned k = 0; k < max_lists; ++k)
    if (lists[k])
    {
      list_t const &cl = *lists[k];
      // const and non-const iteration must agree
      unsigned n1 = 0, n2 = 0;
      for (auto it = cl.begin(); it != cl.end() && n1 <= walk_cap; ++it)
        ++n1;
      std::string const f = walk_fwd(*lists[k]);
      for (auto it = lists[k]->begin(); it != lists[k]->end() && n2 <= walk_cap; ++it)
        ++n2;
      r += " L" + std::to_string(k) + "=" + (n1 == n2 ? f : std::string("const-mismatch")) + "|" + walk_bwd(*lists[k]) + "|" +
           (cl.empty() ? "1" : "0");
    }
  for (unsigned k = 0; k < max_lists; ++k)
    if (lists[k])
    {
      base_t const *h = spy_head::head(*lists[k]);
      r += " h" + std::to_string(k) + ":" + node_name(spy_links::prev(*h)) + "," + node_name(spy_links::next(*h));
    }
  for (unsigned e = 0; e < max_elems; ++e)
    if (elems[e])
    {
      base_t const &b = *elems[e];
      r += " e" + std::to_string(e) + ":" + node_name(spy_links::prev(b)) + "," + node_name(spy_links::next(b));
    }
  return r;
}

// ------------------------------------------------------------------ signals
using usig_t = fcppt::signal::object<int(int), fcppt::signal::unregister::base>;
using psig_t = fcppt::signal::object<int(int), fcppt::signal::base>;

std::unique_ptr<usig_t> usigs[max_lists];
std::unique_ptr<psig_t> psigs[max_lists];
std::optional<fcppt::signal::auto_connection> conns[max_elems];
std::map<unsigned, unsigned> unreg_count;
std::vector<int> call_log;

struct overrun_exc
{
};

bool sig_live(unsigned s) { return usigs[s] || psigs[s]; }

int cb_fn(int f, int arg) { return (f * 7 + arg) % 1000; }
long long comb_fn(long long c, long long acc, long long x) { return (acc * 31 + x + c) % 1000003; }

template <typename Sig>
typename Sig::combiner_function make_combiner(int c)
{
  return typename Sig::combiner_function{[c](int a, int b) { return static_cast<int>(comb_fn(c, a, b)); }};
}

template <typename Sig>
std::string call_str(Sig &s, int init, int arg)
{
  call_log.clear();
  int r = 0;
  try
  {
    r = s(typename Sig::initial_value{init}, arg);
  }
  catch (std::bad_function_call const &)
  {
    return "nocomb";
  }
  catch (overrun_exc const &)
  {
    return "overrun";
  }
  if (call_log.size() > walk_cap)
    return "overrun";
  return vh::join(call_log) + ":" + std::to_string(r);
}

std::string call_any(unsigned s, int init, int arg)
{
  return usigs[s] ? call_str(*usigs[s], init, arg) : call_str(*psigs[s], init, arg);
}

std::string unreg_saw;

// what every live signal would invoke right now (used from inside an unregister function)
std::string sig_calls()
{
  std::string r;
  for (unsigned s = 0; s < max_lists; ++s)
    if (sig_live(s))
      r += (r.empty() ? "S" : ",S") + std::to_string(s) + "=" + call_any(s, 1, 2);
  return r.empty() ? "-" : r;
}

std::string sig_dump()
{
  std::string r;
  for (unsigned s = 0; s < max_lists; ++s)
    if (sig_live(s))
    {
      bool const e = usigs[s] ? usigs[s]->empty() : psigs[s]->empty();
      r += " S" + std::to_string(s) + "=" + call_any(s, 1, 2) + "|" + (e ? "1" : "0");
    }
  std::string u;
  for (auto const &[id, cnt] : unreg_count)
    if (cnt > 0)
      u += (u.empty() ? "" : ",") + std::to_string(id) + ":" + std::to_string(cnt);
  return r + " unreg=" + (u.empty() ? "-" : u);
}

auto make_callback(int f)
{
  return [f](int arg)
  {
    // a runaway iteration must end: the watchdog would catch it, but an exception is cheaper
    if (call_log.size() > walk_cap + 1)
      throw overrun_exc{};
    call_log.push_back(f);
    return cb_fn(f, arg);
  };
}

void reset_all()
{
  // connections and elements first, then their lists (any order is legal; this one is the usual one)
  for (auto &c : conns)
    c.reset();
  for (auto &e : elems)
    e.reset();
  for (auto &l : lists)
    l.reset();
  for (auto &s : usigs)
    s.reset();
  for (auto &s : psigs)
    s.reset();
  unreg_count.clear();
}

bool num(std::string const &s, unsigned lim, unsigned &out)
{
  if (s.empty() || s.size() > 6)
    return false;
  for (char c : s)
    if (c < '0' || c > '9')
      return false;
  out = static_cast<unsigned>(std::stoul(s));
  return out < lim;
}

std::string handle(std::vector<std::string> const &t)
{
  if (t.empty())
    return "bad-op";
  std::string const &o = t[0];
  unsigned a = 0, b = 0, c = 0, d = 0;
  if (o == "reset" && t.size() == 1)
  {
    reset_all();
    return "ok";
  }
  // ---- lists
  if (o == "L" && t.size() == 2 && num(t[1], max_lists, a))
  {
    if (lists[a])
      return "bad-op";
    lists[a] = std::make_unique<list_t>();
    return "ok" + list_dump();
  }
  if (o == "E" && t.size() == 3 && num(t[1], max_elems, a) && num(t[2], max_lists, b))
  {
    if (elems[a] || !lists[b])
      return "bad-op";
    elems[a] = std::make_unique<elem>(*lists[b]);
    return "ok" + list_dump();
  }
  if (o == "d" && t.size() == 2 && num(t[1], max_elems, a))
  {
    if (!elems[a])
      return "bad-op";
    elems[a].reset();
    return "ok" + list_dump();
  }
  if (o == "u" && t.size() == 2 && num(t[1], max_elems, a))
  {
    if (!elems[a])
      return "bad-op";
    elems[a]->unlink();
    return "ok" + list_dump();
  }
  if (o == "M" && t.size() == 3 && num(t[1], max_elems, a) && num(t[2], max_elems, b))
  {
    if (elems[a] || !elems[b])
      return "bad-op";
    elems[a] = std::make_unique<elem>(std::move(*elems[b]));
    return "ok" + list_dump();
  }
  if (o == "A" && t.size() == 3 && num(t[1], max_elems, a) && num(t[2], max_elems, b))
  {
    if (!elems[a] || !elems[b])
      return "bad-op";
    *elems[a] = std::move(*elems[b]);
    return "ok" + list_dump();
  }
  if (o == "LM" && t.size() == 3 && num(t[1], max_lists, a) && num(t[2], max_lists, b))
  {
    if (lists[a] || !lists[b])
      return "bad-op";
    lists[a] = std::make_unique<list_t>(std::move(*lists[b]));
    return "ok" + list_dump();
  }
  if (o == "LA" && t.size() == 3 && num(t[1], max_lists, a) && num(t[2], max_lists, b))
  {
    if (!lists[a] || !lists[b])
      return "bad-op";
    *lists[a] = std::move(*lists[b]);
    return "ok" + list_dump();
  }
  if (o == "LD" && t.size() == 2 && num(t[1], max_lists, a))
  {
    if (!lists[a])
      return "bad-op";
    lists[a].reset();
    return "ok" + list_dump();
  }
  // ---- signals
  if ((o == "SN" || o == "PN") && t.size() == 3 && num(t[1], max_lists, a) && num(t[2], 64, b))
  {
    if (sig_live(a))
      return "bad-op";
    if (o == "SN")
      usigs[a] = std::make_unique<usig_t>(make_combiner<usig_t>(static_cast<int>(b)));
    else
      psigs[a] = std::make_unique<psig_t>(make_combiner<psig_t>(static_cast<int>(b)));
    return "ok" + sig_dump();
  }
  if (o == "SC" && t.size() == 5 && num(t[1], max_elems, a) && num(t[2], max_lists, b) && num(t[3], 100, c) && num(t[4], 64, d))
  {
    if (conns[a] || !usigs[b])
      return "bad-op";
    conns[a].emplace(usigs[b]->connect(
        usig_t::function{make_callback(static_cast<int>(c))}, fcppt::signal::unregister::function{[d]
                                            {
                                              ++unreg_count[d];
                                              // the dying connection must already be out of every signal
                                              unreg_saw = sig_calls();
                                            }}));
    return "ok" + sig_dump();
  }
  if (o == "PC" && t.size() == 4 && num(t[1], max_elems, a) && num(t[2], max_lists, b) && num(t[3], 100, c))
  {
    if (conns[a] || !psigs[b])
      return "bad-op";
    conns[a].emplace(psigs[b]->connect(psig_t::function{make_callback(static_cast<int>(c))}));
    return "ok" + sig_dump();
  }
  if (o == "SX" && t.size() == 2 && num(t[1], max_elems, a))
  {
    if (!conns[a])
      return "bad-op";
    unreg_saw = "-";
    conns[a].reset();
    return "ok" + sig_dump() + " saw=" + unreg_saw;
  }
  if (o == "SM" && t.size() == 3 && num(t[1], max_lists, a) && num(t[2], max_lists, b))
  {
    if (sig_live(a) || !sig_live(b))
      return "bad-op";
    if (usigs[b])
      usigs[a] = std::make_unique<usig_t>(std::move(*usigs[b]));
    else
      psigs[a] = std::make_unique<psig_t>(std::move(*psigs[b]));
    return "ok" + sig_dump();
  }
  if (o == "SA" && t.size() == 3 && num(t[1], max_lists, a) && num(t[2], max_lists, b))
  {
    if (!sig_live(a) || !sig_live(b) || (usigs[a] != nullptr) != (usigs[b] != nullptr))
      return "bad-op";
    if (usigs[a])
      *usigs[a] = std::move(*usigs[b]);
    else
      *psigs[a] = std::move(*psigs[b]);
    return "ok" + sig_dump();
  }
  if (o == "SD" && t.size() == 2 && num(t[1], max_lists, a))
  {
    if (!sig_live(a))
      return "bad-op";
    usigs[a].reset();
    psigs[a].reset();
    return "ok" + sig_dump();
  }
  if (o == "call" && t.size() == 4 && num(t[1], max_lists, a) && num(t[2], 1000, b) && num(t[3], 1000, c))
  {
    if (!sig_live(a))
      return "bad-op";
    return "ok " + call_any(a, static_cast<int>(b), static_cast<int>(c));
  }
  return "bad-op";
}
}

int main()
{
  int const r = vh::run(handle);
  reset_all();
  return r;
}
