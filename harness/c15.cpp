// C15 correspondence harness: runs the real fcppt code (io::read/write, endianness::swap/convert/reverse_mem,
// output_to_string / extract_from_string, enum to_string/from_string/<< />>, math vector/dim << and >>,
// widen/narrow and friends in the C.utf8 locale) on the operation lines described in
// /verif/lean/FcpptModel/Drv/C15.lean and prints the same canonical result lines.
// Byte strings travel as lowercase hex ("-" = empty); floats only as the decimal value of their bit pattern.
#include "common/vh.hpp"

#include <fcppt/endianness/convert.hpp>
#include <fcppt/endianness/reverse_mem.hpp>
#include <fcppt/endianness/swap.hpp>
#include <fcppt/enum/from_string.hpp>
#include <fcppt/enum/input.hpp>
#include <fcppt/enum/names.hpp>
#include <fcppt/enum/output.hpp>
#include <fcppt/enum/to_string.hpp>
#include <fcppt/enum/to_string_impl_fwd.hpp>
#include <fcppt/extract_from_string.hpp>
#include <fcppt/from_std_string_locale.hpp>
#include <fcppt/from_std_wstring_locale.hpp>
#include <fcppt/from_std_wstring.hpp>
#include <fcppt/narrow.hpp>
#include <fcppt/narrow_locale.hpp>
#include <fcppt/to_std_wstring.hpp>
#include <fcppt/widen.hpp>
#include <fcppt/optional_std_string.hpp>
#include <fcppt/optional_string.hpp>
#include <fcppt/string.hpp>
#include <fcppt/to_std_string_locale.hpp>
#include <fcppt/to_std_wstring_locale.hpp>
#include <fcppt/widen_locale.hpp>
#include <fcppt/extract_from_string_locale.hpp>
#include <fcppt/insert_extract_locale.hpp>
#include <fcppt/no_init.hpp>
#include <fcppt/output_to_std_string.hpp>
#include <fcppt/output_to_std_wstring.hpp>
#include <fcppt/output_to_string.hpp>
#include <fcppt/io/read.hpp>
#include <fcppt/math/dim/input.hpp>
#include <fcppt/math/dim/output.hpp>
#include <fcppt/math/dim/static.hpp>
#include <fcppt/math/vector/input.hpp>
#include <fcppt/math/vector/output.hpp>
#include <fcppt/math/vector/static.hpp>
#include <fcppt/io/write.hpp>
#include <fcppt/optional/object_impl.hpp>

#include <bit>
#include <cwchar>
#include <locale>
#include <cstdint>
#include <cstring>
#include <limits>
#include <memory>
#include <optional>
#include <sstream>
#include <stdexcept>
#include <string>
#include <type_traits>
#include <vector>

namespace c15
{
enum class e1 { test1, test2, test3, fcppt_maximum = test3 };
enum class e2 { foo, bar, baz, fo, foobar, fcppt_maximum = foobar };
enum class e3 : unsigned char { a, b, a2, fcppt_maximum = a2 }; // two enumerators share a name
enum class e4 { only, fcppt_maximum = only };
}

namespace fcppt::enum_
{
template <>
struct to_string_impl<c15::e1>
{
  static std::string_view get(c15::e1 const v)
  {
    switch (v)
    {
    case c15::e1::test1: return "test1";
    case c15::e1::test2: return "test2";
    case c15::e1::test3: return "test3";
    }
    return "";
  }
};
template <>
struct to_string_impl<c15::e2>
{
  static std::string_view get(c15::e2 const v)
  {
    switch (v)
    {
    case c15::e2::foo: return "foo";
    case c15::e2::bar: return "bar";
    case c15::e2::baz: return "baz";
    case c15::e2::fo: return "fo";
    case c15::e2::foobar: return "foobar";
    }
    return "";
  }
};
template <>
struct to_string_impl<c15::e3>
{
  static std::string_view get(c15::e3 const v)
  {
    switch (v)
    {
    case c15::e3::a: return "a";
    case c15::e3::b: return "b";
    case c15::e3::a2: return "a";
    }
    return "";
  }
};
template <>
struct to_string_impl<c15::e4>
{
  static std::string_view get(c15::e4) { return "only"; }
};
}

namespace
{
struct bad_op
{
};

// ------------------------------------------------------------------ helpers
std::string hex_of(std::string const &s)
{
  if (s.empty())
    return "-";
  static char const *const d = "0123456789abcdef";
  std::string r;
  for (unsigned char c : s)
  {
    r += d[c >> 4];
    r += d[c & 15];
  }
  return r;
}

int hex_val(char c)
{
  if (c >= '0' && c <= '9')
    return c - '0';
  if (c >= 'a' && c <= 'f')
    return c - 'a' + 10;
  throw bad_op{};
}

std::string parse_hex(std::string const &s)
{
  if (s == "-")
    return {};
  if (s.size() % 2 != 0)
    throw bad_op{};
  std::string r;
  for (std::size_t i = 0; i < s.size(); i += 2)
    r += static_cast<char>(hex_val(s[i]) * 16 + hex_val(s[i + 1]));
  return r;
}

// strict decimal: optional '-', digits, nothing else
bool parse_dec(std::string const &s, bool &neg, unsigned long long &mag)
{
  std::size_t i = 0;
  neg = false;
  if (i < s.size() && s[i] == '-')
  {
    neg = true;
    ++i;
  }
  if (i == s.size())
    return false;
  mag = 0;
  for (; i < s.size(); ++i)
  {
    if (s[i] < '0' || s[i] > '9')
      return false;
    unsigned long long const d = static_cast<unsigned long long>(s[i] - '0');
    if (mag > (std::numeric_limits<unsigned long long>::max() - d) / 10)
      return false;
    mag = mag * 10 + d;
  }
  return true;
}

template <typename I>
I parse_int(std::string const &s)
{
  bool neg = false;
  unsigned long long mag = 0;
  if (!parse_dec(s, neg, mag))
    throw bad_op{};
  if constexpr (std::is_signed_v<I>)
  {
    unsigned long long const maxmag = static_cast<unsigned long long>(std::numeric_limits<I>::max());
    if (neg ? mag > maxmag + 1ULL : mag > maxmag)
      throw bad_op{};
    if (neg)
      return mag == maxmag + 1ULL ? std::numeric_limits<I>::min() : static_cast<I>(-static_cast<long long>(mag));
    return static_cast<I>(mag);
  }
  else
  {
    if ((neg && mag != 0) || mag > static_cast<unsigned long long>(std::numeric_limits<I>::max()))
      throw bad_op{};
    return static_cast<I>(mag);
  }
}

template <typename I>
std::string show_int(I const v)
{
  if constexpr (std::is_signed_v<I>)
    return std::to_string(static_cast<long long>(v));
  else
    return std::to_string(static_cast<unsigned long long>(v));
}

std::endian parse_endian(std::string const &s)
{
  if (s == "L")
    return std::endian::little;
  if (s == "B")
    return std::endian::big;
  throw bad_op{};
}

// ------------------------------------------------------------------ binary part
// T = the arithmetic type handed to fcppt, I = the integer type of its textual form (same for integers,
// the same-width unsigned for float/double: bit patterns only)
template <typename T, typename I>
struct bin
{
  static T from_text(std::string const &s) { return std::bit_cast<T>(parse_int<I>(s)); }
  static std::string text(T const v) { return show_int<I>(std::bit_cast<I>(v)); }
  static std::string opt(fcppt::optional::object<T> const &o) { return o.has_value() ? text(o.get_unsafe()) : std::string{"none"}; }

  static std::string line(std::endian const e, T const v)
  {
    std::stringstream s{std::ios_base::in | std::ios_base::out | std::ios_base::binary};
    fcppt::io::write(s, v, e);
    std::string const w{s.str()};
    fcppt::optional::object<T> const r{fcppt::io::read<T>(s, e)};
    fcppt::optional::object<T> const r2{fcppt::io::read<T>(s, e)};
    T const sw{fcppt::endianness::swap(v)};
    T const ss{fcppt::endianness::swap(sw)};
    T const c{fcppt::endianness::convert(v, e)};
    T const cc{fcppt::endianness::convert(c, e)};
    return "w=" + hex_of(w) + " r=" + opt(r) + " r2=" + opt(r2) + " s=" + text(sw) + " ss=" + text(ss) + " c=" + text(c) +
           " cc=" + text(cc);
  }

  static std::string digest(std::endian const e, std::string const &lo_s, std::string const &n_s)
  {
    I const lo{parse_int<I>(lo_s)};
    unsigned long long const n{parse_int<unsigned long long>(n_s)};
    if (n == 0 || n > (1ULL << 20))
      throw bad_op{};
    // lo + n - 1 must be a value of the type
    if (static_cast<unsigned long long>(std::numeric_limits<I>::max()) - static_cast<unsigned long long>(lo) < n - 1 &&
        !(std::is_signed_v<I> && lo < 0 &&
          n - 1 <= static_cast<unsigned long long>(std::numeric_limits<I>::max()) + static_cast<unsigned long long>(-(lo + 1)) + 1ULL))
      throw bad_op{};
    std::uint64_t h = vh::fnv_init;
    I v{lo};
    for (unsigned long long k = 0; k < n; ++k)
    {
      h = vh::fnv(h, line(e, std::bit_cast<T>(v)));
      if (k + 1 < n)
        ++v;
    }
    return "D " + vh::hex64(h);
  }

  static std::string read_all(std::stringstream &s, std::endian const e, std::size_t const max)
  {
    std::string r;
    for (std::size_t k = 0; k < max; ++k)
    {
      fcppt::optional::object<T> const o{fcppt::io::read<T>(s, e)};
      if (!r.empty())
        r += ',';
      r += opt(o);
      if (!o.has_value())
        break;
    }
    return r;
  }

  static std::string seq(std::endian const e, std::string const &list)
  {
    std::vector<T> vs;
    if (list != "-")
    {
      std::size_t pos = 0;
      while (true)
      {
        std::size_t const next = list.find(',', pos);
        vs.push_back(from_text(list.substr(pos, next == std::string::npos ? next : next - pos)));
        if (next == std::string::npos)
          break;
        pos = next + 1;
      }
    }
    std::stringstream s{std::ios_base::in | std::ios_base::out | std::ios_base::binary};
    for (T const v : vs)
      fcppt::io::write(s, v, e);
    std::string const w{s.str()};
    return "w=" + hex_of(w) + " r=" + read_all(s, e, vs.size() + 1);
  }

  static std::string rd(std::endian const e, std::string const &bytes)
  {
    std::stringstream s{bytes, std::ios_base::in | std::ios_base::out | std::ios_base::binary};
    return read_all(s, e, bytes.size() + 1);
  }

  static std::string handle(std::vector<std::string> const &t)
  {
    if (t[0] == "bin" && t.size() == 4)
      return line(parse_endian(t[2]), from_text(t[3]));
    if (t[0] == "bins" && t.size() == 5)
      return digest(parse_endian(t[2]), t[3], t[4]);
    if (t[0] == "seq" && t.size() == 4)
      return seq(parse_endian(t[2]), t[3]);
    if (t[0] == "rd" && t.size() == 4)
      return rd(parse_endian(t[2]), parse_hex(t[3]));
    throw bad_op{};
  }
};

std::string by_type(std::vector<std::string> const &t)
{
  if (t.size() < 2)
    throw bad_op{};
  std::string const &ty = t[1];
  if (ty == "u8") return bin<std::uint8_t, std::uint8_t>::handle(t);
  if (ty == "i8") return bin<std::int8_t, std::int8_t>::handle(t);
  if (ty == "u16") return bin<std::uint16_t, std::uint16_t>::handle(t);
  if (ty == "i16") return bin<std::int16_t, std::int16_t>::handle(t);
  if (ty == "u32") return bin<std::uint32_t, std::uint32_t>::handle(t);
  if (ty == "i32") return bin<std::int32_t, std::int32_t>::handle(t);
  if (ty == "u64") return bin<std::uint64_t, std::uint64_t>::handle(t);
  if (ty == "i64") return bin<std::int64_t, std::int64_t>::handle(t);
  if (ty == "f32") return bin<float, std::uint32_t>::handle(t);
  if (ty == "f64") return bin<double, std::uint64_t>::handle(t);
  throw bad_op{};
}

std::string revmem(std::string const &bytes)
{
  // exact-size heap buffer: an index outside [0, len) is a redzone hit
  std::unique_ptr<unsigned char[]> const buf{new unsigned char[bytes.size()]};
  if (!bytes.empty())
    std::memcpy(buf.get(), bytes.data(), bytes.size());
  fcppt::endianness::reverse_mem(buf.get(), bytes.size());
  return hex_of(std::string(reinterpret_cast<char const *>(buf.get()), bytes.size()));
}

// ------------------------------------------------------------------ textual part
std::string b01(bool const b) { return b ? "1" : "0"; }

std::wstring widen_bytes(std::string const &s)
{
  std::wstring r;
  for (unsigned char c : s)
    r += static_cast<wchar_t>(c);
  return r;
}

// every code must be a byte, otherwise it can never equal what the model prints
std::string narrow_codes(std::wstring const &s)
{
  std::string r;
  for (wchar_t c : s)
  {
    if (c < 0 || c > 255)
      return "\xff\xff\xffwide";
    r += static_cast<char>(c);
  }
  return r;
}

template <typename D>
struct text
{
  static std::string opt(fcppt::optional::object<D> const &o)
  {
    return o.has_value() ? "some " + show_int<D>(o.get_unsafe()) : std::string{"none"};
  }
  static std::string out(bool const wide, D const v)
  {
    if constexpr (sizeof(D) > 1)
      if (wide)
        return narrow_codes(fcppt::output_to_std_wstring(v));
    // both spellings must agree
    std::string const a{fcppt::output_to_std_string(v)};
    std::string const b{fcppt::output_to_string<std::string>(v)};
    return a == b ? a : "\xff\xff\xffdiffer";
  }
  static fcppt::optional::object<D> in(bool const wide, std::string const &s)
  {
    if constexpr (sizeof(D) > 1)
      if (wide)
        return fcppt::extract_from_string<D>(widen_bytes(s));
    fcppt::optional::object<D> const a{fcppt::extract_from_string<D>(s)};
    fcppt::optional::object<D> const b{fcppt::extract_from_string_locale<D>(s, std::locale::classic())};
    if (a.has_value() != b.has_value() || (a.has_value() && a.get_unsafe() != b.get_unsafe()))
      throw std::logic_error{"extract_from_string and extract_from_string_locale(classic) differ"};
    return a;
  }
  static std::string rtd(bool const wide, D const v)
  {
    std::string const s{out(wide, v)};
    return "s=" + hex_of(s) + " r=" + opt(in(wide, s));
  }
  static std::string handle(std::vector<std::string> const &t)
  {
    if (t[0] == "ots" && t.size() == 3)
      return hex_of(out(false, parse_int<D>(t[2])));
    if (t.size() < 4 || (t[1] != "N" && t[1] != "W"))
      throw bad_op{};
    bool const wide = t[1] == "W";
    if constexpr (sizeof(D) == 1)
      if (wide)
        throw bad_op{}; // character types only through narrow strings
    if (t[0] == "efs" && t.size() == 4)
      return opt(in(wide, parse_hex(t[3])));
    if (t[0] == "rtd" && t.size() == 4)
      return rtd(wide, parse_int<D>(t[3]));
    if (t[0] == "rtds" && t.size() == 5)
    {
      D const lo{parse_int<D>(t[3])};
      unsigned long long const n{parse_int<unsigned long long>(t[4])};
      if (n == 0 || n > (1ULL << 20))
        throw bad_op{};
      std::uint64_t h = vh::fnv_init;
      D v{lo};
      for (unsigned long long k = 0; k < n; ++k)
      {
        h = vh::fnv(h, rtd(wide, v));
        if (k + 1 < n)
        {
          if (v == std::numeric_limits<D>::max())
            throw bad_op{};
          ++v;
        }
      }
      return "D " + vh::hex64(h);
    }
    throw bad_op{};
  }
};

std::string text_by_type(std::vector<std::string> const &t)
{
  std::string const &ty = t[0] == "ots" ? t.at(1) : t.at(2);
  if (ty == "c8") return text<char>::handle(t);
  if (ty == "u8") return text<std::uint8_t>::handle(t);
  if (ty == "i8") return text<std::int8_t>::handle(t);
  if (ty == "u16") return text<std::uint16_t>::handle(t);
  if (ty == "i16") return text<std::int16_t>::handle(t);
  if (ty == "u32") return text<std::uint32_t>::handle(t);
  if (ty == "i32") return text<std::int32_t>::handle(t);
  if (ty == "u64") return text<std::uint64_t>::handle(t);
  if (ty == "i64") return text<std::int64_t>::handle(t);
  throw bad_op{};
}

template <typename E>
struct en
{
  static constexpr unsigned size = static_cast<unsigned>(E::fcppt_maximum) + 1U;
  static std::string opt(fcppt::optional::object<E> const &o)
  {
    return o.has_value() ? std::to_string(static_cast<unsigned>(o.get_unsafe())) : std::string{"none"};
  }
  static std::string line(unsigned const i)
  {
    if (i >= size)
      throw bad_op{};
    E const e{static_cast<E>(i)};
    std::string const ts{fcppt::enum_::to_string(e)};
    // names() must be the table of to_string
    if (std::string{fcppt::enum_::names<E>()[e]} != ts)
      throw std::logic_error{"names"};
    std::ostringstream os{};
    fcppt::enum_::output(os, e);
    std::string const out{os.str()};
    std::istringstream is{out};
    E r{static_cast<E>(size - 1U - i)};
    fcppt::enum_::input(is, r);
    bool const fail = is.fail();
    return "ts=" + hex_of(ts) + " fs=" + opt(fcppt::enum_::from_string<E>(ts)) + " out=" + hex_of(out) +
           " in=" + (fail ? std::string{"none"} : std::to_string(static_cast<unsigned>(r))) + " eof=" + b01(is.eof()) + " fail=" + b01(fail);
  }
  static std::string ein(std::string const &text_)
  {
    std::istringstream is{text_};
    std::string r;
    for (int k = 0; k < 8; ++k)
    {
      E e{E::fcppt_maximum};
      fcppt::enum_::input(is, e);
      if (is.fail())
        break;
      if (!r.empty())
        r += ',';
      r += std::to_string(static_cast<unsigned>(e));
    }
    bool const eof = is.eof();
    bool const fail = is.fail();
    is.clear();
    return (r.empty() ? std::string{"-"} : r) + " eof=" + b01(eof) + " fail=" + b01(fail) + " rest=" + std::to_string(is.rdbuf()->in_avail());
  }
  static std::string handle(std::vector<std::string> const &t)
  {
    if (t[0] == "enum" && t.size() == 3)
      return line(static_cast<unsigned>(parse_int<unsigned>(t[2])));
    if (t[0] == "efrom" && t.size() == 3)
    {
      // exact-size heap copy behind the string_view
      std::string const s{parse_hex(t[2])};
      std::unique_ptr<char[]> const buf{new char[s.size()]};
      if (!s.empty())
        std::memcpy(buf.get(), s.data(), s.size());
      return opt(fcppt::enum_::from_string<E>(std::string_view{buf.get(), s.size()}));
    }
    if (t[0] == "ein" && t.size() == 3)
      return ein(parse_hex(t[2]));
    throw bad_op{};
  }
};

std::string enum_by_id(std::vector<std::string> const &t)
{
  if (t.size() < 3)
    throw bad_op{};
  if (t[1] == "1") return en<c15::e1>::handle(t);
  if (t[1] == "2") return en<c15::e2>::handle(t);
  if (t[1] == "3") return en<c15::e3>::handle(t);
  if (t[1] == "4") return en<c15::e4>::handle(t);
  throw bad_op{};
}

template <typename V, typename T, unsigned N>
struct vecio
{
  static std::string show(std::istringstream &is, V const &v)
  {
    bool const eof = is.eof();
    bool const fail = is.fail();
    std::string r;
    if (fail)
      r = "fail";
    else
      for (unsigned i = 0; i < N; ++i)
        r += (i ? "," : "") + show_int<T>(v.get_unsafe(i));
    is.clear();
    return r + " eof=" + b01(eof) + " fail=" + b01(fail) + " rest=" + std::to_string(is.rdbuf()->in_avail());
  }
  static std::string vin(std::string const &text_)
  {
    std::istringstream is{text_};
    V v{fcppt::no_init{}};
    for (unsigned i = 0; i < N; ++i)
      v.get_unsafe(i) = static_cast<T>(77);
    is >> v;
    return show(is, v);
  }
  static std::string vec(std::string const &list)
  {
    std::vector<long long> const xs{vh::int_list(list)};
    if (xs.size() != N)
      throw bad_op{};
    V v{fcppt::no_init{}};
    for (unsigned i = 0; i < N; ++i)
    {
      if (xs[i] < static_cast<long long>(std::numeric_limits<T>::min()) || xs[i] > static_cast<long long>(std::numeric_limits<T>::max()))
        throw bad_op{};
      v.get_unsafe(i) = static_cast<T>(xs[i]);
    }
    std::ostringstream os{};
    os << v;
    std::string const out{os.str()};
    return "out=" + hex_of(out) + " in=" + vin(out);
  }
  static std::string handle(std::vector<std::string> const &t)
  {
    if (t[0] == "vec")
      return vec(t[3]);
    return vin(parse_hex(t[3]));
  }
};

template <unsigned N>
std::string vec_by_type(std::vector<std::string> const &t)
{
  std::string const &ty = t[1];
  if (ty == "i32") return vecio<fcppt::math::vector::static_<int, N>, int, N>::handle(t);
  if (ty == "i64") return vecio<fcppt::math::vector::static_<long, N>, long, N>::handle(t);
  if (ty == "u16") return vecio<fcppt::math::dim::static_<unsigned short, N>, unsigned short, N>::handle(t);
  if (ty == "u32") return vecio<fcppt::math::dim::static_<unsigned, N>, unsigned, N>::handle(t);
  throw bad_op{};
}

std::string vec_by_size(std::vector<std::string> const &t)
{
  if (t.size() != 4)
    throw bad_op{};
  if (t[2] == "1") return vec_by_type<1>(t);
  if (t[2] == "2") return vec_by_type<2>(t);
  if (t[2] == "3") return vec_by_type<3>(t);
  if (t[2] == "4") return vec_by_type<4>(t);
  throw bad_op{};
}

// ------------------------------------------------------------------ UTF-8 part
std::locale const &utf8()
{
  static std::locale const l{"C.utf8"};
  return l;
}

std::string whex_of(std::wstring const &s)
{
  if (s.empty())
    return "-";
  std::string bytes;
  for (wchar_t const c : s)
  {
    std::uint32_t const u{static_cast<std::uint32_t>(c)};
    bytes += static_cast<char>(u >> 24);
    bytes += static_cast<char>((u >> 16) & 0xFF);
    bytes += static_cast<char>((u >> 8) & 0xFF);
    bytes += static_cast<char>(u & 0xFF);
  }
  return hex_of(bytes);
}

std::wstring parse_whex(std::string const &s)
{
  std::string const b{parse_hex(s)};
  if (b.size() % 4 != 0)
    throw bad_op{};
  std::wstring r;
  for (std::size_t i = 0; i < b.size(); i += 4)
  {
    std::uint32_t const u{(static_cast<std::uint32_t>(static_cast<unsigned char>(b[i])) << 24) |
                          (static_cast<std::uint32_t>(static_cast<unsigned char>(b[i + 1])) << 16) |
                          (static_cast<std::uint32_t>(static_cast<unsigned char>(b[i + 2])) << 8) |
                          static_cast<std::uint32_t>(static_cast<unsigned char>(b[i + 3]))};
    r += static_cast<wchar_t>(u);
  }
  return r;
}

// exact-size heap copies behind the views handed to fcppt
template <typename Ch>
struct exact
{
  explicit exact(std::basic_string<Ch> const &s) : size{s.size()}, buf{new Ch[s.size()]}
  {
    for (std::size_t i = 0; i < size; ++i)
      buf[i] = s[i];
  }
  std::basic_string_view<Ch> view() const { return std::basic_string_view<Ch>{buf.get(), size}; }
  std::size_t size;
  std::unique_ptr<Ch[]> buf;
};

using facet_type = std::codecvt<wchar_t, char, std::mbstate_t>;

char const *res_name(std::codecvt_base::result const r)
{
  switch (r)
  {
  case std::codecvt_base::ok: return "ok";
  case std::codecvt_base::partial: return "partial";
  case std::codecvt_base::error: return "error";
  case std::codecvt_base::noconv: return "noconv";
  }
  return "?";
}

std::string cvt_out(std::size_t const w, std::wstring const &in)
{
  facet_type const &f{std::use_facet<facet_type>(utf8())};
  std::mbstate_t st{};
  std::unique_ptr<char[]> const buf{new char[w]};
  wchar_t const *from_next{nullptr};
  char *to_next{nullptr};
  std::codecvt_base::result const r{f.out(st, in.data(), in.data() + in.size(), from_next, buf.get(), buf.get() + w, to_next)};
  return std::string{res_name(r)} + " consumed=" + std::to_string(from_next - in.data()) + " out=" +
         hex_of(std::string(buf.get(), static_cast<std::size_t>(to_next - buf.get()))) + " init=" +
         (r == std::codecvt_base::error ? "-" : b01(std::mbsinit(&st) != 0));
}

std::string cvt_in(std::size_t const w, std::string const &pending, std::string const &in)
{
  facet_type const &f{std::use_facet<facet_type>(utf8())};
  std::mbstate_t st{};
  if (!pending.empty())
  {
    wchar_t tmp[8];
    char const *fn{nullptr};
    wchar_t *tn{nullptr};
    std::codecvt_base::result const r{f.in(st, pending.data(), pending.data() + pending.size(), fn, tmp, tmp + 8, tn)};
    if (r != std::codecvt_base::ok || fn != pending.data() + pending.size() || tn != tmp || std::mbsinit(&st) != 0)
      throw bad_op{};
  }
  std::unique_ptr<wchar_t[]> const buf{new wchar_t[w]};
  char const *from_next{nullptr};
  wchar_t *to_next{nullptr};
  std::codecvt_base::result const r{f.in(st, in.data(), in.data() + in.size(), from_next, buf.get(), buf.get() + w, to_next)};
  return std::string{res_name(r)} + " consumed=" + std::to_string(from_next - in.data()) + " out=" +
         whex_of(std::wstring(buf.get(), static_cast<std::size_t>(to_next - buf.get()))) + " init=" +
         (r == std::codecvt_base::error ? "-" : b01(std::mbsinit(&st) != 0));
}

// narrow_locale and from_std_wstring_locale (FCPPT_NARROW_STRING) must agree
fcppt::optional_std_string do_narrow(std::wstring const &s)
{
  exact<wchar_t> const e{s};
  fcppt::optional_std_string const a{fcppt::narrow_locale(e.view(), utf8())};
  fcppt::optional_string const b{fcppt::from_std_wstring_locale(e.view(), utf8())};
  if (a.has_value() != b.has_value() || (a.has_value() && a.get_unsafe() != b.get_unsafe()))
    throw std::logic_error{"narrow_locale / from_std_wstring_locale differ"};
  if (a.has_value())
  {
    // to/from fcppt::string are the identity for a narrow fcppt::string
    fcppt::string const fs{fcppt::from_std_string_locale(a.get_unsafe(), utf8())};
    fcppt::optional_std_string const back{fcppt::to_std_string_locale(fs, utf8())};
    if (fs != a.get_unsafe() || !back.has_value() || back.get_unsafe() != a.get_unsafe())
      throw std::logic_error{"from_std_string_locale / to_std_string_locale"};
  }
  return a;
}

std::string show_narrow(fcppt::optional_std_string const &o) { return o.has_value() ? "some " + hex_of(o.get_unsafe()) : std::string{"none"}; }

std::string do_widen(std::string const &s)
{
  exact<char> const e{s};
  std::string a;
  try
  {
    a = "some " + whex_of(fcppt::widen_locale(e.view(), utf8()));
  }
  catch (std::runtime_error const &)
  {
    a = "exc";
  }
  std::string b;
  try
  {
    b = "some " + whex_of(fcppt::to_std_wstring_locale(e.view(), utf8()));
  }
  catch (std::runtime_error const &)
  {
    b = "exc";
  }
  if (a != b)
    throw std::logic_error{"widen_locale / to_std_wstring_locale differ"};
  return a;
}

std::string nw_line(std::wstring const &ws)
{
  fcppt::optional_std_string const n{do_narrow(ws)};
  return "n=" + show_narrow(n) + " w=" + (n.has_value() ? do_widen(n.get_unsafe()) : std::string{"-"});
}

// the overloads without a locale argument use fcppt::string_conv_locale() = std::locale("") = LC_ALL=C.utf8 (set in main)
std::string nwenv_line(std::wstring const &ws)
{
  exact<wchar_t> const e{ws};
  fcppt::optional_std_string const n{fcppt::narrow(e.view())};
  fcppt::optional_string const n2{fcppt::from_std_wstring(e.view())};
  if (n.has_value() != n2.has_value() || (n.has_value() && n.get_unsafe() != n2.get_unsafe()))
    throw std::logic_error{"narrow / from_std_wstring differ"};
  std::string w{"-"};
  if (n.has_value())
  {
    exact<char> const b{n.get_unsafe()};
    try
    {
      std::wstring const w1{fcppt::widen(b.view())};
      std::wstring const w2{fcppt::to_std_wstring(b.view())};
      if (w1 != w2)
        throw std::logic_error{"widen / to_std_wstring differ"};
      w = "some " + whex_of(w1);
    }
    catch (std::runtime_error const &)
    {
      w = "exc";
    }
  }
  return "n=" + show_narrow(n) + " w=" + w;
}

std::string utf_dispatch(std::vector<std::string> const &t)
{
  std::string const &op = t[0];
  if (op == "nwenv" && t.size() == 2)
    return nwenv_line(parse_whex(t[1]));
  if (op == "facet" && t.size() == 1)
  {
    facet_type const &f{std::use_facet<facet_type>(utf8())};
    return std::to_string(f.max_length()) + " " + b01(f.always_noconv());
  }
  if (op == "cvt" && t.size() == 5)
  {
    unsigned long long const w{parse_int<unsigned long long>(t[2])};
    if (w > 4096)
      throw bad_op{};
    if (t[1] == "out" && t[3] == "-")
      return cvt_out(w, parse_whex(t[4]));
    if (t[1] == "in")
      return cvt_in(w, parse_hex(t[3]), parse_hex(t[4]));
    throw bad_op{};
  }
  if (op == "narrow" && t.size() == 2)
    return show_narrow(do_narrow(parse_whex(t[1])));
  if (op == "widen" && t.size() == 2)
    return do_widen(parse_hex(t[1]));
  if (op == "nw" && t.size() == 2)
    return nw_line(parse_whex(t[1]));
  if (op == "nws" && t.size() == 3)
  {
    unsigned long long const lo{parse_int<unsigned long long>(t[1])};
    unsigned long long const n{parse_int<unsigned long long>(t[2])};
    if (n == 0 || n > (1ULL << 20) || lo + n > (1ULL << 32))
      throw bad_op{};
    std::uint64_t h = vh::fnv_init;
    for (unsigned long long c = lo; c < lo + n; ++c)
      h = vh::fnv(h, nw_line(std::wstring(1, static_cast<wchar_t>(static_cast<std::uint32_t>(c)))));
    return "D " + vh::hex64(h);
  }
  throw bad_op{};
}

std::string dispatch(std::vector<std::string> const &t)
{
  if (t.empty())
    throw bad_op{};
  std::string const &op = t[0];
  if (op == "ots" || op == "efs" || op == "rtd" || op == "rtds")
    return text_by_type(t);
  if (op == "enum" || op == "efrom" || op == "ein")
    return enum_by_id(t);
  if (op == "vec" || op == "vin")
    return vec_by_size(t);
  if (op == "facet" || op == "cvt" || op == "narrow" || op == "widen" || op == "nw" || op == "nws" || op == "nwenv")
    return utf_dispatch(t);
  if (op == "native" && t.size() == 1)
    return std::endian::native == std::endian::little ? "little" : std::endian::native == std::endian::big ? "big" : "mixed";
  if (op == "bin" || op == "bins" || op == "seq" || op == "rd")
    return by_type(t);
  if (op == "revmem" && t.size() == 2)
    return revmem(parse_hex(t[1]));
  throw bad_op{};
}

std::string handle(std::vector<std::string> const &t)
{
  try
  {
    return dispatch(t);
  }
  catch (bad_op const &)
  {
    return "bad-op";
  }
  catch (std::bad_alloc const &)
  {
    return "exc:bad_alloc";
  }
  catch (std::logic_error const &)
  {
    return "exc:logic_error";
  }
  catch (std::runtime_error const &)
  {
    return "exc:runtime_error";
  }
  catch (std::exception const &)
  {
    return "exc:std";
  }
  catch (...)
  {
    return "exc:unknown";
  }
}
}

int main()
{
  // fcppt::string_conv_locale() is std::locale(""): make the environment's locale the UTF-8 one
  ::setenv("LC_ALL", "C.utf8", 1);
  return vh::run(handle);
}
