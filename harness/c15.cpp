// C15 correspondence harness: runs the real fcppt code (io::read/write, endianness::swap/convert/reverse_mem,
// output_to_string / extract_from_string, enum to_string/from_string/<< />>, math vector/dim << and >>,
// widen/narrow and friends in the C.utf8 locale) on the operation lines described in
// /verif/lean/FcpptModel/Drv/C15.lean and prints the same canonical result lines.
// Byte strings travel as lowercase hex ("-" = empty); floats only as the decimal value of their bit pattern.
#include "common/vh.hpp"

#include <fcppt/endianness/convert.hpp>
#include <fcppt/endianness/reverse_mem.hpp>
#include <fcppt/endianness/swap.hpp>
#include <fcppt/enum/from_string.hpp>
#include <fcppt/enum/input.hpp>
#include <fcppt/enum/names.hpp>
#include <fcppt/enum/output.hpp>
#include <fcppt/enum/to_string.hpp>
#include <fcppt/enum/to_string_impl_fwd.hpp>
#include <fcppt/extract_from_string.hpp>
#include <fcppt/from_std_string_locale.hpp>
#include <fcppt/from_std_wstring_locale.hpp>
#include <fcppt/from_std_wstring.hpp>
#include <fcppt/narrow.hpp>
#include <fcppt/narrow_locale.hpp>
#include <fcppt/to_std_wstring.hpp>
#include <fcppt/widen.hpp>
#include <fcppt/optional_std_string.hpp>
#include <fcppt/optional_string.hpp>
#include <fcppt/string.hpp>
#include <fcppt/to_std_string_locale.hpp>
#include <fcppt/to_std_wstring_locale.hpp>
#include <fcppt/widen_locale.hpp>
#include <fcppt/extract_from_string_locale.hpp>
#include <fcppt/insert_extract_locale.hpp>
#include <fcppt/no_init.hpp>
#include <fcppt/output_to_std_string.hpp>
#include <fcppt/output_to_std_wstring.hpp>
#include <fcppt/output_to_string.hpp>
#include <fcppt/io/read.hpp>
#include <fcppt/io/read_chars.hpp>
#include <fcppt/io/write_chars.hpp>
#include <fcppt/io/optional_buffer.hpp>
#include <fcppt/io/buffer.hpp>
#include <fcppt/io/get.hpp>
#include <fcppt/io/peek.hpp>
#include <fcppt/io/extract.hpp>
#include <fcppt/io/expect.hpp>
#include <fcppt/from_std_string.hpp>
#include <fcppt/to_std_string.hpp>
#include <fcppt/output_to_fcppt_string.hpp>
#include <fcppt/output_to_string_locale.hpp>
#include <fcppt/output_to_std_string_locale.hpp>
#include <fcppt/string_literal.hpp>
#include <fcppt/char_literal.hpp>
#include <fcppt/enum/array.hpp>
#include <fcppt/enum/array_output.hpp>
#include <fcppt/enum/array_init.hpp>
#include <fcppt/math/matrix/static.hpp>
#include <fcppt/math/matrix/output.hpp>
#include <fcppt/math/dim/input.hpp>
#include <fcppt/math/dim/output.hpp>
#include <fcppt/math/dim/static.hpp>
#include <fcppt/math/vector/input.hpp>
#include <fcppt/math/vector/output.hpp>
#include <fcppt/math/vector/static.hpp>
#include <fcppt/io/write.hpp>
#include <fcppt/optional/object_impl.hpp>

#include <bit>
#include <cwchar>
#include <locale>
#include <cstdint>
#include <cstring>
#include <limits>
#include <memory>
#include <optional>
#include <sstream>
#include <stdexcept>
#include <string>
#include <type_traits>
#include <vector>

namespace c15
{
enum class e1 { test1, test2, test3, fcppt_maximum = test3 };
enum class e2 { foo, bar, baz, fo, foobar, fcppt_maximum = foobar };
enum class e3 : unsigned char { a, b, a2, fcppt_maximum = a2 }; // two enumerators share a name
enum class e4 { only, fcppt_maximum = only };
// an empty name, a blank inside, an embedded NUL, a leading blank, prefixes of each other
enum class e5 { empty, blank, nul, lead, x, a, fcppt_maximum = a };
}

namespace fcppt::enum_
{
template <>
struct to_string_impl<c15::e1>
{
  static std::string_view get(c15::e1 const v)
  {
    switch (v)
    {
    case c15::e1::test1: return "test1";
    case c15::e1::test2: return "test2";
    case c15::e1::test3: return "test3";
    }
    return "";
  }
};
template <>
struct to_string_impl<c15::e2>
{
  static std::string_view get(c15::e2 const v)
  {
    switch (v)
    {
    case c15::e2::foo: return "foo";
    case c15::e2::bar: return "bar";
    case c15::e2::baz: return "baz";
    case c15::e2::fo: return "fo";
    case c15::e2::foobar: return "foobar";
    }
    return "";
  }
};
template <>
struct to_string_impl<c15::e3>
{
  static std::string_view get(c15::e3 const v)
  {
    switch (v)
    {
    case c15::e3::a: return "a";
    case c15::e3::b: return "b";
    case c15::e3::a2: return "a";
    }
    return "";
  }
};
template <>
struct to_string_impl<c15::e4>
{
  static std::string_view get(c15::e4) { return "only"; }
};
template <>
struct to_string_impl<c15::e5>
{
  static std::string_view get(c15::e5 const v)
  {
    switch (v)
    {
    case c15::e5::empty: return "";
    case c15::e5::blank: return "a b";
    case c15::e5::nul: return std::string_view{"x\0y", 3};
    case c15::e5::lead: return " z";
    case c15::e5::x: return "x";
    case c15::e5::a: return "a";
    }
    return "?";
  }
};
}

namespace
{
struct bad_op
{
};

// ------------------------------------------------------------------ helpers
std::string hex_of(std::string const &s)
{
  if (s.empty())
    return "-";
  static char const *const d = "0123456789abcdef";
  std::string r;
  for (unsigned char c : s)
  {
    r += d[c >> 4];
    r += d[c & 15];
  }
  return r;
}

int hex_val(char c)
{
  if (c >= '0' && c <= '9')
    return c - '0';
  if (c >= 'a' && c <= 'f')
    return c - 'a' + 10;
  throw bad_op{};
}

std::string parse_hex(std::string const &s)
{
  if (s == "-")
    return {};
  if (s.size() % 2 != 0)
    throw bad_op{};
  std::string r;
  for (std::size_t i = 0; i < s.size(); i += 2)
    r += static_cast<char>(hex_val(s[i]) * 16 + hex_val(s[i + 1]));
  return r;
}

// strict decimal: optional '-', digits, nothing else
bool parse_dec(std::string const &s, bool &neg, unsigned long long &mag)
{
  std::size_t i = 0;
  neg = false;
  if (i < s.size() && s[i] == '-')
  {
    neg = true;
    ++i;
  }
  if (i == s.size())
    return false;
  mag = 0;
  for (; i < s.size(); ++i)
  {
    if (s[i] < '0' || s[i] > '9')
      return false;
    unsigned long long const d = static_cast<unsigned long long>(s[i] - '0');
    if (mag > (std::numeric_limits<unsigned long long>::max() - d) / 10)
      return false;
    mag = mag * 10 + d;
  }
  return true;
}

template <typename I>
I parse_int(std::string const &s)
{
  bool neg = false;
  unsigned long long mag = 0;
  if (!parse_dec(s, neg, mag))
    throw bad_op{};
  if constexpr (std::is_signed_v<I>)
  {
    unsigned long long const maxmag = static_cast<unsigned long long>(std::numeric_limits<I>::max());
    if (neg ? mag > maxmag + 1ULL : mag > maxmag)
      throw bad_op{};
    if (neg)
      return mag == maxmag + 1ULL ? std::numeric_limits<I>::min() : static_cast<I>(-static_cast<long long>(mag));
    return static_cast<I>(mag);
  }
  else
  {
    if ((neg && mag != 0) || mag > static_cast<unsigned long long>(std::numeric_limits<I>::max()))
      throw bad_op{};
    return static_cast<I>(mag);
  }
}

template <typename I>
std::string show_int(I const v)
{
  if constexpr (std::is_signed_v<I>)
    return std::to_string(static_cast<long long>(v));
  else
    return std::to_string(static_cast<unsigned long long>(v));
}

std::endian parse_endian(std::string const &s)
{
  if (s == "L")
    return std::endian::little;
  if (s == "B")
    return std::endian::big;
  throw bad_op{};
}

std::string b01(bool const b) { return b ? "1" : "0"; }

// exact-size heap copies behind the views handed to fcppt
template <typename Ch>
struct exact
{
  explicit exact(std::basic_string<Ch> const &s) : size{s.size()}, buf{new Ch[s.size()]}
  {
    for (std::size_t i = 0; i < size; ++i)
      buf[i] = s[i];
  }
  std::basic_string_view<Ch> view() const { return std::basic_string_view<Ch>{buf.get(), size}; }
  std::size_t size;
  std::unique_ptr<Ch[]> buf;
};

std::locale const &utf8()
{
  static std::locale const l{"C.utf8"};
  return l;
}

std::string whex_of(std::wstring const &s)
{
  if (s.empty())
    return "-";
  std::string bytes;
  for (wchar_t const c : s)
  {
    std::uint32_t const u{static_cast<std::uint32_t>(c)};
    bytes += static_cast<char>(u >> 24);
    bytes += static_cast<char>((u >> 16) & 0xFF);
    bytes += static_cast<char>((u >> 8) & 0xFF);
    bytes += static_cast<char>(u & 0xFF);
  }
  return hex_of(bytes);
}

std::wstring parse_whex(std::string const &s)
{
  std::string const b{parse_hex(s)};
  if (b.size() % 4 != 0)
    throw bad_op{};
  std::wstring r;
  for (std::size_t i = 0; i < b.size(); i += 4)
  {
    std::uint32_t const u{(static_cast<std::uint32_t>(static_cast<unsigned char>(b[i])) << 24) |
                          (static_cast<std::uint32_t>(static_cast<unsigned char>(b[i + 1])) << 16) |
                          (static_cast<std::uint32_t>(static_cast<unsigned char>(b[i + 2])) << 8) |
                          static_cast<std::uint32_t>(static_cast<unsigned char>(b[i + 3]))};
    r += static_cast<wchar_t>(u);
  }
  return r;
}

// ------------------------------------------------------------------ binary part
// T = the arithmetic type handed to fcppt, I = the integer type of its textual form (same for integers,
// the same-width unsigned for float/double: bit patterns only)
template <typename T, typename I>
struct bin
{
  static T from_text(std::string const &s) { return std::bit_cast<T>(parse_int<I>(s)); }
  static std::string text(T const v) { return show_int<I>(std::bit_cast<I>(v)); }
  static std::string opt(fcppt::optional::object<T> const &o) { return o.has_value() ? text(o.get_unsafe()) : std::string{"none"}; }

  static std::string line(std::endian const e, T const v)
  {
    std::stringstream s{std::ios_base::in | std::ios_base::out | std::ios_base::binary};
    fcppt::io::write(s, v, e);
    std::string const w{s.str()};
    fcppt::optional::object<T> const r{fcppt::io::read<T>(s, e)};
    fcppt::optional::object<T> const r2{fcppt::io::read<T>(s, e)};
    T const sw{fcppt::endianness::swap(v)};
    T const ss{fcppt::endianness::swap(sw)};
    T const c{fcppt::endianness::convert(v, e)};
    T const cc{fcppt::endianness::convert(c, e)};
    return "w=" + hex_of(w) + " r=" + opt(r) + " r2=" + opt(r2) + " s=" + text(sw) + " ss=" + text(ss) + " c=" + text(c) +
           " cc=" + text(cc);
  }

  static std::string digest(std::endian const e, std::string const &lo_s, std::string const &n_s)
  {
    I const lo{parse_int<I>(lo_s)};
    unsigned long long const n{parse_int<unsigned long long>(n_s)};
    if (n == 0 || n > (1ULL << 20))
      throw bad_op{};
    // lo + n - 1 must be a value of the type
    if (static_cast<unsigned long long>(std::numeric_limits<I>::max()) - static_cast<unsigned long long>(lo) < n - 1 &&
        !(std::is_signed_v<I> && lo < 0 &&
          n - 1 <= static_cast<unsigned long long>(std::numeric_limits<I>::max()) + static_cast<unsigned long long>(-(lo + 1)) + 1ULL))
      throw bad_op{};
    std::uint64_t h = vh::fnv_init;
    I v{lo};
    for (unsigned long long k = 0; k < n; ++k)
    {
      h = vh::fnv(h, line(e, std::bit_cast<T>(v)));
      if (k + 1 < n)
        ++v;
    }
    return "D " + vh::hex64(h);
  }

  static std::string read_all(std::stringstream &s, std::endian const e, std::size_t const max)
  {
    std::string r;
    for (std::size_t k = 0; k < max; ++k)
    {
      fcppt::optional::object<T> const o{fcppt::io::read<T>(s, e)};
      if (!r.empty())
        r += ',';
      r += opt(o);
      if (!o.has_value())
        break;
    }
    return r;
  }

  static std::string seq(std::endian const e, std::string const &list)
  {
    std::vector<T> vs;
    if (list != "-")
    {
      std::size_t pos = 0;
      while (true)
      {
        std::size_t const next = list.find(',', pos);
        vs.push_back(from_text(list.substr(pos, next == std::string::npos ? next : next - pos)));
        if (next == std::string::npos)
          break;
        pos = next + 1;
      }
    }
    std::stringstream s{std::ios_base::in | std::ios_base::out | std::ios_base::binary};
    for (T const v : vs)
      fcppt::io::write(s, v, e);
    std::string const w{s.str()};
    return "w=" + hex_of(w) + " r=" + read_all(s, e, vs.size() + 1);
  }

  static std::string rd(std::endian const e, std::string const &bytes)
  {
    std::stringstream s{bytes, std::ios_base::in | std::ios_base::out | std::ios_base::binary};
    return read_all(s, e, bytes.size() + 1);
  }

  static std::string handle(std::vector<std::string> const &t)
  {
    if (t[0] == "bin" && t.size() == 4)
      return line(parse_endian(t[2]), from_text(t[3]));
    if (t[0] == "bins" && t.size() == 5)
      return digest(parse_endian(t[2]), t[3], t[4]);
    if (t[0] == "seq" && t.size() == 4)
      return seq(parse_endian(t[2]), t[3]);
    if (t[0] == "rd" && t.size() == 4)
      return rd(parse_endian(t[2]), parse_hex(t[3]));
    throw bad_op{};
  }
};

template <typename T, typename I>
struct ty_tag
{
  using type = T;
  using int_type = I;
};

// bool: only the two values of the type
struct bool_guard
{
};

template <typename F>
std::string with_type(std::string const &ty, F const &f)
{
  if (ty == "u8") return f(ty_tag<std::uint8_t, std::uint8_t>{});
  if (ty == "i8") return f(ty_tag<std::int8_t, std::int8_t>{});
  if (ty == "u16") return f(ty_tag<std::uint16_t, std::uint16_t>{});
  if (ty == "i16") return f(ty_tag<std::int16_t, std::int16_t>{});
  if (ty == "u32") return f(ty_tag<std::uint32_t, std::uint32_t>{});
  if (ty == "i32") return f(ty_tag<std::int32_t, std::int32_t>{});
  if (ty == "u64") return f(ty_tag<std::uint64_t, std::uint64_t>{});
  if (ty == "i64") return f(ty_tag<std::int64_t, std::int64_t>{});
  if (ty == "f32") return f(ty_tag<float, std::uint32_t>{});
  if (ty == "f64") return f(ty_tag<double, std::uint64_t>{});
  if (ty == "b1") return f(ty_tag<bool, std::uint8_t>{});
  if (ty == "ch") return f(ty_tag<char, std::int8_t>{});
  if (ty == "wc") return f(ty_tag<wchar_t, std::int32_t>{});
  if (ty == "c8t") return f(ty_tag<char8_t, std::uint8_t>{});
  if (ty == "c16") return f(ty_tag<char16_t, std::uint16_t>{});
  if (ty == "c32") return f(ty_tag<char32_t, std::uint32_t>{});
  if (ty == "ll") return f(ty_tag<long long, std::int64_t>{});
  if (ty == "ull") return f(ty_tag<unsigned long long, std::uint64_t>{});
  throw bad_op{};
}

static_assert(sizeof(wchar_t) == 4 && std::is_signed_v<wchar_t> && std::is_signed_v<char> && sizeof(long long) == 8);

// the values of the textual form that are values of the C++ type
void check_values(std::vector<std::string> const &t)
{
  if (t.size() < 2 || t[1] != "b1")
    return;
  if (t[0] == "rd")
    throw bad_op{}; // arbitrary bytes are not values of bool
  if (t[0] == "bin" && t.size() == 4 && t[3] != "0" && t[3] != "1")
    throw bad_op{};
  if (t[0] == "bins" && t.size() == 5 && !((t[3] == "0" && (t[4] == "1" || t[4] == "2")) || (t[3] == "1" && t[4] == "1")))
    throw bad_op{};
  if (t[0] == "seq" && t.size() == 4 && t[3] != "-")
    for (long long const v : vh::int_list(t[3]))
      if (v != 0 && v != 1)
        throw bad_op{};
}

// long double (x87 extended precision): 10 value bytes in a 16-byte object, the 6 padding bytes are indeterminate
// in every copy.  Textual form: the unsigned number of the 80 value bits.  NOT generated by the plugin: see
// notes/C15.md, DEFECT CANDIDATE 4 (swap returns the byte-reversed object by value and loses six value bytes).
static_assert(sizeof(long double) == 16);
std::string f80_text(long double const v)
{
  unsigned char b[16];
  std::memcpy(b, &v, 16);
  unsigned __int128 x = 0;
  for (int i = 9; i >= 0; --i)
    x = (x << 8) | b[i];
  if (x == 0)
    return "0";
  std::string r;
  while (x != 0)
  {
    r.insert(r.begin(), static_cast<char>('0' + static_cast<int>(x % 10)));
    x /= 10;
  }
  return r;
}

std::string f80_line(std::vector<std::string> const &t)
{
  if (t[0] != "bin" || t.size() != 4)
    throw bad_op{};
  std::endian const e{parse_endian(t[2])};
  unsigned __int128 x = 0;
  if (t[3].empty() || t[3].size() > 25)
    throw bad_op{};
  for (char const c : t[3])
  {
    if (c < '0' || c > '9')
      throw bad_op{};
    x = x * 10 + static_cast<unsigned>(c - '0');
  }
  if ((x >> 80) != 0)
    throw bad_op{};
  unsigned char b[16] = {};
  for (int i = 0; i < 10; ++i)
    b[i] = static_cast<unsigned char>((x >> (8 * i)) & 0xFF);
  long double v;
  std::memcpy(&v, b, 16);
  std::stringstream s{std::ios_base::in | std::ios_base::out | std::ios_base::binary};
  fcppt::io::write(s, v, e);
  std::string w{s.str()};
  if (w.size() == 16)
    for (std::size_t i = 0; i < 6; ++i)
      w[e == std::endian::native ? 10 + i : i] = '\0'; // padding
  fcppt::optional::object<long double> const r{fcppt::io::read<long double>(s, e)};
  fcppt::optional::object<long double> const r2{fcppt::io::read<long double>(s, e)};
  auto const opt = [](fcppt::optional::object<long double> const &o) { return o.has_value() ? f80_text(o.get_unsafe()) : std::string{"none"}; };
  // swap itself is byte-order independent and belongs to the non-native case: it is only printed there
  return "w=" + hex_of(w) + " r=" + opt(r) + " r2=" + opt(r2) +
         (e == std::endian::native ? std::string{} : " ss=" + f80_text(fcppt::endianness::swap(fcppt::endianness::swap(v)))) +
         " cc=" + f80_text(fcppt::endianness::convert(fcppt::endianness::convert(v, e), e));
}

std::string by_type(std::vector<std::string> const &t)
{
  if (t.size() < 2)
    throw bad_op{};
  if (t[1] == "f80")
    return f80_line(t);
  check_values(t);
  return with_type(t[1], [&t](auto const tag) {
    using tag_type = decltype(tag);
    return bin<typename tag_type::type, typename tag_type::int_type>::handle(t);
  });
}

// ---- steps on ONE std::stringstream: io::write, io::read, io::write_chars, io::read_chars, peek, clear
std::vector<std::string> split(std::string const &s, char const sep)
{
  std::vector<std::string> r;
  std::size_t pos = 0;
  while (true)
  {
    std::size_t const next = s.find(sep, pos);
    r.push_back(s.substr(pos, next == std::string::npos ? next : next - pos));
    if (next == std::string::npos)
      break;
    pos = next + 1;
  }
  return r;
}

std::string bst(std::string const &steps)
{
  std::stringstream s{std::ios_base::in | std::ios_base::out | std::ios_base::binary};
  std::string out;
  for (std::string const &step : split(steps, ','))
  {
    std::vector<std::string> const p{split(step, '.')};
    std::string o;
    if (p[0] == "w" && p.size() == 4)
    {
      if (p[1] == "b1" && p[3] != "0" && p[3] != "1")
        throw bad_op{};
      std::endian const e{parse_endian(p[2])};
      o = with_type(p[1], [&](auto const tag) {
        using tag_type = decltype(tag);
        fcppt::io::write(s, bin<typename tag_type::type, typename tag_type::int_type>::from_text(p[3]), e);
        return std::string{"w"};
      });
    }
    else if (p[0] == "r" && p.size() == 3)
    {
      if (p[1] == "b1")
        throw bad_op{};
      std::endian const e{parse_endian(p[2])};
      o = with_type(p[1], [&](auto const tag) {
        using tag_type = decltype(tag);
        using b = bin<typename tag_type::type, typename tag_type::int_type>;
        return "r=" + b::opt(fcppt::io::read<typename tag_type::type>(s, e));
      });
    }
    else if (p[0] == "wc" && p.size() == 2)
    {
      exact<char> const data{parse_hex(p[1])};
      o = "wc=" + b01(fcppt::io::write_chars(s, data.buf.get(), data.size));
    }
    else if (p[0] == "rc" && p.size() == 2)
    {
      unsigned long long const n{parse_int<unsigned long long>(p[1])};
      if (n > 64)
        throw bad_op{};
      fcppt::io::optional_buffer const r{fcppt::io::read_chars(s, static_cast<std::size_t>(n))};
      o = "rc=" + (r.has_value() ? hex_of(std::string(r.get_unsafe().begin(), r.get_unsafe().end())) : std::string{"none"});
    }
    else if (p[0] == "p" && p.size() == 1)
    {
      fcppt::optional::object<char> const r{fcppt::io::peek(s)};
      o = "p=" + (r.has_value() ? std::to_string(static_cast<unsigned>(static_cast<unsigned char>(r.get_unsafe()))) : std::string{"none"});
    }
    else if (p[0] == "c" && p.size() == 1)
    {
      s.clear();
      o = "c";
    }
    else
      throw bad_op{};
    if (!out.empty())
      out += ';';
    out += o + " e" + b01(s.eof()) + "f" + b01(s.fail());
  }
  s.clear();
  std::string rest;
  for (int c = s.get(); c != std::char_traits<char>::eof() && rest.size() < 4096; c = s.get())
    rest += static_cast<char>(c);
  return out + "|rest=" + hex_of(rest);
}

std::string revmem(std::string const &bytes)
{
  // exact-size heap buffer: an index outside [0, len) is a redzone hit
  std::unique_ptr<unsigned char[]> const buf{new unsigned char[bytes.size()]};
  if (!bytes.empty())
    std::memcpy(buf.get(), bytes.data(), bytes.size());
  fcppt::endianness::reverse_mem(buf.get(), bytes.size());
  return hex_of(std::string(reinterpret_cast<char const *>(buf.get()), bytes.size()));
}

// ------------------------------------------------------------------ textual part

std::wstring widen_bytes(std::string const &s)
{
  std::wstring r;
  for (unsigned char c : s)
    r += static_cast<wchar_t>(c);
  return r;
}

// every code must be a byte, otherwise it can never equal what the model prints
std::string narrow_codes(std::wstring const &s)
{
  std::string r;
  for (wchar_t c : s)
  {
    if (c < 0 || c > 255)
      return "\xff\xff\xffwide";
    r += static_cast<char>(c);
  }
  return r;
}

template <typename D>
struct text
{
  static std::string opt(fcppt::optional::object<D> const &o)
  {
    return o.has_value() ? "some " + show_int<D>(o.get_unsafe()) : std::string{"none"};
  }
  static std::string out(bool const wide, D const v)
  {
    if constexpr (sizeof(D) > 1)
      if (wide)
        return narrow_codes(fcppt::output_to_std_wstring(v));
    // both spellings must agree
    std::string const a{fcppt::output_to_std_string(v)};
    std::string const b{fcppt::output_to_string<std::string>(v)};
    return a == b ? a : "\xff\xff\xffdiffer";
  }
  static fcppt::optional::object<D> in(bool const wide, std::string const &s)
  {
    if constexpr (sizeof(D) > 1)
      if (wide)
        return fcppt::extract_from_string<D>(widen_bytes(s));
    fcppt::optional::object<D> const a{fcppt::extract_from_string<D>(s)};
    fcppt::optional::object<D> const b{fcppt::extract_from_string_locale<D>(s, std::locale::classic())};
    if (a.has_value() != b.has_value() || (a.has_value() && a.get_unsafe() != b.get_unsafe()))
      throw std::logic_error{"extract_from_string and extract_from_string_locale(classic) differ"};
    return a;
  }
  static std::string rtd(bool const wide, D const v)
  {
    std::string const s{out(wide, v)};
    return "s=" + hex_of(s) + " r=" + opt(in(wide, s));
  }
  static std::string handle(std::vector<std::string> const &t)
  {
    if (t[0] == "ots" && t.size() == 3)
      return hex_of(out(false, parse_int<D>(t[2])));
    if (t.size() < 4 || (t[1] != "N" && t[1] != "W"))
      throw bad_op{};
    bool const wide = t[1] == "W";
    if constexpr (sizeof(D) == 1)
      if (wide)
        throw bad_op{}; // character types only through narrow strings
    if (t[0] == "efs" && t.size() == 4)
      return opt(in(wide, parse_hex(t[3])));
    if (t[0] == "rtd" && t.size() == 4)
      return rtd(wide, parse_int<D>(t[3]));
    if (t[0] == "rtds" && t.size() == 5)
    {
      D const lo{parse_int<D>(t[3])};
      unsigned long long const n{parse_int<unsigned long long>(t[4])};
      if (n == 0 || n > (1ULL << 20))
        throw bad_op{};
      std::uint64_t h = vh::fnv_init;
      D v{lo};
      for (unsigned long long k = 0; k < n; ++k)
      {
        h = vh::fnv(h, rtd(wide, v));
        if (k + 1 < n)
        {
          if (v == std::numeric_limits<D>::max())
            throw bad_op{};
          ++v;
        }
      }
      return "D " + vh::hex64(h);
    }
    throw bad_op{};
  }
};

std::string text_by_type(std::vector<std::string> const &t)
{
  std::string const &ty = t[0] == "ots" ? t.at(1) : t.at(2);
  if (ty == "c8") return text<char>::handle(t);
  if (ty == "u8") return text<std::uint8_t>::handle(t);
  if (ty == "i8") return text<std::int8_t>::handle(t);
  if (ty == "u16") return text<std::uint16_t>::handle(t);
  if (ty == "i16") return text<std::int16_t>::handle(t);
  if (ty == "u32") return text<std::uint32_t>::handle(t);
  if (ty == "i32") return text<std::int32_t>::handle(t);
  if (ty == "u64") return text<std::uint64_t>::handle(t);
  if (ty == "i64") return text<std::int64_t>::handle(t);
  throw bad_op{};
}

// narrow text <-> stream text of the character type Ch (wide: one character per code)
template <typename Ch>
std::basic_string<Ch> to_stream_text(std::string const &s)
{
  std::basic_string<Ch> r;
  for (unsigned char c : s)
    r += static_cast<Ch>(c);
  return r;
}

template <typename Ch>
std::string from_stream_text(std::basic_string<Ch> const &s)
{
  if constexpr (std::is_same_v<Ch, char>)
    return s;
  else
    return narrow_codes(s);
}

template <typename E>
struct en
{
  static constexpr unsigned size = static_cast<unsigned>(E::fcppt_maximum) + 1U;
  static std::string opt(fcppt::optional::object<E> const &o)
  {
    return o.has_value() ? std::to_string(static_cast<unsigned>(o.get_unsafe())) : std::string{"none"};
  }
  template <typename Ch>
  static std::string line(unsigned const i)
  {
    if (i >= size)
      throw bad_op{};
    E const e{static_cast<E>(i)};
    std::string const ts{fcppt::enum_::to_string(e)};
    // names() must be the table of to_string
    if (std::string{fcppt::enum_::names<E>()[e]} != ts)
      throw std::logic_error{"names"};
    // the view returned by to_string handed straight back (it points into the storage the search compares against)
    if (opt(fcppt::enum_::from_string<E>(fcppt::enum_::to_string(e))) != opt(fcppt::enum_::from_string<E>(ts)))
      throw std::logic_error{"from_string on the view of to_string"};
    std::basic_ostringstream<Ch> os{};
    fcppt::enum_::output(os, e);
    std::basic_string<Ch> const out{os.str()};
    std::basic_istringstream<Ch> is{out};
    E r{static_cast<E>(size - 1U - i)};
    fcppt::enum_::input(is, r);
    bool const fail = is.fail();
    return "ts=" + hex_of(ts) + " fs=" + opt(fcppt::enum_::from_string<E>(ts)) + " out=" + hex_of(from_stream_text(out)) +
           " in=" + (fail ? std::string{"none"} : std::to_string(static_cast<unsigned>(r))) + " var=" + std::to_string(static_cast<unsigned>(r)) +
           " eof=" + b01(is.eof()) + " fail=" + b01(fail);
  }
  template <typename Ch>
  static std::string ein(std::basic_string<Ch> const &text_)
  {
    std::basic_istringstream<Ch> is{text_};
    std::string r;
    std::string var{"-"};
    for (int k = 0; k < 8; ++k)
    {
      E e{E::fcppt_maximum};
      fcppt::enum_::input(is, e);
      var = std::to_string(static_cast<unsigned>(e));
      if (is.fail())
        break;
      if (!r.empty())
        r += ',';
      r += std::to_string(static_cast<unsigned>(e));
    }
    bool const eof = is.eof();
    bool const fail = is.fail();
    is.clear();
    return (r.empty() ? std::string{"-"} : r) + " var=" + var + " eof=" + b01(eof) + " fail=" + b01(fail) + " rest=" + std::to_string(is.rdbuf()->in_avail());
  }
  static std::string earr(std::string const &list)
  {
    std::vector<long long> const xs{vh::int_list(list)};
    if (xs.size() != size)
      throw bad_op{};
    for (unsigned i = 0; i < size; ++i)
      if (xs[i] < std::numeric_limits<int>::min() || xs[i] > std::numeric_limits<int>::max())
        throw bad_op{};
    fcppt::enum_::array<E, int> const arr{fcppt::enum_::array_init<fcppt::enum_::array<E, int>>(
        [&xs]<E Index>(std::integral_constant<E, Index>) { return static_cast<int>(xs[static_cast<std::size_t>(Index)]); })};
    std::ostringstream os{};
    os << arr;
    std::wostringstream wos{};
    wos << arr;
    if (narrow_codes(wos.str()) != os.str())
      throw std::logic_error{"enum array output: wide and narrow differ"};
    return hex_of(os.str());
  }
  static std::string handle(std::vector<std::string> const &t)
  {
    if (t[0] == "enum" && t.size() == 3)
      return line<char>(static_cast<unsigned>(parse_int<unsigned>(t[2])));
    if (t[0] == "enumw" && t.size() == 3)
      return line<wchar_t>(static_cast<unsigned>(parse_int<unsigned>(t[2])));
    if (t[0] == "efrom" && t.size() == 3)
    {
      // exact-size heap copy behind the string_view
      exact<char> const s{parse_hex(t[2])};
      return opt(fcppt::enum_::from_string<E>(s.view()));
    }
    if (t[0] == "ein" && t.size() == 3)
      return ein<char>(parse_hex(t[2]));
    if (t[0] == "einw" && t.size() == 3)
      return ein<wchar_t>(parse_whex(t[2]));
    if (t[0] == "earr" && t.size() == 3)
      return earr(t[2]);
    throw bad_op{};
  }
};

std::string enum_by_id(std::vector<std::string> const &t)
{
  if (t.size() < 3)
    throw bad_op{};
  if (t[1] == "1") return en<c15::e1>::handle(t);
  if (t[1] == "2") return en<c15::e2>::handle(t);
  if (t[1] == "3") return en<c15::e3>::handle(t);
  if (t[1] == "4") return en<c15::e4>::handle(t);
  if (t[1] == "5") return en<c15::e5>::handle(t);
  throw bad_op{};
}

template <typename V, typename T, unsigned N>
struct vecio
{
  // the N elements afterwards (77 = the initial content), the state, the unread characters
  template <typename Ch>
  static std::string show(std::basic_istringstream<Ch> &is, V const &v)
  {
    bool const eof = is.eof();
    bool const fail = is.fail();
    std::string r;
    for (unsigned i = 0; i < N; ++i)
      r += (i ? "," : "") + show_int<T>(v.get_unsafe(i));
    is.clear();
    return r + " eof=" + b01(eof) + " fail=" + b01(fail) + " rest=" + std::to_string(is.rdbuf()->in_avail());
  }
  static V fresh()
  {
    V v{fcppt::no_init{}};
    for (unsigned i = 0; i < N; ++i)
      v.get_unsafe(i) = static_cast<T>(77);
    return v;
  }
  template <typename Ch>
  static std::string vin(std::string const &text_)
  {
    std::basic_istringstream<Ch> is{to_stream_text<Ch>(text_)};
    V v{fresh()};
    is >> v;
    return show(is, v);
  }
  static std::string vinm(std::string const &text_)
  {
    std::istringstream is{text_};
    std::string r;
    for (int k = 0; k < 4; ++k)
    {
      V v{fresh()};
      is >> v;
      bool const eof = is.eof();
      bool const fail = is.fail();
      if (!r.empty())
        r += ';';
      r += show(is, v); // clears the state
      if (fail)
        break;
      if (eof)
        is.setstate(std::ios_base::eofbit);
    }
    return r;
  }
  template <typename Ch>
  static std::string vec(std::string const &list)
  {
    std::vector<long long> const xs{vh::int_list(list)};
    if (xs.size() != N)
      throw bad_op{};
    V v{fcppt::no_init{}};
    for (unsigned i = 0; i < N; ++i)
    {
      if (xs[i] < static_cast<long long>(std::numeric_limits<T>::min()) || xs[i] > static_cast<long long>(std::numeric_limits<T>::max()))
        throw bad_op{};
      v.get_unsafe(i) = static_cast<T>(xs[i]);
    }
    std::basic_ostringstream<Ch> os{};
    os << v;
    std::string const out{from_stream_text(os.str())};
    return "out=" + hex_of(out) + " in=" + vin<Ch>(out);
  }
  static std::string handle(std::vector<std::string> const &t)
  {
    if (t[0] == "vec")
      return vec<char>(t[3]);
    if (t[0] == "vecw")
      return vec<wchar_t>(t[3]);
    if (t[0] == "vin")
      return vin<char>(parse_hex(t[3]));
    if (t[0] == "vinw")
      return vin<wchar_t>(parse_hex(t[3]));
    if (t[0] == "vinm")
      return vinm(parse_hex(t[3]));
    throw bad_op{};
  }
};

template <unsigned N>
std::string vec_by_type(std::vector<std::string> const &t)
{
  std::string const &ty = t[1];
  if (ty == "i32") return vecio<fcppt::math::vector::static_<int, N>, int, N>::handle(t);
  if (ty == "i64") return vecio<fcppt::math::vector::static_<long, N>, long, N>::handle(t);
  if (ty == "u16") return vecio<fcppt::math::dim::static_<unsigned short, N>, unsigned short, N>::handle(t);
  if (ty == "u32") return vecio<fcppt::math::dim::static_<unsigned, N>, unsigned, N>::handle(t);
  throw bad_op{};
}

std::string vec_by_size(std::vector<std::string> const &t)
{
  if (t.size() != 4)
    throw bad_op{};
  if (t[2] == "1") return vec_by_type<1>(t);
  if (t[2] == "2") return vec_by_type<2>(t);
  if (t[2] == "3") return vec_by_type<3>(t);
  if (t[2] == "4") return vec_by_type<4>(t);
  throw bad_op{};
}

// matrix output: narrow and wide must agree
template <typename T, unsigned R, unsigned C>
std::string mat_out(std::vector<long long> const &xs)
{
  fcppt::math::matrix::static_<T, R, C> m{fcppt::no_init{}};
  for (unsigned r = 0; r < R; ++r)
    for (unsigned c = 0; c < C; ++c)
    {
      long long const x{xs[r * C + c]};
      if (x < static_cast<long long>(std::numeric_limits<T>::min()) || x > static_cast<long long>(std::numeric_limits<T>::max()))
        throw bad_op{};
      m.get_unsafe(r).get_unsafe(c) = static_cast<T>(x);
    }
  std::ostringstream os{};
  os << m;
  std::wostringstream wos{};
  wos << m;
  if (narrow_codes(wos.str()) != os.str())
    throw std::logic_error{"matrix output: wide and narrow differ"};
  return hex_of(os.str());
}

template <typename T>
std::string mat_by_size(unsigned const r, unsigned const c, std::vector<long long> const &xs)
{
  switch (r * 10 + c)
  {
  case 11: return mat_out<T, 1, 1>(xs);
  case 12: return mat_out<T, 1, 2>(xs);
  case 13: return mat_out<T, 1, 3>(xs);
  case 21: return mat_out<T, 2, 1>(xs);
  case 22: return mat_out<T, 2, 2>(xs);
  case 23: return mat_out<T, 2, 3>(xs);
  case 31: return mat_out<T, 3, 1>(xs);
  case 32: return mat_out<T, 3, 2>(xs);
  case 33: return mat_out<T, 3, 3>(xs);
  default: throw bad_op{};
  }
}

std::string mat(std::vector<std::string> const &t)
{
  if (t.size() != 5)
    throw bad_op{};
  unsigned const r{parse_int<unsigned>(t[2])};
  unsigned const c{parse_int<unsigned>(t[3])};
  std::vector<long long> const xs{vh::int_list(t[4])};
  if (r < 1 || r > 3 || c < 1 || c > 3 || xs.size() != r * c)
    throw bad_op{};
  if (t[1] == "i32") return mat_by_size<int>(r, c, xs);
  if (t[1] == "i64") return mat_by_size<long>(r, c, xs);
  if (t[1] == "u16") return mat_by_size<unsigned short>(r, c, xs);
  if (t[1] == "u32") return mat_by_size<unsigned>(r, c, xs);
  throw bad_op{};
}

// ---- extract_from_string / output_to_string for bool and strings
template <typename Ch>
std::string str_text(std::basic_string<Ch> const &s)
{
  if constexpr (std::is_same_v<Ch, char>)
    return hex_of(s);
  else
    return whex_of(s);
}

template <typename Ch>
std::string efb(std::string const &text_)
{
  fcppt::optional::object<bool> const r{fcppt::extract_from_string<bool>(to_stream_text<Ch>(text_))};
  return r.has_value() ? "some " + b01(r.get_unsafe()) : std::string{"none"};
}

template <typename Ch>
std::string rtb(bool const v)
{
  std::basic_string<Ch> const s{fcppt::output_to_string<std::basic_string<Ch>>(v)};
  fcppt::optional::object<bool> const r{fcppt::extract_from_string<bool>(s)};
  return "s=" + hex_of(from_stream_text(s)) + " r=" + (r.has_value() ? "some " + b01(r.get_unsafe()) : std::string{"none"});
}

template <typename Ch>
std::string efstr(std::basic_string<Ch> const &text_, bool const round)
{
  std::basic_string<Ch> const s{round ? fcppt::output_to_string<std::basic_string<Ch>>(text_) : text_};
  fcppt::optional::object<std::basic_string<Ch>> const r{fcppt::extract_from_string<std::basic_string<Ch>>(s)};
  std::string const rs{r.has_value() ? "some " + str_text(r.get_unsafe()) : std::string{"none"}};
  return round ? "s=" + str_text(s) + " r=" + rs : rs;
}

// ---- locales other than the classic one: is the locale argument really imbued?
struct group3 : std::numpunct<char>
{
  char do_thousands_sep() const override { return ','; }
  std::string do_grouping() const override { return "\3"; }
};

std::locale const &grouping_locale()
{
  static std::locale const l{std::locale::classic(), new group3{}};
  return l;
}

struct x_is_space : std::ctype<char>
{
  static mask const *make_table()
  {
    static std::vector<mask> t(classic_table(), classic_table() + table_size);
    t['x'] |= space;
    return t.data();
  }
  x_is_space() : std::ctype<char>{make_table()} {}
};

std::locale const &x_space_locale()
{
  static std::locale const l{std::locale::classic(), new x_is_space{}};
  return l;
}

template <typename D>
std::string otsl(D const v)
{
  std::string const s{fcppt::output_to_string_locale<std::string>(v, grouping_locale())};
  if (s != fcppt::output_to_std_string_locale(v, grouping_locale()))
    throw std::logic_error{"output_to_string_locale / output_to_std_string_locale differ"};
  return "s=" + hex_of(s) + " r=" + text<D>::opt(fcppt::extract_from_string_locale<D>(s, grouping_locale()));
}

template <typename D>
std::string efsx(std::string const &text_)
{
  return text<D>::opt(fcppt::extract_from_string_locale<D>(text_, x_space_locale()));
}

template <typename F>
std::string with_num(std::string const &ty, F const &f)
{
  if (ty == "u16") return f(std::uint16_t{});
  if (ty == "i16") return f(std::int16_t{});
  if (ty == "u32") return f(std::uint32_t{});
  if (ty == "i32") return f(std::int32_t{});
  if (ty == "u64") return f(std::uint64_t{});
  if (ty == "i64") return f(std::int64_t{});
  throw bad_op{};
}

// ---- steps on ONE input stream through fcppt::io::get / peek / extract / expect
template <typename Ch>
std::string tst(std::basic_string<Ch> const &text_, std::string const &steps)
{
  std::basic_istringstream<Ch> is{text_};
  std::string out;
  for (std::string const &step : split(steps, ','))
  {
    std::string o;
    auto const optc = [](fcppt::optional::object<Ch> const &r) {
      if (!r.has_value())
        return std::string{"none"};
      if constexpr (std::is_same_v<Ch, char>)
        return std::to_string(static_cast<unsigned>(static_cast<unsigned char>(r.get_unsafe())));
      else
        return std::to_string(static_cast<std::uint32_t>(r.get_unsafe()));
    };
    if (step == "g")
      o = "g=" + optc(fcppt::io::get(is));
    else if (step == "p")
      o = "p=" + optc(fcppt::io::peek(is));
    else if (step == "c")
    {
      is.clear();
      o = "c";
    }
    else if (step == "xc")
    {
      fcppt::optional::object<Ch> const r{fcppt::io::extract<Ch>(is)};
      if constexpr (std::is_same_v<Ch, char>)
        o = "xc=" + (r.has_value() ? std::to_string(static_cast<int>(r.get_unsafe())) : std::string{"none"});
      else
        o = "xc=" + optc(r);
    }
    else if (step == "xs")
    {
      fcppt::optional::object<std::basic_string<Ch>> const r{fcppt::io::extract<std::basic_string<Ch>>(is)};
      o = "xs=" + (r.has_value() ? "some " + str_text(r.get_unsafe()) : std::string{"none"});
    }
    else if (step == "xb")
    {
      fcppt::optional::object<bool> const r{fcppt::io::extract<bool>(is)};
      o = "xb=" + (r.has_value() ? "some " + b01(r.get_unsafe()) : std::string{"none"});
    }
    else if (step == "n3" || step == "n5")
    {
      // fcppt::enum_::input in the middle of other traffic; the variable is printed whether or not it was assigned
      auto const run = [&is]<typename E>(E init) {
        E e{init};
        fcppt::enum_::input(is, e);
        return std::to_string(static_cast<unsigned>(e));
      };
      o = step + "=" + (step == "n3" ? run(c15::e3::b) : run(c15::e5::lead));
    }
    else if (step == "v1" || step == "v2")
    {
      auto const run = [&is]<unsigned N>(std::integral_constant<unsigned, N>) {
        fcppt::math::vector::static_<int, N> v{fcppt::no_init{}};
        for (unsigned i = 0; i < N; ++i)
          v.get_unsafe(i) = 77;
        is >> v;
        std::string r;
        for (unsigned i = 0; i < N; ++i)
          r += (i ? "," : "") + std::to_string(v.get_unsafe(i));
        return r;
      };
      o = step + "=" + (step == "v1" ? run(std::integral_constant<unsigned, 1>{}) : run(std::integral_constant<unsigned, 2>{}));
    }
    else if (step.size() > 1 && step[0] == 'x')
      o = with_num(step.substr(1), [&](auto const z) {
        using D = std::remove_cv_t<decltype(z)>;
        fcppt::optional::object<D> const r{fcppt::io::extract<D>(is)};
        return step + "=" + (r.has_value() ? show_int<D>(r.get_unsafe()) : std::string{"none"});
      });
    else if (step.size() == 3 && step[0] == 'e')
    {
      std::string const c{parse_hex(step.substr(1))};
      fcppt::io::expect(is, static_cast<Ch>(static_cast<unsigned char>(c.at(0))));
      o = "e";
    }
    else
      throw bad_op{};
    if (!out.empty())
      out += ';';
    out += o + " e" + b01(is.eof()) + "f" + b01(is.fail());
  }
  is.clear();
  return out + "|rest=" + std::to_string(is.rdbuf()->in_avail());
}

// ---- float / double through decimal text: NOT modelled in Lean (printf %g / strtod are library code); judged by the
// plugin's own exact-rational oracle in extra_checks
template <typename F, typename I>
std::string rtf(std::string const &op, std::string const &arg)
{
  auto const show = [](fcppt::optional::object<F> const &r) {
    return r.has_value() ? std::to_string(static_cast<unsigned long long>(std::bit_cast<I>(r.get_unsafe()))) : std::string{"none"};
  };
  if (op == "eff")
    return show(fcppt::extract_from_string<F>(parse_hex(arg)));
  F const v{std::bit_cast<F>(parse_int<I>(arg))};
  std::string const s{fcppt::output_to_std_string(v)};
  if (narrow_codes(fcppt::output_to_std_wstring(v)) != s)
    throw std::logic_error{"float output: wide and narrow differ"};
  return "s=" + hex_of(s) + " r=" + show(fcppt::extract_from_string<F>(s));
}

std::string text_ext(std::vector<std::string> const &t)
{
  std::string const &op = t[0];
  if ((op == "rtf" || op == "eff") && t.size() == 3)
  {
    if (t[1] == "f32") return rtf<float, std::uint32_t>(op, t[2]);
    if (t[1] == "f64") return rtf<double, std::uint64_t>(op, t[2]);
    throw bad_op{};
  }
  auto const wide = [&t]() {
    if (t.at(1) == "N") return false;
    if (t.at(1) == "W") return true;
    throw bad_op{};
  };
  if (op == "efb" && t.size() == 3)
    return wide() ? efb<wchar_t>(parse_hex(t[2])) : efb<char>(parse_hex(t[2]));
  if (op == "rtb" && t.size() == 3)
  {
    if (t[2] != "0" && t[2] != "1")
      throw bad_op{};
    return wide() ? rtb<wchar_t>(t[2] == "1") : rtb<char>(t[2] == "1");
  }
  if ((op == "efstr" || op == "rtstr") && t.size() == 3)
    return wide() ? efstr<wchar_t>(parse_whex(t[2]), op == "rtstr") : efstr<char>(parse_hex(t[2]), op == "rtstr");
  if (op == "otsl" && t.size() == 3)
    return with_num(t[1], [&t](auto const z) { return otsl(parse_int<std::remove_cv_t<decltype(z)>>(t[2])); });
  if (op == "efsx" && t.size() == 3)
    return with_num(t[1], [&t](auto const z) { return efsx<std::remove_cv_t<decltype(z)>>(parse_hex(t[2])); });
  if (op == "tst" && t.size() == 4)
    return wide() ? tst<wchar_t>(parse_whex(t[2]), t[3]) : tst<char>(parse_hex(t[2]), t[3]);
  if (op == "strconv" && t.size() == 2)
  {
    exact<char> const e{parse_hex(t[1])};
    fcppt::string const f{fcppt::from_std_string(e.view())};
    if (f != fcppt::from_std_string_locale(e.view(), utf8()) || f != fcppt::from_std_string_locale(e.view(), std::locale::classic()))
      throw std::logic_error{"from_std_string / from_std_string_locale differ"};
    fcppt::optional_std_string const b{fcppt::to_std_string(e.view())};
    fcppt::optional_std_string const b2{fcppt::to_std_string_locale(e.view(), utf8())};
    if (b.has_value() != b2.has_value() || (b.has_value() && b.get_unsafe() != b2.get_unsafe()))
      throw std::logic_error{"to_std_string / to_std_string_locale differ"};
    // output_to_fcppt_string of a string is the string
    if (fcppt::output_to_fcppt_string(f) != f)
      throw std::logic_error{"output_to_fcppt_string"};
    return "f=" + hex_of(f) + " t=" + (b.has_value() ? "some " + hex_of(b.get_unsafe()) : std::string{"none"});
  }
  if (op == "literals" && t.size() == 1)
  {
    std::string const n{FCPPT_STRING_LITERAL(char, "ab(")};
    std::wstring const w{FCPPT_STRING_LITERAL(wchar_t, "ab(")};
    return hex_of(n) + " " + whex_of(w) + " " + hex_of(std::string(1, FCPPT_CHAR_LITERAL(char, 'x'))) + " " +
           whex_of(std::wstring(1, FCPPT_CHAR_LITERAL(wchar_t, 'x')));
  }
  throw bad_op{};
}

// ------------------------------------------------------------------ UTF-8 part
using facet_type = std::codecvt<wchar_t, char, std::mbstate_t>;

char const *res_name(std::codecvt_base::result const r)
{
  switch (r)
  {
  case std::codecvt_base::ok: return "ok";
  case std::codecvt_base::partial: return "partial";
  case std::codecvt_base::error: return "error";
  case std::codecvt_base::noconv: return "noconv";
  }
  return "?";
}

std::string cvt_out(std::size_t const w, std::wstring const &in)
{
  facet_type const &f{std::use_facet<facet_type>(utf8())};
  std::mbstate_t st{};
  std::unique_ptr<char[]> const buf{new char[w]};
  wchar_t const *from_next{nullptr};
  char *to_next{nullptr};
  std::codecvt_base::result const r{f.out(st, in.data(), in.data() + in.size(), from_next, buf.get(), buf.get() + w, to_next)};
  return std::string{res_name(r)} + " consumed=" + std::to_string(from_next - in.data()) + " out=" +
         hex_of(std::string(buf.get(), static_cast<std::size_t>(to_next - buf.get()))) + " init=" +
         (r == std::codecvt_base::error ? "-" : b01(std::mbsinit(&st) != 0));
}

std::string cvt_in(std::size_t const w, std::string const &pending, std::string const &in)
{
  facet_type const &f{std::use_facet<facet_type>(utf8())};
  std::mbstate_t st{};
  if (!pending.empty())
  {
    wchar_t tmp[8];
    char const *fn{nullptr};
    wchar_t *tn{nullptr};
    std::codecvt_base::result const r{f.in(st, pending.data(), pending.data() + pending.size(), fn, tmp, tmp + 8, tn)};
    if (r != std::codecvt_base::ok || fn != pending.data() + pending.size() || tn != tmp || std::mbsinit(&st) != 0)
      throw bad_op{};
  }
  std::unique_ptr<wchar_t[]> const buf{new wchar_t[w]};
  char const *from_next{nullptr};
  wchar_t *to_next{nullptr};
  std::codecvt_base::result const r{f.in(st, in.data(), in.data() + in.size(), from_next, buf.get(), buf.get() + w, to_next)};
  return std::string{res_name(r)} + " consumed=" + std::to_string(from_next - in.data()) + " out=" +
         whex_of(std::wstring(buf.get(), static_cast<std::size_t>(to_next - buf.get()))) + " init=" +
         (r == std::codecvt_base::error ? "-" : b01(std::mbsinit(&st) != 0));
}

// narrow_locale and from_std_wstring_locale (FCPPT_NARROW_STRING) must agree
fcppt::optional_std_string do_narrow(std::wstring const &s)
{
  exact<wchar_t> const e{s};
  fcppt::optional_std_string const a{fcppt::narrow_locale(e.view(), utf8())};
  fcppt::optional_string const b{fcppt::from_std_wstring_locale(e.view(), utf8())};
  if (a.has_value() != b.has_value() || (a.has_value() && a.get_unsafe() != b.get_unsafe()))
    throw std::logic_error{"narrow_locale / from_std_wstring_locale differ"};
  if (a.has_value())
  {
    // to/from fcppt::string are the identity for a narrow fcppt::string
    fcppt::string const fs{fcppt::from_std_string_locale(a.get_unsafe(), utf8())};
    fcppt::optional_std_string const back{fcppt::to_std_string_locale(fs, utf8())};
    if (fs != a.get_unsafe() || !back.has_value() || back.get_unsafe() != a.get_unsafe())
      throw std::logic_error{"from_std_string_locale / to_std_string_locale"};
  }
  return a;
}

std::string show_narrow(fcppt::optional_std_string const &o) { return o.has_value() ? "some " + hex_of(o.get_unsafe()) : std::string{"none"}; }

std::string do_widen(std::string const &s)
{
  exact<char> const e{s};
  std::string a;
  try
  {
    a = "some " + whex_of(fcppt::widen_locale(e.view(), utf8()));
  }
  catch (std::runtime_error const &)
  {
    a = "exc";
  }
  std::string b;
  try
  {
    b = "some " + whex_of(fcppt::to_std_wstring_locale(e.view(), utf8()));
  }
  catch (std::runtime_error const &)
  {
    b = "exc";
  }
  if (a != b)
    throw std::logic_error{"widen_locale / to_std_wstring_locale differ"};
  return a;
}

std::string nw_line(std::wstring const &ws)
{
  fcppt::optional_std_string const n{do_narrow(ws)};
  return "n=" + show_narrow(n) + " w=" + (n.has_value() ? do_widen(n.get_unsafe()) : std::string{"-"});
}

// the overloads without a locale argument use fcppt::string_conv_locale() = std::locale("") = LC_ALL=C.utf8 (set in main)
std::string nwenv_line(std::wstring const &ws)
{
  exact<wchar_t> const e{ws};
  fcppt::optional_std_string const n{fcppt::narrow(e.view())};
  fcppt::optional_string const n2{fcppt::from_std_wstring(e.view())};
  if (n.has_value() != n2.has_value() || (n.has_value() && n.get_unsafe() != n2.get_unsafe()))
    throw std::logic_error{"narrow / from_std_wstring differ"};
  std::string w{"-"};
  if (n.has_value())
  {
    exact<char> const b{n.get_unsafe()};
    try
    {
      std::wstring const w1{fcppt::widen(b.view())};
      std::wstring const w2{fcppt::to_std_wstring(b.view())};
      if (w1 != w2)
        throw std::logic_error{"widen / to_std_wstring differ"};
      w = "some " + whex_of(w1);
    }
    catch (std::runtime_error const &)
    {
      w = "exc";
    }
  }
  return "n=" + show_narrow(n) + " w=" + w;
}

// ---- a scripted facet: the same step function as Model/C15/Toy.lean, installed in a locale and handed to the real loop
struct toy_params
{
  bool stash, ok_full, ok_left, null_to;
  int max_len;
  std::size_t chunk;
};

struct toy_facet : std::codecvt<wchar_t, char, std::mbstate_t>
{
  explicit toy_facet(toy_params const &_p) : std::codecvt<wchar_t, char, std::mbstate_t>(std::size_t{0}), p{_p} {}
  toy_params p;

  static std::uint32_t unit(wchar_t const c) { return static_cast<std::uint32_t>(c); }
  static std::uint32_t unit(char const c) { return static_cast<unsigned char>(c); }

  template <typename In, typename Out>
  result go(std::mbstate_t &st, In const *from, In const *const from_end, In const *&from_next, Out *to, Out *const to_end, Out *&to_next) const
  {
    std::size_t cnt = 0;
    Out *const to_begin{to};
    // null_to: a call that produced no output leaves to_next as it was handed in (the loop passes a null pointer)
    auto const done = [&](result const r) {
      from_next = from;
      if (!(p.null_to && to == to_begin))
        to_next = to;
      return r;
    };
    while (from != from_end)
    {
      if (p.chunk != 0 && cnt >= p.chunk)
        return done(p.ok_left ? ok : partial);
      std::size_t const room{static_cast<std::size_t>(to_end - to)};
      result const full{p.ok_full && room == 0 && cnt == 0 ? ok : partial};
      std::uint32_t const c{unit(*from)};
      if (st.__count != 0)
      {
        if (room == 0)
          return done(full);
        *to++ = static_cast<Out>(static_cast<unsigned char>((st.__value.__wch + c) % 256U));
        st.__count = 0;
        st.__value.__wch = 0;
        ++from;
        ++cnt;
        continue;
      }
      std::uint32_t const b{c % 256U};
      if (b == 0xEE)
        return done(error);
      if (b == 0xFD)
        return done(noconv);
      if (b % 16U == 15U)
      {
        if (from + 1 == from_end && !p.stash)
          return done(partial);
        st.__count = 1;
        st.__value.__wch = b;
        ++from;
        ++cnt;
        continue;
      }
      std::size_t const need{1U + b % 3U};
      if (need > room)
        return done(full);
      for (std::size_t k = 0; k < need; ++k)
        *to++ = static_cast<Out>(static_cast<unsigned char>((b + 1U) % 256U));
      ++from;
      ++cnt;
    }
    return done(ok);
  }

  result do_out(std::mbstate_t &st, wchar_t const *from, wchar_t const *from_end, wchar_t const *&from_next, char *to, char *to_end, char *&to_next) const override
  {
    return this->go(st, from, from_end, from_next, to, to_end, to_next);
  }
  result do_in(std::mbstate_t &st, char const *from, char const *from_end, char const *&from_next, wchar_t *to, wchar_t *to_end, wchar_t *&to_next) const override
  {
    return this->go(st, from, from_end, from_next, to, to_end, to_next);
  }
  result do_unshift(std::mbstate_t &, char *to, char *, char *&to_next) const override
  {
    to_next = to;
    return noconv;
  }
  int do_encoding() const noexcept override { return 0; }
  bool do_always_noconv() const noexcept override { return false; }
  int do_length(std::mbstate_t &, char const *, char const *, std::size_t) const override { return 0; }
  int do_max_length() const noexcept override { return p.max_len; }
};

struct toy_setup
{
  toy_setup(std::string const &d, std::string const &f, std::string const &m, std::string const &c)
      : wide{d == "out"}, loc{std::locale::classic()}
  {
    if (d != "out" && d != "in")
      throw bad_op{};
    unsigned long long const fl{parse_int<unsigned long long>(f)};
    unsigned long long const ml{parse_int<unsigned long long>(m)};
    unsigned long long const ch{parse_int<unsigned long long>(c)};
    if (fl >= 16 || ml > 8 || ch > 8)
      throw bad_op{};
    loc = std::locale{std::locale::classic(), new toy_facet{toy_params{(fl & 1U) != 0, (fl & 2U) != 0, (fl & 4U) != 0, (fl & 8U) != 0,
                                                                      static_cast<int>(ml), static_cast<std::size_t>(ch)}}};
  }
  // narrow_locale for `out`, widen_locale for `in`, through exact-size copies
  std::string run_out(std::wstring const &in) const
  {
    exact<wchar_t> const e{in};
    fcppt::optional_std_string const r{fcppt::narrow_locale(e.view(), loc)};
    return r.has_value() ? "some " + hex_of(r.get_unsafe()) : std::string{"none"};
  }
  std::string run_in(std::string const &in) const
  {
    exact<char> const e{in};
    try
    {
      return "some " + whex_of(fcppt::widen_locale(e.view(), loc));
    }
    catch (std::runtime_error const &)
    {
      return "none";
    }
  }
  bool wide;
  std::locale loc;
};

std::string toys(toy_setup const &ts, unsigned const max_len)
{
  static unsigned char const alphabet[6] = {0x01, 0x02, 0x03, 0x0F, 0xEE, 0xFD};
  std::uint64_t h = vh::fnv_init;
  for (unsigned len = 0; len <= max_len; ++len)
  {
    unsigned long long total = 1;
    for (unsigned k = 0; k < len; ++k)
      total *= 6;
    for (unsigned long long i = 0; i < total; ++i)
    {
      std::string n(len, '\0');
      std::wstring w(len, L'\0');
      unsigned long long x = i;
      for (unsigned k = len; k-- > 0;)
      {
        n[k] = static_cast<char>(alphabet[x % 6]);
        w[k] = static_cast<wchar_t>(alphabet[x % 6]);
        x /= 6;
      }
      h = vh::fnv(h, ts.wide ? ts.run_out(w) : ts.run_in(n));
    }
  }
  return "D " + vh::hex64(h);
}

std::string utf_dispatch(std::vector<std::string> const &t)
{
  std::string const &op = t[0];
  if (op == "toy" && t.size() == 6)
  {
    toy_setup const ts{t[1], t[2], t[3], t[4]};
    return ts.wide ? ts.run_out(parse_whex(t[5])) : ts.run_in(parse_hex(t[5]));
  }
  if (op == "toys" && t.size() == 6)
  {
    toy_setup const ts{t[1], t[2], t[3], t[4]};
    unsigned long long const l{parse_int<unsigned long long>(t[5])};
    if (l > 6)
      throw bad_op{};
    return toys(ts, static_cast<unsigned>(l));
  }
  if (op == "nwenv" && t.size() == 2)
    return nwenv_line(parse_whex(t[1]));
  if (op == "facet" && t.size() == 1)
  {
    facet_type const &f{std::use_facet<facet_type>(utf8())};
    return std::to_string(f.max_length()) + " " + b01(f.always_noconv());
  }
  if (op == "cvt" && t.size() == 5)
  {
    unsigned long long const w{parse_int<unsigned long long>(t[2])};
    if (w > 4096)
      throw bad_op{};
    if (t[1] == "out" && t[3] == "-")
      return cvt_out(w, parse_whex(t[4]));
    if (t[1] == "in")
      return cvt_in(w, parse_hex(t[3]), parse_hex(t[4]));
    throw bad_op{};
  }
  if (op == "narrow" && t.size() == 2)
    return show_narrow(do_narrow(parse_whex(t[1])));
  if (op == "widen" && t.size() == 2)
    return do_widen(parse_hex(t[1]));
  if (op == "nw" && t.size() == 2)
    return nw_line(parse_whex(t[1]));
  if (op == "nwlong" && t.size() == 3)
  {
    // a long string (pattern repeated): many buffer growth steps; only lengths and a digest are printed
    std::wstring const pat{parse_whex(t[1])};
    unsigned long long const n{parse_int<unsigned long long>(t[2])};
    if (pat.empty() || n == 0 || pat.size() * n > 200000)
      throw bad_op{};
    std::wstring ws;
    for (unsigned long long i = 0; i < n; ++i)
      ws += pat;
    fcppt::optional_std_string const nr{do_narrow(ws)};
    if (!nr.has_value())
      return "n=none";
    std::string const &bytes{nr.get_unsafe()};
    std::string r{"n=some len=" + std::to_string(bytes.size()) + " h=" + vh::hex64(vh::fnv(vh::fnv_init, hex_of(bytes)))};
    exact<char> const e{bytes};
    try
    {
      std::wstring const back{fcppt::widen_locale(e.view(), utf8())};
      r += " w=some len=" + std::to_string(back.size()) + " eq=" + b01(back == ws);
    }
    catch (std::runtime_error const &)
    {
      r += " w=exc";
    }
    return r;
  }
  if (op == "nws" && t.size() == 3)
  {
    unsigned long long const lo{parse_int<unsigned long long>(t[1])};
    unsigned long long const n{parse_int<unsigned long long>(t[2])};
    if (n == 0 || n > (1ULL << 20) || lo + n > (1ULL << 32))
      throw bad_op{};
    std::uint64_t h = vh::fnv_init;
    for (unsigned long long c = lo; c < lo + n; ++c)
      h = vh::fnv(h, nw_line(std::wstring(1, static_cast<wchar_t>(static_cast<std::uint32_t>(c)))));
    return "D " + vh::hex64(h);
  }
  throw bad_op{};
}

std::string dispatch(std::vector<std::string> const &t)
{
  if (t.empty())
    throw bad_op{};
  std::string const &op = t[0];
  if (op == "ots" || op == "efs" || op == "rtd" || op == "rtds")
    return text_by_type(t);
  if (op == "enum" || op == "efrom" || op == "ein" || op == "enumw" || op == "einw" || op == "earr")
    return enum_by_id(t);
  if (op == "vec" || op == "vin" || op == "vecw" || op == "vinw" || op == "vinm")
    return vec_by_size(t);
  if (op == "mat")
    return mat(t);
  if (op == "efb" || op == "rtb" || op == "efstr" || op == "rtstr" || op == "otsl" || op == "efsx" || op == "tst" || op == "strconv" || op == "literals" || op == "rtf" || op == "eff")
    return text_ext(t);
  if (op == "bst" && t.size() == 2)
    return bst(t[1]);
  if (op == "toy" || op == "toys" || op == "facet" || op == "cvt" || op == "narrow" || op == "widen" || op == "nw" || op == "nws" || op == "nwenv" || op == "nwlong")
    return utf_dispatch(t);
  if (op == "native" && t.size() == 1)
    return std::endian::native == std::endian::little ? "little" : std::endian::native == std::endian::big ? "big" : "mixed";
  if (op == "bin" || op == "bins" || op == "seq" || op == "rd")
    return by_type(t);
  if (op == "revmem" && t.size() == 2)
    return revmem(parse_hex(t[1]));
  throw bad_op{};
}

std::string handle(std::vector<std::string> const &t)
{
  try
  {
    return dispatch(t);
  }
  catch (bad_op const &)
  {
    return "bad-op";
  }
  catch (std::bad_alloc const &)
  {
    return "exc:bad_alloc";
  }
  catch (std::logic_error const &)
  {
    return "exc:logic_error";
  }
  catch (std::runtime_error const &)
  {
    return "exc:runtime_error";
  }
  catch (std::exception const &)
  {
    return "exc:std";
  }
  catch (...)
  {
    return "exc:unknown";
  }
}
}

int main()
{
  // fcppt::string_conv_locale() is std::locale(""): make the environment's locale the UTF-8 one
  ::setenv("LC_ALL", "C.utf8", 1);
  return vh::run(handle);
}
