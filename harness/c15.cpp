// C15 correspondence harness: runs the real fcppt code (io::read/write, endianness::swap/convert/reverse_mem,
// output_to_string / extract_from_string, enum to_string/from_string/<< />>, math vector/dim << and >>,
// widen/narrow and friends in the C.utf8 locale) on the operation lines described in
// /verif/lean/FcpptModel/Drv/C15.lean and prints the same canonical result lines.
// Byte strings travel as lowercase hex ("-" = empty); floats only as the decimal value of their bit pattern.
#include "common/vh.hpp"

#include <fcppt/endianness/convert.hpp>
#include <fcppt/endianness/reverse_mem.hpp>
#include <fcppt/endianness/swap.hpp>
#include <fcppt/io/read.hpp>
#include <fcppt/io/write.hpp>
#include <fcppt/optional/object_impl.hpp>

#include <bit>
#include <cstdint>
#include <cstring>
#include <limits>
#include <memory>
#include <optional>
#include <sstream>
#include <stdexcept>
#include <string>
#include <type_traits>
#include <vector>

namespace
{
struct bad_op
{
};

// ------------------------------------------------------------------ helpers
std::string hex_of(std::string const &s)
{
  if (s.empty())
    return "-";
  static char const *const d = "0123456789abcdef";
  std::string r;
  for (unsigned char c : s)
  {
    r += d[c >> 4];
    r += d[c & 15];
  }
  return r;
}

int hex_val(char c)
{
  if (c >= '0' && c <= '9')
    return c - '0';
  if (c >= 'a' && c <= 'f')
    return c - 'a' + 10;
  throw bad_op{};
}

std::string parse_hex(std::string const &s)
{
  if (s == "-")
    return {};
  if (s.size() % 2 != 0)
    throw bad_op{};
  std::string r;
  for (std::size_t i = 0; i < s.size(); i += 2)
    r += static_cast<char>(hex_val(s[i]) * 16 + hex_val(s[i + 1]));
  return r;
}

// strict decimal: optional '-', digits, nothing else
bool parse_dec(std::string const &s, bool &neg, unsigned long long &mag)
{
  std::size_t i = 0;
  neg = false;
  if (i < s.size() && s[i] == '-')
  {
    neg = true;
    ++i;
  }
  if (i == s.size())
    return false;
  mag = 0;
  for (; i < s.size(); ++i)
  {
    if (s[i] < '0' || s[i] > '9')
      return false;
    unsigned long long const d = static_cast<unsigned long long>(s[i] - '0');
    if (mag > (std::numeric_limits<unsigned long long>::max() - d) / 10)
      return false;
    mag = mag * 10 + d;
  }
  return true;
}

template <typename I>
I parse_int(std::string const &s)
{
  bool neg = false;
  unsigned long long mag = 0;
  if (!parse_dec(s, neg, mag))
    throw bad_op{};
  if constexpr (std::is_signed_v<I>)
  {
    unsigned long long const maxmag = static_cast<unsigned long long>(std::numeric_limits<I>::max());
    if (neg ? mag > maxmag + 1ULL : mag > maxmag)
      throw bad_op{};
    if (neg)
      return mag == maxmag + 1ULL ? std::numeric_limits<I>::min() : static_cast<I>(-static_cast<long long>(mag));
    return static_cast<I>(mag);
  }
  else
  {
    if ((neg && mag != 0) || mag > static_cast<unsigned long long>(std::numeric_limits<I>::max()))
      throw bad_op{};
    return static_cast<I>(mag);
  }
}

template <typename I>
std::string show_int(I const v)
{
  if constexpr (std::is_signed_v<I>)
    return std::to_string(static_cast<long long>(v));
  else
    return std::to_string(static_cast<unsigned long long>(v));
}

std::endian parse_endian(std::string const &s)
{
  if (s == "L")
    return std::endian::little;
  if (s == "B")
    return std::endian::big;
  throw bad_op{};
}

// ------------------------------------------------------------------ binary part
// T = the arithmetic type handed to fcppt, I = the integer type of its textual form (same for integers,
// the same-width unsigned for float/double: bit patterns only)
template <typename T, typename I>
struct bin
{
  static T from_text(std::string const &s) { return std::bit_cast<T>(parse_int<I>(s)); }
  static std::string text(T const v) { return show_int<I>(std::bit_cast<I>(v)); }
  static std::string opt(fcppt::optional::object<T> const &o) { return o.has_value() ? text(o.get_unsafe()) : std::string{"none"}; }

  static std::string line(std::endian const e, T const v)
  {
    std::stringstream s{std::ios_base::in | std::ios_base::out | std::ios_base::binary};
    fcppt::io::write(s, v, e);
    std::string const w{s.str()};
    fcppt::optional::object<T> const r{fcppt::io::read<T>(s, e)};
    fcppt::optional::object<T> const r2{fcppt::io::read<T>(s, e)};
    T const sw{fcppt::endianness::swap(v)};
    T const ss{fcppt::endianness::swap(sw)};
    T const c{fcppt::endianness::convert(v, e)};
    T const cc{fcppt::endianness::convert(c, e)};
    return "w=" + hex_of(w) + " r=" + opt(r) + " r2=" + opt(r2) + " s=" + text(sw) + " ss=" + text(ss) + " c=" + text(c) +
           " cc=" + text(cc);
  }

  static std::string digest(std::endian const e, std::string const &lo_s, std::string const &n_s)
  {
    I const lo{parse_int<I>(lo_s)};
    unsigned long long const n{parse_int<unsigned long long>(n_s)};
    if (n == 0 || n > (1ULL << 20))
      throw bad_op{};
    // lo + n - 1 must be a value of the type
    if (static_cast<unsigned long long>(std::numeric_limits<I>::max()) - static_cast<unsigned long long>(lo) < n - 1 &&
        !(std::is_signed_v<I> && lo < 0 &&
          n - 1 <= static_cast<unsigned long long>(std::numeric_limits<I>::max()) + static_cast<unsigned long long>(-(lo + 1)) + 1ULL))
      throw bad_op{};
    std::uint64_t h = vh::fnv_init;
    I v{lo};
    for (unsigned long long k = 0; k < n; ++k)
    {
      h = vh::fnv(h, line(e, std::bit_cast<T>(v)));
      if (k + 1 < n)
        ++v;
    }
    return "D " + vh::hex64(h);
  }

  static std::string read_all(std::stringstream &s, std::endian const e, std::size_t const max)
  {
    std::string r;
    for (std::size_t k = 0; k < max; ++k)
    {
      fcppt::optional::object<T> const o{fcppt::io::read<T>(s, e)};
      if (!r.empty())
        r += ',';
      r += opt(o);
      if (!o.has_value())
        break;
    }
    return r;
  }

  static std::string seq(std::endian const e, std::string const &list)
  {
    std::vector<T> vs;
    if (list != "-")
    {
      std::size_t pos = 0;
      while (true)
      {
        std::size_t const next = list.find(',', pos);
        vs.push_back(from_text(list.substr(pos, next == std::string::npos ? next : next - pos)));
        if (next == std::string::npos)
          break;
        pos = next + 1;
      }
    }
    std::stringstream s{std::ios_base::in | std::ios_base::out | std::ios_base::binary};
    for (T const v : vs)
      fcppt::io::write(s, v, e);
    std::string const w{s.str()};
    return "w=" + hex_of(w) + " r=" + read_all(s, e, vs.size() + 1);
  }

  static std::string rd(std::endian const e, std::string const &bytes)
  {
    std::stringstream s{bytes, std::ios_base::in | std::ios_base::out | std::ios_base::binary};
    return read_all(s, e, bytes.size() + 1);
  }

  static std::string handle(std::vector<std::string> const &t)
  {
    if (t[0] == "bin" && t.size() == 4)
      return line(parse_endian(t[2]), from_text(t[3]));
    if (t[0] == "bins" && t.size() == 5)
      return digest(parse_endian(t[2]), t[3], t[4]);
    if (t[0] == "seq" && t.size() == 4)
      return seq(parse_endian(t[2]), t[3]);
    if (t[0] == "rd" && t.size() == 4)
      return rd(parse_endian(t[2]), parse_hex(t[3]));
    throw bad_op{};
  }
};

std::string by_type(std::vector<std::string> const &t)
{
  if (t.size() < 2)
    throw bad_op{};
  std::string const &ty = t[1];
  if (ty == "u8") return bin<std::uint8_t, std::uint8_t>::handle(t);
  if (ty == "i8") return bin<std::int8_t, std::int8_t>::handle(t);
  if (ty == "u16") return bin<std::uint16_t, std::uint16_t>::handle(t);
  if (ty == "i16") return bin<std::int16_t, std::int16_t>::handle(t);
  if (ty == "u32") return bin<std::uint32_t, std::uint32_t>::handle(t);
  if (ty == "i32") return bin<std::int32_t, std::int32_t>::handle(t);
  if (ty == "u64") return bin<std::uint64_t, std::uint64_t>::handle(t);
  if (ty == "i64") return bin<std::int64_t, std::int64_t>::handle(t);
  if (ty == "f32") return bin<float, std::uint32_t>::handle(t);
  if (ty == "f64") return bin<double, std::uint64_t>::handle(t);
  throw bad_op{};
}

std::string revmem(std::string const &bytes)
{
  // exact-size heap buffer: an index outside [0, len) is a redzone hit
  std::unique_ptr<unsigned char[]> const buf{new unsigned char[bytes.size()]};
  if (!bytes.empty())
    std::memcpy(buf.get(), bytes.data(), bytes.size());
  fcppt::endianness::reverse_mem(buf.get(), bytes.size());
  return hex_of(std::string(reinterpret_cast<char const *>(buf.get()), bytes.size()));
}

std::string dispatch(std::vector<std::string> const &t)
{
  if (t.empty())
    throw bad_op{};
  std::string const &op = t[0];
  if (op == "native" && t.size() == 1)
    return std::endian::native == std::endian::little ? "little" : std::endian::native == std::endian::big ? "big" : "mixed";
  if (op == "bin" || op == "bins" || op == "seq" || op == "rd")
    return by_type(t);
  if (op == "revmem" && t.size() == 2)
    return revmem(parse_hex(t[1]));
  throw bad_op{};
}

std::string handle(std::vector<std::string> const &t)
{
  try
  {
    return dispatch(t);
  }
  catch (bad_op const &)
  {
    return "bad-op";
  }
  catch (std::bad_alloc const &)
  {
    return "exc:bad_alloc";
  }
  catch (std::runtime_error const &)
  {
    return "exc:runtime_error";
  }
  catch (std::exception const &)
  {
    return "exc:std";
  }
  catch (...)
  {
    return "exc:unknown";
  }
}
}

int main() { return vh::run(handle); }
