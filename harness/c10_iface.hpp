// C10 harness: type-erased view of one bitfield instantiation, so that the protocol code (c10.cpp) is compiled
// once and the 32 instantiations of the real templates (c10_inst.hpp, c10_w*.cpp) stay small.
// Every virtual function is a one- or two-line call of the real fcppt code on real objects; binary operations
// receive the other operand as the same dynamic type (possibly the very same object: aliasing is real).
#ifndef VERIF_HARNESS_C10_IFACE_HPP
#define VERIF_HARNESS_C10_IFACE_HPP

#include <functional>
#include <memory>
#include <optional>
#include <string>
#include <vector>

namespace c10
{
using ull = unsigned long long;

struct val
{
  virtual ~val() = default;
  virtual std::unique_ptr<val> clone() const = 0; // copy construction
  virtual void assign(val const &) = 0; // copy assignment (possibly from itself)
  // readers
  virtual bool get(unsigned) const = 0; // get()
  virtual bool idx_const(unsigned) const = 0; // operator[] const -> proxy<array const> -> bool
  virtual bool idx_mut(unsigned) = 0; // operator[] -> proxy<array> -> bool
  virtual bool and_idx(unsigned) const = 0; // operator&(field, index)
  virtual std::vector<ull> words() const = 0; // array() const, begin()/end()
  virtual std::vector<ull> words_unsafe() const = 0; // array() const, get_unsafe(k)
  // single-bit writers; *_ok report identities the C++ interface promises (returned reference is the left operand ...)
  virtual void set(unsigned, bool) = 0;
  virtual void idx_assign(unsigned, bool) = 0; // bf[e] = v
  virtual void proxy_moved_assign(unsigned, bool, bool &ret_ok) = 0; // proxy copy-constructed, move-constructed, then = v
  virtual void proxy_rebind_assign(unsigned i, unsigned j, bool v, bool &nowrite_ok) = 0; // p = bf[i]; q = bf[j]; p = q; p = v
  virtual bool proxy_sees_write(unsigned i, bool v) = 0; // p = bf[i]; bf.set(i, v); return bool(p)  (a proxy is a live reference)
  virtual bool const_proxy_rebind_read(unsigned i, unsigned j) const = 0; // const_reference p = cb[i], q = cb[j]; p = q; return bool(copy of p)
  virtual void or_idx_assign(unsigned, bool &ret_ok) = 0; // bf |= e
  virtual std::unique_ptr<val> or_idx(unsigned) const = 0; // bf | e
  virtual void poke(std::size_t k, ull x) = 0; // *(bf.array().begin() + k) = x
  // word-wise operators
  virtual void or_assign(val const &, bool &ret_ok) = 0;
  virtual void and_assign(val const &, bool &ret_ok) = 0;
  virtual void xor_assign(val const &, bool &ret_ok) = 0;
  virtual std::unique_ptr<val> bor(val const &) const = 0;
  virtual std::unique_ptr<val> band(val const &) const = 0;
  virtual std::unique_ptr<val> bxor(val const &) const = 0;
  virtual std::unique_ptr<val> bnot() const = 0;
  virtual bool eq(val const &) const = 0;
  virtual bool ne(val const &) const = 0;
  virtual bool subset(val const &) const = 0; // is_subset_eq(*this, other)
  virtual ull hash_fcppt() const = 0; // bitfield::hash
  virtual ull hash_std() const = 0; // std::hash
  virtual std::optional<ull> underlying() const = 0; // underlying_value, if it exists for this instantiation
  virtual std::string out() const = 0; // operator<< on a char stream
  virtual std::wstring wout() const = 0; // operator<< on a wchar_t stream
};

struct factory
{
  unsigned n = 0; // enum_::size
  unsigned wbits = 0; // digits of the storage word
  std::size_t nwords = 0; // array_size
  virtual ~factory() = default;
  virtual std::unique_ptr<val> null() const = 0; // object::null()
  virtual std::unique_ptr<val> il(std::vector<unsigned> const &) const = 0; // initializer-list constructor, <= 64 elements
  virtual std::unique_ptr<val> init(std::function<bool(unsigned)> const &) const = 0; // bitfield::init
  virtual std::unique_ptr<val> from_array(std::vector<ull> const &) const = 0; // object(array_type const &)
};

// fcppt::bit::shifted_mask<W>(k).get() and fcppt::bit::test<W>(x, shifted_mask<W>(k)) for the word type with `wbits` digits
ull shifted_mask_w8(unsigned k);
ull shifted_mask_w16(unsigned k);
ull shifted_mask_w32(unsigned k);
ull shifted_mask_w64(unsigned k);
bool bit_test_w8(ull x, unsigned k);
bool bit_test_w16(ull x, unsigned k);
bool bit_test_w32(ull x, unsigned k);
bool bit_test_w64(ull x, unsigned k);

// one per storage word type (c10_w8.cpp ...); nullptr if there is no enum with n enumerators
factory const *factory_w8(unsigned n);
factory const *factory_w16(unsigned n);
factory const *factory_w32(unsigned n);
factory const *factory_w64(unsigned n);
}

#endif
