// C02 harness, the statically typed family: every shape (generated translation units harness/c02_typed_<i>.cpp, from the
// shape list in props/c02.py) is a grammar text instantiated with the NATURAL result types of the real fcppt::parse
// templates - no universal value, no convert. The result is printed as "ok <static type> <value>".
#ifndef VERIF_HARNESS_C02_TYPED_HPP
#define VERIF_HARNESS_C02_TYPED_HPP

#include "common/vh.hpp"
#include "c02_chars.hpp"
#include "c02_route.hpp"

#include <fcppt/exception.hpp>
#include <fcppt/unit.hpp>
#include <fcppt/optional/object_impl.hpp>
#include <fcppt/parse/as_struct.hpp>
#include <fcppt/parse/basic_char.hpp>
#include <fcppt/parse/basic_char_set.hpp>
#include <fcppt/parse/basic_literal.hpp>
#include <fcppt/parse/basic_string.hpp>
#include <fcppt/parse/blank_set.hpp>
#include <fcppt/parse/construct.hpp>
#include <fcppt/parse/convert_const.hpp>
#include <fcppt/parse/digits.hpp>
#include <fcppt/parse/epsilon.hpp>
#include <fcppt/parse/error.hpp>
#include <fcppt/parse/fail.hpp>
#include <fcppt/parse/float.hpp>
#include <fcppt/parse/int.hpp>
#include <fcppt/parse/list.hpp>
#include <fcppt/parse/make_base.hpp>
#include <fcppt/make_cref.hpp>
#include <fcppt/reference_impl.hpp>
#include <fcppt/parse/base_impl.hpp>
#include <fcppt/parse/make_fatal.hpp>
#include <fcppt/parse/make_ignore.hpp>
#include <fcppt/parse/make_lexeme.hpp>
#include <fcppt/parse/named.hpp>
#include <fcppt/parse/parse_string.hpp>
#include <fcppt/parse/phrase_parse_string.hpp>
#include <fcppt/parse/result.hpp>
#include <fcppt/parse/result_of.hpp>
#include <fcppt/parse/separator.hpp>
#include <fcppt/parse/space_set.hpp>
#include <fcppt/parse/uint.hpp>
#include <fcppt/parse/operators/alternative.hpp>
#include <fcppt/parse/operators/complement.hpp>
#include <fcppt/parse/operators/not.hpp>
#include <fcppt/parse/operators/optional.hpp>
#include <fcppt/parse/operators/repetition.hpp>
#include <fcppt/parse/operators/repetition_plus.hpp>
#include <fcppt/parse/operators/sequence.hpp>
#include <fcppt/parse/skipper/basic_literal.hpp>
#include <fcppt/parse/skipper/epsilon.hpp>
#include <fcppt/tuple/get.hpp>
#include <fcppt/tuple/object_impl.hpp>
#include <fcppt/variant/apply.hpp>
#include <fcppt/variant/object_impl.hpp>

#include <cstddef>
#include <cstdint>
#include <cstring>
#include <exception>
#include <functional>
#include <string>
#include <type_traits>
#include <utility>
#include <vector>

namespace c02typed
{
namespace fp = fcppt::parse;
namespace fsk = fcppt::parse::skipper;
using c02h::decode;
using c02h::decode_char;
using c02h::decode_set;

// construct<wrap<K,T>> and as_struct<rec<K,Ts...>>: the struct k of the grammar text
template <unsigned K, typename T>
struct wrap
{
  T v;
  explicit wrap(T &&_v) : v{std::move(_v)} {}
};

template <unsigned K, typename... Ts>
struct rec
{
  fcppt::tuple::object<Ts...> f;
  explicit rec(Ts... _a) : f{std::move(_a)...} {}
};

template <unsigned K, typename Tuple>
struct rec_of;

template <unsigned K, typename... Ts>
struct rec_of<K, fcppt::tuple::object<Ts...>>
{
  using type = rec<K, Ts...>;
};

template <unsigned K, typename P>
auto con(P &&_p)
{
  return fp::construct<wrap<K, fp::result_of<P>>>(std::forward<P>(_p));
}

template <unsigned K, typename P>
auto ast(P &&_p)
{
  return fp::as_struct<typename rec_of<K, fp::result_of<P>>::type>(std::forward<P>(_p));
}

template <typename Ch>
auto lit(char const _c)
{
  return fp::basic_literal<Ch>{decode_char<Ch>(_c)};
}
template <typename Ch>
auto cs(char const *const _s)
{
  return fp::basic_char_set<Ch>{decode_set<Ch>(_s)};
}
template <typename Ch>
auto str(char const *const _s)
{
  return fp::basic_string<Ch>{decode<Ch>(_s)};
}
template <typename Ch>
auto any()
{
  return fp::basic_char<Ch>{};
}
template <typename Ch, typename P>
auto nm(P &&_p)
{
  return fp::named<Ch, std::remove_cvref_t<P>>{
      std::forward<P>(_p), std::basic_string<Ch>{static_cast<Ch>('n'), static_cast<Ch>('m')}};
}
template <typename Ch>
Ch chr(char const _c)
{
  return decode_char<Ch>(_c);
}

// ---- static type names ----
template <typename T>
struct tn;
template <typename T>
std::string tname()
{
  return tn<T>::get();
}
template <typename... Ts>
std::string tnames()
{
  std::string r;
  bool first = true;
  ((r += (first ? "" : ","), r += tname<Ts>(), first = false), ...);
  return r;
}
template <>
struct tn<fcppt::unit>
{
  static std::string get() { return "U"; }
};
template <>
struct tn<char>
{
  static std::string get() { return "C"; }
};
template <>
struct tn<wchar_t>
{
  static std::string get() { return "C"; }
};
template <>
struct tn<unsigned short>
{
  static std::string get() { return "N"; }
};
template <>
struct tn<short>
{
  static std::string get() { return "I"; }
};
template <>
struct tn<double>
{
  static std::string get() { return "F"; }
};
template <typename Ch>
struct tn<std::basic_string<Ch>>
{
  static std::string get() { return "S"; }
};
template <typename T>
struct tn<std::vector<T>>
{
  static std::string get() { return "V(" + tname<T>() + ")"; }
};
template <typename T>
struct tn<fcppt::optional::object<T>>
{
  static std::string get() { return "O(" + tname<T>() + ")"; }
};
template <typename... Ts>
struct tn<fcppt::tuple::object<Ts...>>
{
  static std::string get() { return "T(" + tnames<Ts...>() + ")"; }
};
template <typename... Ts>
struct tn<fcppt::variant::object<Ts...>>
{
  static std::string get() { return "A(" + tnames<Ts...>() + ")"; }
};
template <unsigned K, typename T>
struct tn<wrap<K, T>>
{
  static std::string get() { return "K" + std::to_string(K); }
};
template <unsigned K, typename... Ts>
struct tn<rec<K, Ts...>>
{
  static std::string get() { return "K" + std::to_string(K); }
};

// ---- values ----
inline void tp(fcppt::unit const &, std::string &o) { o += 'u'; }
inline void tp(char const c, std::string &o)
{
  o += 'c';
  o += std::to_string(static_cast<long long>(static_cast<unsigned char>(c)));
}
inline void tp(wchar_t const c, std::string &o)
{
  o += 'c';
  o += std::to_string(static_cast<long long>(c));
}
inline void tp(unsigned short const v, std::string &o)
{
  o += 'n';
  o += std::to_string(static_cast<long long>(v));
}
inline void tp(short const v, std::string &o)
{
  o += 'i';
  o += std::to_string(static_cast<long long>(v));
}
inline void tp(double const v, std::string &o)
{
  std::uint64_t bits = 0;
  std::memcpy(&bits, &v, sizeof bits);
  o += 'f';
  o += std::to_string(static_cast<unsigned long long>(bits));
}
template <typename Ch>
void tp(std::basic_string<Ch> const &, std::string &);
template <typename T>
void tp(std::vector<T> const &, std::string &);
template <typename T>
void tp(fcppt::optional::object<T> const &, std::string &);
template <typename... Ts>
void tp(fcppt::tuple::object<Ts...> const &, std::string &);
template <typename... Ts>
void tp(fcppt::variant::object<Ts...> const &, std::string &);
template <unsigned K, typename T>
void tp(wrap<K, T> const &, std::string &);
template <unsigned K, typename... Ts>
void tp(rec<K, Ts...> const &, std::string &);

template <typename Ch>
void tp(std::basic_string<Ch> const &s, std::string &o)
{
  o += "s[";
  bool first = true;
  for (Ch const c : s)
  {
    if (!first)
      o += ',';
    first = false;
    if constexpr (std::is_same_v<Ch, char>)
      o += std::to_string(static_cast<long long>(static_cast<unsigned char>(c)));
    else
      o += std::to_string(static_cast<long long>(c));
  }
  o += ']';
}
template <typename T>
void tp(std::vector<T> const &v, std::string &o)
{
  o += "v[";
  bool first = true;
  for (T const &e : v)
  {
    if (!first)
      o += ',';
    first = false;
    tp(e, o);
  }
  o += ']';
}
template <typename T>
void tp(fcppt::optional::object<T> const &v, std::string &o)
{
  if (v.has_value())
  {
    o += "S(";
    tp(v.get_unsafe(), o);
    o += ')';
  }
  else
    o += 'N';
}
template <typename... Ts>
void tp(fcppt::tuple::object<Ts...> const &v, std::string &o)
{
  o += "t(";
  [&]<std::size_t... I>(std::index_sequence<I...>) {
    ((o += (I == 0 ? "" : ","), tp(fcppt::tuple::get<I>(v), o)), ...);
  }(std::index_sequence_for<Ts...>{});
  o += ')';
}
template <typename... Ts>
void tp(fcppt::variant::object<Ts...> const &v, std::string &o)
{
  o += 'a';
  o += std::to_string(static_cast<unsigned long long>(v.type_index()));
  o += '(';
  fcppt::variant::apply([&o](auto const &x) { tp(x, o); }, v);
  o += ')';
}
template <unsigned K, typename T>
void tp(wrap<K, T> const &v, std::string &o)
{
  o += 'k';
  o += std::to_string(K);
  o += '(';
  tp(v.v, o);
  o += ')';
}
template <unsigned K, typename... Ts>
void tp(rec<K, Ts...> const &v, std::string &o)
{
  o += 'k';
  o += std::to_string(K);
  o += '(';
  tp(v.f, o);
  o += ')';
}

// a different value of the same static type (the former value of an assignment target), component by component
inline void tweak(fcppt::unit &) {}
inline void tweak(char &c) { c = static_cast<char>(c ^ 1); }
inline void tweak(wchar_t &c) { c = static_cast<wchar_t>(c ^ 1); }
inline void tweak(unsigned short &v) { v = static_cast<unsigned short>(v ^ 1U); }
inline void tweak(short &v) { v = static_cast<short>(v ^ 1); }
inline void tweak(double &v) { v = v == 1.5 ? 2.5 : 1.5; }
template <typename Ch>
void tweak(std::basic_string<Ch> &s) { s.push_back(static_cast<Ch>('q')); }
template <typename... Ts>
void tweak(fcppt::tuple::object<Ts...> &);
template <typename... Ts>
void tweak(fcppt::variant::object<Ts...> &);
template <unsigned K, typename T>
void tweak(wrap<K, T> &);
template <unsigned K, typename... Ts>
void tweak(rec<K, Ts...> &);
template <typename T>
void tweak(fcppt::optional::object<T> &v)
{
  if (v.has_value())
    tweak(v.get_unsafe());
}
template <typename T>
void tweak(std::vector<T> &v)
{
  if (!v.empty())
  {
    T last(v.back());
    tweak(last);
    v.push_back(std::move(last));
  }
}
template <typename... Ts>
void tweak(fcppt::tuple::object<Ts...> &v)
{
  [&]<std::size_t... I>(std::index_sequence<I...>) { (tweak(fcppt::tuple::get<I>(v)), ...); }(std::index_sequence_for<Ts...>{});
}
template <typename... Ts>
void tweak(fcppt::variant::object<Ts...> &v)
{
  fcppt::variant::apply([](auto &x) { tweak(x); }, v);
}
template <unsigned K, typename T>
void tweak(wrap<K, T> &v)
{
  tweak(v.v);
}
template <unsigned K, typename... Ts>
void tweak(rec<K, Ts...> &v)
{
  tweak(v.f);
}

struct tcounts
{
  unsigned long n = 0, ok = 0, fail = 0, fatal = 0;
};

template <typename Ch, typename Sk, typename Parser>
std::string one(
    Parser const &_parser,
    std::basic_string<Ch> &&_input,
    Sk const &_skipper,
    char const _entry,
    tcounts &_counts)
{
  ++_counts.n;
  try
  {
    using res_t = fp::result_of<Parser>;
    unsigned const route{c02route::route_of(_input, static_cast<unsigned>(_entry))};
    fp::result<Ch, res_t> const res0{[&]() -> fp::result<Ch, res_t> {
      if constexpr (std::is_same_v<Sk, fsk::epsilon>)
      {
        if (_entry == 'p')
          return fp::parse_string(_parser, std::move(_input));
      }
      return fp::phrase_parse_string(_parser, std::move(_input), _skipper);
    }()};
    // the result (one input in ten, chosen by the input itself, which keeps the exhaustive enumerations fast) travels through a special member of
    // either<error<Ch>, T>, the error through one of error<Ch>: value AND fatal flag are values (c02_route.hpp)
    std::string mm{};
    bool const routed{route % 10U == 0U};
    fp::result<Ch, res_t> const res{
        routed ? c02route::routed_result<Ch, res_t>(
                     mm,
                     route / 10U,
                     res0,
                     [](res_t const &_v)
                     {
                       res_t o(_v);
                       tweak(o);
                       return o;
                     },
                     [](res_t const &_v)
                     {
                       std::string o{};
                       tp(_v, o);
                       return o;
                     })
               : res0};
    if (res.has_success())
    {
      ++_counts.ok;
      std::string out{"ok " + tname<res_t>() + " "};
      tp(res.get_success_unsafe(), out);
      return out + mm;
    }
    if (routed ? c02route::routed_error<Ch>(mm, route / 10U, res.get_failure_unsafe()).is_fatal()
               : res.get_failure_unsafe().is_fatal())
    {
      ++_counts.fatal;
      return "fatal" + mm;
    }
    ++_counts.fail;
    return "fail" + mm;
  }
  catch (fcppt::exception const &)
  {
    return "exc:fcppt::exception";
  }
  catch (std::exception const &)
  {
    return "exc:std::exception";
  }
  catch (...)
  {
    return "exc:unknown";
  }
}

struct top
{
  bool is_enum;
  char entry;
  std::string payload;
  unsigned maxlen;
};

// the enumeration loop is a template on the character type only: one std::function per shape keeps the per-shape
// instantiation down to `one`
template <typename Ch>
std::string go(std::function<std::string(std::basic_string<Ch> &&, tcounts &)> const &_one, top const &_op)
{
  tcounts cnt{};
  if (!_op.is_enum)
    return _one(decode<Ch>(_op.payload), cnt);
  std::basic_string<Ch> const alphabet{decode<Ch>(_op.payload)};
  std::uint64_t h = vh::fnv_init;
  for (unsigned len = 0; len <= _op.maxlen; ++len)
  {
    std::vector<std::size_t> idx(len, 0);
    while (true)
    {
      std::basic_string<Ch> input;
      input.reserve(len);
      for (std::size_t const i : idx)
        input.push_back(alphabet[i]);
      h = vh::fnv(h, _one(std::move(input), cnt) + "\n");
      std::size_t p = len;
      while (p > 0 && idx[p - 1] + 1 == alphabet.size())
      {
        idx[p - 1] = 0;
        --p;
      }
      if (p == 0)
        break;
      ++idx[p - 1];
    }
  }
  return "D " + vh::hex64(h) + " n=" + std::to_string(cnt.n) + " ok=" + std::to_string(cnt.ok) +
         " fail=" + std::to_string(cnt.fail) + " fatal=" + std::to_string(cnt.fatal);
}

// the skipper type of the world a character type belongs to (box.X = make_base<Ch, Sk>(X) needs it)
template <typename Ch>
using world_skipper = std::conditional_t<std::is_same_v<Ch, char>, fsk::epsilon, fsk::basic_literal<wchar_t>>;

template <typename Ch, typename P>
auto box(P &&_p)
{
  return fp::make_base<Ch, world_skipper<Ch>>(std::forward<P>(_p));
}

template <typename Ch>
auto cstr(char const *const _s)
{
  return decode<Ch>(_s);
}

// One chunk of the shape list in one world: sets _result and returns true if _grammar is one of its shapes.
// worlds: 0 = (char, skipper::epsilon), 1 = (wchar_t, skipper::basic_literal<wchar_t>{_skip})
using chunk_fn = bool (*)(unsigned _world, wchar_t _skip, std::string const &_grammar, top const &_op, std::string &_result);

template <typename Ch, typename Parser>
void run_shape(unsigned const _world, wchar_t const _skip, Parser &&_parser0, top const &_op, std::string &_result)
{
  static_assert(!std::is_reference_v<Parser>, "the generated shapes hand over a prvalue");
  if (_world != (std::is_same_v<Ch, char> ? 0U : 1U))
    return;
  // the whole statically typed parser through a special member of its class; the route is a function of the shape's
  // result type and of the operation
  Parser const _parser{c02route::routed_parser<Parser>(
      std::move(_parser0),
      vh::sm::mix(vh::sm::mix(static_cast<unsigned>(_op.entry) + _op.maxlen, tname<fp::result_of<Parser>>()), _op.payload))};
  if constexpr (std::is_same_v<Ch, char>)
  {
    if (_world == 0)
      _result = go<char>(
          [&_parser, &_op](std::string &&_in, tcounts &_c) {
            return one<char, fsk::epsilon>(_parser, std::move(_in), fsk::epsilon{}, _op.entry, _c);
          },
          _op);
  }
  else
  {
    using lit_t = fsk::basic_literal<wchar_t>;
    if (_world == 1)
      _result = go<wchar_t>(
          [&_parser, &_op, _skip](std::wstring &&_in, tcounts &_c) {
            return one<wchar_t, lit_t>(_parser, std::move(_in), lit_t{_skip}, _op.entry, _c);
          },
          _op);
  }
}

// defined in the generated harness/c02_typed_<i>.cpp; the table in harness/c02_typed_table.inc
#define C02_TYPED_CHUNK(i) bool chunk_##i(unsigned, wchar_t, std::string const &, top const &, std::string &);
#include "c02_typed_table.inc"
#undef C02_TYPED_CHUNK
// hand-written: harness/c02_typed_rec.cpp (a recursive grammar, entry point grammar_parse_string)
bool chunk_rec(unsigned, wchar_t, std::string const &, top const &, std::string &);

inline std::string run(std::string const &_ce, std::string const &_sk, std::string const &_grammar, top const &_op)
{
  unsigned world = 2;
  wchar_t skip = 0;
  if (_ce[0] == 'c' && _sk == "E" && (_op.entry == 'p' || _op.entry == 'h' || _op.entry == 'g'))
    world = 0;
  else if (_ce[0] == 'w' && _sk.size() == 2 && _sk[0] == 'L' && (_op.entry == 'h' || _op.entry == 'g'))
  {
    world = 1;
    skip = decode_char<wchar_t>(_sk[1]);
  }
  if (world == 2)
    return "bad-op";
  std::string result{"bad-op"};
  chunk_fn const chunks[] = {
      &chunk_rec,
#define C02_TYPED_CHUNK(i) &chunk_##i,
#include "c02_typed_table.inc"
#undef C02_TYPED_CHUNK
  };
  for (chunk_fn const f : chunks)
    if (f(world, skip, _grammar, _op, result))
      break;
  return result;
}
}

#endif
