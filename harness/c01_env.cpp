// C01 harness, part 2 (included by c01.cpp): the environment-dependent part of the registry.
//   streams in every state (eof/fail/bad bit set, null streambuf, one-character get area, streambuf that throws,
//   ifstream on a regular file and on a directory), output streams with limited room,
//   every file-system helper on every kind of path of the scratch directory,
//   the environment, argc/argv, errno values, time_t values, mangled names, the class hierarchy behind the casts.
// Every call is inside c01::guarded (catch(...) -> exception kind) and the per-line watchdog.

#include <fcppt/args.hpp>
#include <fcppt/args_from_second.hpp>
#include <fcppt/dynamic_pointer_cast.hpp>
#include <fcppt/exception.hpp>
#include <fcppt/getenv.hpp>
#include <fcppt/make_shared_ptr.hpp>
#include <fcppt/make_unique_ptr.hpp>
#include <fcppt/shared_ptr_impl.hpp>
#include <fcppt/system.hpp>
#include <fcppt/type_name.hpp>
#include <fcppt/type_name_from_info.hpp>
#include <fcppt/unique_ptr_dynamic_cast.hpp>
#include <fcppt/unique_ptr_from_std.hpp>
#include <fcppt/weak_ptr_impl.hpp>
#include <fcppt/math/vector/atan2.hpp>
#include <fcppt/unique_ptr_impl.hpp>
#include <fcppt/unique_ptr_to_base.hpp>
#include <fcppt/cast/dynamic_any.hpp>
#include <fcppt/cast/dynamic_cross.hpp>
#include <fcppt/cast/dynamic_fun.hpp>
#include <fcppt/container/find_opt_iterator.hpp>
#include <fcppt/container/find_opt_mapped.hpp>
#include <fcppt/either/object_impl.hpp>
#include <fcppt/error/strerror.hpp>
#include <fcppt/filesystem/create_directories_recursive.hpp>
#include <fcppt/filesystem/create_directory.hpp>
#include <fcppt/filesystem/directory_range.hpp>
#include <fcppt/filesystem/extension.hpp>
#include <fcppt/filesystem/extension_without_dot.hpp>
#include <fcppt/filesystem/make_directory_range.hpp>
#include <fcppt/filesystem/make_recursive_directory_range.hpp>
#include <fcppt/filesystem/normalize.hpp>
#include <fcppt/filesystem/num_subpaths.hpp>
#include <fcppt/filesystem/open.hpp>
#include <fcppt/filesystem/open_exn.hpp>
#include <fcppt/filesystem/path_to_string.hpp>
#include <fcppt/filesystem/recursive_directory_range.hpp>
#include <fcppt/filesystem/replace_extension.hpp>
#include <fcppt/filesystem/stem.hpp>
#include <fcppt/filesystem/strip_prefix.hpp>
#include <fcppt/io/extract.hpp>
#include <fcppt/math/vector/arithmetic.hpp>
#include <fcppt/math/vector/at.hpp>
#include <fcppt/math/vector/ceil_div_signed.hpp>
#include <fcppt/math/vector/mod.hpp>
#include <fcppt/math/vector/static.hpp>
#include <fcppt/math/vector/comparison.hpp>
#include <fcppt/io/get.hpp>
#include <fcppt/io/peek.hpp>
#include <fcppt/io/read.hpp>
#include <fcppt/io/write_chars.hpp>
#include <fcppt/options/impl/flag_name.hpp>
#include <fcppt/time/gmtime.hpp>
#include <fcppt/time/localtime.hpp>
#include <fcppt/variant/match.hpp>
#include <fcppt/variant/object_impl.hpp>

#include <bit>
#include <ctime>
#include <list>
#include <locale>
#include <optional>
#include <stdexcept>
#include <streambuf>
#include <typeinfo>
#include <unordered_map>

namespace c01
{
// ---------------------------------------------------------------------------------------------------------------
// input streams
// ---------------------------------------------------------------------------------------------------------------

// a streambuf over a string that exposes `chunk` characters per underflow (0 = everything at once) and either reports
// end-of-file or throws once the string is used up
struct chunk_buf : std::streambuf
{
  std::string data;
  std::size_t pos = 0;
  std::size_t chunk;
  bool throw_at_end;
  chunk_buf(std::string d, std::size_t c, bool t) : data(std::move(d)), chunk(c), throw_at_end(t) {}
  int_type underflow() override
  {
    if (pos == data.size())
    {
      if (throw_at_end)
        throw std::runtime_error("chunk_buf::underflow");
      return traits_type::eof();
    }
    std::size_t const n = chunk == 0 ? data.size() - pos : std::min(chunk, data.size() - pos);
    setg(data.data() + pos, data.data() + pos, data.data() + pos + n);
    pos += n;
    return traits_type::to_int_type(*gptr());
  }
};

unsigned long &op_counter()
{
  static unsigned long c = 0;
  return c;
}

std::filesystem::path fresh_name(char const *prefix) { return scratch / (prefix + std::to_string(++op_counter())); }

struct in_stream
{
  std::unique_ptr<std::streambuf> sb;
  std::unique_ptr<std::istream> is;
  std::filesystem::path file;
  ~in_stream()
  {
    is.reset();
    if (!file.empty())
    {
      std::error_code ec;
      std::filesystem::remove(file, ec);
    }
  }
};

// kinds: fresh eofbit failbit badbit chunk1 chunk2 file throwend throwend1 nullbuf dir
bool make_in(std::string const &kind, std::string const &content, in_stream &r)
{
  if (kind == "fresh" || kind == "eofbit" || kind == "failbit" || kind == "badbit")
  {
    r.is = std::make_unique<std::istringstream>(content);
    if (kind == "eofbit") r.is->setstate(std::ios_base::eofbit);
    if (kind == "failbit") r.is->setstate(std::ios_base::failbit);
    if (kind == "badbit") r.is->setstate(std::ios_base::badbit);
    return true;
  }
  if (kind == "chunk1" || kind == "chunk2" || kind == "throwend" || kind == "throwend1")
  {
    r.sb = std::make_unique<chunk_buf>(
        content, kind == "chunk1" || kind == "throwend1" ? 1U : kind == "chunk2" ? 2U : 0U, kind == "throwend" || kind == "throwend1");
    r.is = std::make_unique<std::istream>(r.sb.get());
    return true;
  }
  if (kind == "nullbuf")
  {
    r.is = std::make_unique<std::istream>(nullptr);
    return content.empty();
  }
  if (kind == "file")
  {
    r.file = fresh_name("in_");
    {
      std::ofstream o(r.file, std::ios_base::binary);
      o << content;
    }
    r.is = std::make_unique<std::ifstream>(r.file, std::ios_base::binary);
    return true;
  }
  if (kind == "dir")
  {
    r.is = std::make_unique<std::ifstream>(scratch / "dir", std::ios_base::binary);
    return content.empty();
  }
  return false;
}

std::string stream_bits(std::ios const &s)
{
  return std::string{s.eof() ? "e" : ""} + (s.fail() && !s.bad() ? "f" : "") + (s.bad() ? "b" : "") + (s.good() ? "g" : "");
}

// ---------------------------------------------------------------------------------------------------------------
// output streams
// ---------------------------------------------------------------------------------------------------------------

// room for `room` characters, then overflow reports failure or throws
struct room_buf : std::streambuf
{
  std::string store;
  bool throw_when_full;
  room_buf(std::size_t room, bool t) : store(room, '\0'), throw_when_full(t) { setp(store.data(), store.data() + store.size()); }
  int_type overflow(int_type) override
  {
    if (throw_when_full)
      throw std::runtime_error("room_buf::overflow");
    return traits_type::eof();
  }
  std::string written() const { return std::string(pbase(), pptr()); }
};

// ---------------------------------------------------------------------------------------------------------------
// class hierarchy for the casts
// ---------------------------------------------------------------------------------------------------------------
struct iface
{
  virtual ~iface() = default;
  int iface_tag = 7;
};
struct d3 : d1
{
  int d3_tag = 3;
};
struct m : d1, iface
{
  int m_tag = 4;
};

template <typename F>
auto with_object(std::string const &dyn, F const &f) -> decltype(f(std::declval<base &>()))
{
  if (dyn == "base") { base o; return f(o); }
  if (dyn == "d1") { d1 o; return f(static_cast<base &>(o)); }
  if (dyn == "d2") { d2 o; return f(static_cast<base &>(o)); }
  if (dyn == "d3") { d3 o; return f(static_cast<base &>(o)); }
  if (dyn == "m") { m o; return f(static_cast<base &>(o)); }
  throw std::invalid_argument("dyn");
}

fcppt::unique_ptr<base> make_object(std::string const &dyn)
{
  if (dyn == "base") return fcppt::make_unique_ptr<base>();
  if (dyn == "d1") return fcppt::unique_ptr_to_base<base>(fcppt::make_unique_ptr<d1>());
  if (dyn == "d2") return fcppt::unique_ptr_to_base<base>(fcppt::make_unique_ptr<d2>());
  if (dyn == "d3") return fcppt::unique_ptr_to_base<base>(fcppt::make_unique_ptr<d3>());
  if (dyn == "m") return fcppt::unique_ptr_to_base<base>(fcppt::make_unique_ptr<m>());
  throw std::invalid_argument("dyn");
}

template <typename Target>
std::string cast_all(std::string const &dyn)
{
  // every cast function of the family must agree
  bool const a = with_object(dyn, [](base &b) { return fcppt::cast::dynamic<Target>(b).has_value(); });
  bool const a_const = with_object(dyn, [](base &b) {
    base const &cb = b;
    return fcppt::cast::dynamic<Target const>(cb).has_value();
  });
  bool const any = with_object(dyn, [](base &b) { return fcppt::cast::dynamic_any<Target>(b).has_value(); });
  bool shared = false;
  {
    fcppt::shared_ptr<base> const p{make_object(dyn)};
    auto const r = fcppt::dynamic_pointer_cast<Target>(p);
    shared = r.has_value();
    if (shared && r.get_unsafe().use_count() != 2)
      return "shared-count-wrong";
  }
  bool unique = false;
  {
    auto r = fcppt::unique_ptr_dynamic_cast<fcppt::cast::dynamic_fun, Target>(make_object(dyn));
    unique = fcppt::variant::match(
        r, [](fcppt::unique_ptr<Target> const &) { return true; }, [](fcppt::unique_ptr<base> const &) { return false; });
  }
  if (a != a_const || a != any || a != shared || a != unique)
    return std::string{"casts-disagree "} + (a ? "1" : "0") + (a_const ? "1" : "0") + (any ? "1" : "0") + (shared ? "1" : "0") + (unique ? "1" : "0");
  return a ? "some" : "none";
}

// ---------------------------------------------------------------------------------------------------------------
// a global locale that groups digits: a function that forgets to imbue the classic locale reads "1,000" as 1000
// ---------------------------------------------------------------------------------------------------------------
struct grouping_punct : std::numpunct<char>
{
  char do_thousands_sep() const override { return ','; }
  std::string do_grouping() const override { return "\3"; }
  char do_decimal_point() const override { return ';'; }
};

struct hostile_locale_guard
{
  std::locale old;
  hostile_locale_guard() : old(std::locale::global(std::locale{std::locale::classic(), new grouping_punct})) {}
  ~hostile_locale_guard() { std::locale::global(old); }
};

void prepare_env()
{
  ::setenv("VERIF_C01_SET", "value", 1);
  ::setenv("VERIF_C01_EMPTY", "", 1);
  ::setenv("VERIF_C01_EQ", "a=b", 1);
  ::unsetenv("VERIF_C01_UNSET");
  ::setenv("TZ", "UTC", 1);
  ::tzset();
}

std::filesystem::path path_of_kind(std::string const &k)
{
  return k == "emptypath" ? std::filesystem::path{}
         : k == "dot"     ? std::filesystem::path{"."}
         : k == "longname" ? scratch / std::string(300, 'n')                 // ENAMETOOLONG
         : k == "underfile" ? scratch / "file5" / "x"                         // ENOTDIR
         : k == "underloop" ? scratch / "selfloop" / "x"                      // ELOOP in a parent component
         : k == "longpath" ? scratch / std::string(5000, 'p')                 // longer than PATH_MAX
         : k == "missingparent" ? scratch / "nodir" / "x"
         : k == "weirdname" ? scratch / "we ird\n\xff\xfe"
         : k == "relfile"  ? std::filesystem::path{"file5"}
         : k == "reldot"   ? std::filesystem::path{"./file5"}
         : k == "reldotdot" ? std::filesystem::path{"dir/../file5"}
         : k == "reldir"   ? std::filesystem::path{"dir2"}
         : k == "relmissing" ? std::filesystem::path{"verif_c01_nonexistent"}
         : k == "relunder" ? std::filesystem::path{"file5/../file5"}                   // ENOTDIR although it "normalises" to a file
         : k == "sub"      ? scratch / "dir2" / "sub"
         : k == "trailing" ? scratch / "dir2" / ""                            // "…/dir2/"
         : k == "filetrailing" ? scratch / "file5" / ""                       // "…/file5/": ENOTDIR
                           : scratch / k;
}

template <typename Range>
std::string count_range(fcppt::either::object<std::error_code, Range> const &r)
{
  if (r.has_failure())
    return "failure";
  unsigned n = 0;
  // iteration itself is std::filesystem's; capped
  std::error_code ec;
  auto it = r.get_success_unsafe().begin();
  auto const end = r.get_success_unsafe().end();
  for (; it != end && n < 1000; it.increment(ec))
  {
    if (ec)
      return "iteration-error";
    ++n;
  }
  return "success " + std::to_string(n);
}

// (Exhausting the file descriptors (RLIMIT_NOFILE) around a call was tried and dropped: UBSan's vptr check validates unknown
// addresses by writing them into a pipe(), which then fails too and reports bogus "invalid vptr" errors.)
std::optional<std::string> handle_env(std::vector<std::string> const &t)
{
  std::string const &op = t[0];
  // ---- io ------------------------------------------------------------------------------------------------------
  if (op == "readchars" && t.size() == 4)
  {
    in_stream in;
    if (!make_in(t[1], payload(t[2]), in))
      return "bad-op";
    auto const r = fcppt::io::read_chars(*in.is, static_cast<std::size_t>(vh::to_ull(t[3])));
    if (!r.has_value())
      return "none " + stream_bits(*in.is);
    return "some " + out_str(std::string(r.get_unsafe().begin(), r.get_unsafe().end())) + " " + stream_bits(*in.is);
  }
  if (op == "readchars2" && t.size() == 5)
  {
    // two consecutive reads from the same stream: the second one starts where the first one stopped
    in_stream in;
    if (!make_in(t[1], payload(t[2]), in))
      return "bad-op";
    std::string out;
    for (std::size_t i = 3; i < 5; ++i)
    {
      auto const r = fcppt::io::read_chars(*in.is, static_cast<std::size_t>(vh::to_ull(t[i])));
      out += r.has_value() ? "some " + out_str(std::string(r.get_unsafe().begin(), r.get_unsafe().end())) + " " : std::string{"none "};
    }
    return out + stream_bits(*in.is);
  }
  if (op == "sts" && t.size() == 3)
  {
    in_stream in;
    if (!make_in(t[1], payload(t[2]), in))
      return "bad-op";
    auto const r = fcppt::io::stream_to_string(*in.is);
    std::string const res = r.has_value() ? "some " + out_str(r.get_unsafe()) : std::string{"none"};
    if (t[1] == "fresh" || t[1] == "eofbit" || t[1] == "failbit" || t[1] == "badbit")
    {
      // the wchar_t instantiation on the same text and state
      std::string const c = payload(t[2]);
      std::wstring wide;
      for (unsigned char ch : c)
        wide.push_back(static_cast<wchar_t>(ch));
      std::wistringstream w{wide};
      w.setstate(in.is->rdstate());
      auto const rw = fcppt::io::stream_to_string(w);
      if (rw.has_value() != r.has_value() || (rw.has_value() && rw.get_unsafe() != wide))
        return "wide-disagrees";
    }
    return res;
  }
  if ((op == "ioget" || op == "iopeek") && t.size() == 3)
  {
    in_stream in;
    if (!make_in(t[1], payload(t[2]), in))
      return "bad-op";
    // twice: peek must not consume, get must
    std::string out;
    for (int i = 0; i < 2; ++i)
    {
      auto const r = op == "ioget" ? fcppt::io::get(*in.is) : fcppt::io::peek(*in.is);
      out += r.has_value() ? "some " + std::to_string(static_cast<int>(static_cast<unsigned char>(r.get_unsafe()))) + " " : std::string{"none "};
    }
    return out + stream_bits(*in.is);
  }
  if (op == "ioread" && t.size() == 5)
  {
    in_stream in;
    if (!make_in(t[3], payload(t[4]), in))
      return "bad-op";
    std::endian const e = t[2] == "big" ? std::endian::big : std::endian::little;
    if (t[2] != "big" && t[2] != "little")
      return "bad-op";
    auto show = [&](auto const &r) {
      return (r.has_value() ? "some " + std::to_string(r.get_unsafe()) : std::string{"none"}) + " " + stream_bits(*in.is);
    };
    if (t[1] == "u8") return show(fcppt::io::read<std::uint8_t>(*in.is, e));
    if (t[1] == "u16") return show(fcppt::io::read<std::uint16_t>(*in.is, e));
    if (t[1] == "u32") return show(fcppt::io::read<std::uint32_t>(*in.is, e));
    if (t[1] == "i32") return show(fcppt::io::read<std::int32_t>(*in.is, e));
    if (t[1] == "u64") return show(fcppt::io::read<std::uint64_t>(*in.is, e));
    return "bad-op";
  }
  if (op == "ioextract" && t.size() == 4)
  {
    // io::extract<T> (operator>> into an optional) on a stream in the given state
    in_stream in;
    if (!make_in(t[2], payload(t[3]), in))
      return "bad-op";
    auto show = [](auto const &r) {
      return r.has_value() ? "some " + std::to_string(static_cast<long long>(r.get_unsafe())) : std::string{"none"};
    };
    if (t[1] == "int") return show(fcppt::io::extract<int>(*in.is));
    if (t[1] == "uint") return show(fcppt::io::extract<unsigned>(*in.is));
    if (t[1] == "short") return show(fcppt::io::extract<short>(*in.is));
    if (t[1] == "long") return show(fcppt::io::extract<long>(*in.is));
    if (t[1] == "char") return show(fcppt::io::extract<char>(*in.is));
    if (t[1] == "uchar") return show(fcppt::io::extract<unsigned char>(*in.is));
    return "bad-op";
  }
  if (op == "writechars" && t.size() == 3)
  {
    // kinds: fresh eofbit failbit badbit room<k> throwroom<k> nullbuf file
    std::string const data = payload(t[2]);
    exact const e{data};
    char const *const ptr = data.empty() ? nullptr : e.mem.get();
    std::string const &kind = t[1];
    if (kind == "fresh" || kind == "eofbit" || kind == "failbit" || kind == "badbit")
    {
      std::ostringstream o;
      o << "ab";
      if (kind == "eofbit") o.setstate(std::ios_base::eofbit);
      if (kind == "failbit") o.setstate(std::ios_base::failbit);
      if (kind == "badbit") o.setstate(std::ios_base::badbit);
      bool const r = fcppt::io::write_chars(o, ptr, data.size());
      return std::string{r ? "1" : "0"} + " s:" + o.str() + " " + stream_bits(o);
    }
    if (kind.rfind("room", 0) == 0 || kind.rfind("throwroom", 0) == 0)
    {
      bool const thr = kind[0] == 't';
      room_buf b{static_cast<std::size_t>(std::stoul(kind.substr(thr ? 9 : 4))), thr};
      std::ostream o{&b};
      bool const r = fcppt::io::write_chars(o, ptr, data.size());
      return std::string{r ? "1" : "0"} + " s:" + b.written() + " " + stream_bits(o);
    }
    if (kind == "devfull")
    {
      // a device that accepts no byte: what reaches the device fails, what stays in the stream's buffer does not (yet)
      std::ofstream o{"/dev/full", std::ios_base::binary};
      bool const r = fcppt::io::write_chars(o, ptr, data.size());
      return std::string{r ? "1" : "0"} + " s: " + stream_bits(o);
    }
    if (kind == "nullbuf")
    {
      std::ostream o{nullptr};
      bool const r = fcppt::io::write_chars(o, ptr, data.size());
      return std::string{r ? "1" : "0"} + " s: " + stream_bits(o);
    }
    if (kind == "file")
    {
      std::filesystem::path const p = fresh_name("out_");
      bool r = false;
      std::string bits;
      {
        std::ofstream o{p, std::ios_base::binary};
        r = fcppt::io::write_chars(o, ptr, data.size());
        bits = stream_bits(o);
      }
      std::string back;
      {
        std::ifstream i{p, std::ios_base::binary};
        std::ostringstream s;
        if (i.peek() != std::char_traits<char>::eof())
          s << i.rdbuf();
        back = s.str();
      }
      std::error_code ec;
      std::filesystem::remove(p, ec);
      return std::string{r ? "1" : "0"} + " s:" + back + " " + bits;
    }
    return "bad-op";
  }
  // ---- math::vector: component-wise all-or-nothing wrappers of the scalar helpers --------------------------------------
  if ((op == "vdiv" || op == "vdivv" || op == "vmod" || op == "vmodv" || op == "vceildiv") && t.size() == 4)
  {
    bool const vec_rhs = op == "vdivv" || op == "vmodv";
    auto const l = vh::int_list(t[2]);
    std::vector<long long> const r = vec_rhs ? vh::int_list(t[3]) : std::vector<long long>{vh::to_ll(t[3])};
    if ((l.size() != 2 && l.size() != 3) || (vec_rhs && r.size() != l.size()))
      return "bad-op";
    auto run = [&]<typename T, std::size_t N>(fcppt::tag<T>, std::integral_constant<std::size_t, N>) -> std::string {
      using vec = fcppt::math::vector::static_<T, N>;
      auto make = [](std::vector<long long> const &s) {
        if constexpr (N == 2)
          return vec{static_cast<T>(s[0]), static_cast<T>(s[1])};
        else
          return vec{static_cast<T>(s[0]), static_cast<T>(s[1]), static_cast<T>(s[2])};
      };
      auto show = [](fcppt::optional::object<vec> const &o) {
        if (!o.has_value())
          return std::string{"none"};
        std::vector<long long> out;
        out.push_back(static_cast<long long>(fcppt::math::vector::at<0>(o.get_unsafe())));
        out.push_back(static_cast<long long>(fcppt::math::vector::at<1>(o.get_unsafe())));
        if constexpr (N == 3)
          out.push_back(static_cast<long long>(fcppt::math::vector::at<2>(o.get_unsafe())));
        return "some " + vh::join(out);
      };
      vec const a{make(l)};
      T const d{static_cast<T>(r[0])};
      if (op == "vdiv")
      {
        std::string const res = show(a / d);
        // aliasing: the divisor is a component of the vector itself
        if (d == fcppt::math::vector::at<0>(a) && show(a / fcppt::math::vector::at<0>(a)) != res)
          return "alias-fail";
        return res;
      }
      if (op == "vdivv")
      {
        std::string const res = show(a / make(r));
        if (make(r) == a && show(a / a) != res)
          return "alias-fail";
        return res;
      }
      if constexpr (std::is_unsigned_v<T>)
      {
        if (op == "vmod")
          return show(fcppt::math::vector::mod(a, d));
        if (op == "vmodv")
          return show(fcppt::math::vector::mod(a, make(r)));
      }
      else
      {
        if (op == "vceildiv")
          return show(fcppt::math::vector::ceil_div_signed(a, d));
      }
      return "bad-op";
    };
    auto dims = [&]<typename T>(fcppt::tag<T> tag) {
      return l.size() == 2 ? run(tag, std::integral_constant<std::size_t, 2>{}) : run(tag, std::integral_constant<std::size_t, 3>{});
    };
    if (t[1] == "i32") return dims(fcppt::tag<std::int32_t>{});
    if (t[1] == "u32") return dims(fcppt::tag<std::uint32_t>{});
    return "bad-op";
  }
  // ---- file system: every helper on every kind of path ------------------------------------------------------------
  if (op == "fopen" && t.size() == 3)
  {
    // fopen r|w|rx|wx <kind>   (x = open_exn)
    std::string const &mode = t[1];
    bool const exn = mode.size() == 2 && mode[1] == 'x';
    std::filesystem::path const p = t[2] == "new" ? fresh_name("new_") : path_of_kind(t[2]);
    std::string res;
    if (mode[0] == 'r')
    {
      if (exn)
      {
        try
        {
          std::ifstream s{fcppt::filesystem::open_exn<std::ifstream>(p, std::ios_base::in)};
          res = s.is_open() ? "some" : "closed-stream";
        }
        catch (fcppt::exception const &)
        {
          res = "exc:fcppt";
        }
      }
      else
      {
        auto const r = fcppt::filesystem::open<std::ifstream>(p, std::ios_base::in);
        res = r.has_value() ? (r.get_unsafe().is_open() ? "some" : "closed-stream") : "none";
      }
    }
    else if (mode[0] == 'w')
    {
      if (exn)
      {
        try
        {
          std::ofstream s{fcppt::filesystem::open_exn<std::ofstream>(p, std::ios_base::out)};
          res = s.is_open() ? "some" : "closed-stream";
        }
        catch (fcppt::exception const &)
        {
          res = "exc:fcppt";
        }
      }
      else
      {
        auto const r = fcppt::filesystem::open<std::ofstream>(p, std::ios_base::out);
        res = r.has_value() ? (r.get_unsafe().is_open() ? "some" : "closed-stream") : "none";
      }
    }
    else
      return "bad-op";
    if (t[2] == "new")
    {
      std::error_code ec;
      std::filesystem::remove(p, ec);
    }
    return res;
  }
  if ((op == "mkdir" || op == "mkdirs") && t.size() == 2)
  {
    bool const fresh = t[1] == "new" || t[1] == "newnested";
    if (t[1] == "missing" || t[1] == "missingparent" || t[1] == "relmissing") // would change what other operations see
      return "bad-op";
    std::filesystem::path const root = fresh ? fresh_name("mk_") : std::filesystem::path{};
    std::filesystem::path const p = t[1] == "new" ? root : t[1] == "newnested" ? root / "a" / "b" : path_of_kind(t[1]);
    auto const r = op == "mkdir" ? fcppt::filesystem::create_directory(p) : fcppt::filesystem::create_directories_recursive(p);
    std::error_code ec;
    std::string const made = fresh ? (std::filesystem::is_directory(p, ec) ? " made" : " not-made") : std::string{};
    if (fresh)
      std::filesystem::remove_all(root, ec);
    return (r.has_value() ? "error" : "none") + made;
  }
  if ((op == "dirrange" || op == "rdirrange") && t.size() == 3)
  {
    std::filesystem::directory_options const o = t[1] == "none"   ? std::filesystem::directory_options::none
                                                 : t[1] == "skip" ? std::filesystem::directory_options::skip_permission_denied
                                                                  : std::filesystem::directory_options::follow_directory_symlink;
    if (t[1] != "none" && t[1] != "skip" && t[1] != "follow")
      return "bad-op";
    std::filesystem::path const p = path_of_kind(t[2]);
    return op == "dirrange" ? count_range(fcppt::filesystem::make_directory_range(p, o))
                            : count_range(fcppt::filesystem::make_recursive_directory_range(p, o));
  }
  // ---- paths (pure) ---------------------------------------------------------------------------------------------
  if (op == "path" && t.size() == 3)
  {
    std::filesystem::path const p{payload(t[2])};
    std::string const &f = t[1];
    if (f == "rmext") return "s:" + fcppt::filesystem::remove_extension(p).string();
    if (f == "ext") return "s:" + fcppt::filesystem::extension(p);
    if (f == "extnodot") return "s:" + fcppt::filesystem::extension_without_dot(p);
    if (f == "stem") return "s:" + fcppt::filesystem::stem(p);
    if (f == "normalize") return "s:" + fcppt::filesystem::normalize(p).string();
    if (f == "nsub") return std::to_string(fcppt::filesystem::num_subpaths(p));
    if (f == "tostring") return "s:" + fcppt::filesystem::path_to_string(p);
    return "bad-op";
  }
  if (op == "replext" && t.size() == 3)
  {
    exact const e{payload(t[2])};
    std::filesystem::path const p{payload(t[1])};
    std::string const r = fcppt::filesystem::replace_extension(p, e.view()).string();
    // aliasing: the new extension is a view onto the path's own storage
    std::string const &own = p.native();
    if (own.size() >= e.n && own.compare(own.size() - e.n, e.n, e.s_view()) == 0)
    {
      std::string const r2 = fcppt::filesystem::replace_extension(p, std::string_view{own}.substr(own.size() - e.n)).string();
      if (r2 != r)
        return "alias-fail s:" + r + " s:" + r2;
    }
    return "s:" + r;
  }
  if (op == "stripprefix" && t.size() == 3)
  {
    std::filesystem::path const prefix{payload(t[1])};
    std::filesystem::path const p{payload(t[2])};
    // documented: undefined unless `prefix` is a prefix of `path`; the call is made whenever it stays inside the path
    if (fcppt::filesystem::num_subpaths(prefix) > fcppt::filesystem::num_subpaths(p))
      return "unsafe";
    std::string const r = fcppt::filesystem::strip_prefix(prefix, p).string();
    if (prefix.native() == p.native() && fcppt::filesystem::strip_prefix(p, p).string() != r) // the same object twice
      return "alias-fail";
    return "s:" + r;
  }
  // ---- environment, arguments, errno, time, names -----------------------------------------------------------------
  if (op == "getenv" && t.size() == 2)
  {
    exact const e{payload(t[1])};
    auto const r = fcppt::getenv(e.view());
    return r.has_value() ? "some s:" + r.get_unsafe() : std::string{"none"};
  }
  if ((op == "args" || op == "args2") && t.size() == 3)
  {
    // args <argc> <a,b,c>: argv is an exact-size heap array of exactly argc pointers (no trailing null pointer)
    auto const strs = split(t[2], ',');
    int const argc = static_cast<int>(vh::to_ll(t[1]));
    if (argc < 0 || static_cast<std::size_t>(argc) != strs.size())
      return "bad-op";
    std::vector<std::unique_ptr<char[]>> store;
    std::unique_ptr<char const *[]> argv{new char const *[argc == 0 ? 1 : static_cast<std::size_t>(argc)]};
    for (std::size_t i = 0; i < strs.size(); ++i)
    {
      store.emplace_back(new char[strs[i].size() + 1]);
      std::memcpy(store.back().get(), strs[i].c_str(), strs[i].size() + 1);
      argv[i] = store.back().get();
    }
    char const *const *const av = argc == 0 ? argv.get() + 1 : argv.get();
    fcppt::args_vector const r = op == "args" ? fcppt::args(argc, av) : fcppt::args_from_second(argc, av);
    std::string out;
    for (std::size_t i = 0; i < r.size(); ++i)
      out += (i == 0 ? "" : ",") + r[i];
    return std::to_string(r.size()) + " " + (r.empty() ? "_" : out);
  }
  if (op == "system" && t.size() == 2)
  {
    // fcppt::system: the exit status of a command that exited, nothing for one that was killed
    fcppt::string const cmd = t[1] == "exit0"      ? "exit 0"
                              : t[1] == "exit3"    ? "exit 3"
                              : t[1] == "exit255"  ? "exit 255"
                              : t[1] == "exit256"  ? "exit 256"
                              : t[1] == "true"     ? "true"
                              : t[1] == "empty"    ? ""
                              : t[1] == "notfound" ? "/nonexistent/verif_c01_command 2>/dev/null"
                              : t[1] == "kill"     ? "kill -KILL $$"
                              : t[1] == "term"     ? "kill -TERM $$"
                              : t[1] == "segv"     ? "kill -SEGV $$"
                                                   : "#";
    if (cmd == "#")
      return "bad-op";
    auto const r = fcppt::system(cmd);
    return r.has_value() ? "some " + std::to_string(r.get_unsafe()) : std::string{"none"};
  }
  if (op == "strerror" && t.size() == 2)
  {
    fcppt::string const s = fcppt::error::strerror(static_cast<int>(vh::to_ll(t[1])));
    return s.empty() ? "empty" : "ok";
  }
  if ((op == "gmtime" || op == "localtime") && t.size() == 2)
  {
    std::time_t const tt = static_cast<std::time_t>(vh::to_ll(t[1]));
    try
    {
      std::tm const r = op == "gmtime" ? fcppt::time::gmtime(tt) : fcppt::time::localtime(tt);
      // TZ=UTC: both are the civil date of the proleptic Gregorian calendar
      return "ok " + std::to_string(static_cast<long long>(r.tm_year) + 1900) + " " + std::to_string(r.tm_mon + 1) + " " + std::to_string(r.tm_mday) +
             " " + std::to_string(r.tm_hour) + " " + std::to_string(r.tm_min) + " " + std::to_string(r.tm_sec);
    }
    catch (std::runtime_error const &)
    {
      return "exc:runtime_error";
    }
  }
  if (op == "typename" && t.size() == 2)
  {
    // arbitrary text as a "mangled name": the demangler's status decides, never a crash
    std::string const name = payload(t[1]);
    std::string const r = fcppt::type_name(name.c_str());
    return r.empty() ? "empty" : r == name ? "same" : "demangled s:" + r;
  }
  if (op == "typeinfo" && t.size() == 2)
  {
    std::string const r = t[1] == "int"      ? fcppt::type_name_from_info(typeid(int))
                          : t[1] == "string" ? fcppt::type_name_from_info(typeid(std::string))
                          : t[1] == "d3"     ? fcppt::type_name_from_info(typeid(d3))
                          : t[1] == "lambda" ? fcppt::type_name_from_info(typeid([] {}))
                                             : std::string{};
    return r.empty() ? "bad-op" : "ok";
  }
  if (op == "flagname" && t.size() == 3)
  {
    exact const e{payload(t[2])};
    fcppt::string const n = fcppt::options::impl::flag_name(e.view(), fcppt::options::detail::flag_is_short{t[1] == "short"});
    // round trip through is_flag, on an exact-size copy of the produced name
    exact const e2{n};
    auto const back = fcppt::options::impl::is_flag(e2.view());
    return "s:" + n + " " + (back.has_value() ? std::string{back.get_unsafe().first.get() ? "short" : "long"} + " s:" + back.get_unsafe().second : std::string{"none"});
  }
  if (op == "uptrstd" && t.size() == 2)
  {
    // unique_ptr_from_std: a null std::unique_ptr becomes the empty optional, never a null fcppt::unique_ptr
    std::unique_ptr<d3> p{t[1] == "null" ? nullptr : new d3{}};
    if (t[1] != "null" && t[1] != "object")
      return "bad-op";
    d3 const *const raw = p.get();
    auto const r = fcppt::unique_ptr_from_std(std::move(p));
    if (r.has_value() && (r.get_unsafe().get_pointer() != raw || r.get_unsafe()->d3_tag != 3))
      return "wrong-pointer";
    return std::string{r.has_value() ? "some" : "none"} + (p == nullptr ? " source-null" : " source-kept");
  }
  if (op == "weaklock" && t.size() == 2)
  {
    // weak_ptr::lock: expired or never assigned gives the empty optional
    fcppt::weak_ptr<d3> w;
    fcppt::optional::object<fcppt::shared_ptr<d3>> keep;
    if (t[1] == "live" || t[1] == "expired")
    {
      fcppt::shared_ptr<d3> s{fcppt::make_shared_ptr<d3>()};
      w = fcppt::weak_ptr<d3>{s};
      if (t[1] == "live")
        keep = fcppt::optional::object<fcppt::shared_ptr<d3>>{s};
    }
    else if (t[1] != "empty")
      return "bad-op";
    auto const r = w.lock();
    if (r.has_value() && r.get_unsafe()->d3_tag != 3)
      return "wrong-pointer";
    return (r.has_value() ? "some " : "none ") + std::to_string(w.use_count());
  }
  if (op == "atan2" && t.size() == 3)
  {
    // math::vector::atan2: nothing iff both components are zero (signed zeros included); never a domain error
    auto val = [](std::string const &k) -> std::optional<double> {
      if (k == "0") return 0.0;
      if (k == "-0") return -0.0;
      if (k == "1") return 1.0;
      if (k == "-1") return -1.0;
      if (k == "denorm") return std::numeric_limits<double>::denorm_min();
      if (k == "-denorm") return -std::numeric_limits<double>::denorm_min();
      if (k == "max") return std::numeric_limits<double>::max();
      if (k == "inf") return std::numeric_limits<double>::infinity();
      if (k == "-inf") return -std::numeric_limits<double>::infinity();
      if (k == "nan") return std::numeric_limits<double>::quiet_NaN();
      return std::nullopt;
    };
    auto const x = val(t[1]);
    auto const y = val(t[2]);
    if (!x || !y)
      return "bad-op";
    auto const r = fcppt::math::vector::atan2(fcppt::math::vector::static_<double, 2>{*x, *y});
    auto const rf = fcppt::math::vector::atan2(fcppt::math::vector::static_<float, 2>{static_cast<float>(*x), static_cast<float>(*y)});
    bool const float_zero = static_cast<float>(*x) == 0.0F && static_cast<float>(*y) == 0.0F; // denorm_min of double is 0 as float
    if (rf.has_value() == float_zero)
      return "float-disagrees";
    if (!r.has_value())
      return "none";
    double const a = r.get_unsafe();
    return std::string{"some "} + (a != a ? "nan" : (a >= -3.2 && a <= 3.2) ? "angle" : "out-of-range");
  }
  if (op == "cast" && t.size() == 3)
  {
    // cast <target> <dynamic type>
    std::string const &dyn = t[2];
    if (dyn != "base" && dyn != "d1" && dyn != "d2" && dyn != "d3" && dyn != "m")
      return "bad-op";
    if (t[1] == "d1") return cast_all<d1>(dyn);
    if (t[1] == "d2") return cast_all<d2>(dyn);
    if (t[1] == "d3") return cast_all<d3>(dyn);
    if (t[1] == "m") return cast_all<m>(dyn);
    if (t[1] == "iface") // cross cast: base and iface are unrelated
      return with_object(dyn, [](base &b) { return fcppt::cast::dynamic_cross<iface>(b).has_value(); }) ? "some" : "none";
    return "bad-op";
  }
  return std::nullopt;
}
}
