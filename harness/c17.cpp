// C17 correspondence harness: the real fcppt wrappers and comparison / hash functions on the
// operation lines described in lean/FcpptModel/Drv/C17.lean; prints the same canonical result lines.
#include "common/vh.hpp"

#include <fcppt/make_ref.hpp>
#include <fcppt/make_recursive.hpp>
#include <fcppt/make_shared_ptr.hpp>
#include <fcppt/make_unique_ptr.hpp>
#include <fcppt/recursive.hpp>
#include <fcppt/recursive_comparison.hpp>
#include <fcppt/reference.hpp>
#include <fcppt/reference_comparison.hpp>
#include <fcppt/reference_hash.hpp>
#include <fcppt/reference_std_hash.hpp>
#include <fcppt/shared_ptr_hash_impl.hpp>
#include <fcppt/shared_ptr_impl.hpp>
#include <fcppt/shared_ptr_std_hash.hpp>
#include <fcppt/strong_typedef_arithmetic.hpp>
#include <fcppt/strong_typedef_assignment.hpp>
#include <fcppt/strong_typedef_bitwise.hpp>
#include <fcppt/strong_typedef_comparison.hpp>
#include <fcppt/strong_typedef_hash.hpp>
#include <fcppt/strong_typedef_impl.hpp>
#include <fcppt/strong_typedef_std_hash.hpp>
#include <fcppt/strong_typedef_apply.hpp>
#include <fcppt/strong_typedef_construct_cast.hpp>
#include <fcppt/strong_typedef_input.hpp>
#include <fcppt/strong_typedef_map.hpp>
#include <fcppt/strong_typedef_output.hpp>
#include <fcppt/no_init.hpp>
#include <fcppt/cast/static_cast_fun.hpp>
#include <fcppt/unique_ptr_impl.hpp>
#include <fcppt/array/comparison.hpp>
#include <fcppt/array/object_impl.hpp>
#include <fcppt/container/bitfield/comparison.hpp>
#include <fcppt/container/bitfield/hash.hpp>
#include <fcppt/container/bitfield/object.hpp>
#include <fcppt/container/bitfield/operators.hpp>
#include <fcppt/container/bitfield/std_hash.hpp>
#include <fcppt/container/grid/comparison.hpp>
#include <fcppt/container/grid/object_impl.hpp>
#include <fcppt/container/raw_vector/comparison.hpp>
#include <fcppt/container/raw_vector/object_impl.hpp>
#include <fcppt/container/tree/comparison.hpp>
#include <fcppt/container/tree/object_impl.hpp>
#include <fcppt/either/comparison.hpp>
#include <fcppt/either/object_impl.hpp>
#include <fcppt/enum/array.hpp>
#include <fcppt/enum/array_comparison.hpp>
#include <fcppt/math/box/comparison.hpp>
#include <fcppt/math/box/object_impl.hpp>
#include <fcppt/math/dim/comparison.hpp>
#include <fcppt/math/dim/static.hpp>
#include <fcppt/math/dim/std_hash.hpp>
#include <fcppt/math/matrix/at_r.hpp>
#include <fcppt/math/matrix/comparison.hpp>
#include <fcppt/math/matrix/row.hpp>
#include <fcppt/math/matrix/static.hpp>
#include <fcppt/math/matrix/std_hash.hpp>
#include <fcppt/math/sphere/comparison.hpp>
#include <fcppt/math/sphere/object_impl.hpp>
#include <fcppt/math/vector/comparison.hpp>
#include <fcppt/math/vector/static.hpp>
#include <fcppt/math/vector/std_hash.hpp>
#include <fcppt/optional/comparison.hpp>
#include <fcppt/optional/object_impl.hpp>
#include <fcppt/range/hash.hpp>
#include <fcppt/record/comparison.hpp>
#include <fcppt/record/element.hpp>
#include <fcppt/record/make_label.hpp>
#include <fcppt/record/object_impl.hpp>
#include <fcppt/tuple/comparison.hpp>
#include <fcppt/tuple/object_impl.hpp>
#include <fcppt/type_iso/strong_typedef.hpp>
#include <fcppt/variant/compare.hpp>
#include <fcppt/variant/comparison.hpp>
#include <fcppt/variant/object_impl.hpp>

#include <array>
#include <cstddef>
#include <cstdint>
#include <functional>
#include <limits>
#include <sstream>
#include <optional>
#include <string>
#include <type_traits>
#include <utility>
#include <vector>

namespace
{
using V = std::vector<long long>;

std::string b01(bool b) { return b ? "1" : "0"; }

// ---------------------------------------------------------------------------------------------
// part (a): strong_typedef operators
// ---------------------------------------------------------------------------------------------
struct st_tag
{
};

template <typename T>
struct st_inst
{
  using st = fcppt::strong_typedef<T, st_tag>;
  static constexpr bool sgn = std::is_signed_v<T>;
  // narrower than int: the operands of the built-in operators are promoted to int.  The binary / unary operators
  // of strong_typedef brace-initialise the result from an int there (a narrowing conversion, ill-formed), so only
  // the assigning operators, ++/--, the comparisons, the hash and type_iso are observed for these types.
  static constexpr bool narrow = sizeof(T) < sizeof(int);
  static constexpr T tmin = std::numeric_limits<T>::min();
  static constexpr T tmax = std::numeric_limits<T>::max();

  static std::string num(T v) { return std::to_string(v); }

  // wrapped result next to the plain operator on the plain values: "!" marks a difference
  static std::string both(T wrapped, T plain) { return num(wrapped) + (wrapped == plain ? "" : "!"); }

  // f: the wrapped operation on x; g: the same built-in operation on a plain T
  template <typename F, typename G>
  static std::string step(T a, bool ub, F f, G g)
  {
    if (ub)
      return "ub";
    st x{a};
    std::pair<st const *, T> const r = f(x); // address of what was returned (nullptr: a copy), value seen through it
    std::string s = num(x.get()) + "/" + num(r.second);
    if (r.first != nullptr && r.first != &x)
      s += "!ref";
    T p{a};
    T const pr = g(p);
    if (p != x.get() || pr != r.second)
      s += "!plain";
    return s;
  }

  struct ovf
  {
    bool add, sub, mul, neg, inc, dec;
  };

  static ovf overflow(T a, T b)
  {
    if constexpr (narrow)
    {
      // computed in int: only the product of two values can leave the range of int (unsigned short)
      long long const p = static_cast<long long>(a) * static_cast<long long>(b);
      return ovf{false, false, p > std::numeric_limits<int>::max() || p < std::numeric_limits<int>::min(), false, false,
                 false};
    }
    else
    {
      T tmp{};
      return ovf{sgn && __builtin_add_overflow(a, b, &tmp), sgn && __builtin_sub_overflow(a, b, &tmp),
                 sgn && __builtin_mul_overflow(a, b, &tmp), sgn && a == tmin, sgn && a == tmax, sgn && a == tmin};
    }
  }

  using rp = std::pair<st const *, T>;
  static rp by_ref(st &q) { return rp{&q, q.get()}; }
  static rp by_val(st const &q) { return rp{nullptr, q.get()}; }

  static std::string line(T a, T b)
  {
    st const l{a};
    st const r{b};
    ovf const o{overflow(a, b)};
    std::string s;
    if constexpr (narrow)
      s += "narrow";
    else
    {
      s += "add=" + (o.add ? std::string{"ub"} : both((l + r).get(), static_cast<T>(a + b)));
      s += " sub=" + (o.sub ? std::string{"ub"} : both((l - r).get(), static_cast<T>(a - b)));
      s += " mul=" + (o.mul ? std::string{"ub"} : both((l * r).get(), static_cast<T>(a * b)));
      s += " neg=" + (o.neg ? std::string{"ub"} : both((-l).get(), static_cast<T>(-a)));
      s += " and=" + both((l & r).get(), static_cast<T>(a & b));
      s += " or=" + both((l | r).get(), static_cast<T>(a | b));
      s += " xor=" + both((l ^ r).get(), static_cast<T>(a ^ b));
      s += " not=" + both((~l).get(), static_cast<T>(~a));
    }
    s += " preinc=" + step(a, o.inc, [](st &x) { return by_ref(++x); }, [](T &p) { return ++p; });
    s += " predec=" + step(a, o.dec, [](st &x) { return by_ref(--x); }, [](T &p) { return --p; });
    s += " postinc=" + step(a, o.inc, [](st &x) { return by_val(x++); }, [](T &p) { return p++; });
    s += " postdec=" + step(a, o.dec, [](st &x) { return by_val(x--); }, [](T &p) { return p--; });
    s += " addas=" + step(a, o.add, [&r](st &x) { return by_ref(x += r); }, [b](T &p) { return p += b; });
    s += " subas=" + step(a, o.sub, [&r](st &x) { return by_ref(x -= r); }, [b](T &p) { return p -= b; });
    s += " mulas=" + step(a, o.mul, [&r](st &x) { return by_ref(x *= r); }, [b](T &p) { return p *= b; });
    s += " andas=" + step(a, false, [&r](st &x) { return by_ref(x &= r); }, [b](T &p) { return p &= b; });
    s += " oras=" + step(a, false, [&r](st &x) { return by_ref(x |= r); }, [b](T &p) { return p |= b; });
    s += " xoras=" + step(a, false, [&r](st &x) { return by_ref(x ^= r); }, [b](T &p) { return p ^= b; });
    if (r.get() != b || l.get() != a)
      s += " operand-changed";
    bool const e = l == r;
    s += " lt=" + b01(l < r) + " le=" + b01(l <= r) + " gt=" + b01(l > r) + " ge=" + b01(l >= r) + " eq=" + b01(e) +
         " ne=" + b01(l != r);
    if ((l < r) != (a < b) || (l <= r) != (a <= b) || (l > r) != (a > b) || (l >= r) != (a >= b) || e != (a == b) ||
        (l != r) != (a != b))
      s += "!plain";
    std::string heq = "-";
    if (e)
    {
      std::size_t const h1 = fcppt::strong_typedef_hash<st>{}(l);
      std::size_t const h2 = std::hash<st>{}(r);
      heq = b01(h1 == h2 && h1 == std::hash<T>{}(a));
    }
    s += " heq=" + heq;
    using iso = fcppt::type_iso::transform<st>;
    static_assert(std::is_same_v<typename iso::undecorated_type, T>);
    st const d{iso::decorate(a)};
    s += " iso=" + both(iso::undecorate(d), d.get());
    return s;
  }

  // the SAME object on both sides of every binary / assigning operator
  static std::string self_line(T a)
  {
    ovf const o{overflow(a, a)};
    std::string s;
    if constexpr (narrow)
      s += "narrow";
    else
    {
      st const x{a};
      s += "add=" + (o.add ? std::string{"ub"} : both((x + x).get(), static_cast<T>(a + a)));
      s += " sub=" + (o.sub ? std::string{"ub"} : both((x - x).get(), static_cast<T>(a - a)));
      s += " mul=" + (o.mul ? std::string{"ub"} : both((x * x).get(), static_cast<T>(a * a)));
      s += " and=" + both((x & x).get(), static_cast<T>(a & a));
      s += " or=" + both((x | x).get(), static_cast<T>(a | a));
      s += " xor=" + both((x ^ x).get(), static_cast<T>(a ^ a));
      if (x.get() != a)
        s += " operand-changed";
    }
    s += " addas=" + step(a, o.add, [](st &x) { return by_ref(x += x); }, [](T &p) { return p += p; });
    s += " subas=" + step(a, o.sub, [](st &x) { return by_ref(x -= x); }, [](T &p) { return p -= p; });
    s += " mulas=" + step(a, o.mul, [](st &x) { return by_ref(x *= x); }, [](T &p) { return p *= p; });
    s += " andas=" + step(a, false, [](st &x) { return by_ref(x &= x); }, [](T &p) { return p &= p; });
    s += " oras=" + step(a, false, [](st &x) { return by_ref(x |= x); }, [](T &p) { return p |= p; });
    s += " xoras=" + step(a, false, [](st &x) { return by_ref(x ^= x); }, [](T &p) { return p ^= p; });
    s += " asg=" + step(a, false, [](st &x) { st &y = x; return by_ref(x = y); }, [](T &p) { return p; });
    s += " mvasg=" + step(a, false, [](st &x) { st &y = x; return by_ref(x = std::move(y)); }, [](T &p) { return p; });
    st const c{a};
    bool const e = c == c;
    s += " lt=" + b01(c < c) + " le=" + b01(c <= c) + " gt=" + b01(c > c) + " ge=" + b01(c >= c) + " eq=" + b01(e) +
         " ne=" + b01(c != c);
    s += " heq=" + (e ? b01(fcppt::strong_typedef_hash<st>{}(c) == std::hash<st>{}(c)) : std::string{"-"});
    return s;
  }

  // members and helper functions of the class itself
  static std::string mem_line(T a, T b)
  {
    std::string s;
    {
      st x{a};
      T &g = x.get();
      g = b; // writing through get() changes the wrapped object
      st const &cx = x;
      s += "set=" + num(cx.get()) + (&g == &x.get() && &cx.get() == &g ? "" : "!addr");
    }
    {
      st const c{a};
      s += " cget=" + num(c.get());
    }
    {
      st n{fcppt::no_init{}};
      n.get() = a;
      s += " noinit=" + num(n.get());
      st m{fcppt::no_init{}};
      m = st{b};
      s += "/" + num(m.get());
    }
    {
      st x{a};
      st c{x};
      x.get() = b;
      s += " copy=" + num(c.get()) + "/" + num(x.get());
    }
    {
      st x{a};
      st c{b};
      st &q = (c = x);
      x.get() = b;
      s += " cpas=" + num(c.get()) + "/" + num(x.get()) + (&q == &c ? "" : "!ref");
    }
    {
      st x{a};
      st c{std::move(x)};
      st d{b};
      d = std::move(c);
      s += " mv=" + num(d.get());
    }
    s += " size=" + b01(sizeof(st) == sizeof(T) && alignof(st) == alignof(T));
    {
      st const x{a};
      st const y{b};
      auto const f1 = [b](T v) { return static_cast<T>(v ^ b); };
      auto const m1 = fcppt::strong_typedef_map(x, f1);
      auto const m2 = fcppt::strong_typedef_map(st{a}, f1);
      static_assert(std::is_same_v<std::remove_cv_t<decltype(m1)>, st>);
      s += " map=" + both(m1.get(), static_cast<T>(a ^ b)) + "/" + both(m2.get(), static_cast<T>(a ^ b));
      auto const f2 = [](T u, T v) { return static_cast<T>(u & static_cast<T>(~v)); };
      auto const a2 = fcppt::strong_typedef_apply(f2, x, y);
      auto const a3 = fcppt::strong_typedef_apply(f2, st{a}, y);
      static_assert(std::is_same_v<std::remove_cv_t<decltype(a2)>, st>);
      s += " apply=" + both(a2.get(), static_cast<T>(a & static_cast<T>(~b))) + "/" + both(a3.get(), a2.get());
      auto const a1 = fcppt::strong_typedef_apply([](T u) { return static_cast<T>(~u); }, x);
      s += " apply1=" + both(a1.get(), static_cast<T>(~a));
      // the same object as both arguments
      auto const as = fcppt::strong_typedef_apply(f2, x, x);
      s += " applyself=" + both(as.get(), static_cast<T>(a & static_cast<T>(~a)));
      if (x.get() != a || y.get() != b)
        s += " operand-changed";
    }
    {
      using wide = std::conditional_t<sgn, long long, unsigned long long>;
      st const c{fcppt::strong_typedef_construct_cast<st, fcppt::cast::static_cast_fun>(static_cast<wide>(b))};
      s += " ccast=" + num(c.get());
    }
    {
      // << and >> are those of the wrapped type (a character for the 8-bit types)
      std::ostringstream o1, o2;
      o1 << st{a};
      o2 << a;
      std::istringstream i1{o2.str() + " " + std::to_string(b)}, i2{o2.str() + " " + std::to_string(b)};
      st x{fcppt::no_init{}};
      x.get() = T{};
      T p{};
      i1 >> x;
      i2 >> p;
      s += " out=" + b01(o1.str() == o2.str()) + " in=" + b01(x.get() == p && i1.good() == i2.good() && i1.tellg() == i2.tellg());
    }
    return s;
  }

  static bool in_range(std::string const &s, T &out)
  {
    try
    {
      if constexpr (sgn)
      {
        long long const v = std::stoll(s);
        if (v < static_cast<long long>(tmin) || v > static_cast<long long>(tmax))
          return false;
        out = static_cast<T>(v);
      }
      else
      {
        if (!s.empty() && s[0] == '-')
          return false;
        unsigned long long const v = std::stoull(s);
        if (v > static_cast<unsigned long long>(tmax))
          return false;
        out = static_cast<T>(v);
      }
      return true;
    }
    catch (std::exception const &)
    {
      return false;
    }
  }

  template <typename F>
  static std::string digest(T lo, T hi, F f)
  {
    std::uint64_t h = vh::fnv_init;
    for (T b = lo;; ++b)
    {
      h = vh::fnv(h, f(b));
      if (b == hi)
        break;
    }
    return "D " + vh::hex64(h);
  }

  static std::string handle(std::vector<std::string> const &t)
  {
    if ((t[0] == "st" || t[0] == "stmem") && t.size() == 4)
    {
      T a{}, b{};
      if (!in_range(t[2], a) || !in_range(t[3], b))
        return "bad-op";
      return t[0] == "st" ? line(a, b) : mem_line(a, b);
    }
    if (t[0] == "stself" && t.size() == 3)
    {
      T a{};
      if (!in_range(t[2], a))
        return "bad-op";
      return self_line(a);
    }
    if ((t[0] == "sts" || t[0] == "stmems") && t.size() == 5)
    {
      T a{}, lo{}, hi{};
      if (!in_range(t[2], a) || !in_range(t[3], lo) || !in_range(t[4], hi) || lo > hi)
        return "bad-op";
      bool const mem = t[0] == "stmems";
      return digest(lo, hi, [a, mem](T b) { return mem ? mem_line(a, b) : line(a, b); });
    }
    if (t[0] == "stselfs" && t.size() == 4)
    {
      T lo{}, hi{};
      if (!in_range(t[2], lo) || !in_range(t[3], hi) || lo > hi)
        return "bad-op";
      return digest(lo, hi, [](T a) { return self_line(a); });
    }
    return "bad-op";
  }
};

// ---------------------------------------------------------------------------------------------
// part (b): comparison of the composite types
// ---------------------------------------------------------------------------------------------
enum class e3
{
  v0,
  v1,
  v2,
  fcppt_maximum = v2
};

FCPPT_RECORD_MAKE_LABEL(label0);
FCPPT_RECORD_MAKE_LABEL(label1);

template <typename T>
std::size_t std_hash(T const &v)
{
  return std::hash<T>{}(v);
}

// both hash objects must agree; otherwise a value that never equals itself comes out
inline std::size_t agree(std::size_t h1, std::size_t h2, bool &ok)
{
  if (h1 != h2)
    ok = false;
  return h1;
}

struct base_tr
{
  static constexpr bool has_lt = false;
  static constexpr bool has_six = false;
  static constexpr bool has_hash = false;
  template <typename T>
  static std::string extra(T const &, T const &)
  {
    return "";
  }
};

struct opt_tr : base_tr
{
  using type = fcppt::optional::object<int>;
  static constexpr bool has_lt = true;
  static std::optional<type> make(V const &l)
  {
    if (l.empty())
      return type{};
    if (l.size() == 1)
      return type{static_cast<int>(l[0])};
    return std::nullopt;
  }
};

struct eith_tr : base_tr
{
  using type = fcppt::either::object<long, int>; // failure: long, success: int
  static std::optional<type> make(V const &l)
  {
    if (l.size() != 2 || l[0] < 0 || l[0] > 1)
      return std::nullopt;
    if (l[0] == 0)
      return type{static_cast<long>(l[1])};
    return type{static_cast<int>(l[1])};
  }
};

struct var_tr : base_tr
{
  using type = fcppt::variant::object<int, long, short>;
  static constexpr bool has_lt = true;
  static std::optional<type> make(V const &l)
  {
    if (l.size() != 2 || l[0] < 0 || l[0] > 2)
      return std::nullopt;
    if (l[0] == 0)
      return type{static_cast<int>(l[1])};
    if (l[0] == 1)
      return type{static_cast<long>(l[1])};
    return type{static_cast<short>(l[1])};
  }
  static std::string extra(type const &a, type const &b)
  {
    return " cmp=" + b01(fcppt::variant::compare(a, b, [](auto const &x, auto const &y) { return x == y; })) +
           " cmplt=" + b01(fcppt::variant::compare(a, b, [](auto const &x, auto const &y) { return x < y; }));
  }
};

struct tup_tr : base_tr
{
  using type = fcppt::tuple::object<int, long, short>;
  static std::optional<type> make(V const &l)
  {
    if (l.size() != 3)
      return std::nullopt;
    return type{static_cast<int>(l[0]), static_cast<long>(l[1]), static_cast<short>(l[2])};
  }
};

struct arr_tr : base_tr
{
  using type = fcppt::array::object<int, 3>;
  static constexpr bool has_hash = true;
  static std::optional<type> make(V const &l)
  {
    if (l.size() != 3)
      return std::nullopt;
    return type{static_cast<int>(l[0]), static_cast<int>(l[1]), static_cast<int>(l[2])};
  }
  static std::size_t hash(type const &v, bool &) { return fcppt::range::hash<type>{}(v); }
};

struct earr_tr : base_tr
{
  using type = fcppt::enum_::array<e3, int>;
  static std::optional<type> make(V const &l)
  {
    if (l.size() != 3)
      return std::nullopt;
    return type{static_cast<int>(l[0]), static_cast<int>(l[1]), static_cast<int>(l[2])};
  }
};

struct rec_tr : base_tr
{
  using el0 = fcppt::record::element<label0, int>;
  using el1 = fcppt::record::element<label1, long>;
  using type = fcppt::record::object<el0, el1>;
  using perm = fcppt::record::object<el1, el0>;
  static std::optional<type> make(V const &l)
  {
    if (l.size() != 2)
      return std::nullopt;
    return type{label0{} = static_cast<int>(l[0]), label1{} = static_cast<long>(l[1])};
  }
  static std::string extra(type const &a, type const &b)
  {
    perm const p{label1{} = fcppt::record::get<label1>(b), label0{} = fcppt::record::get<label0>(b)};
    bool const xe = a == p;
    bool const ex = p == a;
    // != on the mixed pair must be the negation as well
    if ((a != p) == xe || (p != a) == ex)
      return " xeq=ne-mismatch";
    return " xeq=" + b01(xe) + " exq=" + b01(ex);
  }
};

struct sti_tr : base_tr
{
  using type = fcppt::strong_typedef<int, st_tag>;
  static constexpr bool has_lt = true;
  static constexpr bool has_six = true;
  static constexpr bool has_hash = true;
  static std::optional<type> make(V const &l)
  {
    if (l.size() != 1)
      return std::nullopt;
    return type{static_cast<int>(l[0])};
  }
  static std::size_t hash(type const &v, bool &ok)
  {
    return agree(fcppt::strong_typedef_hash<type>{}(v), std_hash(v), ok);
  }
};

struct recu_tr : base_tr
{
  using type = fcppt::recursive<int>;
  static std::optional<type> make(V const &l)
  {
    if (l.size() != 1)
      return std::nullopt;
    if (l[0] % 2 == 0)
      return fcppt::make_recursive(static_cast<int>(l[0]));
    return type{static_cast<int>(l[0])};
  }
};

template <typename T, std::size_t N>
struct mvec_tr : base_tr
{
  using type = T;
  static constexpr bool has_lt = true;
  static constexpr bool has_six = true;
  static constexpr bool has_hash = true;
  static std::optional<type> make(V const &l)
  {
    if (l.size() != N)
      return std::nullopt;
    if constexpr (N == 2)
      return type{static_cast<int>(l[0]), static_cast<int>(l[1])};
    else
      return type{static_cast<int>(l[0]), static_cast<int>(l[1]), static_cast<int>(l[2])};
  }
  static std::size_t hash(type const &v, bool &) { return std_hash(v); }
  // vector<int,2> only: the right operand once more as a row view of a matrix (different storage type)
  static std::string extra(type const &a, type const &b)
  {
    if constexpr (std::is_same_v<type, fcppt::math::vector::static_<int, 2>>)
    {
      fcppt::math::matrix::static_<int, 2, 2> const m{
          fcppt::math::matrix::row(9, 9), fcppt::math::matrix::row(b.x(), b.y())};
      auto const view(fcppt::math::matrix::at_r<1>(m));
      static_assert(!std::is_same_v<std::remove_cv_t<decltype(view)>, type>);
      bool const e = a == view;
      std::string h = "-";
      if (e)
        h = b01(std_hash(a) == std::hash<std::remove_cv_t<decltype(view)>>{}(view));
      // (the ordering operators do not instantiate for two different storage types: array_less takes one type)
      return " mix=" + b01(e) + b01(a != view) + b01(view == a) + b01(view != a) + h;
    }
    else
      return "";
  }
};

using vec2_tr = mvec_tr<fcppt::math::vector::static_<int, 2>, 2>;
using vec3_tr = mvec_tr<fcppt::math::vector::static_<int, 3>, 3>;
using dim2_tr = mvec_tr<fcppt::math::dim::static_<int, 2>, 2>;

struct mat_tr : base_tr
{
  using type = fcppt::math::matrix::static_<int, 2, 2>;
  static constexpr bool has_hash = true;
  static std::optional<type> make(V const &l)
  {
    if (l.size() != 4)
      return std::nullopt;
    return type{
        fcppt::math::matrix::row(static_cast<int>(l[0]), static_cast<int>(l[1])),
        fcppt::math::matrix::row(static_cast<int>(l[2]), static_cast<int>(l[3]))};
  }
  static std::size_t hash(type const &v, bool &) { return std_hash(v); }
};

struct box_tr : base_tr
{
  using type = fcppt::math::box::object<int, 2>;
  static constexpr bool has_lt = true;
  static std::optional<type> make(V const &l)
  {
    if (l.size() != 4)
      return std::nullopt;
    return type{
        type::vector{static_cast<int>(l[0]), static_cast<int>(l[1])},
        type::dim{static_cast<int>(l[2]), static_cast<int>(l[3])}};
  }
};

struct sph_tr : base_tr
{
  using type = fcppt::math::sphere::object<int, 2>;
  static std::optional<type> make(V const &l)
  {
    if (l.size() != 3)
      return std::nullopt;
    return type{type::point_type{static_cast<int>(l[0]), static_cast<int>(l[1])}, static_cast<int>(l[2])};
  }
};

struct bf_tr : base_tr
{
  using type = fcppt::container::bitfield::object<e3, std::uint8_t>;
  static constexpr bool has_hash = true;
  static std::optional<type> make(V const &l)
  {
    if (l.size() != 4)
      return std::nullopt;
    for (std::size_t i = 0; i < 3; ++i)
      if (l[i] != 0 && l[i] != 1)
        return std::nullopt;
    if (l[3] < 0 || l[3] > 2)
      return std::nullopt;
    type mem{type::null()};
    type co{type::null()};
    for (unsigned i = 0; i < 3; ++i)
      if (l[i] == 1)
        mem |= type{static_cast<e3>(i)};
      else
        co |= type{static_cast<e3>(i)};
    if (l[3] == 0)
      return mem;
    if (l[3] == 1)
      return ~co;
    return ~(~mem);
  }
  static std::size_t hash(type const &v, bool &ok)
  {
    return agree(fcppt::container::bitfield::hash<type>{}(v), std_hash(v), ok);
  }
  static unsigned mask(type const &v)
  {
    unsigned m = 0;
    for (unsigned i = 0; i < 3; ++i)
      if (v.get(static_cast<e3>(i)))
        m |= 1U << i;
    return m;
  }
  static std::string extra(type const &a, type const &b)
  {
    return " m=" + std::to_string(mask(a)) + "," + std::to_string(mask(b));
  }
};

struct grid_tr : base_tr
{
  using type = fcppt::container::grid::object<int, 2>;
  static constexpr bool has_lt = true;
  static constexpr bool has_six = true;
  static std::optional<type> make(V const &l)
  {
    if (l.size() < 2 || l[0] < 0 || l[1] < 0 || l[0] > 64 || l[1] > 64)
      return std::nullopt;
    if (l.size() - 2 != static_cast<std::size_t>(l[0] * l[1]))
      return std::nullopt;
    type g{type::dim{static_cast<type::size_type>(l[0]), static_cast<type::size_type>(l[1])}, 0};
    std::size_t k = 2;
    for (auto &e : g)
    {
      if (k >= l.size())
        return std::nullopt;
      e = static_cast<int>(l[k++]);
    }
    if (k != l.size())
      return std::nullopt;
    return g;
  }
};

struct tree_tr : base_tr
{
  using type = fcppt::container::tree::object<int>;
  static bool parse(V const &l, std::size_t &pos, type &node, unsigned depth)
  {
    // node already carries its value; read the number of children and the children
    if (depth > 64 || pos >= l.size())
      return false;
    long long const k = l[pos++];
    if (k < 0 || k > 64)
      return false;
    for (long long i = 0; i < k; ++i)
    {
      if (pos >= l.size())
        return false;
      type child{static_cast<int>(l[pos++])};
      if (!parse(l, pos, child, depth + 1))
        return false;
      if (i % 2 == 0)
        node.push_back(std::move(child));
      else
      {
        // through the value overload when the child is a leaf
        if (child.empty())
          node.push_back(child.value());
        else
          node.push_back(std::move(child));
      }
    }
    return true;
  }
  static std::optional<type> make(V const &l)
  {
    if (l.size() < 2)
      return std::nullopt;
    std::size_t pos = 1;
    type root{static_cast<int>(l[0])};
    if (!parse(l, pos, root, 0) || pos != l.size())
      return std::nullopt;
    return root;
  }
};

struct rv_tr : base_tr
{
  using type = fcppt::container::raw_vector::object<int>;
  static constexpr bool has_lt = true;
  static constexpr bool has_six = true;
  static constexpr bool has_hash = true;
  static std::optional<type> make(V const &l)
  {
    type r{};
    for (long long x : l)
      r.push_back(static_cast<int>(x));
    return std::optional<type>{std::move(r)};
  }
  static std::size_t hash(type const &v, bool &) { return fcppt::range::hash<type>{}(v); }
};

// three objects in one array: their addresses are ordered like their indices
int g_objs[3] = {7, 7, 7};

struct ref_tr : base_tr
{
  using type = fcppt::reference<int>;
  static constexpr bool has_lt = true;
  static constexpr bool has_hash = true;
  static std::optional<type> make(V const &l)
  {
    if (l.size() != 1 || l[0] < 0 || l[0] > 2)
      return std::nullopt;
    if (l[0] == 1)
      return type{g_objs[1]};
    return fcppt::make_ref(g_objs[l[0]]);
  }
  static std::size_t hash(type const &v, bool &ok)
  {
    return agree(fcppt::reference_hash<type>{}(v), std_hash(v), ok);
  }
};

struct sp_tr : base_tr
{
  using type = fcppt::shared_ptr<int>;
  static constexpr bool has_lt = true;
  static constexpr bool has_hash = true;
  static std::optional<type> make(V const &l)
  {
    if (l.size() != 2 || l[0] < 0 || l[0] > 2 || l[1] < 0 || l[1] > 1)
      return std::nullopt;
    // two unrelated owners; the stored pointer designates g_objs[i] (aliasing constructor)
    static type const owner0{fcppt::make_shared_ptr<int>(0)};
    static type const owner1{fcppt::make_shared_ptr<int>(1)};
    return type{l[1] == 0 ? owner0 : owner1, &g_objs[l[0]]};
  }
  static std::size_t hash(type const &v, bool &ok)
  {
    std::size_t const h1 = agree(fcppt::shared_ptr_hash<type>{}(v), std_hash(v), ok);
    // the hash may not depend on how many owners there are at the moment
    type const another_owner{v};
    return agree(h1, fcppt::shared_ptr_hash<type>{}(v), ok);
  }
};

template <typename Tr>
struct engine
{
  using T = typename Tr::type;

  static std::string obs(T const &a, T const &b)
  {
    bool const e = a == b;
    std::string r = "eq=" + b01(e) + " ne=" + b01(a != b);
    if constexpr (Tr::has_lt)
      r += " lt=" + b01(a < b);
    else
      r += " lt=-";
    if constexpr (Tr::has_six)
      r += " gt=" + b01(a > b) + " le=" + b01(a <= b) + " ge=" + b01(a >= b);
    else
      r += " gt=- le=- ge=-";
    if constexpr (Tr::has_hash)
    {
      if (e)
      {
        bool ok = true;
        std::size_t const h1 = Tr::hash(a, ok);
        std::size_t const h2 = Tr::hash(b, ok);
        r += " heq=" + b01(ok && h1 == h2);
      }
      else
        r += " heq=-";
    }
    else
      r += " heq=-";
    return r + Tr::extra(a, b);
  }

  static std::string rel(V const &a, V const &b)
  {
    auto const x = Tr::make(a);
    auto const y = Tr::make(b);
    if (!x || !y)
      return "bad-op";
    return obs(*x, *y);
  }

  static void all_lists(unsigned k, V &cur, std::vector<V> &out)
  {
    if (cur.size() == k)
    {
      if (Tr::make(cur))
        out.push_back(cur);
      return;
    }
    for (long long x = 0; x < 3; ++x)
    {
      cur.push_back(x);
      all_lists(k, cur, out);
      cur.pop_back();
    }
  }

  static std::vector<V> domain(unsigned maxlen)
  {
    std::vector<V> out;
    for (unsigned k = 0; k <= maxlen; ++k)
    {
      V cur;
      all_lists(k, cur, out);
    }
    return out;
  }

  static std::string rels(unsigned maxlen, V const &a)
  {
    if (!Tr::make(a))
      return "bad-op";
    std::vector<V> const d{domain(maxlen)};
    std::uint64_t h = vh::fnv_init;
    for (V const &b : d)
      h = vh::fnv(h, rel(a, b));
    return "D n=" + std::to_string(d.size()) + " " + vh::hex64(h);
  }

  struct el
  {
    bool eq;
    bool lt;
  };

  static el eq_lt(T const &a, T const &b)
  {
    el r{a == b, false};
    if constexpr (Tr::has_lt)
      r.lt = a < b;
    return r;
  }

  struct flags
  {
    unsigned sym, eqt, ltt, inc, cmp;
  };

  static flags tri_flags(el ab, el ba, el bc, el cb, el ac, el ca)
  {
    flags f{0, 0, 0, 0, 0};
    f.sym = ab.eq != ba.eq;
    f.eqt = ab.eq && bc.eq && !ac.eq;
    if constexpr (Tr::has_lt)
    {
      auto const incomp = [](el x, el y) { return !x.lt && !y.lt; };
      f.ltt = ab.lt && bc.lt && !ac.lt;
      f.inc = incomp(ab, ba) && incomp(bc, cb) && !incomp(ac, ca);
      f.cmp = ab.eq && (ac.lt != bc.lt || ca.lt != cb.lt);
    }
    return f;
  }

  static std::string show(unsigned long long n, flags f)
  {
    return "n=" + std::to_string(n) + " sym=" + std::to_string(f.sym) + " eqt=" + std::to_string(f.eqt) +
           " ltt=" + std::to_string(f.ltt) + " inc=" + std::to_string(f.inc) + " cmp=" + std::to_string(f.cmp);
  }

  static std::string tri(unsigned maxlen, V const &av)
  {
    auto const a = Tr::make(av);
    if (!a)
      return "bad-op";
    std::vector<V> const d{domain(maxlen)};
    std::vector<T> vals;
    vals.reserve(d.size());
    for (V const &v : d)
      vals.push_back(std::move(*Tr::make(v)));
    std::size_t const n = vals.size();
    std::vector<el> row(n), col(n), mat(n * n);
    for (std::size_t i = 0; i < n; ++i)
    {
      row[i] = eq_lt(*a, vals[i]);
      col[i] = eq_lt(vals[i], *a);
      for (std::size_t j = 0; j < n; ++j)
        mat[i * n + j] = eq_lt(vals[i], vals[j]);
    }
    flags tot{0, 0, 0, 0, 0};
    for (std::size_t i = 0; i < n; ++i)
      for (std::size_t j = 0; j < n; ++j)
      {
        flags const f = tri_flags(row[i], col[i], mat[i * n + j], mat[j * n + i], row[j], col[j]);
        tot.sym += f.sym;
        tot.eqt += f.eqt;
        tot.ltt += f.ltt;
        tot.inc += f.inc;
        tot.cmp += f.cmp;
      }
    return show(static_cast<unsigned long long>(n) * n, tot);
  }

  static std::string tri1(V const &av, V const &bv, V const &cv)
  {
    auto const a = Tr::make(av);
    auto const b = Tr::make(bv);
    auto const c = Tr::make(cv);
    if (!a || !b || !c)
      return "bad-op";
    return show(1, tri_flags(eq_lt(*a, *b), eq_lt(*b, *a), eq_lt(*b, *c), eq_lt(*c, *b), eq_lt(*a, *c), eq_lt(*c, *a)));
  }

  static std::string handle(std::vector<std::string> const &t)
  {
    if (t[0] == "rel" && t.size() == 4)
      return rel(vh::int_list(t[2]), vh::int_list(t[3]));
    if (t[0] == "rels" && t.size() == 4)
    {
      unsigned long long const ml = vh::to_ull(t[2]);
      if (ml > 8)
        return "bad-op";
      return rels(static_cast<unsigned>(ml), vh::int_list(t[3]));
    }
    if (t[0] == "tri" && t.size() == 4)
    {
      unsigned long long const ml = vh::to_ull(t[2]);
      if (ml > 8)
        return "bad-op";
      return tri(static_cast<unsigned>(ml), vh::int_list(t[3]));
    }
    if (t[0] == "tri1" && t.size() == 5)
      return tri1(vh::int_list(t[2]), vh::int_list(t[3]), vh::int_list(t[4]));
    return "bad-op";
  }
};

std::string wrap_line(int x)
{
  int obj = x;
  fcppt::reference<int> const r{obj};
  bool same = &r.get() == &obj && r.operator->() == &obj;
  // writing through the reference changes the object, and the other way round
  r.get() = x == 5 ? 6 : 5;
  same = same && obj == (x == 5 ? 6 : 5);
  obj = x;
  same = same && r.get() == x;
  fcppt::recursive<int> const rec{x};
  fcppt::recursive<int> rec2{rec}; // deep copy: changing the copy leaves the original alone
  rec2.get() = x == 0 ? 1 : 0;
  fcppt::unique_ptr<int> const up{fcppt::make_unique_ptr<int>(x)};
  fcppt::shared_ptr<int> const sp{fcppt::make_shared_ptr<int>(x)};
  fcppt::shared_ptr<int> const sp2{sp};
  bool const ptrs = up.get_pointer() == &*up && sp.get_pointer() == &*sp && sp2.get_pointer() == sp.get_pointer() &&
                    up.operator->() == up.get_pointer() && sp.operator->() == sp.get_pointer();
  using st = fcppt::strong_typedef<int, st_tag>;
  using iso = fcppt::type_iso::transform<st>;
  return "ref=" + std::to_string(r.get()) + " same=" + b01(same && ptrs) + " rec=" + std::to_string(rec.get()) +
         " uniq=" + std::to_string(*up) + " shared=" + std::to_string(*sp2) +
         " iso=" + std::to_string(iso::undecorate(iso::decorate(x)));
}

std::string handle(std::vector<std::string> const &t)
{
  if (t.empty())
    return "bad-op";
  try
  {
    if (t[0] == "st" || t[0] == "sts" || t[0] == "stself" || t[0] == "stselfs" || t[0] == "stmem" || t[0] == "stmems")
    {
      if (t.size() < 3)
        return "bad-op";
      if (t[1] == "i32")
        return st_inst<int>::handle(t);
      if (t[1] == "u32")
        return st_inst<unsigned>::handle(t);
      if (t[1] == "i64")
        return st_inst<long>::handle(t);
      if (t[1] == "u64")
        return st_inst<unsigned long>::handle(t);
      if (t[1] == "i8")
        return st_inst<signed char>::handle(t);
      if (t[1] == "u8")
        return st_inst<unsigned char>::handle(t);
      if (t[1] == "i16")
        return st_inst<short>::handle(t);
      if (t[1] == "u16")
        return st_inst<unsigned short>::handle(t);
      return "bad-op";
    }
    if (t[0] == "wrap" && t.size() == 2)
    {
      long long const x = vh::to_ll(t[1]);
      if (x < std::numeric_limits<int>::min() || x > std::numeric_limits<int>::max())
        return "bad-op";
      return wrap_line(static_cast<int>(x));
    }
    if (t.size() < 4)
      return "bad-op";
    std::string const &ty = t[1];
    if (ty == "opt") return engine<opt_tr>::handle(t);
    if (ty == "eith") return engine<eith_tr>::handle(t);
    if (ty == "var") return engine<var_tr>::handle(t);
    if (ty == "tup") return engine<tup_tr>::handle(t);
    if (ty == "arr") return engine<arr_tr>::handle(t);
    if (ty == "rec") return engine<rec_tr>::handle(t);
    if (ty == "sti") return engine<sti_tr>::handle(t);
    if (ty == "vec2") return engine<vec2_tr>::handle(t);
    if (ty == "vec3") return engine<vec3_tr>::handle(t);
    if (ty == "dim2") return engine<dim2_tr>::handle(t);
    if (ty == "mat22") return engine<mat_tr>::handle(t);
    if (ty == "box2") return engine<box_tr>::handle(t);
    if (ty == "sph2") return engine<sph_tr>::handle(t);
    if (ty == "bf3") return engine<bf_tr>::handle(t);
    if (ty == "earr") return engine<earr_tr>::handle(t);
    if (ty == "grid") return engine<grid_tr>::handle(t);
    if (ty == "tree") return engine<tree_tr>::handle(t);
    if (ty == "rv") return engine<rv_tr>::handle(t);
    if (ty == "ref") return engine<ref_tr>::handle(t);
    if (ty == "sp") return engine<sp_tr>::handle(t);
    if (ty == "recu") return engine<recu_tr>::handle(t);
    return "bad-op";
  }
  catch (std::invalid_argument const &)
  {
    return "bad-op";
  }
  catch (std::out_of_range const &)
  {
    return "bad-op";
  }
  catch (std::exception const &)
  {
    return "exc:std";
  }
}
}

int main() { return vh::run(handle); }
