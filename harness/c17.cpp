// C17 correspondence harness: the real fcppt wrappers and comparison / hash functions on the
// operation lines described in lean/FcpptModel/Drv/C17.lean; prints the same canonical result lines.
#include "common/vh.hpp"

#include <fcppt/make_ref.hpp>
#include <fcppt/make_recursive.hpp>
#include <fcppt/make_shared_ptr.hpp>
#include <fcppt/make_unique_ptr.hpp>
#include <fcppt/recursive.hpp>
#include <fcppt/recursive_comparison.hpp>
#include <fcppt/reference.hpp>
#include <fcppt/reference_comparison.hpp>
#include <fcppt/reference_hash.hpp>
#include <fcppt/reference_std_hash.hpp>
#include <fcppt/reference_to_const.hpp>
#include <fcppt/reference_to_base.hpp>
#include <fcppt/make_cref.hpp>
#include <fcppt/static_pointer_cast.hpp>
#include <fcppt/dynamic_pointer_cast.hpp>
#include <fcppt/const_pointer_cast.hpp>
#include <fcppt/unit.hpp>
#include <fcppt/unit_comparison.hpp>
#include <fcppt/iterator/make_range.hpp>
#include <fcppt/iterator/range_comparison.hpp>
#include <fcppt/iterator/range_impl.hpp>
#include <fcppt/optional/assign.hpp>
#include <fcppt/record/get.hpp>
#include <fcppt/record/set.hpp>
#include <fcppt/tuple/get.hpp>
#include <fcppt/math/vector/arithmetic.hpp>
#include <fcppt/math/vector/to_dim.hpp>
#include <fcppt/variant/get_unsafe.hpp>
#include <fcppt/shared_ptr_hash_impl.hpp>
#include <fcppt/shared_ptr_impl.hpp>
#include <fcppt/shared_ptr_std_hash.hpp>
#include <fcppt/strong_typedef_arithmetic.hpp>
#include <fcppt/strong_typedef_assignment.hpp>
#include <fcppt/strong_typedef_bitwise.hpp>
#include <fcppt/strong_typedef_comparison.hpp>
#include <fcppt/strong_typedef_hash.hpp>
#include <fcppt/strong_typedef_impl.hpp>
#include <fcppt/strong_typedef_std_hash.hpp>
#include <fcppt/strong_typedef_apply.hpp>
#include <fcppt/strong_typedef_construct_cast.hpp>
#include <fcppt/strong_typedef_input.hpp>
#include <fcppt/strong_typedef_map.hpp>
#include <fcppt/strong_typedef_output.hpp>
#include <fcppt/no_init.hpp>
#include <fcppt/cast/static_cast_fun.hpp>
#include <fcppt/unique_ptr_impl.hpp>
#include <fcppt/unique_ptr_to_base.hpp>
#include <fcppt/unique_ptr_to_const.hpp>
#include <fcppt/weak_ptr_impl.hpp>
#include <fcppt/default_deleter.hpp>
#include <fcppt/array/comparison.hpp>
#include <fcppt/array/object_impl.hpp>
#include <fcppt/container/bitfield/comparison.hpp>
#include <fcppt/container/bitfield/hash.hpp>
#include <fcppt/container/bitfield/object.hpp>
#include <fcppt/container/bitfield/operators.hpp>
#include <fcppt/container/bitfield/std_hash.hpp>
#include <fcppt/container/grid/comparison.hpp>
#include <fcppt/container/grid/object_impl.hpp>
#include <fcppt/container/raw_vector/comparison.hpp>
#include <fcppt/container/raw_vector/object_impl.hpp>
#include <fcppt/container/tree/comparison.hpp>
#include <fcppt/container/tree/object_impl.hpp>
#include <fcppt/either/comparison.hpp>
#include <fcppt/either/object_impl.hpp>
#include <fcppt/enum/array.hpp>
#include <fcppt/enum/array_comparison.hpp>
#include <fcppt/math/box/comparison.hpp>
#include <fcppt/math/box/object_impl.hpp>
#include <fcppt/math/dim/comparison.hpp>
#include <fcppt/math/dim/static.hpp>
#include <fcppt/math/dim/std_hash.hpp>
#include <fcppt/math/matrix/at_r.hpp>
#include <fcppt/math/matrix/comparison.hpp>
#include <fcppt/math/matrix/row.hpp>
#include <fcppt/math/matrix/static.hpp>
#include <fcppt/math/matrix/std_hash.hpp>
#include <fcppt/math/sphere/comparison.hpp>
#include <fcppt/math/sphere/object_impl.hpp>
#include <fcppt/math/vector/comparison.hpp>
#include <fcppt/math/vector/static.hpp>
#include <fcppt/math/vector/std_hash.hpp>
#include <fcppt/optional/comparison.hpp>
#include <fcppt/optional/object_impl.hpp>
#include <fcppt/hash.hpp>
#include <fcppt/range/hash.hpp>
#include <fcppt/record/comparison.hpp>
#include <fcppt/record/element.hpp>
#include <fcppt/record/make_label.hpp>
#include <fcppt/record/object_impl.hpp>
#include <fcppt/tuple/comparison.hpp>
#include <fcppt/tuple/object_impl.hpp>
#include <fcppt/type_iso/strong_typedef.hpp>
#include <fcppt/variant/compare.hpp>
#include <fcppt/variant/comparison.hpp>
#include <fcppt/variant/object_impl.hpp>

#include <array>
#include <cstddef>
#include <cstdint>
#include <cstring>
#include <functional>
#include <new>
#include <limits>
#include <memory>
#include <sstream>
#include <optional>
#include <string>
#include <type_traits>
#include <utility>
#include <vector>

namespace
{
using V = std::vector<long long>;

std::string b01(bool b) { return b ? "1" : "0"; }

// ---------------------------------------------------------------------------------------------
// part (a): strong_typedef operators
// ---------------------------------------------------------------------------------------------
struct st_tag
{
};

template <typename T>
struct st_inst
{
  using st = fcppt::strong_typedef<T, st_tag>;
  static constexpr bool sgn = std::is_signed_v<T>;
  // narrower than int: the operands of the built-in operators are promoted to int.  The binary / unary operators
  // of strong_typedef brace-initialise the result from an int there (a narrowing conversion, ill-formed), so only
  // the assigning operators, ++/--, the comparisons, the hash and type_iso are observed for these types.
  static constexpr bool narrow = sizeof(T) < sizeof(int);
  static constexpr T tmin = std::numeric_limits<T>::min();
  static constexpr T tmax = std::numeric_limits<T>::max();

  static std::string num(T v) { return std::to_string(v); }

  // wrapped result next to the plain operator on the plain values: "!" marks a difference
  static std::string both(T wrapped, T plain) { return num(wrapped) + (wrapped == plain ? "" : "!"); }

  // f: the wrapped operation on x; g: the same built-in operation on a plain T
  template <typename F, typename G>
  static std::string step(T a, bool ub, F f, G g)
  {
    if (ub)
      return "ub";
    st x{a};
    std::pair<st const *, T> const r = f(x); // address of what was returned (nullptr: a copy), value seen through it
    std::string s = num(x.get()) + "/" + num(r.second);
    if (r.first != nullptr && r.first != &x)
      s += "!ref";
    T p{a};
    T const pr = g(p);
    if (p != x.get() || pr != r.second)
      s += "!plain";
    return s;
  }

  struct ovf
  {
    bool add, sub, mul, neg, inc, dec;
  };

  static ovf overflow(T a, T b)
  {
    if constexpr (narrow)
    {
      // computed in int: only the product of two values can leave the range of int (unsigned short)
      long long const p = static_cast<long long>(a) * static_cast<long long>(b);
      return ovf{false, false, p > std::numeric_limits<int>::max() || p < std::numeric_limits<int>::min(), false, false,
                 false};
    }
    else
    {
      T tmp{};
      return ovf{sgn && __builtin_add_overflow(a, b, &tmp), sgn && __builtin_sub_overflow(a, b, &tmp),
                 sgn && __builtin_mul_overflow(a, b, &tmp), sgn && a == tmin, sgn && a == tmax, sgn && a == tmin};
    }
  }

  using rp = std::pair<st const *, T>;
  static rp by_ref(st &q) { return rp{&q, q.get()}; }
  static rp by_val(st const &q) { return rp{nullptr, q.get()}; }

  static std::string line(T a, T b)
  {
    st const l{a};
    st const r{b};
    ovf const o{overflow(a, b)};
    std::string s;
    if constexpr (narrow)
      s += "narrow";
    else
    {
      s += "add=" + (o.add ? std::string{"ub"} : both((l + r).get(), static_cast<T>(a + b)));
      s += " sub=" + (o.sub ? std::string{"ub"} : both((l - r).get(), static_cast<T>(a - b)));
      s += " mul=" + (o.mul ? std::string{"ub"} : both((l * r).get(), static_cast<T>(a * b)));
      s += " neg=" + (o.neg ? std::string{"ub"} : both((-l).get(), static_cast<T>(-a)));
      s += " and=" + both((l & r).get(), static_cast<T>(a & b));
      s += " or=" + both((l | r).get(), static_cast<T>(a | b));
      s += " xor=" + both((l ^ r).get(), static_cast<T>(a ^ b));
      s += " not=" + both((~l).get(), static_cast<T>(~a));
    }
    s += " preinc=" + step(a, o.inc, [](st &x) { return by_ref(++x); }, [](T &p) { return ++p; });
    s += " predec=" + step(a, o.dec, [](st &x) { return by_ref(--x); }, [](T &p) { return --p; });
    s += " postinc=" + step(a, o.inc, [](st &x) { return by_val(x++); }, [](T &p) { return p++; });
    s += " postdec=" + step(a, o.dec, [](st &x) { return by_val(x--); }, [](T &p) { return p--; });
    s += " addas=" + step(a, o.add, [&r](st &x) { return by_ref(x += r); }, [b](T &p) { return p += b; });
    s += " subas=" + step(a, o.sub, [&r](st &x) { return by_ref(x -= r); }, [b](T &p) { return p -= b; });
    s += " mulas=" + step(a, o.mul, [&r](st &x) { return by_ref(x *= r); }, [b](T &p) { return p *= b; });
    s += " andas=" + step(a, false, [&r](st &x) { return by_ref(x &= r); }, [b](T &p) { return p &= b; });
    s += " oras=" + step(a, false, [&r](st &x) { return by_ref(x |= r); }, [b](T &p) { return p |= b; });
    s += " xoras=" + step(a, false, [&r](st &x) { return by_ref(x ^= r); }, [b](T &p) { return p ^= b; });
    if (r.get() != b || l.get() != a)
      s += " operand-changed";
    bool const e = l == r;
    s += " lt=" + b01(l < r) + " le=" + b01(l <= r) + " gt=" + b01(l > r) + " ge=" + b01(l >= r) + " eq=" + b01(e) +
         " ne=" + b01(l != r);
    if ((l < r) != (a < b) || (l <= r) != (a <= b) || (l > r) != (a > b) || (l >= r) != (a >= b) || e != (a == b) ||
        (l != r) != (a != b))
      s += "!plain";
    std::string heq = "-";
    if (e)
    {
      std::size_t const h1 = fcppt::strong_typedef_hash<st>{}(l);
      std::size_t const h2 = std::hash<st>{}(r);
      heq = b01(h1 == h2 && h1 == std::hash<T>{}(a) && fcppt::hash(l) == h1);
    }
    s += " heq=" + heq;
    using iso = fcppt::type_iso::transform<st>;
    static_assert(std::is_same_v<typename iso::undecorated_type, T>);
    st const d{iso::decorate(a)};
    s += " iso=" + both(iso::undecorate(d), d.get());
    return s;
  }

  // the SAME object on both sides of every binary / assigning operator
  static std::string self_line(T a)
  {
    ovf const o{overflow(a, a)};
    std::string s;
    if constexpr (narrow)
      s += "narrow";
    else
    {
      st const x{a};
      s += "add=" + (o.add ? std::string{"ub"} : both((x + x).get(), static_cast<T>(a + a)));
      s += " sub=" + (o.sub ? std::string{"ub"} : both((x - x).get(), static_cast<T>(a - a)));
      s += " mul=" + (o.mul ? std::string{"ub"} : both((x * x).get(), static_cast<T>(a * a)));
      s += " and=" + both((x & x).get(), static_cast<T>(a & a));
      s += " or=" + both((x | x).get(), static_cast<T>(a | a));
      s += " xor=" + both((x ^ x).get(), static_cast<T>(a ^ a));
      if (x.get() != a)
        s += " operand-changed";
    }
    s += " addas=" + step(a, o.add, [](st &x) { return by_ref(x += x); }, [](T &p) { return p += p; });
    s += " subas=" + step(a, o.sub, [](st &x) { return by_ref(x -= x); }, [](T &p) { return p -= p; });
    s += " mulas=" + step(a, o.mul, [](st &x) { return by_ref(x *= x); }, [](T &p) { return p *= p; });
    s += " andas=" + step(a, false, [](st &x) { return by_ref(x &= x); }, [](T &p) { return p &= p; });
    s += " oras=" + step(a, false, [](st &x) { return by_ref(x |= x); }, [](T &p) { return p |= p; });
    s += " xoras=" + step(a, false, [](st &x) { return by_ref(x ^= x); }, [](T &p) { return p ^= p; });
    s += " asg=" + step(a, false, [](st &x) { st &y = x; return by_ref(x = y); }, [](T &p) { return p; });
    s += " mvasg=" + step(a, false, [](st &x) { st &y = x; return by_ref(x = std::move(y)); }, [](T &p) { return p; });
    st const c{a};
    bool const e = c == c;
    s += " lt=" + b01(c < c) + " le=" + b01(c <= c) + " gt=" + b01(c > c) + " ge=" + b01(c >= c) + " eq=" + b01(e) +
         " ne=" + b01(c != c);
    s += " heq=" + (e ? b01(fcppt::strong_typedef_hash<st>{}(c) == std::hash<st>{}(c)) : std::string{"-"});
    return s;
  }

  // members and helper functions of the class itself
  static std::string mem_line(T a, T b)
  {
    std::string s;
    {
      st x{a};
      T &g = x.get();
      g = b; // writing through get() changes the wrapped object
      st const &cx = x;
      s += "set=" + num(cx.get()) + (&g == &x.get() && &cx.get() == &g ? "" : "!addr");
    }
    {
      st const c{a};
      s += " cget=" + num(c.get());
    }
    {
      st n{fcppt::no_init{}};
      n.get() = a;
      s += " noinit=" + num(n.get());
      st m{fcppt::no_init{}};
      m = st{b};
      s += "/" + num(m.get());
    }
    {
      st x{a};
      st c{x};
      x.get() = b;
      s += " copy=" + num(c.get()) + "/" + num(x.get());
    }
    {
      st x{a};
      st c{b};
      st &q = (c = x);
      x.get() = b;
      s += " cpas=" + num(c.get()) + "/" + num(x.get()) + (&q == &c ? "" : "!ref");
    }
    {
      st x{a};
      st c{std::move(x)};
      st d{b};
      d = std::move(c);
      s += " mv=" + num(d.get());
    }
    s += " size=" + b01(sizeof(st) == sizeof(T) && alignof(st) == alignof(T));
    {
      st const x{a};
      st const y{b};
      auto const f1 = [b](T v) { return static_cast<T>(v ^ b); };
      auto const m1 = fcppt::strong_typedef_map(x, f1);
      auto const m2 = fcppt::strong_typedef_map(st{a}, f1);
      static_assert(std::is_same_v<std::remove_cv_t<decltype(m1)>, st>);
      s += " map=" + both(m1.get(), static_cast<T>(a ^ b)) + "/" + both(m2.get(), static_cast<T>(a ^ b));
      auto const f2 = [](T u, T v) { return static_cast<T>(u & static_cast<T>(~v)); };
      auto const a2 = fcppt::strong_typedef_apply(f2, x, y);
      auto const a3 = fcppt::strong_typedef_apply(f2, st{a}, y);
      static_assert(std::is_same_v<std::remove_cv_t<decltype(a2)>, st>);
      s += " apply=" + both(a2.get(), static_cast<T>(a & static_cast<T>(~b))) + "/" + both(a3.get(), a2.get());
      auto const a1 = fcppt::strong_typedef_apply([](T u) { return static_cast<T>(~u); }, x);
      s += " apply1=" + both(a1.get(), static_cast<T>(~a));
      // the same object as both arguments
      auto const as = fcppt::strong_typedef_apply(f2, x, x);
      s += " applyself=" + both(as.get(), static_cast<T>(a & static_cast<T>(~a)));
      if (x.get() != a || y.get() != b)
        s += " operand-changed";
    }
    {
      using wide = std::conditional_t<sgn, long long, unsigned long long>;
      st const c{fcppt::strong_typedef_construct_cast<st, fcppt::cast::static_cast_fun>(static_cast<wide>(b))};
      s += " ccast=" + num(c.get());
    }
    {
      // << and >> are those of the wrapped type (a character for the 8-bit types)
      std::ostringstream o1, o2;
      o1 << st{a};
      o2 << a;
      std::istringstream i1{o2.str() + " " + std::to_string(b)}, i2{o2.str() + " " + std::to_string(b)};
      st x{fcppt::no_init{}};
      x.get() = T{};
      T p{};
      i1 >> x;
      i2 >> p;
      s += " out=" + b01(o1.str() == o2.str()) + " in=" + b01(x.get() == p && i1.good() == i2.good() && i1.tellg() == i2.tellg());
    }
    return s;
  }

  static bool in_range(std::string const &s, T &out)
  {
    try
    {
      if constexpr (sgn)
      {
        long long const v = std::stoll(s);
        if (v < static_cast<long long>(tmin) || v > static_cast<long long>(tmax))
          return false;
        out = static_cast<T>(v);
      }
      else
      {
        if (!s.empty() && s[0] == '-')
          return false;
        unsigned long long const v = std::stoull(s);
        if (v > static_cast<unsigned long long>(tmax))
          return false;
        out = static_cast<T>(v);
      }
      return true;
    }
    catch (std::exception const &)
    {
      return false;
    }
  }

  template <typename F>
  static std::string digest(T lo, T hi, F f)
  {
    std::uint64_t h = vh::fnv_init;
    for (T b = lo;; ++b)
    {
      h = vh::fnv(h, f(b));
      if (b == hi)
        break;
    }
    return "D " + vh::hex64(h);
  }

  static std::string handle(std::vector<std::string> const &t)
  {
    if ((t[0] == "st" || t[0] == "stmem") && t.size() == 4)
    {
      T a{}, b{};
      if (!in_range(t[2], a) || !in_range(t[3], b))
        return "bad-op";
      return t[0] == "st" ? line(a, b) : mem_line(a, b);
    }
    if (t[0] == "stself" && t.size() == 3)
    {
      T a{};
      if (!in_range(t[2], a))
        return "bad-op";
      return self_line(a);
    }
    if ((t[0] == "sts" || t[0] == "stmems") && t.size() == 5)
    {
      T a{}, lo{}, hi{};
      if (!in_range(t[2], a) || !in_range(t[3], lo) || !in_range(t[4], hi) || lo > hi)
        return "bad-op";
      bool const mem = t[0] == "stmems";
      return digest(lo, hi, [a, mem](T b) { return mem ? mem_line(a, b) : line(a, b); });
    }
    if (t[0] == "stselfs" && t.size() == 4)
    {
      T lo{}, hi{};
      if (!in_range(t[2], lo) || !in_range(t[3], hi) || lo > hi)
        return "bad-op";
      return digest(lo, hi, [](T a) { return self_line(a); });
    }
    return "bad-op";
  }
};

// ---------------------------------------------------------------------------------------------
// part (b): comparison of the composite types
// ---------------------------------------------------------------------------------------------
enum class e3
{
  v0,
  v1,
  v2,
  fcppt_maximum = v2
};

enum class e9
{
  v0,
  v1,
  v2,
  v3,
  v4,
  v5,
  v6,
  v7,
  v8,
  fcppt_maximum = v8
};

FCPPT_RECORD_MAKE_LABEL(label0);
FCPPT_RECORD_MAKE_LABEL(label1);

// set when fcppt::hash(v) (hash.hpp: the function every range hash folds over) is not std::hash<T>{}(v)
bool g_hash_mismatch = false;

template <typename T>
std::size_t std_hash(T const &v)
{
  std::size_t const h = std::hash<T>{}(v);
  if (fcppt::hash(v) != h)
    g_hash_mismatch = true;
  return h;
}

// both hash objects must agree; otherwise a value that never equals itself comes out
inline std::size_t agree(std::size_t h1, std::size_t h2, bool &ok)
{
  if (h1 != h2)
    ok = false;
  return h1;
}

struct base_tr
{
  static constexpr bool has_lt = false;
  static constexpr bool has_six = false;
  static constexpr bool has_hash = false;
  // number of different ways (`routes`) by which make() reaches the same value: constructors, assignment over an
  // object that held something else, element-wise writes, erase after insert …  The value model does not see the route.
  static constexpr unsigned routes = 1;
  template <typename T>
  static std::string extra(T const &, T const &)
  {
    return "";
  }
  // types with padding or inactive bytes offer make_in: the value constructed IN PLACE (by its value constructor, not by a
  // copy) in a buffer the caller has filled with a byte pattern, so that those bytes differ between equal values
  static std::nullptr_t make_in(void *, V const &) { return nullptr; }
};

struct opt_tr : base_tr
{
  using type = fcppt::optional::object<int>;
  static constexpr bool has_lt = true;
  static constexpr unsigned routes = 3;
  static type *make_in(void *buf, V const &l)
  {
    return l.empty() ? new (buf) type() : new (buf) type(static_cast<int>(l[0]));
  }
  static std::optional<type> make(V const &l, unsigned route = 0)
  {
    if (l.size() > 1)
      return std::nullopt;
    type const direct{l.empty() ? type{} : type{static_cast<int>(l[0])}};
    switch (route % routes)
    {
    case 0:
      return direct;
    case 1:
    {
      type r{77}; // copy-assigned over an object that holds something else
      r = direct;
      return r;
    }
    default:
    {
      type r{};
      if (l.empty())
      {
        r = type{5};
        r = type{}; // emptied again: the storage still holds the old bytes
      }
      else
      {
        int &x = fcppt::optional::assign(r, static_cast<int>(l[0]) ^ 1);
        x ^= 1; // through the reference handed out by assign
      }
      return r;
    }
    }
  }
};

struct eith_tr : base_tr
{
  static fcppt::either::object<long, int> *make_in(void *buf, V const &l)
  {
    using type = fcppt::either::object<long, int>;
    return l[0] == 0 ? new (buf) type(static_cast<long>(l[1])) : new (buf) type(static_cast<int>(l[1]));
  }
  using type = fcppt::either::object<long, int>; // failure: long, success: int
  static constexpr unsigned routes = 3;
  static std::optional<type> make(V const &l, unsigned route = 0)
  {
    if (l.size() != 2 || l[0] < 0 || l[0] > 1)
      return std::nullopt;
    type const direct{l[0] == 0 ? type{static_cast<long>(l[1])} : type{static_cast<int>(l[1])}};
    switch (route % routes)
    {
    case 0:
      return direct;
    case 1:
    {
      // assigned over an object holding the OTHER side with the same number
      type r{l[0] == 0 ? type{static_cast<int>(l[1])} : type{static_cast<long>(l[1])}};
      r = direct;
      return r;
    }
    default:
    {
      // the same side with another number, then written through get_*_unsafe
      type r{l[0] == 0 ? type{static_cast<long>(l[1] ^ 1)} : type{static_cast<int>(l[1] ^ 1)}};
      if (l[0] == 0)
        r.get_failure_unsafe() = static_cast<long>(l[1]);
      else
        r.get_success_unsafe() = static_cast<int>(l[1]);
      return r;
    }
    }
  }
};

struct var_tr : base_tr
{
  using type = fcppt::variant::object<int, long, short>;
  static constexpr bool has_lt = true;
  static constexpr unsigned routes = 3;
  static type *make_in(void *buf, V const &l)
  {
    if (l[0] == 0)
      return new (buf) type(static_cast<int>(l[1]));
    if (l[0] == 1)
      return new (buf) type(static_cast<long>(l[1]));
    return new (buf) type(static_cast<short>(l[1]));
  }
  static type direct(long long i, long long x)
  {
    if (i == 0)
      return type{static_cast<int>(x)};
    if (i == 1)
      return type{static_cast<long>(x)};
    return type{static_cast<short>(x)};
  }
  static std::optional<type> make(V const &l, unsigned route = 0)
  {
    if (l.size() != 2 || l[0] < 0 || l[0] > 2)
      return std::nullopt;
    switch (route % routes)
    {
    case 0:
      return direct(l[0], l[1]);
    case 1:
    {
      // assigned over an object that holds a different alternative with the same number (inactive alternative)
      type r{direct((l[0] + 1) % 3, ~l[1])}; // all the other bits set
      r = direct(l[0], l[1]);
      return r;
    }
    default:
    {
      type r{direct(l[0], l[1] ^ 1)};
      if (l[0] == 0)
        r.get_unsafe<int>() = static_cast<int>(l[1]);
      else if (l[0] == 1)
        r.get_unsafe<long>() = static_cast<long>(l[1]);
      else
        r.get_unsafe<short>() = static_cast<short>(l[1]);
      return r;
    }
    }
  }
  static std::string extra(type const &a, type const &b)
  {
    return " cmp=" + b01(fcppt::variant::compare(a, b, [](auto const &x, auto const &y) { return x == y; })) +
           " cmplt=" + b01(fcppt::variant::compare(a, b, [](auto const &x, auto const &y) { return x < y; }));
  }
};

struct tup_tr : base_tr
{
  using type = fcppt::tuple::object<int, long, short>;
  static constexpr unsigned routes = 2;
  static type *make_in(void *buf, V const &l)
  {
    return new (buf) type(static_cast<int>(l[0]), static_cast<long>(l[1]), static_cast<short>(l[2]));
  }
  static std::optional<type> make(V const &l, unsigned route = 0)
  {
    if (l.size() != 3)
      return std::nullopt;
    if (route % routes == 0)
      return type{static_cast<int>(l[0]), static_cast<long>(l[1]), static_cast<short>(l[2])};
    type r{9, 9L, static_cast<short>(9)};
    fcppt::tuple::get<2>(r) = static_cast<short>(l[2]);
    fcppt::tuple::get<0>(r) = static_cast<int>(l[0]);
    fcppt::tuple::get<1>(r) = static_cast<long>(l[1]);
    return r;
  }
};

struct arr_tr : base_tr
{
  using type = fcppt::array::object<int, 3>;
  static constexpr bool has_hash = true;
  static constexpr unsigned routes = 2;
  static std::optional<type> make(V const &l, unsigned route = 0)
  {
    if (l.size() != 3)
      return std::nullopt;
    if (route % routes == 0)
      return type{static_cast<int>(l[0]), static_cast<int>(l[1]), static_cast<int>(l[2])};
    type r{9, 9, 9};
    for (std::size_t i = 3; i-- > 0;)
      r.get_unsafe(i) = static_cast<int>(l[i]);
    return r;
  }
  static std::size_t hash(type const &v, bool &) { return fcppt::range::hash<type>{}(v); }
};

struct earr_tr : base_tr
{
  using type = fcppt::enum_::array<e3, int>;
  static constexpr unsigned routes = 2;
  static std::optional<type> make(V const &l, unsigned route = 0)
  {
    if (l.size() != 3)
      return std::nullopt;
    if (route % routes == 0)
      return type{static_cast<int>(l[0]), static_cast<int>(l[1]), static_cast<int>(l[2])};
    type r{9, 9, 9};
    r[e3::v2] = static_cast<int>(l[2]);
    r[e3::v0] = static_cast<int>(l[0]);
    r[e3::v1] = static_cast<int>(l[1]);
    return r;
  }
};

struct rec_tr : base_tr
{
  using el0 = fcppt::record::element<label0, int>;
  using el1 = fcppt::record::element<label1, long>;
  using type = fcppt::record::object<el0, el1>;
  using perm = fcppt::record::object<el1, el0>;
  static constexpr unsigned routes = 2;
  static type *make_in(void *buf, V const &l)
  {
    return new (buf) type(label0{} = static_cast<int>(l[0]), label1{} = static_cast<long>(l[1]));
  }
  static std::optional<type> make(V const &l, unsigned route = 0)
  {
    if (l.size() != 2)
      return std::nullopt;
    if (route % routes == 0)
      return type{label0{} = static_cast<int>(l[0]), label1{} = static_cast<long>(l[1])};
    type r{label1{} = 9L, label0{} = 9};
    fcppt::record::set<label1>(r, static_cast<long>(l[1]));
    fcppt::record::set<label0>(r, static_cast<int>(l[0]));
    return r;
  }
  static std::string extra(type const &a, type const &b)
  {
    perm const p{label1{} = fcppt::record::get<label1>(b), label0{} = fcppt::record::get<label0>(b)};
    bool const xe = a == p;
    bool const ex = p == a;
    // != on the mixed pair must be the negation as well
    if ((a != p) == xe || (p != a) == ex)
      return " xeq=ne-mismatch";
    return " xeq=" + b01(xe) + " exq=" + b01(ex);
  }
};

struct sti_tr : base_tr
{
  using type = fcppt::strong_typedef<int, st_tag>;
  static constexpr bool has_lt = true;
  static constexpr bool has_six = true;
  static constexpr bool has_hash = true;
  static constexpr unsigned routes = 2;
  static std::optional<type> make(V const &l, unsigned route = 0)
  {
    if (l.size() != 1)
      return std::nullopt;
    if (route % routes == 0)
      return type{static_cast<int>(l[0])};
    type r{fcppt::no_init{}};
    r.get() = static_cast<int>(l[0]);
    return r;
  }
  static std::size_t hash(type const &v, bool &ok)
  {
    return agree(fcppt::strong_typedef_hash<type>{}(v), std_hash(v), ok);
  }
};

struct recu_tr : base_tr
{
  using type = fcppt::recursive<int>;
  static constexpr unsigned routes = 5;
  static std::optional<type> make(V const &l, unsigned route = 0)
  {
    if (l.size() != 1)
      return std::nullopt;
    int const x = static_cast<int>(l[0]);
    switch (route % routes)
    {
    case 0:
      return fcppt::make_recursive(static_cast<int>(l[0]));
    case 1:
      return type{x}; // const lvalue constructor
    case 2:
    {
      type const src{x};
      type r{src}; // copy constructor: a new object
      return r;
    }
    case 3:
    {
      type const src{x};
      type r{x ^ 1};
      r = src;  // copy assignment over another value
      type &self = r;
      r = self; // self-assignment keeps the value
      return r;
    }
    default:
    {
      type src{x};
      type r{x ^ 1};
      r = std::move(src); // move assignment
      r.get() ^= 1;       // writing through get()
      r.get() ^= 1;
      return r;
    }
    }
  }
};

template <typename T, std::size_t N>
T make_math(V const &l, std::size_t off)
{
  if constexpr (N == 1)
    return T{static_cast<int>(l[off])};
  else if constexpr (N == 2)
    return T{static_cast<int>(l[off]), static_cast<int>(l[off + 1])};
  else if constexpr (N == 3)
    return T{static_cast<int>(l[off]), static_cast<int>(l[off + 1]), static_cast<int>(l[off + 2])};
  else
    return T{static_cast<int>(l[off]), static_cast<int>(l[off + 1]), static_cast<int>(l[off + 2]), static_cast<int>(l[off + 3])};
}

template <typename T, std::size_t N>
T make_math_by_element(V const &l, std::size_t off)
{
  T r{fcppt::no_init{}};
  for (std::size_t i = N; i-- > 0;)
    r.get_unsafe(i) = static_cast<int>(l[off + i]);
  return r;
}

template <typename T, std::size_t N>
struct mvec_tr : base_tr
{
  using type = T;
  static constexpr bool has_lt = true;
  static constexpr bool has_six = true;
  static constexpr bool has_hash = true;
  static constexpr unsigned routes = 3;
  static std::optional<type> make(V const &l, unsigned route = 0)
  {
    if (l.size() != N)
      return std::nullopt;
    switch (route % routes)
    {
    case 0:
      return make_math<type, N>(l, 0);
    case 1:
      return make_math_by_element<type, N>(l, 0);
    default:
    {
      V other(l);
      for (long long &x : other)
        x = 9 - x;
      type r{make_math<type, N>(other, 0)};
      r = make_math<type, N>(l, 0); // assigned over other components
      return r;
    }
    }
  }
  static std::size_t hash(type const &v, bool &) { return std_hash(v); }
  // vector<int,2> only: the right operand once more as a row view of a matrix (different storage type)
  static std::string extra(type const &a, type const &b)
  {
    if constexpr (std::is_same_v<type, fcppt::math::vector::static_<int, 2>>)
    {
      fcppt::math::matrix::static_<int, 2, 2> const m{
          fcppt::math::matrix::row(9, 9), fcppt::math::matrix::row(b.x(), b.y())};
      auto const view(fcppt::math::matrix::at_r<1>(m));
      static_assert(!std::is_same_v<std::remove_cv_t<decltype(view)>, type>);
      bool const e = a == view;
      std::string h = "-";
      if (e)
        h = b01(std_hash(a) == std::hash<std::remove_cv_t<decltype(view)>>{}(view));
      // the ordering operators across two storage types (both directions)
      std::string const ord = b01(a < view) + b01(a > view) + b01(a <= view) + b01(a >= view) + b01(view < a) + b01(view > a) +
                              b01(view <= a) + b01(view >= a);
      // a value constructed from the view (converting constructor) is the value
      type const conv{view};
      return " mix=" + b01(e) + b01(a != view) + b01(view == a) + b01(view != a) + h + " mixord=" + ord +
             " conv=" + b01(conv == b && !(conv != b) && !(conv < b) && !(b < conv));
    }
    else
      return "";
  }
};

using vec1_tr = mvec_tr<fcppt::math::vector::static_<int, 1>, 1>;
using vec2_tr = mvec_tr<fcppt::math::vector::static_<int, 2>, 2>;
using vec3_tr = mvec_tr<fcppt::math::vector::static_<int, 3>, 3>;
using vec4_tr = mvec_tr<fcppt::math::vector::static_<int, 4>, 4>;
using dim2_tr = mvec_tr<fcppt::math::dim::static_<int, 2>, 2>;
using dim3_tr = mvec_tr<fcppt::math::dim::static_<int, 3>, 3>;

template <std::size_t R, std::size_t C>
struct mat_tr : base_tr
{
  using type = fcppt::math::matrix::static_<int, R, C>;
  static constexpr bool has_hash = true;
  static constexpr unsigned routes = 2;
  static std::optional<type> make(V const &l, unsigned route = 0)
  {
    if (l.size() != R * C)
      return std::nullopt;
    if (route % routes == 0)
    {
      auto const row = [&l](std::size_t r)
      {
        if constexpr (C == 2)
          return fcppt::math::matrix::row(static_cast<int>(l[r * C]), static_cast<int>(l[r * C + 1]));
        else
          return fcppt::math::matrix::row(
              static_cast<int>(l[r * C]), static_cast<int>(l[r * C + 1]), static_cast<int>(l[r * C + 2]));
      };
      static_assert(R == 2);
      return type{row(0), row(1)};
    }
    type m{fcppt::no_init{}};
    for (std::size_t r = R; r-- > 0;)
      for (std::size_t c = 0; c < C; ++c)
        m.get_unsafe(r).get_unsafe(c) = static_cast<int>(l[r * C + c]);
    return m;
  }
  static std::size_t hash(type const &v, bool &) { return std_hash(v); }
};
using mat22_tr = mat_tr<2, 2>;
using mat23_tr = mat_tr<2, 3>;

template <std::size_t N>
struct box_tr : base_tr
{
  using type = fcppt::math::box::object<int, N>;
  using vec = typename type::vector;
  using dim = typename type::dim;
  static constexpr bool has_lt = true;
  static constexpr unsigned routes = 3;
  static std::optional<type> make(V const &l, unsigned route = 0)
  {
    if (l.size() != 2 * N)
      return std::nullopt;
    for (std::size_t i = 0; i < N; ++i)
      if (__builtin_add_overflow_p(static_cast<int>(l[i]), static_cast<int>(l[N + i]), 0))
        return std::nullopt; // pos + size must be an int (the class stores min and max)
    switch (route % routes)
    {
    case 0:
      return type{make_math<vec, N>(l, 0), make_math<dim, N>(l, N)};
    case 1:
    {
      // the (min, max) constructor
      V mx(N);
      for (std::size_t i = 0; i < N; ++i)
        mx[i] = l[i] + l[N + i];
      return type{make_math<vec, N>(l, 0), make_math<vec, N>(mx, 0)};
    }
    default:
    {
      type r{fcppt::no_init{}};
      for (std::size_t i = 0; i < N; ++i)
      {
        r.max().get_unsafe(i) = static_cast<int>(l[i] + l[N + i]);
        r.pos().get_unsafe(i) = static_cast<int>(l[i]);
      }
      return r;
    }
    }
  }
  static std::string extra(type const &a, type const &b)
  {
    // what == must agree with: the observable components
    bool const comps = a.pos() == b.pos() && a.max() == b.max() && a.size() == b.size();
    return std::string{" comps="} + b01(comps);
  }
};
using box2_tr = box_tr<2>;
using box3_tr = box_tr<3>;

template <std::size_t N>
struct sph_tr : base_tr
{
  using type = fcppt::math::sphere::object<int, N>;
  using point = typename type::point_type;
  static constexpr unsigned routes = 2;
  static std::optional<type> make(V const &l, unsigned route = 0)
  {
    if (l.size() != N + 1)
      return std::nullopt;
    if (route % routes == 0)
      return type{make_math<point, N>(l, 0), static_cast<int>(l[N])};
    V other(l);
    for (long long &x : other)
      x = 9 - x;
    type r{make_math<point, N>(other, 0), static_cast<int>(other[N])};
    r.radius() = static_cast<int>(l[N]);
    r.origin() = make_math_by_element<point, N>(l, 0);
    return r;
  }
};
using sph2_tr = sph_tr<2>;
using sph3_tr = sph_tr<3>;

// bitfield over Enum in 8-bit words; the three encoded membership bits are those of the enumerators I0, I1, I2
// (bf3: 0,1,2 - one word, 5 padding bits; bf9: 0,7,8 - two words, the second with 7 padding bits)
template <typename Enum, unsigned I0, unsigned I1, unsigned I2, unsigned Size>
struct bf_tr_t : base_tr
{
  using type = fcppt::container::bitfield::object<Enum, std::uint8_t>;
  static constexpr bool has_hash = true;
  static std::optional<type> make(V const &l, unsigned = 0)
  {
    if (l.size() != 4)
      return std::nullopt;
    for (std::size_t i = 0; i < 3; ++i)
      if (l[i] != 0 && l[i] != 1)
        return std::nullopt;
    if (l[3] < 0 || l[3] > 2)
      return std::nullopt;
    unsigned const idx[3] = {I0, I1, I2};
    type mem{type::null()};
    type co{type::null()};
    for (unsigned e = 0; e < Size; ++e)
    {
      bool in = false;
      for (unsigned i = 0; i < 3; ++i)
        if (idx[i] == e && l[i] == 1)
          in = true;
      if (in)
        mem |= type{static_cast<Enum>(e)};
      else
        co |= type{static_cast<Enum>(e)};
    }
    if (l[3] == 0)
      return mem;
    if (l[3] == 1)
      return ~co;
    return ~(~mem);
  }
  static std::size_t hash(type const &v, bool &ok)
  {
    return agree(fcppt::container::bitfield::hash<type>{}(v), std_hash(v), ok);
  }
  static unsigned mask(type const &v)
  {
    unsigned m = 0;
    for (unsigned i = 0; i < Size; ++i)
      if (v.get(static_cast<Enum>(i)))
        m |= 1U << i;
    return m;
  }
  static std::string extra(type const &a, type const &b)
  {
    return " m=" + std::to_string(mask(a)) + "," + std::to_string(mask(b));
  }
};
using bf_tr = bf_tr_t<e3, 0, 1, 2, 3>;
using bf9_tr = bf_tr_t<e9, 0, 7, 8, 9>;

template <std::size_t N>
struct grid_tr : base_tr
{
  using type = fcppt::container::grid::object<int, N>;
  using gdim = typename type::dim;
  using gpos = typename type::pos;
  static constexpr bool has_lt = true;
  static constexpr bool has_six = true;
  static constexpr unsigned routes = 4;
  static gdim mkdim(V const &l)
  {
    gdim d{fcppt::no_init{}};
    for (std::size_t i = 0; i < N; ++i)
      d.get_unsafe(i) = static_cast<typename type::size_type>(l[i]);
    return d;
  }
  static std::optional<type> make(V const &l, unsigned route = 0)
  {
    if (l.size() < N)
      return std::nullopt;
    std::size_t content = 1;
    for (std::size_t i = 0; i < N; ++i)
    {
      if (l[i] < 0 || l[i] > 64)
        return std::nullopt;
      content *= static_cast<std::size_t>(l[i]);
    }
    if (l.size() - N != content)
      return std::nullopt;
    gdim const d{mkdim(l)};
    auto const fill = [&l](type &g)
    {
      std::size_t k = N;
      for (auto &e : g)
        e = static_cast<int>(l[k++]);
    };
    switch (route % routes)
    {
    case 0:
    {
      type g{d, 0};
      fill(g);
      return g;
    }
    case 1:
      // initialised by a function of the position (x runs fastest)
      return type{d, [&l, &d](gpos const &p)
                  {
                    std::size_t idx = 0, stride = 1;
                    for (std::size_t i = 0; i < N; ++i)
                    {
                      idx += static_cast<std::size_t>(p.get_unsafe(i)) * stride;
                      stride *= static_cast<std::size_t>(d.get_unsafe(i));
                    }
                    return static_cast<int>(l[N + idx]);
                  }};
    case 2:
    {
      // copy-assigned over a larger grid with other content
      V big(N, 3);
      type g{mkdim(big), 7};
      type src{d, 0};
      fill(src);
      g = src;
      return g;
    }
    default:
    {
      // move-assigned over a default-constructed (empty) grid, then swapped twice
      type g{};
      type src{d, 8};
      fill(src);
      g = std::move(src);
      type other{d, 5};
      g.swap(other);
      swap(g, other);
      return g;
    }
    }
  }
};
using grid1_tr = grid_tr<1>;
using grid2_tr = grid_tr<2>;
using grid3_tr = grid_tr<3>;

struct tree_tr : base_tr
{
  using type = fcppt::container::tree::object<int>;
  static constexpr unsigned routes = 3;
  static bool parse(V const &l, std::size_t &pos, type &node, unsigned depth, unsigned route)
  {
    // node already carries its value; read the number of children and the children
    if (depth > 64 || pos >= l.size())
      return false;
    long long const k = l[pos++];
    if (k < 0 || k > 64)
      return false;
    std::vector<type> kids;
    for (long long i = 0; i < k; ++i)
    {
      if (pos >= l.size())
        return false;
      type child{static_cast<int>(l[pos++])};
      if (!parse(l, pos, child, depth + 1, route))
        return false;
      kids.push_back(std::move(child));
    }
    if (route == 0)
    {
      for (std::size_t i = 0; i < kids.size(); ++i)
        if (i % 2 == 1 && kids[i].empty())
          node.push_back(kids[i].value()); // through the value overload when the child is a leaf
        else
          node.push_back(std::move(kids[i]));
    }
    else if (route == 1)
    {
      // back to front with push_front
      for (std::size_t i = kids.size(); i-- > 0;)
        if (i % 2 == 0 && kids[i].empty())
          node.push_front(kids[i].value());
        else
          node.push_front(std::move(kids[i]));
    }
    else
    {
      // insert in front of end(), with surplus children that are removed again (erase, pop_front, pop_back, release)
      node.push_back(41);
      for (auto &kid : kids)
      {
        node.insert(node.end(), std::move(kid));
        node.insert(node.end(), 42);
        auto last = node.end();
        --last;
        if (node.size() % 2 == 0)
          node.erase(last);
        else
          (void)node.release(last);
      }
      (void)node.pop_front();
      node.push_back(43);
      (void)node.pop_back();
    }
    return true;
  }
  static std::optional<type> make(V const &l, unsigned route = 0)
  {
    if (l.size() < 2)
      return std::nullopt;
    std::size_t pos = 1;
    type root{static_cast<int>(l[0])};
    if (route % routes == 2)
    {
      root.value(static_cast<int>(l[0]) ^ 1);
      root.value() ^= 1;
    }
    if (!parse(l, pos, root, 0, route % routes) || pos != l.size())
      return std::nullopt;
    return root;
  }
  // the children of a compared IN PLACE (they have a parent) with b, both ways
  static std::string extra(type const &a, type const &b)
  {
    std::string r = " sub=";
    for (type const &c : a)
      r += b01(c == b) + b01(b == c) + b01(c != b) + b01(c == a);
    return r;
  }
};

struct rv_tr : base_tr
{
  using type = fcppt::container::raw_vector::object<int>;
  static constexpr bool has_lt = true;
  static constexpr bool has_six = true;
  static constexpr bool has_hash = true;
  static constexpr unsigned routes = 5;
  static std::optional<type> make(V const &l, unsigned route = 0)
  {
    std::vector<int> v;
    for (long long x : l)
      v.push_back(static_cast<int>(x));
    switch (route % routes)
    {
    case 0:
    {
      type r{};
      for (int x : v)
        r.push_back(x);
      return std::optional<type>{std::move(r)};
    }
    case 1:
    {
      type r(v.begin(), v.end()); // exact capacity
      return std::optional<type>{std::move(r)};
    }
    case 2:
    {
      // spare capacity holding stale elements behind size()
      type r{};
      r.reserve(16);
      for (int x : v)
        r.push_back(x);
      r.push_back(91);
      r.push_back(92);
      r.pop_back();
      r.pop_back();
      return std::optional<type>{std::move(r)};
    }
    case 3:
    {
      // resize up, overwrite, shrink; then erase a surplus element in front
      type r(v.size() + 3, 93);
      for (std::size_t i = 0; i < v.size(); ++i)
        r[i + 1] = v[i];
      r.resize(v.size() + 1, 0);
      r.erase(r.begin());
      return std::optional<type>{std::move(r)};
    }
    default:
    {
      // built back to front with insert(begin), then moved
      type r{94, 95};
      r.clear();
      for (std::size_t i = v.size(); i-- > 0;)
        r.insert(r.begin(), v[i]);
      type moved{std::move(r)};
      moved.shrink_to_fit();
      return std::optional<type>{std::move(moved)};
    }
    }
  }
  static std::size_t hash(type const &v, bool &) { return fcppt::range::hash<type>{}(v); }
};

// three objects in one array: their addresses are ordered like their indices
int g_objs[3] = {7, 7, 7};

struct ref_tr : base_tr
{
  using type = fcppt::reference<int>;
  static constexpr bool has_lt = true;
  static constexpr bool has_hash = true;
  static constexpr unsigned routes = 3;
  static std::optional<type> make(V const &l, unsigned route = 0)
  {
    if (l.size() != 1 || l[0] < 0 || l[0] > 2)
      return std::nullopt;
    switch (route % routes)
    {
    case 0:
      return fcppt::make_ref(g_objs[l[0]]);
    case 1:
      return type{g_objs[l[0]]};
    default:
    {
      type r{g_objs[(l[0] + 1) % 3]};
      type const src{g_objs[l[0]]};
      r = src; // rebinding: the wrapper is assigned, not the referent
      return r;
    }
    }
  }
  static std::size_t hash(type const &v, bool &ok)
  {
    return agree(fcppt::reference_hash<type>{}(v), std_hash(v), ok);
  }
  // reference_to_const keeps the referent
  static std::string extra(type const &a, type const &b)
  {
    fcppt::reference<int const> const ca{fcppt::reference_to_const(a)};
    fcppt::reference<int const> const cb{fcppt::reference_to_const(b)};
    return " const=" + b01(ca == cb) + b01(ca != cb) + b01(ca < cb) + b01(&ca.get() == &a.get());
  }
};

struct sp_tr : base_tr
{
  using type = fcppt::shared_ptr<int>;
  static constexpr bool has_lt = true;
  static constexpr bool has_hash = true;
  static constexpr unsigned routes = 3;
  // i,o: o < 2: stored pointer &g_objs[i], owner o (aliasing constructor; two unrelated owners)
  //      o = 2: stored pointer null; i = 0: empty (moved-from), i = 1, 2: owner i-1 with a null stored pointer
  static type direct(long long i, long long o)
  {
    static type const owner0{fcppt::make_shared_ptr<int>(0)};
    static type const owner1{fcppt::make_shared_ptr<int>(1)};
    if (o == 2)
    {
      if (i == 0)
      {
        type from{fcppt::make_shared_ptr<int>(3)};
        type const to{std::move(from)};
        return from;
      }
      return type{i == 1 ? owner0 : owner1, nullptr};
    }
    return type{o == 0 ? owner0 : owner1, &g_objs[i]};
  }
  static std::optional<type> make(V const &l, unsigned route = 0)
  {
    if (l.size() != 2 || l[0] < 0 || l[0] > 2 || l[1] < 0 || l[1] > 2)
      return std::nullopt;
    switch (route % routes)
    {
    case 0:
      return direct(l[0], l[1]);
    case 1:
    {
      type r{direct((l[0] + 1) % 3, (l[1] + 1) % 2)};
      type const src{direct(l[0], l[1])};
      r = src; // copy assignment over another pointer
      type &self = r;
      r = self;
      return r;
    }
    default:
    {
      type src{direct(l[0], l[1])};
      type r{fcppt::make_shared_ptr<int>(4)};
      r = std::move(src); // move assignment
      type other{direct((l[0] + 1) % 3, 0)};
      r.swap(other);
      swap(r, other);
      return r;
    }
    }
  }
  static std::size_t hash(type const &v, bool &ok)
  {
    std::size_t const h1 = agree(fcppt::shared_ptr_hash<type>{}(v), std_hash(v), ok);
    // the hash may not depend on how many owners there are at the moment
    type const another_owner{v};
    return agree(h1, fcppt::shared_ptr_hash<type>{}(v), ok);
  }
};

// a nested composition: optional< variant< optional<int>, vector<int,2> > > - every level uses the fcppt operator of the
// level below.  Encoding: - nothing; 0 just(nothing); 0,x just(just x); 1,x,y just(vector(x,y))
struct nest_tr : base_tr
{
  using inner_opt = fcppt::optional::object<int>;
  using vec = fcppt::math::vector::static_<int, 2>;
  using var = fcppt::variant::object<inner_opt, vec>;
  using type = fcppt::optional::object<var>;
  static constexpr bool has_lt = true;
  static constexpr unsigned routes = 2;
  static std::optional<type> make(V const &l, unsigned route = 0)
  {
    auto const wrap = [route](var &&v) -> type
    {
      if (route % routes == 0)
        return type{std::move(v)};
      type r{var{vec{7, 7}}};
      r = type{std::move(v)}; // assigned over another alternative
      return r;
    };
    if (l.empty())
    {
      if (route % routes == 0)
        return type{};
      type r{var{inner_opt{3}}};
      r = type{};
      return r;
    }
    if (l.size() == 1 && l[0] == 0)
      return wrap(var{inner_opt{}});
    if (l.size() == 2 && l[0] == 0)
      return wrap(var{inner_opt{static_cast<int>(l[1])}});
    if (l.size() == 3 && l[0] == 1)
      return wrap(var{vec{static_cast<int>(l[1]), static_cast<int>(l[2])}});
    return std::nullopt;
  }
};

struct unit_tr : base_tr
{
  using type = fcppt::unit;
  static std::optional<type> make(V const &l, unsigned = 0)
  {
    if (!l.empty())
      return std::nullopt;
    return type{};
  }
};

// ranges over the elements of one array: begin i, end j (i <= j <= 2)
struct itr_tr : base_tr
{
  using type = fcppt::iterator::range<int const *>;
  static constexpr unsigned routes = 2;
  static std::optional<type> make(V const &l, unsigned route = 0)
  {
    if (l.size() != 2 || l[0] < 0 || l[1] > 2 || l[0] > l[1])
      return std::nullopt;
    if (route % routes == 0)
      return type{&g_objs[0] + l[0], &g_objs[0] + l[1]};
    return fcppt::iterator::make_range(static_cast<int const *>(&g_objs[0] + l[0]), static_cast<int const *>(&g_objs[0] + l[1]));
  }
};

template <typename Tr>
struct engine
{
  using T = typename Tr::type;

  static std::string obs(T const &a, T const &b)
  {
    bool const e = a == b;
    std::string r = "eq=" + b01(e) + " ne=" + b01(a != b);
    if constexpr (Tr::has_lt)
      r += " lt=" + b01(a < b);
    else
      r += " lt=-";
    if constexpr (Tr::has_six)
      r += " gt=" + b01(a > b) + " le=" + b01(a <= b) + " ge=" + b01(a >= b);
    else
      r += " gt=- le=- ge=-";
    if constexpr (Tr::has_hash)
    {
      if (e)
      {
        bool ok = true;
        g_hash_mismatch = false;
        std::size_t const h1 = Tr::hash(a, ok);
        std::size_t const h2 = Tr::hash(b, ok);
        r += " heq=" + b01(ok && !g_hash_mismatch && h1 == h2);
      }
      else
        r += " heq=-";
    }
    else
      r += " heq=-";
    return r + Tr::extra(a, b);
  }

  // route bit 3: the object lives in a buffer that was filled with a byte pattern before (whatever the constructor does
  // not write - padding, the bytes of an inactive alternative - keeps the pattern); the low bits select Tr's route
  struct slot
  {
    alignas(T) unsigned char buf[sizeof(T)];
    T *p{nullptr};
    slot() = default;
    slot(slot const &) = delete;
    slot &operator=(slot const &) = delete;
    ~slot()
    {
      if (p != nullptr)
        p->~T();
    }
    T &put(T &&x, V const &l, unsigned char pattern)
    {
      std::memset(buf, pattern, sizeof buf);
      if constexpr (std::is_same_v<decltype(Tr::make_in(nullptr, l)), std::nullptr_t>)
        p = new (buf) T(std::move(x));
      else
        p = Tr::make_in(buf, l); // value constructor in place: padding and inactive bytes keep the pattern
      return *p;
    }
  };

  static std::string rel(V const &a, V const &b, unsigned ra = 0, unsigned rb = 0)
  {
    auto x = Tr::make(a, ra & 7U);
    auto y = Tr::make(b, rb & 7U);
    if (!x || !y)
      return "bad-op";
    slot sx, sy;
    T const &rx = (ra & 8U) != 0U ? sx.put(std::move(*x), a, 0xAB) : *x;
    T const &ry = (rb & 8U) != 0U ? sy.put(std::move(*y), b, 0x5C) : *y;
    return obs(rx, ry);
  }

  // the SAME object on both sides of every operator
  static std::string self(V const &a, unsigned ra)
  {
    auto x = Tr::make(a, ra & 7U);
    if (!x)
      return "bad-op";
    slot sx;
    T const &r1 = (ra & 8U) != 0U ? sx.put(std::move(*x), a, 0xAB) : *x;
    T const &r2 = r1;
    return obs(r1, r2);
  }

  static void all_lists(unsigned k, V &cur, std::vector<V> &out)
  {
    if (cur.size() == k)
    {
      if (Tr::make(cur))
        out.push_back(cur);
      return;
    }
    for (long long x = 0; x < 3; ++x)
    {
      cur.push_back(x);
      all_lists(k, cur, out);
      cur.pop_back();
    }
  }

  static std::vector<V> domain(unsigned maxlen)
  {
    std::vector<V> out;
    for (unsigned k = 0; k <= maxlen; ++k)
    {
      V cur;
      all_lists(k, cur, out);
    }
    return out;
  }

  static std::string rels(unsigned maxlen, V const &a, unsigned ra = 0, unsigned rb = 0)
  {
    if (!Tr::make(a))
      return "bad-op";
    std::vector<V> const d{domain(maxlen)};
    std::uint64_t h = vh::fnv_init;
    for (V const &b : d)
      h = vh::fnv(h, rel(a, b, ra, rb));
    return "D n=" + std::to_string(d.size()) + " " + vh::hex64(h);
  }

  static std::string selfs(unsigned maxlen, unsigned ra)
  {
    std::vector<V> const d{domain(maxlen)};
    std::uint64_t h = vh::fnv_init;
    for (V const &a : d)
      h = vh::fnv(h, self(a, ra));
    return "D n=" + std::to_string(d.size()) + " " + vh::hex64(h);
  }

  // boundary values of the component at position pos: all pairs (u, v), the other components as in base
  static std::string relb(V const &base, std::size_t pos, unsigned kind)
  {
    static long long const b16[] = {-32768, -32767, -257, -256, -129, -128, -1, 0, 1, 127, 128, 255, 256, 32766, 32767};
    static long long const b32[] = {-2147483647LL - 1, -2147483647LL, -16777217, -16777216, -65537, -65536, -32769, -32768, -1, 0, 1,
                                    32767, 32768, 65535, 65536, 16777216, 16777217, 2147483646, 2147483647};
    if (pos >= base.size() || kind > 1 || !Tr::make(base))
      return "bad-op";
    std::uint64_t h = vh::fnv_init;
    auto const run = [&](auto const &vals)
    {
      for (long long u : vals)
        for (long long v : vals)
        {
          V a(base), b(base);
          a[pos] = u;
          b[pos] = v;
          h = vh::fnv(h, rel(a, b, static_cast<unsigned>(u & 11), static_cast<unsigned>(v & 9)));
        }
    };
    if (kind == 0)
      run(b16);
    else
      run(b32);
    return "D " + vh::hex64(h);
  }

  struct el
  {
    bool eq;
    bool lt;
  };

  static el eq_lt(T const &a, T const &b)
  {
    el r{a == b, false};
    if constexpr (Tr::has_lt)
      r.lt = a < b;
    return r;
  }

  struct flags
  {
    unsigned sym, eqt, ltt, inc, cmp;
  };

  static flags tri_flags(el ab, el ba, el bc, el cb, el ac, el ca)
  {
    flags f{0, 0, 0, 0, 0};
    f.sym = ab.eq != ba.eq;
    f.eqt = ab.eq && bc.eq && !ac.eq;
    if constexpr (Tr::has_lt)
    {
      auto const incomp = [](el x, el y) { return !x.lt && !y.lt; };
      f.ltt = ab.lt && bc.lt && !ac.lt;
      f.inc = incomp(ab, ba) && incomp(bc, cb) && !incomp(ac, ca);
      f.cmp = ab.eq && (ac.lt != bc.lt || ca.lt != cb.lt);
    }
    return f;
  }

  static std::string show(unsigned long long n, flags f)
  {
    return "n=" + std::to_string(n) + " sym=" + std::to_string(f.sym) + " eqt=" + std::to_string(f.eqt) +
           " ltt=" + std::to_string(f.ltt) + " inc=" + std::to_string(f.inc) + " cmp=" + std::to_string(f.cmp);
  }

  static std::string tri(unsigned maxlen, V const &av)
  {
    auto const a = Tr::make(av);
    if (!a)
      return "bad-op";
    std::vector<V> const d{domain(maxlen)};
    std::vector<T> vals;
    vals.reserve(d.size());
    for (V const &v : d)
      vals.push_back(std::move(*Tr::make(v, static_cast<unsigned>(vals.size())))); // the routes alternate
    std::size_t const n = vals.size();
    std::vector<el> row(n), col(n), mat(n * n);
    for (std::size_t i = 0; i < n; ++i)
    {
      row[i] = eq_lt(*a, vals[i]);
      col[i] = eq_lt(vals[i], *a);
      for (std::size_t j = 0; j < n; ++j)
        mat[i * n + j] = eq_lt(vals[i], vals[j]);
    }
    flags tot{0, 0, 0, 0, 0};
    for (std::size_t i = 0; i < n; ++i)
      for (std::size_t j = 0; j < n; ++j)
      {
        flags const f = tri_flags(row[i], col[i], mat[i * n + j], mat[j * n + i], row[j], col[j]);
        tot.sym += f.sym;
        tot.eqt += f.eqt;
        tot.ltt += f.ltt;
        tot.inc += f.inc;
        tot.cmp += f.cmp;
      }
    return show(static_cast<unsigned long long>(n) * n, tot);
  }

  static std::string tri1(V const &av, V const &bv, V const &cv)
  {
    auto const a = Tr::make(av);
    auto const b = Tr::make(bv);
    auto const c = Tr::make(cv);
    if (!a || !b || !c)
      return "bad-op";
    return show(1, tri_flags(eq_lt(*a, *b), eq_lt(*b, *a), eq_lt(*b, *c), eq_lt(*c, *b), eq_lt(*a, *c), eq_lt(*c, *a)));
  }

  static std::string handle(std::vector<std::string> const &t)
  {
    if (t[0] == "rel" && t.size() == 4)
      return rel(vh::int_list(t[2]), vh::int_list(t[3]));
    if (t[0] == "relr" && t.size() == 6)
    {
      unsigned long long const ra = vh::to_ull(t[2]), rb = vh::to_ull(t[3]);
      if (ra > 15 || rb > 15)
        return "bad-op";
      return rel(vh::int_list(t[4]), vh::int_list(t[5]), static_cast<unsigned>(ra), static_cast<unsigned>(rb));
    }
    if (t[0] == "rels" && t.size() == 4)
    {
      unsigned long long const ml = vh::to_ull(t[2]);
      if (ml > 8)
        return "bad-op";
      return rels(static_cast<unsigned>(ml), vh::int_list(t[3]));
    }
    if (t[0] == "relsr" && t.size() == 6)
    {
      unsigned long long const ml = vh::to_ull(t[2]), ra = vh::to_ull(t[3]), rb = vh::to_ull(t[4]);
      if (ml > 8 || ra > 15 || rb > 15)
        return "bad-op";
      return rels(static_cast<unsigned>(ml), vh::int_list(t[5]), static_cast<unsigned>(ra), static_cast<unsigned>(rb));
    }
    if (t[0] == "self" && t.size() == 4)
    {
      unsigned long long const ra = vh::to_ull(t[2]);
      if (ra > 15)
        return "bad-op";
      return self(vh::int_list(t[3]), static_cast<unsigned>(ra));
    }
    if (t[0] == "selfs" && t.size() == 4)
    {
      unsigned long long const ml = vh::to_ull(t[2]), ra = vh::to_ull(t[3]);
      if (ml > 8 || ra > 15)
        return "bad-op";
      return selfs(static_cast<unsigned>(ml), static_cast<unsigned>(ra));
    }
    if (t[0] == "relb" && t.size() == 5)
    {
      unsigned long long const pos = vh::to_ull(t[3]), kind = vh::to_ull(t[4]);
      if (pos > 64 || kind > 1)
        return "bad-op";
      return relb(vh::int_list(t[2]), static_cast<std::size_t>(pos), static_cast<unsigned>(kind));
    }
    if (t[0] == "tri" && t.size() == 4)
    {
      unsigned long long const ml = vh::to_ull(t[2]);
      if (ml > 8)
        return "bad-op";
      return tri(static_cast<unsigned>(ml), vh::int_list(t[3]));
    }
    if (t[0] == "tri1" && t.size() == 5)
      return tri1(vh::int_list(t[2]), vh::int_list(t[3]), vh::int_list(t[4]));
    return "bad-op";
  }
};

struct wrap_base
{
  virtual ~wrap_base() = default;
  int v{0};
};
struct wrap_derived : wrap_base
{
};

std::string wrap_line(int x)
{
  int const other = x ^ 1;
  int obj = x;
  fcppt::reference<int> const r{obj};
  bool same = &r.get() == &obj && r.operator->() == &obj;
  // writing through the reference changes the object, and the other way round
  r.get() = other;
  same = same && obj == other;
  obj = x;
  same = same && r.get() == x;
  fcppt::recursive<int> const rec{x};
  fcppt::recursive<int> rec2{rec}; // deep copy: changing the copy leaves the original alone
  rec2.get() = other;
  fcppt::unique_ptr<int> const up{fcppt::make_unique_ptr<int>(x)};
  fcppt::shared_ptr<int> const sp{fcppt::make_shared_ptr<int>(x)};
  fcppt::shared_ptr<int> const sp2{sp};
  bool const ptrs = up.get_pointer() == &*up && sp.get_pointer() == &*sp && sp2.get_pointer() == sp.get_pointer() &&
                    up.operator->() == up.get_pointer() && sp.operator->() == sp.get_pointer();
  using st = fcppt::strong_typedef<int, st_tag>;
  using iso = fcppt::type_iso::transform<st>;
  std::string s = "ref=" + std::to_string(r.get()) + " same=" + b01(same && ptrs) + " rec=" + std::to_string(rec.get()) +
                  " uniq=" + std::to_string(*up) + " shared=" + std::to_string(*sp2) +
                  " iso=" + std::to_string(iso::undecorate(iso::decorate(x)));
  // recursive: every constructor and assignment operator (copy / assign / self-assign / move)
  {
    s += " reccopy=" + std::to_string(rec2.get()) + "/" + std::to_string(rec.get());
    fcppt::recursive<int> src{x};
    fcppt::recursive<int> dst{other};
    int const *const before = &dst.get();
    fcppt::recursive<int> &q = (dst = src);
    src.get() = other; // the source changes afterwards: the target keeps its own object
    s += " recasg=" + std::to_string(dst.get()) + "/" + std::to_string(src.get()) + (&q == &dst ? "" : "!ref") +
         (&dst.get() != &src.get() ? "" : "!shared");
    (void)before;
    fcppt::recursive<int> &self = dst;
    int const *const addr = &dst.get();
    dst = self;
    s += " recself=" + std::to_string(dst.get()) + (addr == &dst.get() ? "" : "!moved");
    int const *const cell = &dst.get();
    fcppt::recursive<int> mv{std::move(dst)};
    fcppt::recursive<int> mv2{0};
    mv2 = std::move(mv);
    s += " recmv=" + std::to_string(mv2.get()) + (cell == &mv2.get() ? "" : "!copied");
    fcppt::recursive<int> const rv{int{x}}; // rvalue constructor
    s += " recrv=" + std::to_string(rv.get());
  }
  // unique_ptr: move construction / assignment keep the object, release_ownership hands it out
  {
    fcppt::unique_ptr<int> a{fcppt::make_unique_ptr<int>(x)};
    int *const p = a.get_pointer();
    fcppt::unique_ptr<int> b{std::move(a)};
    fcppt::unique_ptr<int> c{fcppt::make_unique_ptr<int>(other)};
    c = std::move(b);
    bool ok = c.get_pointer() == p && a.get_pointer() == nullptr && b.get_pointer() == nullptr;
    *c = other;
    ok = ok && *p == other;
    *c = x;
    int *const raw = c.release_ownership();
    ok = ok && raw == p && c.get_pointer() == nullptr;
    fcppt::unique_ptr<int> d{raw}; // the pointer constructor takes ownership again
    fcppt::unique_ptr<int> e{std::make_unique<int>(x)};
    fcppt::unique_ptr<int const> const f{fcppt::unique_ptr_to_const(std::move(d))};
    ok = ok && f.get_pointer() == p;
    fcppt::unique_ptr<wrap_derived> der{fcppt::make_unique_ptr<wrap_derived>()};
    der->v = x;
    wrap_derived *const dp = der.get_pointer();
    fcppt::unique_ptr<wrap_base> const bas{fcppt::unique_ptr_to_base<wrap_base>(std::move(der))};
    ok = ok && bas.get_pointer() == dp;
    s += " uniq2=" + std::to_string(*f) + "/" + std::to_string(*e) + "/" + std::to_string(bas->v) + (ok ? "" : "!");
  }
  // shared_ptr: the other constructors and assignments, use_count, weak_ptr::lock
  {
    int *const raw = new int{x};
    fcppt::shared_ptr<int> a{raw};
    bool ok = a.get_pointer() == raw && a.unique() && a.use_count() == 1;
    fcppt::shared_ptr<int> b{a};
    ok = ok && a.use_count() == 2 && !a.unique() && b.std_ptr().get() == raw;
    fcppt::weak_ptr<int> const w{a};
    ok = ok && w.use_count() == 2 && !w.expired();
    {
      auto const locked{w.lock()};
      ok = ok && locked.has_value() && locked.get_unsafe().get_pointer() == raw && a.use_count() == 3;
      // (the constructor shared_ptr(weak_ptr const &) does not instantiate: it hands the fcppt::weak_ptr to std::shared_ptr)
    }
    fcppt::unique_ptr<int> u{fcppt::make_unique_ptr<int>(x)};
    int *const up2 = u.get_pointer();
    fcppt::shared_ptr<int> c{std::move(u)};
    ok = ok && c.get_pointer() == up2 && u.get_pointer() == nullptr;
    fcppt::unique_ptr<int> u2{fcppt::make_unique_ptr<int>(x)};
    int *const up3 = u2.get_pointer();
    b = std::move(u2); // assignment from a unique_ptr: b lets go of raw
    ok = ok && b.get_pointer() == up3 && a.use_count() == 1;
    fcppt::shared_ptr<int> const s1{std::unique_ptr<int, fcppt::default_deleter>{new int{x}}};
    fcppt::shared_ptr<wrap_derived> const der{fcppt::make_shared_ptr<wrap_derived>()};
    der->v = x;
    fcppt::shared_ptr<wrap_base> const bas{der}; // converting constructor
    ok = ok && bas.get_pointer() == der.get_pointer() && der.use_count() == 2 && bas == der && !(bas != der) && !(bas < der) &&
         !(der < bas);
    // the pointer casts keep the object and share the ownership
    {
      fcppt::shared_ptr<wrap_derived> const back{fcppt::static_pointer_cast<wrap_derived>(bas)};
      auto const dyn{fcppt::dynamic_pointer_cast<wrap_derived>(bas)};
      fcppt::shared_ptr<wrap_base> const plain{fcppt::make_shared_ptr<wrap_base>()};
      auto const dyn_fail{fcppt::dynamic_pointer_cast<wrap_derived>(plain)};
      fcppt::shared_ptr<int const> const ca{a};
      fcppt::shared_ptr<int> const cc{fcppt::const_pointer_cast<int>(ca)};
      ok = ok && back.get_pointer() == der.get_pointer() && dyn.has_value() && dyn.get_unsafe() == der && !dyn_fail.has_value() &&
           cc.get_pointer() == a.get_pointer() && cc == a && der.use_count() == 4 && back->v == x;
      wrap_derived obj{};
      obj.v = x;
      fcppt::reference<wrap_derived> const rd{obj};
      fcppt::reference<wrap_base> const rb{fcppt::reference_to_base<wrap_base>(rd)};
      fcppt::reference<wrap_base const> const rc{fcppt::make_cref(static_cast<wrap_base const &>(obj))};
      ok = ok && &rb.get() == &obj && rb->v == x && &rc.get() == &rb.get() && fcppt::reference_to_const(rb) == rc;
    }
    int const va = *a, vb = *b, vc = *c;
    a = c; // copy assignment: raw dies, a shows c's object
    ok = ok && w.expired() && !w.lock().has_value() && a.get_pointer() == up2 && c.use_count() == 2;
    s += " sh2=" + std::to_string(va) + "/" + std::to_string(vb) + "/" + std::to_string(vc) + "/" + std::to_string(*s1) + "/" +
         std::to_string(bas->v) + "/" + std::to_string(*a) + (ok ? "" : "!");
  }
  return s;
}

// ---- element types whose == is not bit equality and whose order is partial (double: -0.0 == 0.0, NaN != NaN, NaN unordered;
// a padded struct: equal values with different padding bytes).  The wrappers must give exactly the wrapped / element-wise
// result of the same operator (theorems transparent_*, std_equal_*, lexicographical_compare_* are generic in the element
// type); the reference is computed here on the raw values with the built-in operators.
struct fp_tag_d
{
};
struct fp_tag_f
{
};
using fp_strong_d = fcppt::strong_typedef<double, fp_tag_d>;
using fp_strong_f = fcppt::strong_typedef<float, fp_tag_f>;

struct padded
{
  char c;
  int i;
  friend bool operator==(padded const &a, padded const &b) { return a.c == b.c && a.i == b.i; }
  friend bool operator!=(padded const &a, padded const &b) { return !(a == b); }
  friend bool operator<(padded const &a, padded const &b) { return a.c < b.c || (a.c == b.c && a.i < b.i); }
};

template <typename F>
std::vector<F> fp_specials()
{
  return {std::numeric_limits<F>::quiet_NaN(), -std::numeric_limits<F>::infinity(), F(-1.5), F(-0.0), F(0.0), F(1.0),
          std::numeric_limits<F>::infinity()};
}

template <typename F>
bool same_bits(F a, F b)
{
  return std::memcmp(&a, &b, sizeof(F)) == 0 || (a != a && b != b);
}

template <typename Strong, typename F>
std::string fp_strong_check(char const *name)
{
  for (F const a : fp_specials<F>())
    for (F const b : fp_specials<F>())
    {
      Strong const sa{a};
      Strong const sb{b};
      if ((sa == sb) != (a == b)) return std::string{"MISMATCH:"} + name + ":==";
      if ((sa != sb) != (a != b)) return std::string{"MISMATCH:"} + name + ":!=";
      if ((sa < sb) != (a < b)) return std::string{"MISMATCH:"} + name + ":<";
      if ((sa <= sb) != (a <= b)) return std::string{"MISMATCH:"} + name + ":<=";
      if ((sa > sb) != (a > b)) return std::string{"MISMATCH:"} + name + ":>";
      if ((sa >= sb) != (a >= b)) return std::string{"MISMATCH:"} + name + ":>=";
      if (!same_bits((sa + sb).get(), a + b)) return std::string{"MISMATCH:"} + name + ":+";
      if (!same_bits((sa - sb).get(), a - b)) return std::string{"MISMATCH:"} + name + ":-";
      if (!same_bits((sa * sb).get(), a * b)) return std::string{"MISMATCH:"} + name + ":*";
      if (!same_bits((-sa).get(), -a)) return std::string{"MISMATCH:"} + name + ":neg";
    }
  return "ok";
}

template <typename T>
std::string fp_raw_vector_check(std::vector<std::vector<T>> const &seqs, char const *name)
{
  using rv = fcppt::container::raw_vector::object<T>;
  for (auto const &x : seqs)
    for (auto const &y : seqs)
    {
      rv const a(x.begin(), x.end());
      rv const b(y.begin(), y.end());
      bool const eq = x.size() == y.size() && std::equal(x.begin(), x.end(), y.begin(), [](T const &l, T const &r) { return l == r; });
      bool const lt = std::lexicographical_compare(x.begin(), x.end(), y.begin(), y.end(), [](T const &l, T const &r) { return l < r; });
      bool const gt = std::lexicographical_compare(y.begin(), y.end(), x.begin(), x.end(), [](T const &l, T const &r) { return l < r; });
      if ((a == b) != eq) return std::string{"MISMATCH:"} + name + ":==";
      if ((a != b) != !eq) return std::string{"MISMATCH:"} + name + ":!=";
      if ((a < b) != lt) return std::string{"MISMATCH:"} + name + ":<";
      if ((a > b) != gt) return std::string{"MISMATCH:"} + name + ":>";
      if ((a <= b) != !gt) return std::string{"MISMATCH:"} + name + ":<=";
      if ((a >= b) != !lt) return std::string{"MISMATCH:"} + name + ":>=";
    }
  return "ok";
}

std::string fp_check(std::string const &which)
{
  if (which == "std")
    return fp_strong_check<fp_strong_d, double>("strong_typedef<double>");
  if (which == "stf")
    return fp_strong_check<fp_strong_f, float>("strong_typedef<float>");
  std::vector<double> const vals{std::numeric_limits<double>::quiet_NaN(), -0.0, 0.0, 1.0};
  if (which == "rvd")
  {
    std::vector<std::vector<double>> seqs{{}};
    for (double const a : vals)
    {
      seqs.push_back({a});
      for (double const b : vals)
      {
        seqs.push_back({a, b});
        seqs.push_back({1.0, a, b});
      }
    }
    return fp_raw_vector_check<double>(seqs, "raw_vector<double>");
  }
  if (which == "rvp")
  {
    // equal values, different padding bytes: every element is written into storage pre-filled with a different pattern
    std::vector<std::vector<padded>> seqs{{}};
    for (int fill : {0x00, 0xFF, 0x5A})
      for (int n = 1; n <= 3; ++n)
        for (int v = 0; v < 2; ++v)
        {
          std::vector<padded> x(static_cast<std::size_t>(n));
          std::memset(static_cast<void *>(x.data()), fill, sizeof(padded) * x.size());
          for (int k = 0; k < n; ++k)
          {
            x[static_cast<std::size_t>(k)].c = static_cast<char>('a' + k);
            x[static_cast<std::size_t>(k)].i = k == n - 1 ? v : 7;
          }
          seqs.push_back(x);
        }
    return fp_raw_vector_check<padded>(seqs, "raw_vector<padded>");
  }
  if (which == "cont")
  {
    for (double const a : vals)
      for (double const b : vals)
      {
        bool const eq = a == b;
        if ((fcppt::optional::object<double>{a} == fcppt::optional::object<double>{b}) != eq) return "MISMATCH:optional<double>:==";
        if ((fcppt::optional::object<double>{a} != fcppt::optional::object<double>{b}) != !eq) return "MISMATCH:optional<double>:!=";
        if ((fcppt::array::object<double, 2>{1.0, a} == fcppt::array::object<double, 2>{1.0, b}) != eq) return "MISMATCH:array<double>:==";
        if ((fcppt::tuple::object<int, double>{1, a} == fcppt::tuple::object<int, double>{1, b}) != eq) return "MISMATCH:tuple<double>:==";
        if ((fcppt::math::vector::static_<double, 2>{1.0, a} == fcppt::math::vector::static_<double, 2>{1.0, b}) != eq) return "MISMATCH:vector<double>:==";
        if ((fcppt::math::vector::static_<double, 2>{1.0, a} != fcppt::math::vector::static_<double, 2>{1.0, b}) != !eq) return "MISMATCH:vector<double>:!=";
        using ei = fcppt::either::object<int, double>;
        if ((ei{a} == ei{b}) != eq) return "MISMATCH:either<double>:==";
        using va = fcppt::variant::object<int, double>;
        if ((va{a} == va{b}) != eq) return "MISMATCH:variant<double>:==";
        if ((va{a} != va{b}) != !eq) return "MISMATCH:variant<double>:!=";
      }
    return "ok";
  }
  return "bad-op";
}

std::string handle(std::vector<std::string> const &t)
{
  if (t.empty())
    return "bad-op";
  if (t[0] == "fpchk" && t.size() == 2)
    return fp_check(t[1]);
  try
  {
    if (t[0] == "st" || t[0] == "sts" || t[0] == "stself" || t[0] == "stselfs" || t[0] == "stmem" || t[0] == "stmems")
    {
      if (t.size() < 3)
        return "bad-op";
      if (t[1] == "i32")
        return st_inst<int>::handle(t);
      if (t[1] == "u32")
        return st_inst<unsigned>::handle(t);
      if (t[1] == "i64")
        return st_inst<long>::handle(t);
      if (t[1] == "u64")
        return st_inst<unsigned long>::handle(t);
      if (t[1] == "i8")
        return st_inst<signed char>::handle(t);
      if (t[1] == "u8")
        return st_inst<unsigned char>::handle(t);
      if (t[1] == "i16")
        return st_inst<short>::handle(t);
      if (t[1] == "u16")
        return st_inst<unsigned short>::handle(t);
      return "bad-op";
    }
    if (t[0] == "wrap" && t.size() == 2)
    {
      long long const x = vh::to_ll(t[1]);
      if (x < std::numeric_limits<int>::min() || x > std::numeric_limits<int>::max())
        return "bad-op";
      return wrap_line(static_cast<int>(x));
    }
    if (t.size() < 4)
      return "bad-op";
    std::string const &ty = t[1];
    if (ty == "opt") return engine<opt_tr>::handle(t);
    if (ty == "eith") return engine<eith_tr>::handle(t);
    if (ty == "var") return engine<var_tr>::handle(t);
    if (ty == "tup") return engine<tup_tr>::handle(t);
    if (ty == "arr") return engine<arr_tr>::handle(t);
    if (ty == "rec") return engine<rec_tr>::handle(t);
    if (ty == "sti") return engine<sti_tr>::handle(t);
    if (ty == "vec1") return engine<vec1_tr>::handle(t);
    if (ty == "vec2") return engine<vec2_tr>::handle(t);
    if (ty == "vec3") return engine<vec3_tr>::handle(t);
    if (ty == "vec4") return engine<vec4_tr>::handle(t);
    if (ty == "dim2") return engine<dim2_tr>::handle(t);
    if (ty == "dim3") return engine<dim3_tr>::handle(t);
    if (ty == "mat22") return engine<mat22_tr>::handle(t);
    if (ty == "mat23") return engine<mat23_tr>::handle(t);
    if (ty == "box2") return engine<box2_tr>::handle(t);
    if (ty == "box3") return engine<box3_tr>::handle(t);
    if (ty == "sph2") return engine<sph2_tr>::handle(t);
    if (ty == "sph3") return engine<sph3_tr>::handle(t);
    if (ty == "bf3") return engine<bf_tr>::handle(t);
    if (ty == "bf9") return engine<bf9_tr>::handle(t);
    if (ty == "earr") return engine<earr_tr>::handle(t);
    if (ty == "grid") return engine<grid2_tr>::handle(t);
    if (ty == "grid1") return engine<grid1_tr>::handle(t);
    if (ty == "grid3") return engine<grid3_tr>::handle(t);
    if (ty == "unit") return engine<unit_tr>::handle(t);
    if (ty == "nest") return engine<nest_tr>::handle(t);
    if (ty == "itr") return engine<itr_tr>::handle(t);
    if (ty == "tree") return engine<tree_tr>::handle(t);
    if (ty == "rv") return engine<rv_tr>::handle(t);
    if (ty == "ref") return engine<ref_tr>::handle(t);
    if (ty == "sp") return engine<sp_tr>::handle(t);
    if (ty == "recu") return engine<recu_tr>::handle(t);
    return "bad-op";
  }
  catch (std::invalid_argument const &)
  {
    return "bad-op";
  }
  catch (std::out_of_range const &)
  {
    return "bad-op";
  }
  catch (std::exception const &)
  {
    return "exc:std";
  }
}
}

int main() { return vh::run(handle); }
