// C16 correspondence harness, part g of the per-function evaluation (see c16_common.hpp)
#include "c16_common.hpp"

c16::result c16::eval_g(std::string const &fn, char const k, params const &ps, std::vector<int> const &v)
{
  C16_PREAMBLE
  if (fn == "vcajoin" && np == 5)
  {
    ulong const cat1 = ps[0], cat2 = ps[1], cat3 = ps[2], c1 = ps[3], c2 = ps[4];
    if (k != 'a' || cat1 > 2 || cat2 < 1 || cat2 > 2 || cat3 < 1 || cat3 > 2) return bad;
    if (c1 > c2 || c2 > v.size() || c1 > 1 || c2 - c1 > 1 || v.size() - c2 > 1) return skip;
    return with_size<1>(c1, [&](auto n1) {
      return with_size<1>(c2 - c1, [&](auto n2) {
        return with_size<1>(v.size() - c2, [&](auto n3) {
          auto a{mk_parray<SZ(n1)>(v, 0)};
          auto b{mk_parray<SZ(n2)>(v, c1)};
          auto c{mk_parray<SZ(n3)>(v, c2)};
          return with_cat(cat1, a, [&](auto &&x) {
            return with_cat2(cat2, b, [&](auto &&y) {
              return with_cat2(cat3, c, [&](auto &&z) {
                auto const r{fcppt::array::join(FWD(x), FWD(y), FWD(z))};
                return ds(r) + "|" + ds(a) + "|" + ds(b) + "|" + ds(c);
              });
            });
          });
        });
      });
    });
  }
  if (fn == "vcfrom" && np == 2)
  {
    ulong const cat = ps[0], N = ps[1];
    if (!(k == 'v' || k == 'd') || cat > 2 || N > 3) return bad;
    return with_size<3>(N, [&](auto n) {
      return with_pseq(k, v, [&](auto &c) -> std::string {
        if constexpr (std::is_same_v<std::remove_cvref_t<decltype(c)>, std::list<pe>>) return bad;
        else
          return with_cat(cat, c, [&](auto &&src) {
            auto const o{fcppt::array::from_range<SZ(n)>(FWD(src))};
            return (o.has_value() ? ds(o.get_unsafe()) : std::string{"none"}) + "|" + ds(c);
          });
      });
    });
  }
  if (fn == "vctpush" && np == 3)
  {
    ulong const cat = ps[0], catx = ps[1], V = ps[2];
    if (k != 't' || cat > 2 || catx > 2 || V >= 3) return bad;
    if (v.size() > 2) return skip;
    return with_size<2>(v.size(), [&](auto n) {
      auto t{mk_ptuple<SZ(n)>(v, 0)};
      pe x{static_cast<int>(V)};
      return with_cat(cat, t, [&](auto &&src) {
        return with_cat(catx, x, [&](auto &&e) {
          auto const r{fcppt::tuple::push_back(FWD(src), FWD(e))};
          return ds_tuple(r) + "|" + ds_tuple(t) + "|" + std::to_string(x.v);
        });
      });
    });
  }
  if (fn == "vctconcat" && np == 5)
  {
    ulong const cat1 = ps[0], cat2 = ps[1], cat3 = ps[2], c1 = ps[3], c2 = ps[4];
    if (k != 't' || cat1 < 1 || cat1 > 2 || cat2 < 1 || cat2 > 2 || cat3 < 1 || cat3 > 2) return bad;
    if (c1 > c2 || c2 > v.size() || c1 > 1 || c2 - c1 > 1 || v.size() - c2 > 1) return skip;
    return with_size<1>(c1, [&](auto n1) {
      return with_size<1>(c2 - c1, [&](auto n2) {
        return with_size<1>(v.size() - c2, [&](auto n3) {
          auto a{mk_ptuple<SZ(n1)>(v, 0)};
          auto b{mk_ptuple<SZ(n2)>(v, c1)};
          auto c{mk_ptuple<SZ(n3)>(v, c2)};
          return with_cat2(cat1, a, [&](auto &&x) {
            return with_cat2(cat2, b, [&](auto &&y) {
              return with_cat2(cat3, c, [&](auto &&z) {
                auto const r{fcppt::tuple::concat(concat_arg(FWD(x)), concat_arg(FWD(y)), concat_arg(FWD(z)))};
                return ds_tuple(r) + "|" + ds_tuple(a) + "|" + ds_tuple(b) + "|" + ds_tuple(c);
              });
            });
          });
        });
      });
    });
  }
  return std::nullopt;
}
