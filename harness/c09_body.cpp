// Body of the C09 harness, included twice by c09.cpp: once with value_t = int (C09_COPYABLE 1) and once with the move-only
// value type mo_int (C09_COPYABLE 0).  Everything here lives in the namespace that includes it.
using tree = fcppt::container::tree::object<value_t>;
using ltree = fcppt::container::tree::object<long>;


static_assert(fcppt::container::tree::is_object<tree>::value);
static_assert(!fcppt::container::tree::is_object<value_t>::value);

std::vector<std::unique_ptr<tree>> forest;

template <typename T>
std::size_t size_of(T const &t)
{
  std::size_t r = 1;
  for (auto const &c : t.children())
    r += size_of(c);
  return r;
}

std::size_t count()
{
  std::size_t r = 0;
  for (auto const &t : forest)
    r += size_of(*t);
  return r;
}

void paths_t(tree const &t, path &cur, std::vector<path> &out)
{
  out.push_back(cur);
  std::size_t j = 0;
  for (auto const &c : t.children())
  {
    cur.push_back(j++);
    paths_t(c, cur, out);
    cur.pop_back();
  }
}

std::vector<path> all_paths()
{
  std::vector<path> out;
  for (std::size_t r = 0; r < forest.size(); ++r)
  {
    path cur{r};
    paths_t(*forest[r], cur, out);
  }
  return out;
}

tree *node_at(path const &p)
{
  if (p.empty() || p[0] >= forest.size())
    return nullptr;
  tree *t = forest[p[0]].get();
  for (std::size_t k = 1; k < p.size(); ++k)
  {
    if (p[k] >= t->size())
      return nullptr;
    t = &*std::next(t->begin(), static_cast<std::ptrdiff_t>(p[k]));
  }
  return t;
}




// resolve a selector; empty optional = bad
bool sel(std::string const &tok, path &out)
{
  if (!tok.empty() && tok[0] == 'p')
  {
    path p;
    std::size_t pos = 1;
    while (true)
    {
      std::size_t const next = tok.find('.', pos);
      std::string const part = tok.substr(pos, next == std::string::npos ? next : next - pos);
      if (!is_nat(part))
        return false;
      p.push_back(static_cast<std::size_t>(std::stoull(part)));
      if (next == std::string::npos)
        break;
      pos = next + 1;
    }
    if (node_at(p) == nullptr)
      return false;
    out = p;
    return true;
  }
  if (!is_nat(tok))
    return false;
  std::vector<path> const ps = all_paths();
  if (ps.empty())
    return false;
  out = ps[static_cast<std::size_t>(std::stoull(tok) % ps.size())];
  return true;
}


// ---- dump: value, parent flag, children ------------------------------------------------------------------

template <typename T>
bool parent_is(T &node, T *owner, bool use_const)
{
  if (use_const)
  {
    T const &cn = node;
    auto const p = cn.parent();
    if (owner == nullptr)
      return !p.has_value();
    return p.has_value() && &p.get_unsafe().get() == owner;
  }
  auto const p = node.parent();
  if (owner == nullptr)
    return !p.has_value();
  return p.has_value() && &p.get_unsafe().get() == owner;
}

template <typename T>
void dump_t(T &node, T *owner, std::string &out, bool &all_ok, unsigned &alt)
{
  bool const ok = parent_is(node, owner, (alt++ % 2U) == 0U);
  all_ok = all_ok && ok;
  out += to_s(node.value());
  out += ok ? '+' : '!';
  if (!node.empty())
  {
    out += '(';
    bool first = true;
    for (auto &c : node)
    {
      if (!first)
        out += ' ';
      first = false;
      dump_t(c, &node, out, all_ok, alt);
    }
    out += ')';
  }
}

// only when every link is right: walk every parent chain (dereferences the links; ASan sees dangling ones)
bool levels_ok(tree const &node, std::size_t depth)
{
  if (fcppt::container::tree::level(node) != depth)
    return false;
  for (auto const &c : node.children())
    if (!levels_ok(c, depth + 1))
      return false;
  return true;
}

std::string dump_forest()
{
  if (forest.empty())
    return "-";
  std::string out;
  bool all_ok = true;
  unsigned alt = 0;
  for (std::size_t r = 0; r < forest.size(); ++r)
  {
    if (r)
      out += ' ';
    dump_t<tree>(*forest[r], nullptr, out, all_ok, alt);
  }
  if (all_ok)
    for (auto const &t : forest)
      if (!levels_ok(*t, 0))
        out += " LEVEL-MISMATCH";
  return out;
}

std::string dump_ret(tree &r)
{
  std::string out;
  bool all_ok = true;
  unsigned alt = 0;
  dump_t<tree>(r, nullptr, out, all_ok, alt);
  if (all_ok && !levels_ok(r, 0))
    out += " LEVEL-MISMATCH";
  return out;
}

// object identity across one operation: the addresses of all objects (pre-order) before the operation ...
std::vector<tree const *> before;

void addrs_t(tree const &t, std::vector<tree const *> &out)
{
  out.push_back(&t);
  for (auto const &c : t.children())
    addrs_t(c, out);
}

std::vector<tree const *> all_addrs()
{
  std::vector<tree const *> out;
  for (auto const &t : forest)
    addrs_t(*t, out);
  return out;
}

// ... and for every object afterwards the index it had before, "n" for a new one.  (An address freed during the operation is
// not handed out again during the same operation: the sanitizer's allocator quarantines freed chunks.)
std::string ident_str()
{
  std::vector<tree const *> const after = all_addrs();
  if (after == before)
    return "=";
  std::string r;
  for (std::size_t k = 0; k < after.size(); ++k)
  {
    if (k)
      r += ',';
    std::size_t idx = before.size();
    for (std::size_t j = 0; j < before.size(); ++j)
      if (before[j] == after[k])
      {
        idx = j;
        break;
      }
    r += idx == before.size() ? std::string{"n"} : std::to_string(idx);
  }
  return r;
}

std::string done(std::string const &head) { return head + " | " + dump_forest() + " @" + ident_str(); }


tree::iterator it_at(tree &t, std::size_t i) { return std::next(t.begin(), static_cast<std::ptrdiff_t>(i)); }

void keep_or_drop(tree &&r, bool keep)
{
  if (keep)
    forest.push_back(std::make_unique<tree>(std::move(r)));
}


// ---- observers (each returns the text after "q a=<path> ") ---------------------------------------------------

// pre_order: const and non-const instantiation, class and make_ function, pre- and post-increment, a copy of the iterator taken
// half way must continue independently; every visited object must be the object at the corresponding pre-order path
std::string obs_pre(tree &a, path const &pa)
{
  namespace ft = fcppt::container::tree;
  std::vector<int> v1;
  std::vector<tree const *> addr;
  tree const &ca = a;
  ft::pre_order<tree const> const trav{ca};
  for (auto it = trav.begin(); it != trav.end() && v1.size() < walk_cap; ++it)
  {
    v1.push_back(iv(it->value()));
    addr.push_back(&*it);
  }
  std::string flags;
  std::vector<int> v2;
  for (tree &n : ft::make_pre_order(a))
  {
    if (v2.size() >= walk_cap)
      break;
    v2.push_back(iv(n.value()));
    if (v2.size() <= addr.size() && addr[v2.size() - 1] != &n)
      flags = " NONCONST-ADDR-DIFFERS";
  }
  if (v1 != v2)
    flags += " NONCONST-DIFFERS";
  // the expected objects: pre-order paths below a
  {
    std::vector<path> ps;
    path cur{pa};
    paths_t(a, cur, ps);
    if (ps.size() != addr.size())
      flags += " COUNT-DIFFERS";
    else
      for (std::size_t k = 0; k < ps.size(); ++k)
        if (node_at(ps[k]) != addr[k])
        {
          flags += " ADDR-DIFFERS";
          break;
        }
  }
  // forward iterator: copy half way, post-increment, default-constructed iterator is the end
  {
    auto const trav3 = ft::make_pre_order(ca);
    auto it = trav3.begin();
    for (std::size_t k = 0; k < v1.size() / 2 && it != trav3.end(); ++k)
      it++;
    auto copy = it;
    std::vector<int> rest1;
    std::vector<int> rest2;
    for (; it != trav3.end() && rest1.size() < walk_cap; ++it)
      rest1.push_back(iv((*it).value()));
    typename ft::pre_order<tree const>::iterator const dflt{};
    for (; !(copy == dflt) && rest2.size() < walk_cap; copy++)
      rest2.push_back(iv(copy->value()));
    std::vector<int> const expect(v1.begin() + static_cast<std::ptrdiff_t>(v1.size() / 2), v1.end());
    if (rest1 != expect || rest2 != expect)
      flags += " ITER-COPY-DIFFERS";
  }
  return "pre=" + int_list(v1) + flags;
}

std::string obs_toroot(tree &a, path const &pa)
{
  namespace ft = fcppt::container::tree;
  std::vector<int> v1;
  std::vector<tree const *> addr;
  tree const &ca = a;
  ft::to_root<tree const> const trav{ca};
  for (auto it = trav.begin(); it != trav.end() && v1.size() < walk_cap; ++it)
  {
    v1.push_back(iv(it->value()));
    addr.push_back(&*it);
  }
  std::string flags;
  std::vector<int> v2;
  for (tree &n : ft::make_to_root(a))
  {
    if (v2.size() >= walk_cap)
      break;
    v2.push_back(iv(n.value()));
  }
  if (v1 != v2)
    flags += " NONCONST-DIFFERS";
  std::vector<int> v3;
  {
    auto const trav3 = ft::make_to_root(ca);
    typename ft::to_root<tree const>::iterator const dflt{};
    for (auto it = trav3.begin(); !(it == dflt) && v3.size() < walk_cap; it++)
      v3.push_back(iv((*it).value()));
  }
  if (v1 != v3)
    flags += " MAKE-DIFFERS";
  // the k-th visited object is the object at the path shortened by k
  if (addr.size() != pa.size())
    flags += " COUNT-DIFFERS";
  else
    for (std::size_t k = 0; k < addr.size(); ++k)
    {
      path const pre(pa.begin(), pa.end() - static_cast<std::ptrdiff_t>(k));
      if (node_at(pre) != addr[k])
      {
        flags += " ADDR-DIFFERS";
        break;
      }
    }
  return "toroot=" + int_list(v1) + flags;
}

std::string opt_val(tree::const_optional_ref const &r)
{
  if (!r.has_value())
    return "none";
  tree const &c = r.get_unsafe().get();
  return to_s(c.value()) + ":" + std::to_string(c.size());
}

std::string obs_front(tree &a, bool front)
{
  tree const &ca = a;
  tree::optional_ref const r{front ? a.front() : a.back()};
  tree::const_optional_ref const rc{front ? ca.front() : ca.back()};
  std::string flags;
  if (r.has_value() != rc.has_value() || r.has_value() == a.empty())
    flags += " CONST-DIFFERS";
  else if (r.has_value())
  {
    tree *const expect = front ? &*a.begin() : &*std::prev(a.end());
    if (&r.get_unsafe().get() != expect || &rc.get_unsafe().get() != expect)
      flags += " ADDR-DIFFERS";
    auto const pos = fcppt::container::tree::child_position(a, r.get_unsafe().get());
    if (!pos.has_value() || pos.get_unsafe() != (front ? a.begin() : std::prev(a.end())))
      flags += " CPOS-DIFFERS";
  }
  return std::string{front ? "front=" : "back="} + opt_val(rc) + flags;
}

std::string obs_kids(tree &a)
{
  tree const &ca = a;
  std::vector<int> fw;
  std::vector<int> rv;
  std::vector<tree const *> fa;
  std::vector<tree const *> ra;
  for (auto it = a.begin(); it != a.end() && fw.size() < walk_cap; ++it)
  {
    fw.push_back(iv(it->value()));
    fa.push_back(&*it);
  }
  for (auto it = a.rbegin(); it != a.rend() && rv.size() < walk_cap; ++it)
  {
    rv.push_back(iv(it->value()));
    ra.push_back(&*it);
  }
  std::vector<tree const *> cfa;
  std::vector<tree const *> cra;
  for (auto it = ca.begin(); it != ca.end() && cfa.size() < walk_cap; ++it)
    cfa.push_back(&*it);
  for (auto it = ca.rbegin(); it != ca.rend() && cra.size() < walk_cap; ++it)
    cra.push_back(&*it);
  std::vector<tree const *> cl;
  for (tree const &c : ca.children())
    cl.push_back(&c);
  std::string flags;
  if (fa != cfa || ra != cra || fa != cl)
    flags += " CONST-DIFFERS";
  if (std::vector<tree const *>(ra.rbegin(), ra.rend()) != fa)
    flags += " REVERSE-ADDR-DIFFERS";
  return "fwd=" + int_list(fw) + " rev=" + int_list(rv) + " size=" + std::to_string(ca.size()) +
         " empty=" + (ca.empty() ? "1" : "0") + flags;
}

std::string obs_out(tree const &a)
{
  std::ostringstream os;
  os << a;
  std::wostringstream wos;
  wos << a;
  std::string const n = os.str();
  std::wstring const w = wos.str();
  std::string r;
  for (char c : n)
    r += c == '\t' ? '>' : c == '\n' ? ';' : c;
  bool same = n.size() == w.size();
  for (std::size_t k = 0; same && k < n.size(); ++k)
    same = static_cast<wchar_t>(static_cast<unsigned char>(n[k])) == w[k];
  return "out=" + r + (same ? "" : " WIDE-DIFFERS");
}

std::string cpos_str(tree &a, tree &b)
{
  auto const r = fcppt::container::tree::child_position(a, b);
  tree const &ca = a;
  tree const &cb = b;
  auto const rc = fcppt::container::tree::child_position(ca, cb);
  if (r.has_value() != rc.has_value() ||
      (r.has_value() && std::distance(ca.begin(), rc.get_unsafe()) != std::distance(a.begin(), r.get_unsafe())))
    return "CONST-DIFFERS";
  return r.has_value() ? std::to_string(std::distance(a.begin(), r.get_unsafe())) : std::string{"none"};
}

std::string obs_all()
{
  std::vector<path> const ps = all_paths();
  std::string out = "q obsall n=" + std::to_string(ps.size()) + " | ";
  bool first = true;
  for (path const &p : ps)
  {
    tree &t = *node_at(p);
    if (!first)
      out += " | ";
    first = false;
    out += path_str(p) + " v=" + to_s(t.value()) + " l=" + std::to_string(fcppt::container::tree::level(t)) +
           " d=" + std::to_string(fcppt::container::tree::depth(t)) + " f=" + obs_front(t, true).substr(6) +
           " b=" + obs_front(t, false).substr(5) + " " + obs_kids(t) + " " + obs_pre(t, p) + " tr=" +
           obs_toroot(t, p).substr(7) + " " + obs_out(t);
  }
  out += " || ";
  if (ps.size() > pair_cap)
    return out + "pairs=skipped";
  std::string cp;
  std::string eqs;
  for (path const &p : ps)
  {
    tree &P = *node_at(p);
    if (!eqs.empty())
      eqs += ',';
    for (path const &c : ps)
    {
      tree &C = *node_at(c);
      std::string const r = cpos_str(P, C);
      if (r != "none")
      {
        if (!cp.empty())
          cp += ',';
        cp += path_str(p) + ">" + path_str(c) + "=" + r;
      }
      tree const &cP = P;
      tree const &cC = C;
      bool const e = cP == cC;
      bool const n = cP != cC;
      eqs += e == n ? '?' : e ? '1' : '0';
    }
  }
  return out + "cpos=" + cp + " eq=" + eqs;
}


// both overloads where the value type allows it: T const & (even values) and T && (odd values)
tree &push_value(tree &a, int const v, bool const back)
{
#if C09_COPYABLE
  if (v % 2 == 0)
  {
    value_t const lv{mk(v)};
    return back ? a.push_back(lv).get() : a.push_front(lv).get();
  }
#endif
  return back ? a.push_back(mk(v)).get() : a.push_front(mk(v)).get();
}

// a well-formed line of a known node command whose node operands are well formed but do not all exist
bool missing_node(std::vector<std::string> const &t)
{
  std::vector<std::string> sels;
  if (!node_operands(t, sels))
    return false;
  for (std::string const &tok : sels)
    if (!sel_well_formed(tok))
      return false;
  for (std::string const &tok : sels)
  {
    path p;
    if (!sel(tok, p))
      return true;
  }
  return false;
}

std::string handle_impl(std::vector<std::string> const &t)
{
  bool const full = forest.size() >= max_roots;
  before = all_addrs();
  std::size_t const cnt = before.size();
  bool const big = cnt >= grow_cap;
  if (t.size() == 1 && t[0] == "reset")
  {
    forest.clear();
    return "ok";
  }
  if (t.size() == 1 && t[0] == "obsall")
    return obs_all();
#if !C09_COPYABLE
  // the value type of this instantiation cannot be copied: the copying members do not exist for it
  if (!t.empty() && (t[0] == "cpc" || t[0] == "cpa" || t[0] == "mkl" || t[0] == "pushbv" || t[0] == "pushfv" || t[0] == "insv" ||
                     t[0] == "setv"))
    return "skip:copy";
#endif
  if (missing_node(t))
    return "skip:nonode";
  if (t.size() == 2 && t[0] == "new")
  {
    if (!is_int(t[1]))
      return "bad-op";
    if (full)
      return "skip:full";
    if (big)
      return "skip:big";
    int const v = std::stoi(t[1]);
    // both constructors: object(T const &) for even values, object(T &&) for odd ones
#if C09_COPYABLE
    if (v % 2 == 0)
      forest.push_back(std::make_unique<tree>(v));
    else
#endif
      forest.push_back(std::make_unique<tree>(mk(v)));
    return done("ok");
  }
  if (t.size() == 2 && t[0] == "del")
  {
    if (!is_nat(t[1]))
      return "bad-op";
    if (forest.empty())
      return "skip:empty";
    if (forest.size() == 1)
      return "skip:last";
    std::size_t const r = static_cast<std::size_t>(std::stoull(t[1]) % forest.size());
    forest.erase(forest.begin() + static_cast<std::ptrdiff_t>(r));
    return done("ok r=" + std::to_string(r));
  }
  if (t.size() < 2 || t.size() > 4)
    return "bad-op";
  std::string const &cmd = t[0];
  path pa;
  if (!sel(t[1], pa))
    return "bad-op";
  tree &a = *node_at(pa);
  std::string const sa = path_str(pa);
  std::size_t const len = a.size();

  if (t.size() == 2)
  {
    if (cmd == "clear")
    {
      a.clear();
      return done("ok a=" + sa);
    }
    if (cmd == "sort")
    {
      a.sort();
      return done("ok a=" + sa);
    }
#if C09_COPYABLE
    if (cmd == "cpc")
    {
      if (full)
        return "skip:full";
      if (cnt + size_of(a) > copy_cap)
        return "skip:big";
      tree const &ca = a;
      forest.push_back(std::make_unique<tree>(ca));
      return done("ok b=" + sa);
    }
#endif
    if (cmd == "mvc")
    {
      if (full)
        return "skip:full";
      forest.push_back(std::make_unique<tree>(std::move(a)));
      return done("ok b=" + sa);
    }
    if (cmd == "pre")
      return "q a=" + sa + " " + obs_pre(a, pa);
    if (cmd == "toroot")
      return "q a=" + sa + " " + obs_toroot(a, pa);
    if (cmd == "front")
      return "q a=" + sa + " " + obs_front(a, true);
    if (cmd == "back")
      return "q a=" + sa + " " + obs_front(a, false);
    if (cmd == "kids")
      return "q a=" + sa + " " + obs_kids(a);
    if (cmd == "out")
      return "q a=" + sa + " " + obs_out(a);
    if (cmd == "depth")
      return "q a=" + sa + " depth=" + std::to_string(fcppt::container::tree::depth(a));
    if (cmd == "level")
      return "q a=" + sa + " level=" + std::to_string(fcppt::container::tree::level(a));
    if (cmd == "map")
    {
      ltree m{fcppt::container::tree::map<ltree>(a, [](value_t const &x) { return 2L * iv(x) + 1L; })};
      std::string out;
      bool all_ok = true;
      unsigned alt = 0;
      dump_t<ltree>(m, nullptr, out, all_ok, alt);
#if C09_COPYABLE
      // mapping with the identity into the same tree type gives an equal tree with links of its own
      tree idm{fcppt::container::tree::map<tree>(a, [](value_t const &x) { return x; })};
      std::string out2;
      bool all_ok2 = true;
      dump_t<tree>(idm, nullptr, out2, all_ok2, alt);
      tree const &ca = a;
      if (!(idm == ca) || !all_ok2)
        out += " MAP-ID-DIFFERS";
#endif
      return "q a=" + sa + " map=" + out;
    }
    return "bad-op";
  }

  if (t.size() == 3)
  {
    std::string const &x = t[2];
    if (cmd == "set")
    {
      if (!is_int(x))
        return "bad-op";
      int const v = std::stoi(x);
      switch (((v % 3) + 3) % 3)
      {
#if C09_COPYABLE
      case 0:
        a.value(v);
        break;
#endif
      case 1:
        a.value(mk(v));
        break;
      default:
        a.value() = mk(v);
        break;
      }
      return done("ok a=" + sa);
    }
    if (cmd == "pushb" || cmd == "pushf")
    {
      if (!is_int(x))
        return "bad-op";
      if (big)
        return "skip:big";
      int const v = std::stoi(x);
      // both overloads: T const & (even values) and T && (odd values)
      if (cmd == "pushb")
      {
        tree &r = push_value(a, v, true);
        if (&r != &*std::prev(a.end()))
          return "RETURNED-REFERENCE-WRONG";
      }
      else
      {
        tree &r = push_value(a, v, false);
        if (&r != &*a.begin())
          return "RETURNED-REFERENCE-WRONG";
      }
      return done("ok a=" + sa);
    }
    if (cmd == "pushbt" || cmd == "pushft")
    {
      path pb;
      if (!sel(x, pb))
        return "bad-op";
      if (is_prefix(pb, pa))
        return "skip:misuse";
      tree &b = *node_at(pb);
      if (cmd == "pushbt")
      {
        tree &r = a.push_back(std::move(b)).get();
        if (&r != &*std::prev(a.end()))
          return "RETURNED-REFERENCE-WRONG";
      }
      else
      {
        tree &r = a.push_front(std::move(b)).get();
        if (&r != &*a.begin())
          return "RETURNED-REFERENCE-WRONG";
      }
      return done("ok a=" + sa + " b=" + path_str(pb));
    }
    if (cmd == "popb" || cmd == "popf")
    {
      if (!is_nat(x))
        return "bad-op";
      bool const keep = std::stoull(x) != 0 && !full;
      tree::optional_object r{cmd == "popb" ? a.pop_back() : a.pop_front()};
      bool const has = r.has_value();
      // the returned object as the caller gets it, before it is moved anywhere: no parent, its children name it
      std::string ret = "none";
      if (has)
      {
        ret = dump_ret(r.get_unsafe());
        keep_or_drop(std::move(r.get_unsafe()), keep);
      }
      return done("ok a=" + sa + " ret=" + ret);
    }
    if (cmd == "erase")
    {
      if (!is_nat(x))
        return "bad-op";
      if (len == 0)
        return "skip:empty";
      std::size_t const i = static_cast<std::size_t>(std::stoull(x) % len);
      a.erase(it_at(a, i));
      return done("ok a=" + sa + " i=" + std::to_string(i));
    }
    if (cmd == "cposk")
    {
      if (!is_nat(x))
        return "bad-op";
      if (len == 0)
        return "skip:empty";
      std::size_t const i = static_cast<std::size_t>(std::stoull(x) % len);
      tree &b = *it_at(a, i);
      auto const r = fcppt::container::tree::child_position(a, b);
      return "q a=" + sa + " i=" + std::to_string(i) + " cpos=" +
             (r.has_value() ? std::to_string(std::distance(a.begin(), r.get_unsafe())) : std::string{"none"});
    }
    if (cmd == "sortp")
    {
      if (!is_nat(x))
        return "bad-op";
      int const k = static_cast<int>(std::stoull(x) % 4);
      switch (k)
      {
      case 0:
        a.sort([](value_t const &l, value_t const &r) { return iv(l) < iv(r); });
        break;
      case 1:
        a.sort([](value_t const &l, value_t const &r) { return iv(l) > iv(r); });
        break;
      default:
        a.sort([k](value_t const &l, value_t const &r) { return key_of(k, iv(l)) < key_of(k, iv(r)); });
        break;
      }
      return done("ok a=" + sa + " k=" + std::to_string(k));
    }
#if C09_COPYABLE
    if (cmd == "mkl")
    {
      if (!is_int(x))
        return "bad-op";
      if (full)
        return "skip:full";
      if (cnt + size_of(a) > copy_cap)
        return "skip:big";
      tree::child_list l(a.children());
      forest.push_back(std::make_unique<tree>(std::stoi(x), std::move(l)));
      if (!l.empty())
        return "MOVED-FROM-LIST-NOT-EMPTY";
      return done("ok b=" + sa);
    }
#endif
    // two node operands
    path pb;
    if (!sel(x, pb))
      return "bad-op";
    tree &b = *node_at(pb);
    std::string const sb = path_str(pb);
    std::string const head = "ok a=" + sa + " b=" + sb;
    if (cmd == "swap")
    {
      if (!(pa == pb || (!is_prefix(pa, pb) && !is_prefix(pb, pa))))
        return "skip:misuse";
      // member and free function alternate
      if ((pa.size() + pb.size()) % 2 == 0)
        a.swap(b);
      else
        fcppt::container::tree::swap(a, b);
      return done(head);
    }
    if (cmd == "mva")
    {
      if (!(pa == pb || !is_prefix(pb, pa)))
        return "skip:misuse";
      tree &r = (a = std::move(b));
      if (&r != &a)
        return "RETURNED-REFERENCE-WRONG";
      return done(head);
    }
#if C09_COPYABLE
    if (cmd == "cpa")
    {
      if (cnt + size_of(b) > copy_cap)
        return "skip:big";
      tree const &cb = b;
      tree &r = (a = cb);
      if (&r != &a)
        return "RETURNED-REFERENCE-WRONG";
      return done(head);
    }
#endif
#if C09_COPYABLE
    if (cmd == "setv")
    {
      // the argument is a reference to a value inside the forest (possibly the receiver's own)
      a.value(b.value());
      return done(head);
    }
#endif
#if C09_COPYABLE
    if (cmd == "pushbv" || cmd == "pushfv")
    {
      if (big)
        return "skip:big";
      tree const &cb = b;
      if (cmd == "pushbv")
        a.push_back(cb.value());
      else
        a.push_front(cb.value());
      return done(head);
    }
#endif
    if (cmd == "setmv")
    {
      // value(T &&) with an xvalue that refers to a value inside the forest (possibly the receiver's own)
      a.value(std::move(b.value()));
      return done(head);
    }
    if (cmd == "pushbmv" || cmd == "pushfmv")
    {
      if (big)
        return "skip:big";
      if (cmd == "pushbmv")
        a.push_back(std::move(b.value()));
      else
        a.push_front(std::move(b.value()));
      return done(head);
    }
    if (cmd == "cpos")
      return "q a=" + sa + " b=" + sb + " cpos=" + cpos_str(a, b);
    if (cmd == "eq")
    {
      tree const &ca = a;
      tree const &cb = b;
      bool const e = ca == cb;
      bool const n = ca != cb;
      return "q a=" + sa + " b=" + sb + " eq=" + (e ? "1" : "0") + " ne=" + (n ? "1" : "0");
    }
    return "bad-op";
  }

  // four tokens
  std::string const &x = t[2];
  std::string const &y = t[3];
  if (!is_nat(x))
    return "bad-op";
  if (cmd == "ins")
  {
    if (!is_int(y))
      return "bad-op";
    if (big)
      return "skip:big";
    std::size_t const i = static_cast<std::size_t>(std::stoull(x) % (len + 1));
    int const v = std::stoi(y);
#if C09_COPYABLE
    if (v % 2 == 0)
      a.insert(it_at(a, i), v);
    else
#endif
      a.insert(it_at(a, i), mk(v));
    return done("ok a=" + sa + " i=" + std::to_string(i));
  }
#if C09_COPYABLE
  if (cmd == "insv")
  {
    path pb;
    if (!sel(y, pb))
      return "bad-op";
    if (big)
      return "skip:big";
    std::size_t const i = static_cast<std::size_t>(std::stoull(x) % (len + 1));
    tree const &cb = *node_at(pb);
    a.insert(it_at(a, i), cb.value());
    return done("ok a=" + sa + " i=" + std::to_string(i) + " b=" + path_str(pb));
  }
#endif
  if (cmd == "inst")
  {
    path pb;
    if (!sel(y, pb))
      return "bad-op";
    if (is_prefix(pb, pa))
      return "skip:misuse";
    std::size_t const i = static_cast<std::size_t>(std::stoull(x) % (len + 1));
    tree &b = *node_at(pb);
    a.insert(it_at(a, i), std::move(b));
    return done("ok a=" + sa + " i=" + std::to_string(i) + " b=" + path_str(pb));
  }
  if (cmd == "rel")
  {
    if (!is_nat(y))
      return "bad-op";
    if (len == 0)
      return "skip:empty";
    std::size_t const i = static_cast<std::size_t>(std::stoull(x) % len);
    bool const keep = std::stoull(y) != 0 && !full;
    tree r{a.release(it_at(a, i))};
    std::string const ret = dump_ret(r);
    keep_or_drop(std::move(r), keep);
    return done("ok a=" + sa + " i=" + std::to_string(i) + " ret=" + ret);
  }
  if (cmd == "eraser")
  {
    if (!is_nat(y))
      return "bad-op";
    std::size_t const i0 = static_cast<std::size_t>(std::stoull(x) % (len + 1));
    std::size_t const j0 = static_cast<std::size_t>(std::stoull(y) % (len + 1));
    std::size_t const i = i0 < j0 ? i0 : j0;
    std::size_t const j = i0 < j0 ? j0 : i0;
    a.erase(it_at(a, i), it_at(a, j));
    return done("ok a=" + sa + " i=" + std::to_string(i) + " j=" + std::to_string(j));
  }
  return "bad-op";
}

