// C08 correspondence harness: runs the real fcppt::container::grid templates on the operation lines
// described in lean/FcpptModel/Drv/C08.lean and prints the same canonical result lines.
//   u = std::size_t instantiation, s = long (std::ptrdiff_t) instantiation; N in {1,2,3}
#include "common/vh.hpp"

#include <fcppt/container/grid/apply.hpp>
#include <fcppt/container/grid/at_optional.hpp>
#include <fcppt/container/grid/clamped_min.hpp>
#include <fcppt/container/grid/clamped_sup.hpp>
#include <fcppt/container/grid/clamped_sup_signed.hpp>
#include <fcppt/container/grid/comparison.hpp>
#include <fcppt/container/grid/dim.hpp>
#include <fcppt/container/grid/end_position.hpp>
#include <fcppt/container/grid/fill.hpp>
#include <fcppt/container/grid/in_range.hpp>
#include <fcppt/container/grid/in_range_dim.hpp>
#include <fcppt/container/grid/interpolate.hpp>
#include <fcppt/container/grid/make_min.hpp>
#include <fcppt/container/grid/make_pos_range.hpp>
#include <fcppt/container/grid/make_pos_range_start_end.hpp>
#include <fcppt/container/grid/make_pos_ref_crange.hpp>
#include <fcppt/container/grid/make_pos_ref_crange_start_end.hpp>
#include <fcppt/container/grid/make_pos_ref_range.hpp>
#include <fcppt/container/grid/make_pos_ref_range_start_end.hpp>
#include <fcppt/container/grid/make_sup.hpp>
#include <fcppt/container/grid/map.hpp>
#include <fcppt/container/grid/min.hpp>
#include <fcppt/container/grid/min_less_sup.hpp>
#include <fcppt/container/grid/next_position.hpp>
#include <fcppt/container/grid/object.hpp>
#include <fcppt/container/grid/offset.hpp>
#include <fcppt/container/grid/output.hpp>
#include <fcppt/container/grid/pos.hpp>
#include <fcppt/container/grid/pos_range.hpp>
#include <fcppt/container/grid/pos_ref_range.hpp>
#include <fcppt/container/grid/pos_reference.hpp>
#include <fcppt/container/grid/range_dim.hpp>
#include <fcppt/container/grid/range_size.hpp>
#include <fcppt/container/grid/resize.hpp>
#include <fcppt/container/grid/static_row.hpp>
#include <fcppt/container/grid/sup.hpp>
#include <fcppt/math/dim/comparison.hpp>
#include <fcppt/math/dim/contents.hpp>
#include <fcppt/math/dim/init.hpp>
#include <fcppt/math/dim/static.hpp>
#include <fcppt/math/vector/comparison.hpp>
#include <fcppt/math/vector/init.hpp>
#include <fcppt/math/vector/static.hpp>
#include <fcppt/optional/maybe.hpp>
#include <fcppt/optional/reference.hpp>
#include <fcppt/reference.hpp>

#include <algorithm>
#include <cstddef>
#include <memory>
#include <sstream>
#include <string>
#include <utility>
#include <vector>

namespace
{
namespace grid = fcppt::container::grid;
using ll = long long;
using ivec = std::vector<ll>;

constexpr std::size_t loop_cap = 4096; // elements taken from an implementation-produced range

std::string il(ivec const &v) { return vh::join(v); }

template <typename T, std::size_t N>
struct types
{
  using pos = grid::pos<T, N>;
  using dim = grid::dim<T, N>;
  using min = grid::min<T, N>;
  using sup = grid::sup<T, N>;

  static pos to_pos(ivec const &v)
  {
    return fcppt::math::vector::init<pos>([&v](auto const i) { return static_cast<T>(v[decltype(i)::value]); });
  }
  static dim to_dim(ivec const &v)
  {
    return fcppt::math::dim::init<dim>([&v](auto const i) { return static_cast<T>(v[decltype(i)::value]); });
  }
  template <typename V>
  static ivec from(V const &p)
  {
    ivec r;
    for (std::size_t i = 0; i < N; ++i)
      r.push_back(static_cast<ll>(p.get_unsafe(i)));
    return r;
  }
  template <typename V>
  static std::string str(V const &p)
  {
    // print in the instantiation's own type: a wrapped unsigned value shows up as a huge number
    std::string r;
    for (std::size_t i = 0; i < N; ++i)
    {
      if (i)
        r += ',';
      r += std::to_string(p.get_unsafe(i));
    }
    return r;
  }
};

// all tuples lo_i <= x_i < hi_i, index 0 fastest (independent of the code under test)
template <typename F>
void tuples(ivec const &lo, ivec const &hi, F const &f)
{
  std::size_t const n = lo.size();
  for (std::size_t i = 0; i < n; ++i)
    if (lo[i] >= hi[i])
      return;
  ivec cur{lo};
  while (true)
  {
    f(cur);
    std::size_t i = 0;
    while (i < n)
    {
      if (++cur[i] < hi[i])
        break;
      cur[i] = lo[i];
      ++i;
    }
    if (i == n)
      return;
  }
}

ll enc(ll k, ivec const &p)
{
  ll r = 1000 * k + 1, m = 1;
  for (ll x : p)
  {
    r += x * m;
    m *= 10;
  }
  return r;
}

template <typename T, std::size_t N>
struct arith
{
  using ty = types<T, N>;

  static std::string off_line(ivec const &d, ivec const &p)
  {
    auto const dd = ty::to_dim(d);
    auto const pp = ty::to_pos(p);
    return "off=" + std::to_string(grid::offset(pp, dd)) + " in=" + (grid::in_range_dim(dd, pp) ? "1" : "0") +
           " cont=" + std::to_string(fcppt::math::dim::contents(dd));
  }

  static std::string next_line(ivec const &c, ivec const &mn, ivec const &sp)
  {
    return "next=" + ty::str(grid::next_position(
                         ty::to_pos(c), typename ty::min{ty::to_pos(mn)}, typename ty::sup{ty::to_pos(sp)}));
  }

  static std::string range_line(ivec const &mn, ivec const &sp)
  {
    typename ty::min const m{ty::to_pos(mn)};
    typename ty::sup const s{ty::to_pos(sp)};
    auto const range = grid::make_pos_range_start_end(m, s);
    std::string r = std::string("mls=") + (grid::min_less_sup(m, s) ? "1" : "0") + " dim=" + ty::str(grid::range_dim(m, s));
    // size() of the range and range_size must be the same number
    auto const sz = range.size();
    auto const rs = grid::range_size(m, s);
    r += " size=" + (static_cast<ll>(sz) == static_cast<ll>(rs) ? std::to_string(rs) : std::string("size-mismatch"));
    r += " end=" + ty::str(grid::end_position(m, s));
    if (!(range.min().get() == m.get()) || !(range.sup().get() == s.get()))
      return r + " accessor-mismatch";
    std::size_t n = 0;
    std::string ps;
    for (auto it = range.begin(); it != range.end(); ++it)
    {
      if (n == loop_cap)
        return r + " overrun";
      if (n)
        ps += '|';
      ps += ty::str(*it);
      ++n;
    }
    // iterator protocol (demanded, not modelled): the same positions through *it++; a copy taken before an
    // increment stays where it was and compares unequal to the advanced iterator; equality is reflexive;
    // begin() of a non-empty range is not end()
    {
      auto it = range.begin();
      auto const first = range.begin();
      auto const end = range.end();
      bool ok = (it == first) && !(it != first) && (end == range.end()) && ((n == 0) == (first == end));
      std::size_t k = 0;
      std::string ps2;
      while (it != end && k < n + 1)
      {
        auto const saved = it;
        auto const old = it++;
        ok = ok && old == saved && !(old != saved) && ty::str(*old) == ty::str(*saved) && it != saved && !(it == saved) &&
             !(saved == end);
        if (k)
          ps2 += '|';
        ps2 += ty::str(*saved);
        ++k;
      }
      ok = ok && k == n && ps2 == ps && (n == 0 || ty::str(*first) == ty::str(m.get()));
      // the public members increment / dereference / equal called directly, copy assignment, member and free swap
      if (n >= 2)
      {
        auto a = range.begin();
        auto b = range.begin();
        b.increment();
        std::string const pa = ty::str(a.dereference()), pb = ty::str(b.dereference());
        ok = ok && pa == ty::str(m.get()) && a.equal(range.begin()) && !a.equal(b) && b.equal(++range.begin());
        a.swap(b);
        ok = ok && ty::str(*a) == pb && ty::str(*b) == pa && a != b;
        swap(a, b); // fcppt::iterator::swap by argument-dependent lookup
        ok = ok && ty::str(*a) == pa && ty::str(*b) == pb;
        a.swap(a);
        ok = ok && ty::str(*a) == pa;
        auto c = range.end();
        c = b; // copy assignment
        ok = ok && c == b && ty::str(*c) == pb;
        auto &cr = c;
        c = cr; // self-assignment
        ok = ok && c == b;
        ++c;
        ok = ok && (n == 2 ? c == end : ty::str(*c) != pb) && ty::str(*b) == pb;
      }
      if (!ok)
        return r + " iterator-protocol-mismatch";
    }
    return r + " n=" + std::to_string(n) + " ps=" + (n ? ps : "-");
  }
};

// a cell type whose move is visible: the rvalue overloads of resize / map / apply (move_if_rvalue) must move
// every source cell at most once and must produce the values of the lvalue overloads; the lvalue overloads must
// leave the source alone
constexpr long moved_mark = -777777;

struct tcell
{
  long v;
  explicit tcell(long const x) : v(x) {}
  tcell(tcell const &) = default;
  tcell(tcell &&o) noexcept : v(o.v) { o.v = moved_mark; }
  tcell &operator=(tcell const &) = default;
  tcell &operator=(tcell &&o) noexcept
  {
    if (&o != this)
    {
      v = o.v;
      o.v = moved_mark;
    }
    return *this;
  }
};

template <std::size_t N>
struct gr
{
  using G = grid::object<long, N>;
  using TG = grid::object<tcell, N>;
  using size_type = typename G::size_type;
  using ut = types<size_type, N>;
  using st = types<long, N>;
  using pos = typename G::pos;
  using dim = typename G::dim;

  static G mk(ivec const &d, ll k)
  {
    return G(ut::to_dim(d), [k](pos const &p) { return static_cast<long>(enc(k, ut::from(p))); });
  }

  // the function constructor must call the function once per position, in storage order (x fastest)
  static bool mk_call_order_ok(ivec const &d, ll k)
  {
    std::vector<ivec> seen;
    G const g(ut::to_dim(d), [k, &seen](pos const &p) {
      seen.push_back(ut::from(p));
      return static_cast<long>(enc(k, ut::from(p)));
    });
    std::vector<ivec> want;
    tuples(konst_(0), d, [&want](ivec const &t) { want.push_back(t); });
    return seen == want;
  }

  static ivec konst_(ll c) { return ivec(N, c); }

  static std::size_t volume(ivec const &d)
  {
    std::size_t r = 1;
    for (ll x : d)
      r *= static_cast<std::size_t>(x);
    return r;
  }

  static TG mkt(ivec const &d, ll k)
  {
    return TG(ut::to_dim(d), [k](pos const &p) { return tcell(static_cast<long>(enc(k, ut::from(p)))); });
  }

  static std::string cells(G const &g)
  {
    ivec v;
    for (auto it = g.begin(); it != g.end() && v.size() <= loop_cap; ++it)
      v.push_back(*it);
    return il(v);
  }

  static std::string cells(TG const &g)
  {
    ivec v;
    for (auto it = g.begin(); it != g.end() && v.size() <= loop_cap; ++it)
      v.push_back(it->v);
    return il(v);
  }

  static std::size_t moved_count(TG const &g)
  {
    std::size_t n = 0;
    for (auto it = g.begin(); it != g.end(); ++it)
      if (it->v == moved_mark)
        ++n;
    return n;
  }

  // number of positions common to two sizes (computed independently of the code under test)
  static std::size_t common(ivec const &a, ivec const &b)
  {
    std::size_t r = 1;
    for (std::size_t i = 0; i < N; ++i)
      r *= static_cast<std::size_t>(std::min(a[i], b[i]));
    return r;
  }

  static std::string grid_str(G const &g)
  {
    return "size=" + ut::str(g.size()) + " cont=" + std::to_string(g.content()) + " empty=" + (g.empty() ? "1" : "0") +
           " cells=" + cells(g);
  }

  static std::string all_line(ivec const &d)
  {
    auto const range = grid::make_pos_range(ut::to_dim(d));
    std::string r = "size=" + std::to_string(range.size());
    std::size_t n = 0;
    std::string ps;
    for (auto const &p : range)
    {
      if (n == loop_cap)
        return r + " overrun";
      if (n)
        ps += '|';
      ps += ut::str(p);
      ++n;
    }
    return r + " n=" + std::to_string(n) + " ps=" + (n ? ps : "-");
  }

  template <typename Range>
  static std::string ref_str(Range const &range, std::size_t &n)
  {
    std::string rs;
    n = 0;
    for (auto const &element : range)
    {
      if (n == loop_cap)
        return "overrun";
      if (n)
        rs += '|';
      rs += ut::str(element.pos()) + ":" + std::to_string(element.value());
      ++n;
    }
    // pos_ref_iterator: the same elements through (*it++), copies stay, direct members, swap, copy assignment
    {
      auto it = range.begin();
      auto const end = range.end();
      bool ok = (it == range.begin()) && ((n == 0) == (it == end));
      std::size_t k = 0;
      std::string rs2;
      while (it != end && k < n + 1)
      {
        auto const saved = it;
        auto const old = it++;
        auto const e = *old;
        auto const e2 = saved.dereference();
        ok = ok && old == saved && it != saved && !it.equal(saved) && &e.value() == &e2.value() && e.pos() == e2.pos();
        if (k)
          rs2 += '|';
        rs2 += ut::str(e.pos()) + ":" + std::to_string(e.value());
        ++k;
      }
      ok = ok && k == n && (n == 0 ? rs2.empty() : rs2 == rs);
      if (n >= 2)
      {
        auto a = range.begin();
        auto b = range.begin();
        b.increment();
        auto const *const va = &(*a).value();
        auto const *const vb = &(*b).value();
        ok = ok && va != vb;
        a.swap(b);
        ok = ok && &(*a).value() == vb && &(*b).value() == va;
        swap(a, b);
        ok = ok && &(*a).value() == va && &(*b).value() == vb;
        auto c = range.end();
        c = a;
        ok = ok && c == a && &(*c).value() == va;
      }
      if (!ok)
        return "ref-iterator-protocol-mismatch";
    }
    return n ? rs : "-";
  }

  static std::string refall_line(ivec const &d, ll k)
  {
    G g{mk(d, k)};
    std::size_t n = 0, n2 = 0;
    std::string const a = ref_str(grid::make_pos_ref_range(g), n);
    G const &cg = g;
    std::string const b = ref_str(grid::make_pos_ref_crange(cg), n2);
    if (a != b)
      return "const-and-mutable-range-differ";
    return "n=" + std::to_string(n) + " ref=" + a;
  }

  static std::string at_line(ivec const &d, ll k, ivec const &p)
  {
    G g{mk(d, k)};
    G const &cg = g;
    auto const pp = ut::to_pos(p);
    bool const in = grid::in_range(cg, pp);
    auto const r = grid::at_optional(cg, pp);
    auto const r2 = grid::at_optional(g, pp);
    if (r.has_value() != r2.has_value() || (r.has_value() && &r.get_unsafe().get() != &r2.get_unsafe().get()))
      return "const-and-mutable-at-differ";
    return std::string("in=") + (in ? "1" : "0") + " at=" +
           fcppt::optional::maybe(
               r, [] { return std::string("none"); },
               [](fcppt::reference<long const> const v) { return std::to_string(v.get()); });
  }

  static std::string resize_line(ivec const &d, ll k, ivec const &nd, ll k2)
  {
    G const g{mk(d, k)};
    std::size_t init_calls = 0;
    auto const init = [k2, &init_calls](pos const &p) {
      ++init_calls;
      return static_cast<long>(enc(k2, ut::from(p)));
    };
    G const r{grid::resize(g, ut::to_dim(nd), init)};
    // init is called for the positions that are not positions of the old grid, and only for those
    if (init_calls != volume(nd) - common(d, nd))
      return "resize-called-init-wrong-number-of-times";
    init_calls = 0;
    // the rvalue overload moves the cells; for long the result must be identical
    G const r2{grid::resize(mk(d, k), ut::to_dim(nd), init)};
    if (!(r.size() == r2.size()) || cells(r) != cells(r2))
      return "lvalue-and-rvalue-resize-differ";
    // cells with a visible move: non-const lvalue source stays as it was, rvalue source loses exactly the cells
    // that are positions of both grids, results are the same
    auto const tinit = [k2](pos const &p) { return tcell(static_cast<long>(enc(k2, ut::from(p)))); };
    TG src{mkt(d, k)};
    std::string const before = cells(src);
    TG const t1{grid::resize(src, ut::to_dim(nd), tinit)};
    if (cells(src) != before || !(src.size() == g.size()))
      return "lvalue-resize-modified-its-source";
    TG const t2{grid::resize(std::move(src), ut::to_dim(nd), tinit)};
    if (!(t1.size() == r.size()) || !(t2.size() == r.size()) || cells(t1) != cells(r) || cells(t2) != cells(r))
      return "tracked-resize-differs";
    if (moved_count(src) != common(d, nd)) // NOLINT(bugprone-use-after-move): only the cells were moved
      return "rvalue-resize-moved-wrong-cells";
    // aliasing: the new size is the grid's own size() (a reference into the argument), and the result is assigned
    // back to the source (g = resize(g, ...), g = resize(std::move(g), ...))
    {
      G a{mk(d, k)};
      G const same{grid::resize(a, a.size(), init)};
      if (!(same == a))
        return "resize-to-own-size-changed-the-grid";
      G b{mk(d, k)};
      b = grid::resize(b, ut::to_dim(nd), init);
      G c{mk(d, k)};
      c = grid::resize(std::move(c), ut::to_dim(nd), init);
      TG e{mkt(d, k)};
      e = grid::resize(std::move(e), e.size(), tinit); // NOLINT(bugprone-use-after-move)
      if (!(b == r) || !(c == r) || cells(e) != cells(mk(d, k)) || !(e.size() == a.size()))
        return "resize-assigned-back-differs";
    }
    return grid_str(r);
  }

  static std::string map_line(ivec const &d, ll k, ll a, ll b)
  {
    G const g{mk(d, k)};
    std::size_t calls = 0;
    G const r{grid::map(g, [a, b, &calls](long const x) {
      ++calls;
      return static_cast<long>(a * x + b);
    })};
    if (calls != volume(d))
      return "map-called-function-wrong-number-of-times";
    {
      // the same object as both operands of apply: cell i of the result is f(cell i, cell i)
      G const twice{grid::apply([](long const x, long const y) { return static_cast<long>(x * 3 - y); }, g, g)};
      auto it = g.begin();
      bool ok = twice.size() == g.size();
      for (auto jt = twice.begin(); ok && jt != twice.end(); ++jt, ++it)
        ok = it != g.end() && *jt == *it * 3 - *it;
      if (!ok || it != g.end())
        return "apply-same-object-mismatch";
      G const thrice{grid::apply([](long const x, long const y, long const z) { return static_cast<long>(x * 5 - y - z); }, g, g, g)};
      auto it3 = g.begin();
      bool ok3 = thrice.size() == g.size();
      for (auto jt = thrice.begin(); ok3 && jt != thrice.end(); ++jt, ++it3)
        ok3 = it3 != g.end() && *jt == *it3 * 3;
      if (!ok3 || it3 != g.end())
        return "apply-same-object-mismatch";
      // the result assigned back to the source
      G h{mk(d, k)};
      h = grid::map(h, [a, b](long const x) { return static_cast<long>(a * x + b); });
      G h2{mk(d, k)};
      h2 = grid::map(std::move(h2), [a, b](long const x) { return static_cast<long>(a * x + b); });
      G h3{mk(d, k)};
      h3 = grid::apply([a, b](long const x, long const y) { return static_cast<long>(a * x + b + y - x); }, h3, h3);
      if (!(h == r) || !(h2 == r) || !(h3 == r))
        return "map-assigned-back-differs";
    }
    auto const tf = [a, b](tcell const c) { return static_cast<long>(a * c.v + b); }; // by value: an rvalue cell is moved from
    TG src{mkt(d, k)};
    std::string const before = cells(src);
    G const t1{grid::map(src, tf)};
    if (cells(src) != before)
      return "lvalue-map-modified-its-source";
    G const t2{grid::map(std::move(src), tf)};
    if (!(t1.size() == r.size()) || !(t2.size() == r.size()) || cells(t1) != cells(r) || cells(t2) != cells(r))
      return "tracked-map-differs";
    if (moved_count(src) != common(d, d)) // NOLINT(bugprone-use-after-move)
      return "rvalue-map-moved-wrong-cells";
    return grid_str(r);
  }

  static std::string apply_line(std::vector<ivec> const &ds, std::vector<ll> const &ks)
  {
    G const g1{mk(ds[0], ks[0])};
    G const g2{mk(ds[1], ks[1])};
    TG s1{mkt(ds[0], ks[0])}, s2{mkt(ds[1], ks[1])};
    std::string const b1 = cells(s1), b2 = cells(s2);
    if (ds.size() == 2)
    {
      std::size_t calls = 0;
      G const r{grid::apply([&calls](long const a, long const b) {
        ++calls;
        return static_cast<long>(a * 1009 + b);
      }, g1, g2)};
      if (calls != (ds[0] == ds[1] ? volume(ds[0]) : 0))
        return "apply-called-function-wrong-number-of-times";
      auto const tf = [](tcell const a, tcell const b) { return static_cast<long>(a.v * 1009 + b.v); };
      G const t1{grid::apply(tf, s1, s2)};
      if (cells(s1) != b1 || cells(s2) != b2)
        return "lvalue-apply-modified-its-source";
      // mixed value categories: first an lvalue, second an rvalue
      G const t2{grid::apply(tf, s1, std::move(s2))};
      if (!(t1.size() == r.size()) || !(t2.size() == r.size()) || cells(t1) != cells(r) || cells(t2) != cells(r))
        return "tracked-apply-differs";
      bool const same = ds[0] == ds[1];
      if (cells(s1) != b1 || moved_count(s2) != (same ? common(ds[1], ds[1]) : 0)) // NOLINT(bugprone-use-after-move)
        return "rvalue-apply-moved-wrong-cells";
      return grid_str(r);
    }
    G const g3{mk(ds[2], ks[2])};
    TG s3{mkt(ds[2], ks[2])};
    std::string const b3 = cells(s3);
    G const r{grid::apply(
        [](long const a, long const b, long const c) { return static_cast<long>((a * 1009 + b) * 1009 + c); }, g1, g2, g3)};
    auto const tf = [](tcell const a, tcell const b, tcell const c) { return static_cast<long>((a.v * 1009 + b.v) * 1009 + c.v); };
    G const t1{grid::apply(tf, s1, s2, s3)};
    if (cells(s1) != b1 || cells(s2) != b2 || cells(s3) != b3)
      return "lvalue-apply-modified-its-source";
    // rvalue, lvalue, rvalue
    G const t2{grid::apply(tf, std::move(s1), s2, std::move(s3))};
    if (!(t1.size() == r.size()) || !(t2.size() == r.size()) || cells(t1) != cells(r) || cells(t2) != cells(r))
      return "tracked-apply-differs";
    bool const same = ds[0] == ds[1] && ds[0] == ds[2];
    if (cells(s2) != b2 || moved_count(s1) != (same ? common(ds[0], ds[0]) : 0) || // NOLINT(bugprone-use-after-move)
        moved_count(s3) != (same ? common(ds[2], ds[2]) : 0))
      return "rvalue-apply-moved-wrong-cells";
    return grid_str(r);
  }

  static std::string fill_line(ivec const &d, ll v, ll k)
  {
    G g(ut::to_dim(d), static_cast<long>(v));
    std::size_t calls = 0;
    grid::fill(g, [k, &calls](pos const &p) {
      ++calls;
      return static_cast<long>(enc(k, ut::from(p)));
    });
    if (calls != volume(d))
      return "fill-called-function-wrong-number-of-times";
    return grid_str(g);
  }

  // three objects, a history of special-member calls, then all three printed (a moved-from object only by its size())
  static std::string regs_line(std::vector<ivec> const &ds, std::vector<ll> const &ks, std::string const &prog)
  {
    std::vector<std::unique_ptr<G>> slots;
    std::vector<bool> moved(3, false);
    for (std::size_t i = 0; i < 3; ++i)
      slots.push_back(std::make_unique<G>(mk(ds[i], ks[i])));
    std::size_t at = 0;
    while (prog != "-" && at <= prog.size())
    {
      std::size_t const dot = std::min(prog.find('.', at), prog.size());
      std::string const op = prog.substr(at, dot - at);
      at = dot + 1;
      if (op.size() == 3 && op[0] == 'd' && op[1] == 'c' && op[2] >= '0' && op[2] <= '9')
      {
        std::size_t const d = static_cast<std::size_t>(op[2] - '0');
        if (d >= 3)
          return "bad-op";
        slots[d] = std::make_unique<G>();
        moved[d] = false;
        continue;
      }
      if (op.size() != 4 || op[2] < '0' || op[2] > '9' || op[3] < '0' || op[3] > '9')
        return "bad-op";
      std::size_t const d = static_cast<std::size_t>(op[2] - '0'), s = static_cast<std::size_t>(op[3] - '0');
      std::string const kind = op.substr(0, 2);
      if (d >= 3 || s >= 3)
        return "bad-op";
      if (kind == "cc")
      {
        if (d == s || moved[s])
          return "bad-op";
        G const &src = *slots[s];
        slots[d] = std::make_unique<G>(src);
        moved[d] = false;
      }
      else if (kind == "mc")
      {
        if (d == s || moved[s])
          return "bad-op";
        slots[d] = std::make_unique<G>(std::move(*slots[s]));
        moved[d] = false;
        moved[s] = true;
      }
      else if (kind == "ca")
      {
        if (moved[s])
          return "bad-op";
        G const &src = *slots[s];
        G &dst = *slots[d];
        dst = src;
        moved[d] = false;
      }
      else if (kind == "ma")
      {
        G &src = *slots[s];
        G &dst = *slots[d];
        if (d != s && moved[s])
          return "bad-op";
        dst = std::move(src);
        if (d != s)
        {
          moved[d] = false;
          moved[s] = true;
        }
      }
      else if (kind == "sm" || kind == "sf")
      {
        G &a = *slots[d];
        G &b = *slots[s];
        if (kind == "sm")
          a.swap(b);
        else
          swap(a, b); // grid::swap by argument-dependent lookup
        bool const t = moved[d];
        moved[d] = moved[s];
        moved[s] = t;
      }
      else
        return "bad-op";
    }
    std::string r;
    for (std::size_t i = 0; i < 3; ++i)
      r += std::string(i ? " ; " : "") + (moved[i] ? "moved size=" + ut::str(slots[i]->size()) : grid_str(*slots[i]));
    return r;
  }

  static G from_cells(ivec const &d, ivec const &c)
  {
    G g(ut::to_dim(d), 0L);
    std::size_t i = 0;
    for (auto it = g.begin(); it != g.end() && i < c.size(); ++it, ++i)
      *it = static_cast<long>(c[i]);
    return g;
  }

  static std::string cmp_line(ivec const &d1, ivec const &c1, ivec const &d2, ivec const &c2)
  {
    G const a{from_cells(d1, c1)};
    G const b{from_cells(d2, c2)};
    auto const bit = [](bool const x) { return std::string(x ? "1" : "0"); };
    // operands that are the same object
    if (!(a == a) || a != a || a < a || a > a || !(a <= a) || !(a >= a))
      return "self-comparison-mismatch";
    return "eq=" + bit(a == b) + " ne=" + bit(a != b) + " lt=" + bit(a < b) + " gt=" + bit(a > b) + " le=" + bit(a <= b) +
           " ge=" + bit(a >= b);
  }

  // interpolate at the position fl + q/4 (exact in binary floating point) with an interpolator that only records
  // its arguments: ip(f, a, b) = (4f + 1) * 1000003 + 7a + 13b
  static std::string interp_line(G const &g, ivec const &fl, ivec const &q)
  {
    using fvec = fcppt::math::vector::static_<double, N>;
    fvec const p{fcppt::math::vector::init<fvec>([&fl, &q](auto const i) {
      return static_cast<double>(fl[decltype(i)::value]) + static_cast<double>(q[decltype(i)::value]) / 4.0;
    })};
    long const r{grid::interpolate(g, p, [](double const f, long const a, long const b) {
      return static_cast<long>((static_cast<long>(f * 4.0) + 1) * 1000003 + 7 * a + 13 * b);
    })};
    return "ip=" + std::to_string(r);
  }

  static bool interp_ok(ivec const &d, ivec const &fl, ivec const &q)
  {
    for (std::size_t i = 0; i < N; ++i)
      if (fl[i] < 0 || fl[i] + 1 >= d[i] || q[i] < 0 || q[i] > 3)
        return false;
    return true;
  }

  // fill with a function that reads the grid being filled: the first / last / previous / next / current cell, + 7.
  // "previous" and "next" are in storage order, computed here independently of the code under test.
  static std::string fillself_line(ivec const &d, ll k, ll mode)
  {
    G g{mk(d, k)};
    std::vector<ivec> order;
    tuples(konst_(0), d, [&order](ivec const &t) { order.push_back(t); });
    grid::fill(g, [&g, &d, &order, mode](pos const &p) {
      ivec const cur = ut::from(p);
      ivec src = cur;
      std::size_t i = 0;
      while (i < order.size() && order[i] != cur)
        ++i;
      if (mode == 0)
        src = konst_(0);
      else if (mode == 1)
        src = plus_(d, -1);
      else if (mode == 2 && i > 0)
        src = order[i - 1];
      else if (mode == 3 && i + 1 < order.size())
        src = order[i + 1];
      return static_cast<long>(g.get_unsafe(ut::to_pos(src)) + 7);
    });
    return grid_str(g);
  }

  static ivec plus_(ivec v, ll m)
  {
    for (ll &x : v)
      x += m;
    return v;
  }

  static std::string clamp_line(ivec const &d, ivec const &p)
  {
    auto const sp = st::to_pos(p);
    auto const dd = ut::to_dim(d);
    auto const cmin = grid::clamped_min(sp);
    auto const csups = grid::clamped_sup_signed(sp, dd);
    auto const csup = grid::clamped_sup(cmin.get(), dd);
    return "cmin=" + ut::str(cmin.get()) + " csups=" + ut::str(csups.get()) + " csup=" + ut::str(csup.get());
  }

  static std::string refsub_line(G &g, ivec const &d, ivec const &smin, ivec const &ssup)
  {
    auto const mn = grid::clamped_min(st::to_pos(smin));
    auto const sp = grid::clamped_sup_signed(st::to_pos(ssup), ut::to_dim(d));
    auto const range = grid::make_pos_ref_range_start_end(g, mn, sp);
    std::size_t n = 0, n2 = 0;
    std::string const ref = ref_str(range, n);
    G const &cg = g;
    auto const crange = grid::make_pos_ref_crange_start_end(cg, mn, sp);
    if (ref_str(crange, n2) != ref || n2 != n || crange.size() != range.size())
      return "const-and-mutable-range-differ";
    // write through the references of the sub-range into a copy: exactly the cells of the box change
    G copy{g};
    ll const k2 = 5;
    for (auto const &element : grid::make_pos_ref_range_start_end(copy, grid::make_min(mn.get()), grid::make_sup(sp.get())))
      element.value() = static_cast<long>(enc(k2, ut::from(element.pos())));
    return "mn=" + ut::str(range.min().get()) + " sp=" + ut::str(range.sup().get()) + " size=" + std::to_string(range.size()) +
           " n=" + std::to_string(n) + " ref=" + ref + " w=" + cells(copy);
  }
};

template <typename F>
std::string digest_tuples(ivec const &lo, ivec const &hi, F const &line)
{
  std::uint64_t h = vh::fnv_init;
  tuples(lo, hi, [&h, &line](ivec const &t) { h = vh::fnv(h, line(t)); });
  return "D " + vh::hex64(h);
}

bool nonneg(ivec const &v)
{
  for (ll x : v)
    if (x < 0)
      return false;
  return true;
}

ivec plus(ivec v, ll m)
{
  for (ll &x : v)
    x += m;
  return v;
}

ivec konst(std::size_t n, ll c) { return ivec(n, c); }

template <typename T, std::size_t N>
std::string handle_arith(std::vector<std::string> const &t)
{
  using A = arith<T, N>;
  std::string const &op = t[0];
  if (op == "off")
    return A::off_line(vh::int_list(t[2]), vh::int_list(t[3]));
  if (op == "offs")
  {
    ivec const d = vh::int_list(t[2]);
    ll const m = vh::to_ll(t[3]);
    return digest_tuples(konst(N, t[1] == "u" ? 0 : -m), plus(d, m), [&d](ivec const &p) { return A::off_line(d, p); });
  }
  if (op == "next")
    return A::next_line(vh::int_list(t[2]), vh::int_list(t[3]), vh::int_list(t[4]));
  if (op == "nexts")
  {
    ivec const mn = vh::int_list(t[2]), sp = vh::int_list(t[3]);
    return digest_tuples(konst(N, vh::to_ll(t[4])), konst(N, vh::to_ll(t[5]) + 1),
                         [&mn, &sp](ivec const &c) { return A::next_line(c, mn, sp); });
  }
  if (op == "range")
    return A::range_line(vh::int_list(t[2]), vh::int_list(t[3]));
  if (op == "ranges")
  {
    ivec const mn = vh::int_list(t[2]);
    return digest_tuples(konst(N, vh::to_ll(t[3])), konst(N, vh::to_ll(t[4]) + 1),
                         [&mn](ivec const &sp) { return A::range_line(mn, sp); });
  }
  return "bad-op";
}

template <std::size_t N>
std::string handle_grid(std::vector<std::string> const &t)
{
  using R = gr<N>;
  std::string const &op = t[0];
  ivec const d = vh::int_list(t[1]);
  if (op == "mk")
  {
    if (!R::mk_call_order_ok(d, vh::to_ll(t[2])))
      return "function-constructor-call-order-mismatch";
    return R::grid_str(R::mk(d, vh::to_ll(t[2])));
  }
  if (op == "mkc")
    return R::grid_str(typename R::G(R::ut::to_dim(d), static_cast<long>(vh::to_ll(t[2]))));
  if (op == "all")
    return R::all_line(d);
  if (op == "refall")
    return R::refall_line(d, vh::to_ll(t[2]));
  if (op == "at")
    return R::at_line(d, vh::to_ll(t[2]), vh::int_list(t[3]));
  if (op == "ats")
  {
    ll const k = vh::to_ll(t[2]);
    return digest_tuples(konst(N, 0), plus(d, vh::to_ll(t[3])), [&d, k](ivec const &p) { return R::at_line(d, k, p); });
  }
  if (op == "resize")
    return R::resize_line(d, vh::to_ll(t[2]), vh::int_list(t[3]), vh::to_ll(t[4]));
  if (op == "map")
    return R::map_line(d, vh::to_ll(t[2]), vh::to_ll(t[3]), vh::to_ll(t[4]));
  if (op == "apply")
  {
    std::vector<ivec> ds;
    std::vector<ll> ks;
    for (std::size_t i = 1; i + 1 < t.size(); i += 2)
    {
      ds.push_back(vh::int_list(t[i]));
      ks.push_back(vh::to_ll(t[i + 1]));
    }
    return R::apply_line(ds, ks);
  }
  if (op == "fill")
    return R::fill_line(d, vh::to_ll(t[2]), vh::to_ll(t[3]));
  if (op == "out")
  {
    typename R::G const g{R::mk(d, vh::to_ll(t[2]))};
    std::ostringstream o;
    o << g;
    return "out=" + o.str();
  }
  if (op == "interp")
  {
    ivec const fl = vh::int_list(t[3]), q = vh::int_list(t[4]);
    if (!R::interp_ok(d, fl, q))
      return "bad-op";
    typename R::G const g{R::mk(d, vh::to_ll(t[2]))};
    return R::interp_line(g, fl, q);
  }
  if (op == "interps")
  {
    for (ll x : d)
      if (x < 2)
        return "bad-op";
    typename R::G const g{R::mk(d, vh::to_ll(t[2]))};
    // all integral parts with every neighbour in range, all fractional parts in quarters
    std::uint64_t h = vh::fnv_init;
    tuples(konst(N, 0), plus(d, -1), [&h, &g](ivec const &fl) {
      tuples(konst(N, 0), konst(N, 4), [&h, &g, &fl](ivec const &q) { h = vh::fnv(h, R::interp_line(g, fl, q)); });
    });
    return "D " + vh::hex64(h);
  }
  if (op == "regs")
    return R::regs_line({d, vh::int_list(t[3]), vh::int_list(t[5])}, {vh::to_ll(t[2]), vh::to_ll(t[4]), vh::to_ll(t[6])}, t[7]);
  if (op == "cmp")
  {
    ivec const c1 = vh::int_list(t[2]), d2 = vh::int_list(t[3]), c2 = vh::int_list(t[4]);
    auto const prod = [](ivec const &v) { ll r = 1; for (ll x : v) r *= x; return r; };
    if (static_cast<ll>(c1.size()) != prod(d) || static_cast<ll>(c2.size()) != prod(d2))
      return "bad-op";
    return R::cmp_line(d, c1, d2, c2);
  }
  if (op == "fillself")
  {
    ll const mode = vh::to_ll(t[3]);
    if (mode < 0 || mode > 4)
      return "bad-op";
    return R::fillself_line(d, vh::to_ll(t[2]), mode);
  }
  if (op == "clamp")
    return R::clamp_line(d, vh::int_list(t[2]));
  if (op == "clamps")
  {
    ll const m = vh::to_ll(t[2]);
    return digest_tuples(konst(N, -m), plus(d, m + 1), [&d](ivec const &p) { return R::clamp_line(d, p); });
  }
  if (op == "refsub")
  {
    typename R::G g{R::mk(d, vh::to_ll(t[2]))};
    return R::refsub_line(g, d, vh::int_list(t[3]), vh::int_list(t[4]));
  }
  if (op == "refsubs")
  {
    typename R::G g{R::mk(d, vh::to_ll(t[2]))};
    ivec const smin = vh::int_list(t[3]);
    ll const m = vh::to_ll(t[4]);
    return digest_tuples(konst(N, -m), plus(d, m + 1), [&g, &d, &smin](ivec const &ssup) { return R::refsub_line(g, d, smin, ssup); });
  }
  return "bad-op";
}

// static_row constructor: W cells per row, H rows, row y = enc k (0,y) ... enc k (W-1,y)
template <std::size_t... Xs>
auto make_row(ll const k, ll const y, std::index_sequence<Xs...>)
{
  return grid::static_row(static_cast<long>(enc(k, ivec{static_cast<ll>(Xs), y}))...);
}

template <std::size_t W, std::size_t... Ys>
std::string rows_wh(ll const k, std::index_sequence<Ys...>)
{
  using R = gr<2>;
  typename R::G const g(make_row(k, static_cast<ll>(Ys), std::make_index_sequence<W>{})...);
  return R::grid_str(g);
}

template <std::size_t W>
std::string rows_w(std::size_t const h, ll const k)
{
  switch (h)
  {
  case 1: return rows_wh<W>(k, std::make_index_sequence<1>{});
  case 2: return rows_wh<W>(k, std::make_index_sequence<2>{});
  case 3: return rows_wh<W>(k, std::make_index_sequence<3>{});
  case 4: return rows_wh<W>(k, std::make_index_sequence<4>{});
  default: return "bad-op";
  }
}

std::string rows_line(std::size_t const w, std::size_t const h, ll const k)
{
  switch (w)
  {
  case 1: return rows_w<1>(h, k);
  case 2: return rows_w<2>(h, k);
  case 3: return rows_w<3>(h, k);
  case 4: return rows_w<4>(h, k);
  default: return "bad-op";
  }
}

// shape check shared with the Lean driver: which tokens are lists, all of the same length 1..3
std::string handle(std::vector<std::string> const &t)
{
  if (t.empty())
    return "bad-op";
  std::string const &op = t[0];
  auto const is_arith = op == "off" || op == "offs" || op == "next" || op == "nexts" || op == "range" || op == "ranges";
  try
  {
    if (is_arith)
    {
      if (t.size() < 3 || (t[1] != "u" && t[1] != "s"))
        return "bad-op";
      std::size_t const n = vh::int_list(t[2]).size();
      // list arguments of each op
      std::vector<std::size_t> lists;
      std::size_t want = 0;
      if (op == "off") { lists = {2, 3}; want = 4; }
      else if (op == "offs") { lists = {2}; want = 4; }
      else if (op == "next") { lists = {2, 3, 4}; want = 5; }
      else if (op == "nexts") { lists = {2, 3}; want = 6; }
      else if (op == "range") { lists = {2, 3}; want = 4; }
      else { lists = {2}; want = 5; }
      if (t.size() != want)
        return "bad-op";
      for (std::size_t i : lists)
      {
        ivec const v = vh::int_list(t[i]);
        if (v.size() != n || (t[1] == "u" && !nonneg(v)))
          return "bad-op";
      }
      if (t[1] == "u" && (op == "nexts" || op == "ranges") && vh::to_ll(t[want - 2]) < 0)
        return "bad-op";
      if (op == "offs" && vh::to_ll(t[3]) < 0)
        return "bad-op";
      bool const u = t[1] == "u";
      switch (n)
      {
      case 1: return u ? handle_arith<std::size_t, 1>(t) : handle_arith<long, 1>(t);
      case 2: return u ? handle_arith<std::size_t, 2>(t) : handle_arith<long, 2>(t);
      case 3: return u ? handle_arith<std::size_t, 3>(t) : handle_arith<long, 3>(t);
      default: return "bad-op";
      }
    }
    if (op == "rows")
    {
      if (t.size() != 4 || t[1].find('-') != std::string::npos || t[2].find('-') != std::string::npos)
        return "bad-op";
      return rows_line(static_cast<std::size_t>(vh::to_ull(t[1])), static_cast<std::size_t>(vh::to_ull(t[2])), vh::to_ll(t[3]));
    }
    std::vector<std::size_t> lists;   // list arguments that must be non-negative
    std::vector<std::size_t> slists;  // signed list arguments
    std::size_t want = 0;
    if (op == "mk" || op == "mkc" || op == "refall" || op == "out") { lists = {1}; want = 3; }
    else if (op == "all") { lists = {1}; want = 2; }
    else if (op == "at") { lists = {1, 3}; want = 4; }
    else if (op == "ats") { lists = {1}; want = 4; }
    else if (op == "resize") { lists = {1, 3}; want = 5; }
    else if (op == "map") { lists = {1}; want = 5; }
    else if (op == "apply" && t.size() == 5) { lists = {1, 3}; want = 5; }
    else if (op == "apply" && t.size() == 7) { lists = {1, 3, 5}; want = 7; }
    else if (op == "fill" || op == "fillself") { lists = {1}; want = 4; }
    else if (op == "interp") { lists = {1, 3, 4}; want = 5; }
    else if (op == "interps") { lists = {1}; want = 3; }
    else if (op == "regs") { lists = {1, 3, 5}; want = 8; }
    else if (op == "cmp") { lists = {1, 3}; want = 5; }
    else if (op == "clamp") { lists = {1}; slists = {2}; want = 3; }
    else if (op == "clamps") { lists = {1}; want = 3; }
    else if (op == "refsub") { lists = {1}; slists = {3, 4}; want = 5; }
    else if (op == "refsubs") { lists = {1}; slists = {3}; want = 5; }
    else return "bad-op";
    if (t.size() != want)
      return "bad-op";
    std::size_t const n = vh::int_list(t[1]).size();
    for (std::size_t i : lists)
    {
      ivec const v = vh::int_list(t[i]);
      if (v.size() != n || !nonneg(v))
        return "bad-op";
    }
    for (std::size_t i : slists)
      if (vh::int_list(t[i]).size() != n)
        return "bad-op";
    if ((op == "ats" && vh::to_ll(t[3]) < 0) || (op == "refsubs" && vh::to_ll(t[4]) < 0) || (op == "clamps" && vh::to_ll(t[2]) < 0))
      return "bad-op";
    switch (n)
    {
    case 1: return handle_grid<1>(t);
    case 2: return handle_grid<2>(t);
    case 3: return handle_grid<3>(t);
    default: return "bad-op";
    }
  }
  catch (std::exception const &)
  {
    return "bad-op";
  }
}
}

int main() { return vh::run(handle); }
