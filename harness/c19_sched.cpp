// C19 small-scope schedule harness (ThreadSanitizer build): k <= 3 threads, one fcppt::log::context, a handful of
// operations, EVERY order of them.
//
//   sched <f|r> <repeat> <root> <setup> <steps> <post> <locs>
//
//   setup  operations main runs before the threads exist (`-` or `op;op;…`, tokens of an operation joined by `,`)
//   steps  `tid:op;tid:op;…` — the operations of the worker threads
//   post   operations main runs after the join
//   locs   locations main reads with context::get at the very end (`loc,loc,…`)
//
// mode f (forced): the steps are executed strictly one after the other in the listed order, each by its thread; a step
//   starts when a RELAXED atomic turn counter reaches its index (waiting on a raw futex).  The harness thereby adds no happens-before edge
//   between the threads: everything that orders two steps for ThreadSanitizer is the library's own synchronisation
//   (the context mutex, the atomic levels).  A missing lock is therefore reported deterministically — both accesses
//   happen, in a known order, without a happens-before path — and the results must be EXACTLY those of the
//   sequential model for that order (checked by props/c19.py against the Lean driver).
// mode r (released together): every thread executes its steps as soon as all threads have arrived; `repeat` rounds on
//   fresh contexts.  Each thread has ONE operation in this mode; the joint result of a round (all step results, post
//   results, final levels) must be the joint result of SOME order of the steps (all k! are computed by the driver).
//   (FCPPT_LOG_* is `if (enabled) log`, two loads, and is not generated for this mode: a set between the two gives
//   "message evaluated, nothing written", which no order of the calls produces — observed, see notes/C19.md.)
//
// Operations: set,<loc>,<lvl>  get,<loc>  objr,<name>,<fmt>  objl,<loc>,<name>,<fmt>  objc,<obj>,<name>,<fmt>
//             lvl,<obj> (one atomic load)  en,<obj>,<k> (one load)  log,<obj>,<k>,<msg>  logm,<obj>,<k>,<msg>
// <obj> is the STATIC index of the creating operation among the creating operations of setup, then the steps thread by
// thread, then post; an
// object is only ever used by the thread that created it, or handed from main (setup) to exactly one thread, or read
// by main after the join — fcppt documents log objects as not shareable.  Thread t logs at levels l with l % 3 == t % 3
// only, so every (not thread-safe) ostringstream sink has one writer.
//
// Result:  ok <distinct joint results joined by #>      joint result = step results joined by @, then `!`, post
//          results joined by @, then `!`, the final levels joined by `,`.  Blanks inside texts are printed as \s.
#include "common/vh.hpp"

#include <fcppt/make_ref.hpp>
#include <fcppt/string.hpp>
#include <fcppt/enum/array_init.hpp>
#include <fcppt/log/context.hpp>
#include <fcppt/log/debug.hpp>
#include <fcppt/log/error.hpp>
#include <fcppt/log/fatal.hpp>
#include <fcppt/log/info.hpp>
#include <fcppt/log/level.hpp>
#include <fcppt/log/level_stream.hpp>
#include <fcppt/log/level_stream_array.hpp>
#include <fcppt/log/location.hpp>
#include <fcppt/log/name.hpp>
#include <fcppt/log/object.hpp>
#include <fcppt/log/optional_level.hpp>
#include <fcppt/log/out.hpp>
#include <fcppt/log/parameters.hpp>
#include <fcppt/log/parameters_no_function.hpp>
#include <fcppt/log/verbose.hpp>
#include <fcppt/log/warning.hpp>
#include <fcppt/log/format/default_level.hpp>
#include <fcppt/log/format/function.hpp>
#include <fcppt/log/format/optional_function.hpp>

#include <linux/futex.h>
#include <sys/syscall.h>
#include <unistd.h>

#include <array>
#include <atomic>
#include <climits>
#include <cstddef>
#include <exception>
#include <memory>
#include <optional>
#include <set>
#include <sstream>
#include <string>
#include <thread>
#include <vector>

namespace
{
constexpr unsigned level_count = 6;
constexpr unsigned max_threads = 3;

using op_tokens = std::vector<std::string>;

std::vector<std::string> split(std::string const &s, char const sep)
{
  std::vector<std::string> parts;
  std::size_t pos = 0;
  while (true)
  {
    std::size_t const next = s.find(sep, pos);
    parts.push_back(s.substr(pos, next == std::string::npos ? next : next - pos));
    if (next == std::string::npos)
      break;
    pos = next + 1;
  }
  return parts;
}

struct bad_line
{
};

unsigned parse_small(std::string const &s, unsigned const bound)
{
  if (s.empty() || s.size() > 6)
    throw bad_line{};
  unsigned r = 0;
  for (char const c : s)
  {
    if (c < '0' || c > '9')
      throw bad_line{};
    r = r * 10U + static_cast<unsigned>(c - '0');
  }
  if (r >= bound)
    throw bad_line{};
  return r;
}

fcppt::log::optional_level parse_level(std::string const &s)
{
  if (s == "-")
    return fcppt::log::optional_level{};
  return fcppt::log::optional_level{static_cast<fcppt::log::level>(parse_small(s, level_count))};
}

fcppt::log::name parse_name(std::string const &s) { return fcppt::log::name{s == "_" ? fcppt::string{} : s}; }

fcppt::log::location parse_loc(std::string const &s)
{
  fcppt::log::location r{};
  if (s == "-")
    return r;
  for (std::string const &p : split(s, '.'))
  {
    if (p.empty())
      throw bad_line{};
    r /= parse_name(p);
  }
  return r;
}

fcppt::log::parameters make_params(std::string const &name, std::string const &fmt)
{
  if (fmt == "-")
    return fcppt::log::parameters_no_function(parse_name(name));
  return fcppt::log::parameters{
      parse_name(name),
      fcppt::log::format::optional_function{fcppt::log::format::function{
          [tag = fmt](fcppt::string const &t) -> fcppt::string { return tag + "<" + t + ">"; }}}};
}

std::string show_level(fcppt::log::optional_level const &l)
{
  return l.has_value() ? std::to_string(static_cast<unsigned>(l.get_unsafe())) : std::string{"-"};
}

std::string esc(std::string const &s)
{
  std::string r;
  for (char const c : s)
  {
    if (c == '\\')
      r += "\\\\";
    else if (c == '\n')
      r += "\\n";
    else if (c == ' ')
      r += "\\s";
    else
      r += c;
  }
  return r;
}

struct operation
{
  op_tokens t;
  unsigned tid = 0;          // max_threads = main
  std::size_t creates = 0;   // static object index, if it is a constructor
  // parsed once, before any thread runs
  fcppt::log::location loc{};
  fcppt::log::optional_level lvl{};
  std::size_t obj = 0;
  unsigned k = 0;
  std::string result{};
};

bool is_ctor(op_tokens const &t) { return !t.empty() && (t[0] == "objr" || t[0] == "objl" || t[0] == "objc"); }

struct world
{
  std::array<std::ostringstream, level_count> sinks;
  std::unique_ptr<fcppt::log::context> context;
  std::vector<std::unique_ptr<fcppt::log::object>> objects; // indexed by static object index
};

void prepare(operation &o, std::size_t const nobjects)
{
  op_tokens const &t = o.t;
  if (t.empty())
    throw bad_line{};
  std::string const &op = t[0];
  auto const object_index = [&](std::string const &s) {
    unsigned const i = parse_small(s, 1000);
    if (i >= nobjects)
      throw bad_line{};
    return static_cast<std::size_t>(i);
  };
  if (op == "set" && t.size() == 3)
  {
    o.loc = parse_loc(t[1]);
    o.lvl = parse_level(t[2]);
  }
  else if (op == "get" && t.size() == 2)
    o.loc = parse_loc(t[1]);
  else if (op == "objr" && t.size() == 3)
  {
  }
  else if (op == "objl" && t.size() == 4)
    o.loc = parse_loc(t[1]);
  else if (op == "objc" && t.size() == 4)
    o.obj = object_index(t[1]);
  else if (op == "lvl" && t.size() == 2)
    o.obj = object_index(t[1]);
  else if (op == "en" && t.size() == 3)
  {
    o.obj = object_index(t[1]);
    o.k = parse_small(t[2], level_count);
  }
  else if ((op == "log" || op == "logm") && t.size() == 4)
  {
    o.obj = object_index(t[1]);
    o.k = parse_small(t[2], level_count);
    if (o.tid < max_threads && o.k % 3U != o.tid % 3U)
      throw bad_line{}; // one writer per sink
  }
  else
    throw bad_line{};
}

void log_macro(fcppt::log::object &o, unsigned const l, std::string const &msg, unsigned &evaluations)
{
  auto const counted = [&evaluations, &msg]() -> std::string const & {
    ++evaluations;
    return msg;
  };
  switch (l)
  {
  case 0: FCPPT_LOG_VERBOSE(o, fcppt::log::out << counted()) break;
  case 1: FCPPT_LOG_DEBUG(o, fcppt::log::out << counted()) break;
  case 2: FCPPT_LOG_INFO(o, fcppt::log::out << counted()) break;
  case 3: FCPPT_LOG_WARNING(o, fcppt::log::out << counted()) break;
  case 4: FCPPT_LOG_ERROR(o, fcppt::log::out << counted()) break;
  case 5: FCPPT_LOG_FATAL(o, fcppt::log::out << counted()) break;
  default: break;
  }
}

std::string execute(world &w, operation const &o)
{
  std::string const &op = o.t[0];
  fcppt::log::context &ctx = *w.context;
  if (op == "set")
  {
    ctx.set(o.loc, o.lvl);
    return "ok";
  }
  if (op == "get")
  {
    fcppt::log::context const &c = ctx;
    return "lvl=" + show_level(c.get(o.loc));
  }
  if (op == "objr")
  {
    w.objects[o.creates] = std::make_unique<fcppt::log::object>(fcppt::make_ref(ctx), make_params(o.t[1], o.t[2]));
    return "ok";
  }
  if (op == "objl")
  {
    w.objects[o.creates] = std::make_unique<fcppt::log::object>(fcppt::make_ref(ctx), o.loc, make_params(o.t[2], o.t[3]));
    return "ok";
  }
  if (!w.objects[o.obj])
    return "error:no-object";
  fcppt::log::object &obj = *w.objects[o.obj];
  if (op == "objc")
  {
    w.objects[o.creates] = std::make_unique<fcppt::log::object>(obj, make_params(o.t[2], o.t[3]));
    return "ok";
  }
  if (op == "lvl")
    return "lvl=" + show_level(obj.level());
  if (op == "en")
    return std::string{"en="} + (obj.enabled(static_cast<fcppt::log::level>(o.k)) ? "1" : "0");
  // log / logm: nobody else writes to sink k
  std::ostringstream &sink = w.sinks[o.k];
  std::string tail;
  if (op == "log")
    obj.log(static_cast<fcppt::log::level>(o.k), fcppt::log::out << o.t[3]);
  else
  {
    unsigned evaluations = 0;
    log_macro(obj, o.k, o.t[3], evaluations);
    tail = " ev=" + std::to_string(evaluations);
  }
  std::string const text = sink.str();
  sink.str("");
  // the blank in front of ev= is printed as \s like every other blank of a joint result
  return (text.empty() ? std::string{"emit=-"} : "emit=" + std::to_string(o.k) + "|" + esc(text)) + esc(tail);
}

std::string guarded(world &w, operation const &o)
{
  try
  {
    return execute(w, o);
  }
  catch (std::bad_alloc const &)
  {
    return "exc:bad_alloc";
  }
  catch (std::exception const &)
  {
    return "exc:std";
  }
  catch (...)
  {
    return "exc:unknown";
  }
}

// Waiting without burning a time slice and without giving ThreadSanitizer a happens-before edge: a raw futex on a
// relaxed atomic (the sanitizer neither intercepts the system call nor treats relaxed accesses as synchronisation).
static_assert(sizeof(std::atomic<unsigned>) == sizeof(unsigned));

void wait_while(std::atomic<unsigned> &a, unsigned const value)
{
  syscall(SYS_futex, reinterpret_cast<unsigned *>(&a), FUTEX_WAIT_PRIVATE, value, nullptr, nullptr, 0);
}

void wake_all(std::atomic<unsigned> &a)
{
  syscall(SYS_futex, reinterpret_cast<unsigned *>(&a), FUTEX_WAKE_PRIVATE, INT_MAX, nullptr, nullptr, 0);
}

void wait_until(std::atomic<unsigned> &a, unsigned const wanted)
{
  for (unsigned spin = 0;; ++spin)
  {
    unsigned const v = a.load(std::memory_order_relaxed);
    if (v == wanted)
      return;
    if (spin > 200U)
      wait_while(a, v);
  }
}

std::atomic<unsigned> g_turn{0};
std::atomic<unsigned> g_arrived{0};
std::atomic<unsigned> g_go{0};

void worker(world &w, std::vector<operation> &steps, unsigned const tid, bool const forced, unsigned const nthreads)
{
  if (g_arrived.fetch_add(1, std::memory_order_relaxed) + 1U == nthreads)
    wake_all(g_arrived);
  wait_until(g_go, 1U);
  for (std::size_t i = 0; i < steps.size(); ++i)
  {
    if (steps[i].tid != tid)
      continue;
    if (forced)
      wait_until(g_turn, static_cast<unsigned>(i));
    steps[i].result = guarded(w, steps[i]); // every step has its own slot
    if (forced)
    {
      g_turn.store(static_cast<unsigned>(i) + 1U, std::memory_order_relaxed);
      wake_all(g_turn);
    }
  }
}

std::string run_round(
    bool const forced,
    fcppt::log::optional_level const &root,
    std::vector<operation> &setup,
    std::vector<operation> &steps,
    std::vector<operation> &post,
    std::vector<fcppt::log::location> const &locs,
    std::size_t const nobjects,
    unsigned const nthreads)
{
  std::string out;
  world w;
  w.objects.resize(nobjects);
  w.context = std::make_unique<fcppt::log::context>(
      root, fcppt::enum_::array_init<fcppt::log::level_stream_array>([&w](fcppt::log::level const l) {
        return fcppt::log::level_stream{
            w.sinks[static_cast<std::size_t>(l)],
            fcppt::log::format::optional_function{fcppt::log::format::default_level(l)}};
      }));
  for (operation &o : setup)
    o.result = guarded(w, o);
  g_turn.store(0, std::memory_order_relaxed);
  g_arrived.store(0, std::memory_order_relaxed);
  g_go.store(0, std::memory_order_relaxed);
  {
    std::vector<std::thread> threads;
    threads.reserve(nthreads);
    for (unsigned t = 0; t < nthreads; ++t)
      threads.emplace_back(worker, std::ref(w), std::ref(steps), t, forced, nthreads);
    wait_until(g_arrived, nthreads);
    g_go.store(1, std::memory_order_relaxed);
    wake_all(g_go);
    for (std::thread &th : threads)
      th.join();
  }
  for (operation &o : post)
    o.result = guarded(w, o);
  for (operation const &o : setup)
    if (o.result.rfind("exc:", 0) == 0 || o.result.rfind("error:", 0) == 0)
      return o.result;
  for (std::size_t i = 0; i < steps.size(); ++i)
    out += (i == 0 ? "" : "@") + steps[i].result;
  out += "!";
  for (std::size_t i = 0; i < post.size(); ++i)
    out += (i == 0 ? "" : "@") + post[i].result;
  out += "!";
  fcppt::log::context const &c = *w.context;
  for (std::size_t i = 0; i < locs.size(); ++i)
    out += (i == 0 ? "" : ",") + show_level(c.get(locs[i]));
  // the log objects go before the context they refer to
  w.objects.clear();
  w.context.reset();
  return out;
}

std::vector<operation> parse_ops(std::string const &s, bool const with_tid, std::size_t &ncreated)
{
  std::vector<operation> r;
  if (s == "-")
    return r;
  for (std::string const &item : split(s, ';'))
  {
    operation o;
    std::string body = item;
    o.tid = max_threads;
    if (with_tid)
    {
      std::size_t const colon = item.find(':');
      if (colon == std::string::npos)
        throw bad_line{};
      o.tid = parse_small(item.substr(0, colon), max_threads);
      body = item.substr(colon + 1);
    }
    o.t = split(body, ',');
    r.push_back(o);
  }
  // static object indices: main's operations in order; the threads' operations thread by thread (whatever order the line
  // lists the steps in)
  for (unsigned tid = 0; tid <= max_threads; ++tid)
    for (operation &o : r)
      if (o.tid == tid && is_ctor(o.t))
        o.creates = ncreated++;
  return r;
}

// hammer <n> <root> <loc> <v1> <v2> <below>
// Maximal contention on one subtree: thread 0 calls set(loc, v1), set(loc, v2), … n times; thread 1 owns a log object at
// <loc>/<below>/x (created by main) and loads its level n times; thread 2 calls get(<loc>/<below>) n times.  Every value
// seen must be the root level (before the first set), v1 or v2 — a transient third value inside one call (a store that is
// not a single atomic store of the final value, a node that is momentarily unlinked …) shows up here with high probability.
// At the end the object and get must agree with the last set.
std::string hammer(std::vector<std::string> const &tok)
{
  unsigned const n = parse_small(tok[1], 1000001);
  fcppt::log::optional_level const root{parse_level(tok[2])};
  fcppt::log::location const loc{parse_loc(tok[3])};
  fcppt::log::optional_level const v1{parse_level(tok[4])};
  fcppt::log::optional_level const v2{parse_level(tok[5])};
  fcppt::log::location below{loc};
  if (tok[6] != "-")
    for (std::string const &p : split(tok[6], '.'))
      below /= parse_name(p);
  world w;
  w.context = std::make_unique<fcppt::log::context>(
      root, fcppt::enum_::array_init<fcppt::log::level_stream_array>([&w](fcppt::log::level const l) {
        return fcppt::log::level_stream{w.sinks[static_cast<std::size_t>(l)], fcppt::log::format::optional_function{}};
      }));
  fcppt::log::object obj{fcppt::make_ref(*w.context), below, make_params("x", "-")};
  std::string const allowed[3] = {show_level(root), show_level(v1), show_level(v2)};
  std::array<std::string, 3> bad{};
  std::array<unsigned, 3> kinds{};   // how many of the three values each observer saw (bit set)
  g_arrived.store(0, std::memory_order_relaxed);
  g_go.store(0, std::memory_order_relaxed);
  std::atomic<unsigned> setter_done{0}; // relaxed: the observers keep looking as long as the setter runs
  auto const arrive = [] {
    if (g_arrived.fetch_add(1, std::memory_order_relaxed) + 1U == 3U)
      wake_all(g_arrived);
    wait_until(g_go, 1U);
  };
  auto const classify = [&allowed](std::string const &s) -> unsigned {
    unsigned bits = 0;
    for (unsigned i = 0; i < 3; ++i)
      if (s == allowed[i])
        bits |= 1U << i;
    return bits;
  };
  {
    std::thread setter{[&] {
      arrive();
      for (unsigned i = 0; i < n; ++i)
        w.context->set(loc, i % 2U == 0U ? v1 : v2);
      setter_done.store(1, std::memory_order_relaxed);
    }};
    std::thread loader{[&] {
      arrive();
      for (unsigned i = 0; i < n || setter_done.load(std::memory_order_relaxed) == 0U; ++i)
      {
        std::string const s = show_level(obj.level());
        unsigned const b = classify(s);
        kinds[1] |= b;
        if (b == 0 && bad[1].empty())
          bad[1] = "object::level=" + s;
      }
    }};
    std::thread getter{[&] {
      arrive();
      fcppt::log::context const &c = *w.context;
      for (unsigned i = 0; i < n || setter_done.load(std::memory_order_relaxed) == 0U; ++i)
      {
        std::string const s = show_level(c.get(below));
        unsigned const b = classify(s);
        kinds[2] |= b;
        if (b == 0 && bad[2].empty())
          bad[2] = "context::get=" + s;
      }
    }};
    wait_until(g_arrived, 3U);
    g_go.store(1, std::memory_order_relaxed);
    wake_all(g_go);
    setter.join();
    loader.join();
    getter.join();
  }
  for (std::string const &b : bad)
    if (!b.empty())
      return "UNJUSTIFIED " + b + " allowed=" + allowed[0] + "," + allowed[1] + "," + allowed[2];
  std::string const last = n == 0 ? allowed[0] : (n % 2U == 1U ? allowed[1] : allowed[2]);
  fcppt::log::context const &c = *w.context;
  if (show_level(obj.level()) != last || show_level(c.get(below)) != last)
    return "UNJUSTIFIED final object=" + show_level(obj.level()) + " get=" + show_level(c.get(below)) + " last-set=" + last;
  // how many different values the two observers saw (3 = before, v1 and v2: real overlap)
  auto const count = [](unsigned b) { return (b & 1U) + ((b >> 1U) & 1U) + ((b >> 2U) & 1U); };
  return "ok hammer seen=" + std::to_string(count(kinds[1])) + "," + std::to_string(count(kinds[2]));
}

std::string handle(std::vector<std::string> const &tok)
{
  try
  {
    if (tok.size() == 7 && tok[0] == "hammer")
      return hammer(tok);
    if (tok.size() != 8 || tok[0] != "sched" || !(tok[1] == "f" || tok[1] == "r"))
      return "error:usage";
    bool const forced = tok[1] == "f";
    unsigned const repeat = parse_small(tok[2], 10001);
    fcppt::log::optional_level const root{parse_level(tok[3])};
    std::size_t nobjects = 0;
    std::vector<operation> setup = parse_ops(tok[4], false, nobjects);
    std::vector<operation> steps = parse_ops(tok[5], true, nobjects);
    std::vector<operation> post = parse_ops(tok[6], false, nobjects);
    for (auto *ops : {&setup, &steps, &post})
      for (operation &o : *ops)
        prepare(o, nobjects);
    unsigned nthreads = 0;
    std::array<unsigned, max_threads> per_thread{};
    for (operation const &o : steps)
    {
      nthreads = std::max(nthreads, o.tid + 1U);
      ++per_thread[o.tid];
    }
    if (nthreads == 0 || repeat == 0)
      return "error:usage";
    if (!forced)
      for (unsigned const n : per_thread)
        if (n > 1)
          return "error:one-step-per-thread"; // several unlocked loads of one thread are not jointly linearisable
    std::vector<fcppt::log::location> locs;
    for (std::string const &l : split(tok[7], ','))
      locs.push_back(parse_loc(l));
    std::set<std::string> seen;
    for (unsigned r = 0; r < repeat; ++r)
      seen.insert(run_round(forced, root, setup, steps, post, locs, nobjects, nthreads));
    std::string out = "ok ";
    bool first = true;
    for (std::string const &s : seen)
    {
      out += (first ? "" : "#") + s;
      first = false;
    }
    return out;
  }
  catch (bad_line const &)
  {
    return "error:parse";
  }
  catch (std::exception const &)
  {
    return "error:exception";
  }
}
}

int main()
{
  vh::op_budget() = 60;
  return vh::run(handle);
}
