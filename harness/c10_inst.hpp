// C10 harness: the instantiations of the real bitfield templates behind c10_iface.hpp.
// Included by c10_w8.cpp, c10_w16.cpp, c10_w32.cpp, c10_w64.cpp (one storage word type each).
#ifndef VERIF_HARNESS_C10_INST_HPP
#define VERIF_HARNESS_C10_INST_HPP

#include "c10_iface.hpp"

#include <fcppt/bit/mask.hpp>
#include <fcppt/bit/shift_count.hpp>
#include <fcppt/bit/shifted_mask.hpp>
#include <fcppt/bit/test.hpp>
#include <fcppt/container/bitfield/comparison.hpp>
#include <fcppt/container/bitfield/hash.hpp>
#include <fcppt/container/bitfield/init.hpp>
#include <fcppt/container/bitfield/is_subset_eq.hpp>
#include <fcppt/container/bitfield/object.hpp>
#include <fcppt/container/bitfield/operators.hpp>
#include <fcppt/container/bitfield/output.hpp>
#include <fcppt/container/bitfield/std_hash.hpp>
#include <fcppt/container/bitfield/underlying_value.hpp>
#include <fcppt/enum/to_string_impl_fwd.hpp>

#include <array>
#include <cstddef>
#include <limits>
#include <sstream>
#include <string>
#include <string_view>
#include <type_traits>
#include <utility>

namespace c10
{
// enums with N enumerators: v0 .. v(N-1)
enum class e1 { v0, fcppt_maximum = v0 };
enum class e3 { v0, v1, v2, fcppt_maximum = v2 };
enum class e5 : unsigned char { v0, v1, v2, v3, v4, fcppt_maximum = v4 };
enum class e8 { v0, v1, v2, v3, v4, v5, v6, v7, fcppt_maximum = v7 };
enum class e9 { v0, v1, v2, v3, v4, v5, v6, v7, v8, fcppt_maximum = v8 };
enum class e17 { v0, v1, v2, v3, v4, v5, v6, v7, v8, v9, v10, v11, v12, v13, v14, v15, v16, fcppt_maximum = v16 };
enum class e33 { v0, v1, v2, v3, v4, v5, v6, v7, v8, v9, v10, v11, v12, v13, v14, v15, v16, v17, v18, v19, v20, v21, v22, v23, v24, v25, v26, v27, v28, v29, v30, v31, v32, fcppt_maximum = v32 };
enum class e64 { v0, v1, v2, v3, v4, v5, v6, v7, v8, v9, v10, v11, v12, v13, v14, v15, v16, v17, v18, v19, v20, v21, v22, v23, v24, v25, v26, v27, v28, v29, v30, v31, v32, v33, v34, v35, v36, v37, v38, v39, v40, v41, v42, v43, v44, v45, v46, v47, v48, v49, v50, v51, v52, v53, v54, v55, v56, v57, v58, v59, v60, v61, v62, v63, fcppt_maximum = v63 };

template <typename E>
struct is_harness_enum : std::false_type {};
template <> struct is_harness_enum<e1> : std::true_type {};
template <> struct is_harness_enum<e3> : std::true_type {};
template <> struct is_harness_enum<e5> : std::true_type {};
template <> struct is_harness_enum<e8> : std::true_type {};
template <> struct is_harness_enum<e9> : std::true_type {};
template <> struct is_harness_enum<e17> : std::true_type {};
template <> struct is_harness_enum<e33> : std::true_type {};
template <> struct is_harness_enum<e64> : std::true_type {};

inline std::array<std::string, 64> const &names()
{
  static std::array<std::string, 64> const r = [] {
    std::array<std::string, 64> a;
    for (unsigned i = 0; i < 64; ++i)
      a[i] = "v" + std::to_string(i);
    return a;
  }();
  return r;
}
}

namespace fcppt::enum_
{
template <typename E>
struct to_string_impl<E, std::enable_if_t<c10::is_harness_enum<E>::value>>
{
  static std::string_view get(E const e) { return c10::names()[static_cast<unsigned>(e)]; }
};
}

namespace c10
{
template <typename E, typename W>
struct vi final : val
{
  using bf = fcppt::container::bitfield::object<E, W>;
  using ref = typename bf::reference;
  bf b;

  explicit vi(bf const &_b) : b{_b} {}
  static E en(unsigned i) { return static_cast<E>(i); }
  static bf const &of(val const &v) { return static_cast<vi const &>(v).b; }
  static std::unique_ptr<val> mk(bf const &_b) { return std::make_unique<vi>(_b); }

  std::unique_ptr<val> clone() const override { return mk(b); }
  void assign(val const &o) override { b = of(o); }

  bool get(unsigned i) const override { return b.get(en(i)); }
  bool idx_const(unsigned i) const override { return b[en(i)]; }
  bool idx_mut(unsigned i) override { return b[en(i)]; }
  bool and_idx(unsigned i) const override { return b & en(i); }
  std::vector<ull> words() const override
  {
    std::vector<ull> r;
    for (auto it = b.array().begin(); it != b.array().end(); ++it)
      r.push_back(static_cast<ull>(*it));
    return r;
  }
  std::vector<ull> words_unsafe() const override
  {
    std::vector<ull> r;
    for (std::size_t k = 0; k < bf::array_size::value; ++k)
      r.push_back(static_cast<ull>(b.array().get_unsafe(k)));
    return r;
  }

  void set(unsigned i, bool v) override { b.set(en(i), v); }
  void idx_assign(unsigned i, bool v) override { b[en(i)] = v; }
  void proxy_moved_assign(unsigned i, bool v, bool &ret_ok) override
  {
    ref p1{b[en(i)]};
    ref p2{p1};
    ref p3{std::move(p2)};
    ref &back = (p3 = v);
    ret_ok = &back == &p3;
  }
  void proxy_rebind_assign(unsigned i, unsigned j, bool v, bool &nowrite_ok) override
  {
    bf const before{b};
    ref p{b[en(i)]};
    ref q{b[en(j)]};
    p = q; // defaulted copy assignment: re-binds p to bit j, writes nothing
    nowrite_ok = b == before;
    p = v;
  }
  bool proxy_sees_write(unsigned i, bool v) override
  {
    ref p{b[en(i)]};
    b.set(en(i), v);
    return p;
  }
  bool const_proxy_rebind_read(unsigned i, unsigned j) const override
  {
    typename bf::const_reference p{b[en(i)]};
    typename bf::const_reference q{b[en(j)]};
    p = q;
    typename bf::const_reference r{p};
    return r;
  }
  void or_idx_assign(unsigned i, bool &ret_ok) override
  {
    bf &r = (b |= en(i));
    ret_ok = &r == &b;
  }
  std::unique_ptr<val> or_idx(unsigned i) const override { return mk(b | en(i)); }
  void poke(std::size_t k, ull x) override { *(b.array().begin() + static_cast<std::ptrdiff_t>(k)) = static_cast<W>(x); }

  void or_assign(val const &o, bool &ret_ok) override { bf &r = (b |= of(o)); ret_ok = &r == &b; }
  void and_assign(val const &o, bool &ret_ok) override { bf &r = (b &= of(o)); ret_ok = &r == &b; }
  void xor_assign(val const &o, bool &ret_ok) override { bf &r = (b ^= of(o)); ret_ok = &r == &b; }
  std::unique_ptr<val> bor(val const &o) const override { return mk(b | of(o)); }
  std::unique_ptr<val> band(val const &o) const override { return mk(b & of(o)); }
  std::unique_ptr<val> bxor(val const &o) const override { return mk(b ^ of(o)); }
  std::unique_ptr<val> bnot() const override { return mk(~b); }
  bool eq(val const &o) const override { return b == of(o); }
  bool ne(val const &o) const override { return b != of(o); }
  bool subset(val const &o) const override { return fcppt::container::bitfield::is_subset_eq(b, of(o)); }
  ull hash_fcppt() const override { return fcppt::container::bitfield::hash<bf>{}(b); }
  ull hash_std() const override { return std::hash<bf>{}(b); }
  std::optional<ull> underlying() const override
  {
    if constexpr (bf::array_size::value == 1U)
      return static_cast<ull>(fcppt::container::bitfield::underlying_value(b));
    else
      return std::nullopt;
  }
  std::string out() const override { std::ostringstream s; s << b; return s.str(); }
  std::wstring wout() const override { std::wostringstream s; s << b; return s.str(); }
};

template <typename E, typename W>
struct fac final : factory
{
  using v = vi<E, W>;
  using bf = typename v::bf;
  fac()
  {
    n = static_cast<unsigned>(bf::static_size::value);
    wbits = static_cast<unsigned>(std::numeric_limits<W>::digits);
    nwords = bf::array_size::value;
  }
  std::unique_ptr<val> null() const override { return v::mk(bf::null()); }
  template <std::size_t... I>
  static bf il_k(std::vector<unsigned> const &es, std::index_sequence<I...>) { return bf{v::en(es[I])...}; }
  // exactly the given elements for up to 8; longer lists are padded to 16 / 32 / 64 elements by repeating the last
  // element (a duplicate in an initializer list must not matter)
  std::unique_ptr<val> il(std::vector<unsigned> const &es0) const override
  {
    std::vector<unsigned> es{es0};
    if (es.size() > 8)
      es.resize(es.size() <= 16 ? 16 : es.size() <= 32 ? 32 : 64, es.back());
    switch (es.size())
    {
    case 0: return v::mk(bf{});
    case 1: return v::mk(il_k(es, std::make_index_sequence<1>{}));
    case 2: return v::mk(il_k(es, std::make_index_sequence<2>{}));
    case 3: return v::mk(il_k(es, std::make_index_sequence<3>{}));
    case 4: return v::mk(il_k(es, std::make_index_sequence<4>{}));
    case 5: return v::mk(il_k(es, std::make_index_sequence<5>{}));
    case 6: return v::mk(il_k(es, std::make_index_sequence<6>{}));
    case 7: return v::mk(il_k(es, std::make_index_sequence<7>{}));
    case 8: return v::mk(il_k(es, std::make_index_sequence<8>{}));
    case 16: return v::mk(il_k(es, std::make_index_sequence<16>{}));
    case 32: return v::mk(il_k(es, std::make_index_sequence<32>{}));
    default: return v::mk(il_k(es, std::make_index_sequence<64>{}));
    }
  }
  std::unique_ptr<val> init(std::function<bool(unsigned)> const &f) const override
  {
    return v::mk(fcppt::container::bitfield::init<bf>([&f](E const e) { return f(static_cast<unsigned>(e)); }));
  }
  std::unique_ptr<val> from_array(std::vector<ull> const &ws) const override
  {
    typename bf::array_type ar{bf::null().array()};
    std::size_t q = 0;
    for (auto &wd : ar)
      wd = static_cast<W>(ws[q++]);
    typename bf::array_type const &car = ar;
    return v::mk(bf(car));
  }
};

template <typename W>
ull shifted_mask_for(unsigned k)
{
  return static_cast<ull>(fcppt::bit::shifted_mask<W>(static_cast<fcppt::bit::shift_count>(k)).get());
}

template <typename W>
bool bit_test_for(ull x, unsigned k)
{
  return fcppt::bit::test(static_cast<W>(x), fcppt::bit::shifted_mask<W>(static_cast<fcppt::bit::shift_count>(k)));
}

template <typename W>
factory const *factory_for(unsigned n)
{
  switch (n)
  {
  case 1: { static fac<e1, W> const f; return &f; }
  case 3: { static fac<e3, W> const f; return &f; }
  case 5: { static fac<e5, W> const f; return &f; }
  case 8: { static fac<e8, W> const f; return &f; }
  case 9: { static fac<e9, W> const f; return &f; }
  case 17: { static fac<e17, W> const f; return &f; }
  case 33: { static fac<e33, W> const f; return &f; }
  case 64: { static fac<e64, W> const f; return &f; }
  default: return nullptr;
  }
}
}

#endif
