// C05 correspondence harness, family unit `rec` (see harness/c05_common.hpp and harness/c05.cpp)
#include "c05_common.hpp"

#include <fcppt/record/element.hpp>
#include <fcppt/record/get.hpp>
#include <fcppt/record/init.hpp>
#include <fcppt/record/make_label.hpp>
#include <fcppt/record/map.hpp>
#include <fcppt/record/multiply_disjoint.hpp>
#include <fcppt/record/object.hpp>
#include <fcppt/record/permute.hpp>
#include <fcppt/record/set.hpp>

namespace c05
{
namespace
{
FCPPT_RECORD_MAKE_LABEL(la0);
FCPPT_RECORD_MAKE_LABEL(la1);
FCPPT_RECORD_MAKE_LABEL(la2);
FCPPT_RECORD_MAKE_LABEL(lb0);
FCPPT_RECORD_MAKE_LABEL(lb1);

template <typename T, typename... Ls>
using rec_of = fcppt::record::object<fcppt::record::element<Ls, T>...>;

template <typename T, typename... Ls>
rec_of<T, Ls...> mk_rec(arg_t const &_a)
{
  need(_a.ids.size() == sizeof...(Ls));
  std::size_t i{0};
  // braced init: evaluated left to right
  return rec_of<T, Ls...>{(Ls{} = T{_a.ids[i++]})...};
}
template <typename T, typename... Ls>
void mark(rec_of<T, Ls...> &_r)
{
  (mark(fcppt::record::get<Ls>(_r)), ...);
}
template <typename T, typename... Ls>
std::string rec_slots(rec_of<T, Ls...> const &_r)
{
  slots_t s;
  (s.add(fcppt::record::get<Ls>(_r)), ...);
  return s.str();
}

template <typename T, typename... Ls>
std::string do_recmap(line_t const &L)
{
  auto r0{mk_rec<T, Ls...>(L.args[0])};
  mark<T, Ls...>(r0);
  g_log.clear();
  // only the rvalue instantiation exists: record::map_result applies element_vector to `Record` with its reference
  need(L.cat(0) == 'r');
  auto const r{fcppt::record::map(std::move(r0), thru{})};
  event_log const log{g_log};
  return finish("-", rec_slots<T, Ls...>(r), {rec_slots<T, Ls...>(r0)}, log);
}

// the result lists the labels in the order Rs...
template <typename T, typename In, typename... Rs>
std::string do_recperm(line_t const &L, In &_in, std::string (*_show)(In const &))
{
  g_log.clear();
  auto const r{with_cat<T::copyable>(L.cat(0), _in, [](auto &&x) { return fcppt::record::permute<rec_of<T, Rs...>>(FWD(x)); })};
  event_log const log{g_log};
  return finish("-", rec_slots<T, Rs...>(r), {_show(_in)}, log);
}

template <typename T, typename... As>
struct rec_left
{
  template <typename... Bs>
  static std::string mul(line_t const &L)
  {
    auto a{mk_rec<T, As...>(L.args[0])};
    mark<T, As...>(a);
    auto b{mk_rec<T, Bs...>(L.args[1])};
    mark<T, Bs...>(b);
    g_log.clear();
    auto const r{with_cat<T::copyable>(
        L.cat(0),
        a,
        [&](auto &&x)
        { return with_cat<T::copyable>(L.cat(1), b, [&](auto &&y) { return fcppt::record::multiply_disjoint(FWD(x), FWD(y)); }); })};
    event_log const log{g_log};
    return finish("-", rec_slots<T, As..., Bs...>(r), {rec_slots<T, As...>(a), rec_slots<T, Bs...>(b)}, log);
  }
  static std::string go(line_t const &L)
  {
    switch (L.n(1))
    {
    case 0:
      return mul<>(L);
    case 1:
      return mul<lb0>(L);
    case 2:
      return mul<lb0, lb1>(L);
    default:
      throw bad_op{};
    }
  }
};

template <typename T>
std::string op_record(std::string const &_op, line_t const &L)
{
  if (_op == "recmap")
  {
    need(L.args.size() == 1 && L.par.empty());
    switch (L.n(0))
    {
    case 0:
      return do_recmap<T>(L);
    case 1:
      return do_recmap<T, la0>(L);
    case 2:
      return do_recmap<T, la0, la1>(L);
    case 3:
      return do_recmap<T, la0, la1, la2>(L);
    default:
      throw bad_op{};
    }
  }
  if (_op == "recpermute")
  {
    // par = the permutation: result position j takes the element of label par[j]
    need(L.args.size() == 1 && L.par.size() == L.n(0));
    std::string key;
    for (int const p : L.par)
      key += std::to_string(p);
    switch (L.n(0))
    {
    case 0:
    {
      auto in{mk_rec<T>(L.args[0])};
      return do_recperm<T, rec_of<T>>(L, in, &rec_slots<T>);
    }
    case 1:
    {
      need(key == "0");
      auto in{mk_rec<T, la0>(L.args[0])};
      mark<T, la0>(in);
      return do_recperm<T, rec_of<T, la0>, la0>(L, in, &rec_slots<T, la0>);
    }
    case 2:
    {
      auto in{mk_rec<T, la0, la1>(L.args[0])};
      mark<T, la0, la1>(in);
      using in_t = rec_of<T, la0, la1>;
      if (key == "01")
        return do_recperm<T, in_t, la0, la1>(L, in, &rec_slots<T, la0, la1>);
      if (key == "10")
        return do_recperm<T, in_t, la1, la0>(L, in, &rec_slots<T, la0, la1>);
      throw bad_op{};
    }
    case 3:
    {
      auto in{mk_rec<T, la0, la1, la2>(L.args[0])};
      mark<T, la0, la1, la2>(in);
      using in_t = rec_of<T, la0, la1, la2>;
      auto const show{&rec_slots<T, la0, la1, la2>};
      if (key == "012")
        return do_recperm<T, in_t, la0, la1, la2>(L, in, show);
      if (key == "021")
        return do_recperm<T, in_t, la0, la2, la1>(L, in, show);
      if (key == "102")
        return do_recperm<T, in_t, la1, la0, la2>(L, in, show);
      if (key == "120")
        return do_recperm<T, in_t, la1, la2, la0>(L, in, show);
      if (key == "201")
        return do_recperm<T, in_t, la2, la0, la1>(L, in, show);
      if (key == "210")
        return do_recperm<T, in_t, la2, la1, la0>(L, in, show);
      throw bad_op{};
    }
    default:
      throw bad_op{};
    }
  }
  if (_op == "recmuldisj")
  {
    need(L.args.size() == 2 && L.par.empty());
    switch (L.n(0))
    {
    case 0:
      return rec_left<T>::go(L);
    case 1:
      return rec_left<T, la0>::go(L);
    case 2:
      return rec_left<T, la0, la1>::go(L);
    default:
      throw bad_op{};
    }
  }
  throw bad_op{};
}

template <typename T>
std::string op_record_more(std::string const &_op, line_t const &L)
{
  if (_op == "recctor2")
  {
    // record{la0{} = x, la1{} = y}; par[0] = 1: the initializers are given in the other order
    need(L.args.size() == 2 && L.n(0) == 1 && L.n(1) == 1 && L.par.size() == 1 && (L.par[0] == 0 || L.par[0] == 1));
    T x{L.args[0].ids[0]};
    T y{L.args[1].ids[0]};
    mark(x);
    mark(y);
    bool const swapped{L.par[0] == 1};
    g_log.clear();
    using rec = rec_of<T, la0, la1>;
    rec const r{with_cats2<T::copyable>(
        L,
        x,
        y,
        [swapped](auto &&a, auto &&b)
        {
          if (swapped)
            return rec{la1{} = FWD(b), la0{} = FWD(a)};
          return rec{la0{} = FWD(a), la1{} = FWD(b)};
        })};
    event_log const log{g_log};
    slots_t sx, sy;
    sx.add(x);
    sy.add(y);
    return finish("-", rec_slots<T, la0, la1>(r), {sx.str(), sy.str()}, log);
  }
  if (_op == "recinit")
  {
    need(L.args.empty() && L.par.size() == 1);
    int next{1000};
    auto const fn{[&next]<typename Lb, typename Ty>(fcppt::record::element<Lb, Ty>) { return T{next++}; }};
    g_log.clear();
    switch (L.par[0])
    {
    case 0:
    {
      auto const r{fcppt::record::init<rec_of<T>>(fn)};
      event_log const log{g_log};
      return finish("-", rec_slots<T>(r), {}, log);
    }
    case 1:
    {
      auto const r{fcppt::record::init<rec_of<T, la0>>(fn)};
      event_log const log{g_log};
      return finish("-", rec_slots<T, la0>(r), {}, log);
    }
    case 2:
    {
      auto const r{fcppt::record::init<rec_of<T, la0, la1>>(fn)};
      event_log const log{g_log};
      return finish("-", rec_slots<T, la0, la1>(r), {}, log);
    }
    case 3:
    {
      auto const r{fcppt::record::init<rec_of<T, la0, la1, la2>>(fn)};
      event_log const log{g_log};
      return finish("-", rec_slots<T, la0, la1, la2>(r), {}, log);
    }
    default:
      throw bad_op{};
    }
  }
  throw bad_op{};
}

// record::set<Label>(record, value): the other elements in label order, then the element that was set
template <typename T, typename Set, typename... Ls>
std::string do_recset(line_t const &L)
{
  auto r{mk_rec<T, Ls...>(L.args[0])};
  mark<T, Ls...>(r);
  T x{L.args[1].ids[0]};
  c05::mark(x);
  g_log.clear();
  with_cat<T::copyable>(
      L.cat(1),
      x,
      [&r](auto &&v)
      {
        fcppt::record::set<Set>(r, FWD(v));
        return 0;
      });
  event_log const log{g_log};
  slots_t s, sx;
  ((std::is_same_v<Ls, Set> ? void() : s.add(fcppt::record::get<Ls>(r))), ...);
  s.add(fcppt::record::get<Set>(r));
  sx.add(x);
  return finish("-", "-", {s.str(), sx.str()}, log);
}

template <typename T>
std::string op_recset(line_t const &L)
{
  need(L.args.size() == 2 && L.cat(0) == 'i' && L.n(1) == 1 && L.par.size() == 1 && L.par[0] >= 0 &&
       static_cast<std::size_t>(L.par[0]) < L.n(0));
  switch (L.n(0) * 10 + static_cast<std::size_t>(L.par[0]))
  {
  case 10:
    return do_recset<T, la0, la0>(L);
  case 20:
    return do_recset<T, la0, la0, la1>(L);
  case 21:
    return do_recset<T, la1, la0, la1>(L);
  case 30:
    return do_recset<T, la0, la0, la1, la2>(L);
  case 31:
    return do_recset<T, la1, la0, la1, la2>(L);
  case 32:
    return do_recset<T, la2, la0, la1, la2>(L);
  default:
    throw bad_op{};
  }
}

template <typename T>
bool dispatch(std::string const &_op, line_t const &L, std::string &_out)
{
  if (_op == "recmap" || _op == "recpermute" || _op == "recmuldisj")
    return (_out = op_record<T>(_op, L), true);
  if (_op == "recset")
    return (_out = op_recset<T>(L), true);
  if (_op == "recctor2" || _op == "recinit")
    return (_out = op_record_more<T>(_op, L), true);
  return false;
}
}

C05_FAMILY(family_rec) { return C05_RUN(dispatch); }
}
