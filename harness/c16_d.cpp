// C16 correspondence harness, part d of the per-function evaluation (see c16_common.hpp)
#include "c16_common.hpp"

c16::result c16::eval_d(std::string const &fn, char const k, params const &ps, std::vector<int> const &v)
{
  C16_PREAMBLE
  // ------------------------------------------------------------ value categories (probe elements; 9 = moved-from)
  if ((fn == "vcmap" || fn == "vcfold" || fn == "vcmapopt" || fn == "vcmapcat") && np == 1)
  {
    ulong const cat = ps[0];
    if (cat > 2) return bad;
    if (k == 'a' && fn == "vcmap")
    {
      if (v.size() > 3) return skip;
      return with_size<3>(v.size(), [&](auto n) {
        auto a{mk_parray<SZ(n)>(v, 0)};
        return with_cat(cat, a, [&](auto &&src) {
          auto const r{fcppt::array::map(FWD(src), [](pe e) { return e; })};
          return ds(r) + "|" + ds(a);
        });
      });
    }
    if (k == 't' && fn == "vcmap")
    {
      if (v.size() > 3) return skip;
      return with_size<3>(v.size(), [&](auto n) {
        auto t{mk_ptuple<SZ(n)>(v, 0)};
        return with_cat(cat, t, [&](auto &&src) {
          auto const r{fcppt::tuple::map(FWD(src), [](pe e) { return e; })};
          return ds_tuple(r) + "|" + ds_tuple(t);
        });
      });
    }
    if (!sq) return bad;
    return with_pseq(k, v, [&](auto &c) {
      return with_cat(cat, c, [&](auto &&src) {
        std::string r;
        if (fn == "vcmap")
          r = ds(alg::map<std::vector<pe>>(FWD(src), [](pe e) { return e; }));
        else if (fn == "vcfold")
          r = std::to_string(alg::fold(FWD(src), 0UL, [](pe e, ulong const st) { return st * 4 + static_cast<ulong>(e.v) + 1; }));
        else if (fn == "vcmapopt")
          r = ds(alg::map_optional<std::vector<pe>>(FWD(src), [](pe e) { return fcppt::optional::object<pe>{std::move(e)}; }));
        else
          r = ds(alg::map_concat<std::vector<pe>>(FWD(src), [](pe e) { return std::vector<pe>{e, e}; }));
        return r + "|" + ds(c);
      });
    });
  }
  if (fn == "vcjoin" && np == 5)
  {
    ulong const cat1 = ps[0], cat2 = ps[1], cat3 = ps[2], c1 = ps[3], c2 = ps[4];
    if (!sq || cat1 > 2 || cat2 < 1 || cat2 > 2 || cat3 < 1 || cat3 > 2) return bad;
    if (c1 > c2 || c2 > v.size()) return skip;
    return with_pseq(k, v, [&](auto &proto) {
      using C = std::remove_cvref_t<decltype(proto)>;
      using diff = seq::difference_type;
      auto const b0 = v.begin();
      C a(b0, b0 + static_cast<diff>(c1)), b(b0 + static_cast<diff>(c1), b0 + static_cast<diff>(c2)), c(b0 + static_cast<diff>(c2), v.end());
      return with_cat(cat1, a, [&](auto &&x) {
        return with_cat2(cat2, b, [&](auto &&y) {
          return with_cat2(cat3, c, [&](auto &&z) {
            auto const r{con::join(FWD(x), FWD(y), FWD(z))};
            // an rvalue first argument is taken over as a whole: its state afterwards is not specified
            return ds(r) + "|" + (cat1 == 2 ? std::string{"*"} : ds(a)) + "|" + ds(b) + "|" + ds(c);
          });
        });
      });
    });
  }
  if (fn == "vcappend" && np == 3)
  {
    ulong const cat1 = ps[0], cat2 = ps[1], c1 = ps[2];
    if (k != 'a' || cat1 > 2 || cat2 > 2) return bad;
    if (c1 > v.size() || c1 > 2 || v.size() - c1 > 2) return skip;
    return with_size<2>(c1, [&](auto n1) {
      return with_size<2>(v.size() - c1, [&](auto n2) {
        auto a{mk_parray<SZ(n1)>(v, 0)};
        auto b{mk_parray<SZ(n2)>(v, c1)};
        return with_cat(cat1, a, [&](auto &&x) {
          return with_cat(cat2, b, [&](auto &&y) {
            auto const r{fcppt::array::append(FWD(x), FWD(y))};
            return ds(r) + "|" + ds(a) + "|" + ds(b);
          });
        });
      });
    });
  }
  if (fn == "vcpush" && np == 3)
  {
    ulong const cat = ps[0], catx = ps[1], V = ps[2];
    if (k != 'a' || cat > 2 || catx > 2 || V >= 3) return bad;
    if (v.size() > 3) return skip;
    return with_size<3>(v.size(), [&](auto n) {
      auto a{mk_parray<SZ(n)>(v, 0)};
      pe x{static_cast<int>(V)};
      return with_cat(cat, a, [&](auto &&src) {
        return with_cat(catx, x, [&](auto &&e) {
          auto const r{fcppt::array::push_back(FWD(src), FWD(e))};
          return ds(r) + "|" + ds(a) + "|" + std::to_string(x.v);
        });
      });
    });
  }
  return std::nullopt;
}
