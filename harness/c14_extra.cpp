// C14 correspondence harness, third translation unit: neighbouring public API of the anchored headers
// (vector ∘ dim arithmetic, dim::contents, is_quadratic, to_dim / to_vector, vector::unit, matrix::transform_point /
// transform_direction, matrix::infinity_norm, vector::mod, vector::ceil_div_signed, math::mod, math::ceil_div_signed).  Protocol: ops `nb`, `md`, `tp`, `inf` of /verif/lean/FcpptModel/Drv/C14.lean.
#include "common/vh.hpp"

#include <fcppt/math/ceil_div_signed.hpp>
#include <fcppt/math/mod.hpp>
#include <fcppt/math/size_constant.hpp>
#include <fcppt/math/size_type.hpp>
#include <fcppt/math/static_size.hpp>
#include <fcppt/math/dim/contents.hpp>
#include <fcppt/math/dim/init.hpp>
#include <fcppt/math/dim/is_quadratic.hpp>
#include <fcppt/math/dim/object_impl.hpp>
#include <fcppt/math/dim/static.hpp>
#include <fcppt/math/dim/to_vector.hpp>
#include <fcppt/math/matrix/at_r.hpp>
#include <fcppt/math/matrix/index.hpp>
#include <fcppt/math/matrix/infinity_norm.hpp>
#include <fcppt/math/matrix/init.hpp>
#include <fcppt/math/matrix/object_impl.hpp>
#include <fcppt/math/matrix/static.hpp>
#include <fcppt/math/matrix/transform_direction.hpp>
#include <fcppt/math/matrix/transform_point.hpp>
#include <fcppt/math/vector/ceil_div_signed.hpp>
#include <fcppt/math/vector/dim.hpp>
#include <fcppt/math/vector/mod.hpp>
#include <fcppt/math/vector/init.hpp>
#include <fcppt/math/vector/object_impl.hpp>
#include <fcppt/math/vector/static.hpp>
#include <fcppt/math/vector/to_dim.hpp>
#include <fcppt/math/vector/unit.hpp>
#include <fcppt/optional/maybe.hpp>
#include <fcppt/optional/object_impl.hpp>

#include <array>
#include <cstdlib>
#include <optional>
#include <string>
#include <utility>
#include <vector>

namespace
{
namespace fm = fcppt::math;
using T = long;
using sz = fm::size_type;
using ints = std::vector<long>;

constexpr long bound = 1000;

template <typename U, sz N>
class buffer_view
{
public:
  using value_type = U;
  using size_type = sz;
  using storage_size = fm::static_size<N>;
  using reference = U const &;
  using const_reference = U const &;
  using pointer = U const *;
  using const_pointer = U const *;
  explicit buffer_view(U const *_p) : p_{_p} {}
  const_reference operator[](size_type const _i) const
  {
    if (_i >= N)
      std::abort();
    return p_[_i];
  }

private:
  U const *p_;
};

std::optional<long> scalar(std::string const &s)
{
  try
  {
    std::size_t used = 0;
    long long const v = std::stoll(s, &used);
    if (s.empty() || used != s.size() || v < -bound || v > bound || s[0] == '+' || s[0] == ' ')
      return std::nullopt;
    return static_cast<long>(v);
  }
  catch (...)
  {
    return std::nullopt;
  }
}

std::optional<unsigned> nat(std::string const &s)
{
  if (s.empty() || s.size() > 6)
    return std::nullopt;
  for (char c : s)
    if (c < '0' || c > '9')
      return std::nullopt;
  return static_cast<unsigned>(std::stoul(s));
}

std::optional<ints> int_list(std::string const &s, std::size_t want)
{
  ints r;
  if (s != "-")
  {
    std::size_t pos = 0;
    while (true)
    {
      std::size_t const next = s.find(',', pos);
      auto const v = scalar(s.substr(pos, next == std::string::npos ? next : next - pos));
      if (!v)
        return std::nullopt;
      r.push_back(*v);
      if (next == std::string::npos)
        break;
      pos = next + 1;
    }
  }
  if (r.size() != want)
    return std::nullopt;
  return r;
}

std::string show(ints const &v) { return vh::join(v); }

template <typename V>
ints vals(V const &v)
{
  ints r;
  for (sz i = 0; i < V::static_size::value; ++i)
    r.push_back(static_cast<long>(v.get_unsafe(i)));
  return r;
}

template <sz N>
using svec = fm::vector::static_<T, N>;
template <sz N>
using sdim = fm::dim::static_<T, N>;
template <sz R, sz C>
using smat = fm::matrix::static_<T, R, C>;

template <sz N>
svec<N> make_svec(ints const &a)
{
  return fm::vector::init<svec<N>>([&a]<sz I>(fm::size_constant<I>) { return a[I]; });
}
template <sz N>
sdim<N> make_sdim(ints const &a)
{
  return fm::dim::init<sdim<N>>([&a]<sz I>(fm::size_constant<I>) { return a[I]; });
}
template <sz R, sz C>
smat<R, C> make_smat(ints const &a)
{
  return fm::matrix::init<smat<R, C>>([&a]<sz Row, sz Col>(fm::matrix::index<Row, Col>) { return a[Row * C + Col]; });
}

// junk ++ a ++ junk, as in harness/c14.cpp
ints padded(ints const &a)
{
  ints b{101, 102};
  b.insert(b.end(), a.begin(), a.end());
  b.insert(b.end(), {103, 104, 105});
  return b;
}

// the vector a in mode s, b (buffer view) or r (row 1 of a static 3 x N matrix)
template <sz N, typename F>
std::string with_vec(char mode, ints const &a, F f)
{
  if (mode == 's')
    return f(make_svec<N>(a));
  if (mode == 'b')
  {
    ints const buf{padded(a)};
    fm::vector::object<T, N, buffer_view<T, N>> const v{buffer_view<T, N>{buf.data() + 2}};
    return f(v);
  }
  if (mode == 'r')
  {
    ints all;
    for (sz k = 0; k < N; ++k)
      all.push_back(201 + static_cast<long>(k));
    all.insert(all.end(), a.begin(), a.end());
    for (sz k = 0; k < N; ++k)
      all.push_back(301 + static_cast<long>(k));
    smat<3, N> const carrier{make_smat<3, N>(all)};
    return f(fm::matrix::at_r<1>(carrier));
  }
  return "bad-op";
}

template <sz N, typename F>
std::string with_dim(char mode, ints const &a, F f)
{
  if (mode == 's')
    return f(make_sdim<N>(a));
  if (mode == 'b')
  {
    ints const buf{padded(a)};
    fm::dim::object<T, N, buffer_view<T, N>> const v{buffer_view<T, N>{buf.data() + 2}};
    return f(v);
  }
  return "bad-op";
}

template <typename O>
std::string show_opt(O const &o)
{
  return fcppt::optional::maybe(
      o, [] { return std::string{"none"}; }, [](auto const &x) { return show(vals(x)); });
}

template <sz N>
std::string nb_line(std::string const &lr, ints const &a, ints const &b, unsigned axis)
{
  return with_vec<N>(
      lr[0],
      a,
      [&](auto const &v)
      {
        return with_dim<N>(
            lr[1],
            b,
            [&](auto const &d)
            {
              return "vd+=" + show(vals(v + d)) + " vd-=" + show(vals(v - d)) + " vd*=" + show(vals(v * d)) + " vd/=" + show_opt(v / d) +
                     " cont=" + std::to_string(fm::dim::contents(d)) + " quad=" + (fm::dim::is_quadratic(d) ? "1" : "0") +
                     " tod=" + show(vals(fm::vector::to_dim(v))) + " tov=" + show(vals(fm::dim::to_vector(d))) +
                     " unit=" + show(vals(fm::vector::unit<svec<N>>(axis)));
            });
      });
}

template <typename U>
std::string show_opt_scalar(fcppt::optional::object<U> const &o)
{
  return fcppt::optional::maybe(
      o, [] { return std::string{"none"}; }, [](U const &x) { return std::to_string(x); });
}

// math::mod instantiates for unsigned (and floating-point) types only: the mod observers run on the absolute values
using UT = unsigned long;
UT uabs(long x) { return static_cast<UT>(x < 0 ? -x : x); }
template <sz N>
fm::vector::static_<UT, N> make_uvec(ints const &a)
{
  return fm::vector::init<fm::vector::static_<UT, N>>([&a]<sz I>(fm::size_constant<I>) { return uabs(a[I]); });
}

template <sz N>
std::string md_line(std::string const &lr, ints const &a, ints const &b, long k)
{
  return with_vec<N>(
      lr[0],
      a,
      [&](auto const &v0)
      {
        return with_vec<N>(
            lr[1],
            b,
            [&](auto const &v1)
            {
              auto const ua = make_uvec<N>(a), ub = make_uvec<N>(b);
              (void)v1;
              return "ms=" + show_opt(fm::vector::mod(ua, uabs(k))) + " mv=" + show_opt(fm::vector::mod(ua, ub)) +
                     " cd=" + show_opt(fm::vector::ceil_div_signed(v0, k)) + " m0=" + show_opt_scalar(fm::mod(uabs(a[0]), uabs(b[0]))) +
                     " c0=" + show_opt_scalar(fm::ceil_div_signed(a[0], b[0]));
            });
      });
}

template <unsigned Lo, unsigned Hi, typename F>
std::string dispatch(unsigned n, F f)
{
  if constexpr (Lo > Hi)
  {
    return "bad-op";
  }
  else
  {
    if (n == Lo)
      return f(std::integral_constant<unsigned, Lo>{});
    return dispatch<Lo + 1, Hi>(n, f);
  }
}

constexpr bool mat_shape(sz r, sz c)
{
  unsigned const code = r * 10 + c;
  return r == c || code == 23 || code == 32 || code == 34 || code == 43 || code == 14 || code == 41;
}
constexpr bool mat_views(sz r, sz c)
{
  unsigned const code = r * 10 + c;
  return code == 22 || code == 23 || code == 33 || code == 44;
}

template <sz R, sz C, typename F>
std::string with_mat(char mode, ints const &a, F f)
{
  if (mode == 's')
    return f(make_smat<R, C>(a));
  if constexpr (mat_views(R, C))
    if (mode == 'b')
    {
      ints const buf{padded(a)};
      fm::matrix::object<T, R, C, buffer_view<T, R * C>> const m{buffer_view<T, R * C>{buf.data() + 2}};
      return f(m);
    }
  return "bad-op";
}
}

// called by harness/c14.cpp for the ops `nb`, `md`, `tp`, `inf`
std::string c14_extra_handle(std::vector<std::string> const &t)
{
  if (t[0] == "nb" && t.size() == 6)
  {
    auto const n = nat(t[2]), axis = nat(t[5]);
    if (t[1].size() != 2 || !n || *n < 1 || *n > 4 || !axis || *axis > *n)
      return "bad-op";
    auto const a = int_list(t[3], *n), b = int_list(t[4], *n);
    if (!a || !b)
      return "bad-op";
    return dispatch<1, 4>(*n, [&]<unsigned N>(std::integral_constant<unsigned, N>) { return nb_line<N>(t[1], *a, *b, *axis); });
  }
  if (t[0] == "md" && t.size() == 6)
  {
    auto const n = nat(t[2]);
    auto const k = scalar(t[5]);
    if (t[1].size() != 2 || !n || *n < 1 || *n > 4 || !k)
      return "bad-op";
    auto const a = int_list(t[3], *n), b = int_list(t[4], *n);
    if (!a || !b)
      return "bad-op";
    return dispatch<1, 4>(*n, [&]<unsigned N>(std::integral_constant<unsigned, N>) { return md_line<N>(t[1], *a, *b, *k); });
  }
  if (t[0] == "tp" && t.size() == 5)
  {
    if (t[1].size() != 1 || t[2].size() != 1)
      return "bad-op";
    auto const a = int_list(t[3], 16), v = int_list(t[4], 3);
    if (!a || !v)
      return "bad-op";
    return with_mat<4, 4>(
        t[1][0],
        *a,
        [&](auto const &m)
        {
          return with_vec<3>(
              t[2][0],
              *v,
              [&](auto const &vec)
              {
                return "tp=" + show(vals(fm::matrix::transform_point(m, vec))) + " td=" + show(vals(fm::matrix::transform_direction(m, vec)));
              });
        });
  }
  if (t[0] == "inf" && t.size() == 5)
  {
    auto const r = nat(t[2]), c = nat(t[3]);
    if (t[1].size() != 1 || !r || !c || *r < 1 || *r > 4 || *c < 1 || *c > 4)
      return "bad-op";
    auto const a = int_list(t[4], *r * *c);
    if (!a)
      return "bad-op";
    return dispatch<1, 4>(
        *r,
        [&]<unsigned R>(std::integral_constant<unsigned, R>)
        {
          return dispatch<1, 4>(
              *c,
              [&]<unsigned C>(std::integral_constant<unsigned, C>)
              {
                if constexpr (mat_shape(R, C))
                  return with_mat<R, C>(t[1][0], *a, [](auto const &m) { return std::to_string(fm::matrix::infinity_norm(m)); });
                else
                  return std::string{"bad-op"};
              });
        });
  }
  return "bad-op";
}
