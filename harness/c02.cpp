// C02 correspondence harness: drives the real fcppt::parse combinators on grammars that are built at
// run time from the operation lines described in notes/C02-protocol.md and prints the canonical
// result lines. Every grammar node is a type-erased fcppt::parse::base<Val,Ch,Skipper> made by
// fcppt::parse::make_base from the real combinator applied to fcppt::make_cref of its children.
#include "common/vh.hpp"
#include "c02_chars.hpp"
#include "c02_typed.hpp"

#include <fcppt/exception.hpp>
#include <fcppt/make_cref.hpp>
#include <fcppt/make_strong_typedef.hpp>
#include <fcppt/recursive_impl.hpp>
#include <fcppt/reference_impl.hpp>
#include <fcppt/strong_typedef_impl.hpp>
#include <fcppt/unit.hpp>
#include <fcppt/either/object_impl.hpp>
#include <fcppt/optional/maybe.hpp>
#include <fcppt/optional/object_impl.hpp>
#include <fcppt/parse/base_impl.hpp>
#include <fcppt/parse/base_unique_ptr.hpp>
#include <fcppt/parse/basic_char.hpp>
#include <fcppt/parse/basic_char_set.hpp>
#include <fcppt/parse/basic_literal.hpp>
#include <fcppt/parse/basic_stream_fwd.hpp>
#include <fcppt/parse/as_struct.hpp>
#include <fcppt/parse/basic_string.hpp>
#include <fcppt/parse/blank.hpp>
#include <fcppt/parse/blank_set.hpp>
#include <fcppt/parse/construct.hpp>
#include <fcppt/parse/convert.hpp>
#include <fcppt/parse/convert_const.hpp>
#include <fcppt/parse/convert_if.hpp>
#include <fcppt/parse/digits.hpp>
#include <fcppt/parse/epsilon.hpp>
#include <fcppt/parse/error.hpp>
#include <fcppt/parse/fail.hpp>
#include <fcppt/parse/fatal_tag.hpp>
#include <fcppt/parse/float.hpp>
#include <fcppt/parse/grammar.hpp>
#include <fcppt/parse/grammar_parse_stream.hpp>
#include <fcppt/parse/grammar_parse_string.hpp>
#include <fcppt/parse/int.hpp>
#include <fcppt/parse/list.hpp>
#include <fcppt/parse/make_base.hpp>
#include <fcppt/parse/make_convert.hpp>
#include <fcppt/parse/make_convert_if.hpp>
#include <fcppt/parse/make_fatal.hpp>
#include <fcppt/parse/make_ignore.hpp>
#include <fcppt/parse/make_lexeme.hpp>
#include <fcppt/parse/make_recursive.hpp>
#include <fcppt/parse/named.hpp>
#include <fcppt/parse/parse.hpp>
#include <fcppt/parse/parse_stream.hpp>
#include <fcppt/parse/parse_string.hpp>
#include <fcppt/parse/phrase_parse_stream.hpp>
#include <fcppt/parse/phrase_parse_string.hpp>
#include <fcppt/parse/result.hpp>
#include <fcppt/parse/separator.hpp>
#include <fcppt/parse/space.hpp>
#include <fcppt/parse/space_set.hpp>
#include <fcppt/parse/detail/stream_impl.hpp>
#include <fcppt/parse/tag.hpp>
#include <fcppt/parse/uint.hpp>
#include <fcppt/parse/operators/alternative.hpp>
#include <fcppt/parse/operators/complement.hpp>
#include <fcppt/parse/operators/not.hpp>
#include <fcppt/parse/operators/optional.hpp>
#include <fcppt/parse/operators/repetition.hpp>
#include <fcppt/parse/operators/repetition_plus.hpp>
#include <fcppt/parse/operators/sequence.hpp>
#include <fcppt/parse/skipper/basic_char_set.hpp>
#include <fcppt/parse/skipper/basic_literal.hpp>
#include <fcppt/parse/skipper/basic_space.hpp>
#include <fcppt/parse/skipper/epsilon.hpp>
#include <fcppt/parse/skipper/space.hpp>
#include <fcppt/parse/skipper/operators/repetition.hpp>
#include <fcppt/parse/skipper/operators/sequence.hpp>
#include <fcppt/tuple/get.hpp>
#include <fcppt/tuple/object_impl.hpp>
#include <fcppt/variant/apply.hpp>
#include <fcppt/variant/match.hpp>
#include <fcppt/variant/object_impl.hpp>

#include <cstddef>
#include <cstdint>
#include <cstring>
#include <deque>
#include <exception>
#include <optional>
#include <pthread.h>
#include <sstream>
#include <string>
#include <type_traits>
#include <unordered_set>
#include <initializer_list>
#include <utility>
#include <vector>

namespace
{
namespace fp = fcppt::parse;
namespace fsk = fcppt::parse::skipper;

// ---------------------------------------------------------------------------------------------
// The universal value
// ---------------------------------------------------------------------------------------------
struct Val
{
  enum class kind : unsigned char
  {
    unit,
    ch,
    int_,
    list,
    pair,
    none,
    some,
    inl,
    inr,
    tag,
    flt
  };

  kind k;
  long long n; // ch: code, int_: value, tag: k, flt: the bit pattern of the double
  std::vector<Val> kids;

  static Val unit() { return Val{kind::unit, 0, {}}; }
  static Val ch(long long c) { return Val{kind::ch, c, {}}; }
  static Val integer(long long i) { return Val{kind::int_, i, {}}; }
  static Val list(std::vector<Val> &&v) { return Val{kind::list, 0, std::move(v)}; }
  static Val none() { return Val{kind::none, 0, {}}; }
  static Val flt(double const d)
  {
    std::uint64_t bits = 0;
    static_assert(sizeof bits == sizeof d);
    std::memcpy(&bits, &d, sizeof bits);
    return Val{kind::flt, static_cast<long long>(bits), {}};
  }
  static Val one(kind k_, long long n_, Val &&v)
  {
    Val r{k_, n_, {}};
    r.kids.push_back(std::move(v));
    return r;
  }
  static Val pair(Val &&a, Val &&b)
  {
    Val r{kind::pair, 0, {}};
    r.kids.reserve(2);
    r.kids.push_back(std::move(a));
    r.kids.push_back(std::move(b));
    return r;
  }
};

void print(Val const &v, std::string &out)
{
  switch (v.k)
  {
  case Val::kind::unit:
    out += 'u';
    return;
  case Val::kind::ch:
    out += 'c';
    out += std::to_string(v.n);
    return;
  case Val::kind::int_:
    out += 'i';
    out += std::to_string(v.n);
    return;
  case Val::kind::flt:
    out += 'f';
    out += std::to_string(static_cast<unsigned long long>(v.n));
    return;
  case Val::kind::list:
  {
    out += '[';
    bool first = true;
    for (Val const &e : v.kids)
    {
      if (!first)
        out += ',';
      first = false;
      print(e, out);
    }
    out += ']';
    return;
  }
  case Val::kind::pair:
    out += '(';
    print(v.kids[0], out);
    out += ',';
    print(v.kids[1], out);
    out += ')';
    return;
  case Val::kind::none:
    out += 'N';
    return;
  case Val::kind::some:
    out += "S(";
    break;
  case Val::kind::inl:
    out += "L(";
    break;
  case Val::kind::inr:
    out += "R(";
    break;
  case Val::kind::tag:
    out += 'T';
    out += std::to_string(v.n);
    out += '(';
    break;
  }
  print(v.kids[0], out);
  out += ')';
}

FCPPT_MAKE_STRONG_TYPEDEF(Val, LeftT);
FCPPT_MAKE_STRONG_TYPEDEF(Val, RightT);

// con:k / ast:k - the Result types of construct<Result> and as_struct<Result> in the Val world
// construct.hpp documents `Result{v}` (list initialisation): a Result that has BOTH an initializer-list constructor and a
// constructor from the value tells the two forms apart (std::vector<unsigned>{3} is {3}, std::vector<unsigned>(3) is {0,0,0})
template <unsigned K>
struct con_t
{
  Val v;
  bool braces;
  con_t(std::initializer_list<Val> _l) : v{*_l.begin()}, braces{true} {}
  explicit con_t(Val &&_v) : v{std::move(_v)}, braces{false} {}
};

template <unsigned K>
struct ast_t
{
  Val a;
  Val b;
  ast_t(Val &&_a, Val &&_b) : a{std::move(_a)}, b{std::move(_b)} {}
};

template <unsigned K>
Val cv_con(con_t<K> &&c)
{
  // a struct built with Result(v) instead of Result{v} is shown under another tag, so it differs from the model's value
  return Val::one(Val::kind::tag, static_cast<long long>(c.braces ? K : K + 1000U), std::move(c.v));
}

template <unsigned K>
Val cv_ast(ast_t<K> &&c)
{
  return Val::one(Val::kind::tag, static_cast<long long>(K), Val::pair(std::move(c.a), std::move(c.b)));
}

// ---------------------------------------------------------------------------------------------
// Conversions from the natural result types of the combinators to Val
// ---------------------------------------------------------------------------------------------
Val cv_unit(fcppt::unit &&) { return Val::unit(); }

template <typename Ch>
Val cv_ch(Ch &&c)
{
  if constexpr (std::is_same_v<Ch, char>)
    return Val::ch(static_cast<long long>(static_cast<unsigned char>(c)));
  else
    return Val::ch(static_cast<long long>(c));
}

Val cv_ushort(unsigned short &&v) { return Val::integer(static_cast<long long>(v)); }
Val cv_short(short &&v) { return Val::integer(static_cast<long long>(v)); }
Val cv_double(double &&v) { return Val::flt(v); }

Val cv_pair(fcppt::tuple::object<Val, Val> &&t)
{
  return Val::pair(std::move(fcppt::tuple::get<0>(t)), std::move(fcppt::tuple::get<1>(t)));
}

Val cv_alt(fcppt::variant::object<LeftT, RightT> &&v)
{
  return fcppt::variant::match(
      std::move(v),
      [](LeftT &&l) { return Val::one(Val::kind::inl, 0, std::move(l.get())); },
      [](RightT &&r) { return Val::one(Val::kind::inr, 0, std::move(r.get())); });
}

Val cv_list(std::vector<Val> &&v) { return Val::list(std::move(v)); }

Val cv_opt(fcppt::optional::object<Val> &&o)
{
  return fcppt::optional::maybe(
      std::move(o),
      [] { return Val::none(); },
      [](Val &&v) { return Val::one(Val::kind::some, 0, std::move(v)); });
}

Val cv_rec(fcppt::recursive<Val> &&r) { return std::move(r.get()); }

// conv:k
Val conv0(Val &&v) { return Val::one(Val::kind::tag, 0, std::move(v)); }
Val conv1(Val &&v)
{
  if (v.k == Val::kind::pair)
    return Val::pair(std::move(v.kids[1]), std::move(v.kids[0]));
  return Val::one(Val::kind::tag, 1, std::move(v));
}
Val conv2(Val &&v)
{
  if (v.k == Val::kind::list)
    return Val::integer(static_cast<long long>(v.kids.size()));
  return Val::one(Val::kind::tag, 2, std::move(v));
}

// cif:k
template <typename Ch>
fp::result<Ch, Val> cif_fail()
{
  return fp::result<Ch, Val>{fp::error<Ch>{std::basic_string<Ch>{}}};
}
template <typename Ch>
fp::result<Ch, Val> cif0(Val &&v)
{
  if (v.k == Val::kind::ch && v.n == 97)
    return fp::result<Ch, Val>{Val::one(Val::kind::tag, 10, std::move(v))};
  return cif_fail<Ch>();
}
template <typename Ch>
fp::result<Ch, Val> cif1(Val &&v)
{
  if (v.k == Val::kind::list && v.kids.size() % 2U == 0U)
    return fp::result<Ch, Val>{Val::one(Val::kind::tag, 11, std::move(v))};
  return cif_fail<Ch>();
}
template <typename Ch>
fp::result<Ch, Val> cif2(Val &&v)
{
  if (v.k == Val::kind::ch && v.n == 98)
    return fp::result<Ch, Val>{fp::error<Ch>{std::basic_string<Ch>{}, fp::fatal_tag{}}};
  return fp::result<Ch, Val>{std::move(v)};
}

// ---------------------------------------------------------------------------------------------
// Grammar text -> AST
// ---------------------------------------------------------------------------------------------
enum class NK
{
  eps,
  fail,
  any,
  lit,
  cset,
  compl_,
  str,
  uint_,
  int_,
  float_,
  seq,
  alt,
  rep,
  plus,
  opt,
  not_,
  fatal,
  lex,
  ign,
  named,
  rec,
  conv,
  cif,
  sep,
  list,
  ref,
  con,
  ast,
  cst,
  spc,
  blk,
  dig
};

struct node_desc
{
  char const *name;
  NK kind;
  unsigned arity;
  bool param;
};

constexpr node_desc node_table[] = {
    {"eps", NK::eps, 0, false},     {"fail", NK::fail, 0, false},   {"any", NK::any, 0, false},
    {"lit", NK::lit, 0, true},      {"cset", NK::cset, 0, true},    {"compl", NK::compl_, 0, true},
    {"str", NK::str, 0, true},      {"uint", NK::uint_, 0, false},  {"int", NK::int_, 0, false},
    {"seq", NK::seq, 2, false},     {"alt", NK::alt, 2, false},     {"rep", NK::rep, 1, false},
    {"plus", NK::plus, 1, false},   {"opt", NK::opt, 1, false},     {"not", NK::not_, 1, false},
    {"fatal", NK::fatal, 1, false}, {"lex", NK::lex, 1, false},     {"ign", NK::ign, 1, false},
    {"named", NK::named, 1, false}, {"rec", NK::rec, 1, false},     {"conv", NK::conv, 1, true},
    {"cif", NK::cif, 1, true},      {"sep", NK::sep, 2, false},     {"list", NK::list, 4, false},
    {"ref", NK::ref, 0, true},      {"float", NK::float_, 0, false},{"con", NK::con, 1, true},
    {"ast", NK::ast, 1, true},      {"cst", NK::cst, 1, true},      {"spc", NK::spc, 0, false},
    {"blk", NK::blk, 0, false},     {"dig", NK::dig, 0, false}};

struct Node
{
  NK kind;
  std::string param;  // raw parameter characters (lit, cset, compl, str, cst)
  unsigned long num;  // conv / cif / ref / con / ast / cst (the integer constant)
  std::vector<std::size_t> kids;
};

struct Ast
{
  std::vector<Node> nodes;
  std::vector<std::size_t> roots;
};

constexpr std::size_t max_nodes = 4000;
constexpr unsigned max_depth = 300;

std::vector<std::string> split(std::string const &s, char const sep)
{
  std::vector<std::string> r;
  std::size_t pos = 0;
  while (true)
  {
    std::size_t const next = s.find(sep, pos);
    r.push_back(s.substr(pos, next == std::string::npos ? next : next - pos));
    if (next == std::string::npos)
      break;
    pos = next + 1;
  }
  return r;
}

bool ascii_only(std::string const &s)
{
  for (char const c : s)
    if (static_cast<unsigned char>(c) >= 128U || static_cast<unsigned char>(c) <= 32U)
      return false;
  return true;
}

std::optional<unsigned long> small_number(std::string const &s)
{
  if (s.empty() || s.size() > 6)
    return std::nullopt;
  unsigned long r = 0;
  for (char const c : s)
  {
    if (c < '0' || c > '9')
      return std::nullopt;
    r = r * 10UL + static_cast<unsigned long>(c - '0');
  }
  return r;
}

// returns the index of the parsed node, nullopt on any malformation
std::optional<std::size_t>
parse_expr(std::vector<std::string> const &toks, std::size_t &pos, Ast &ast, unsigned const depth)
{
  if (pos >= toks.size() || depth > max_depth || ast.nodes.size() >= max_nodes)
    return std::nullopt;
  std::string const &tok = toks[pos++];
  std::size_t const colon = tok.find(':');
  std::string const name = tok.substr(0, colon);
  bool const has_param = colon != std::string::npos;
  std::string const param = has_param ? tok.substr(colon + 1) : std::string{};
  if (param.find(':') != std::string::npos)
    return std::nullopt;
  node_desc const *desc = nullptr;
  for (node_desc const &d : node_table)
    if (name == d.name)
      desc = &d;
  if (desc == nullptr || desc->param != has_param)
    return std::nullopt;
  Node n{desc->kind, {}, 0, {}};
  switch (desc->kind)
  {
  case NK::lit:
    if (param.size() != 1)
      return std::nullopt;
    n.param = param;
    break;
  case NK::cset:
  case NK::compl_:
  case NK::str:
    n.param = param;
    break;
  case NK::conv:
  case NK::cif:
  case NK::ref:
  {
    auto const num = small_number(param);
    if (!num)
      return std::nullopt;
    if (desc->kind != NK::ref && *num > 2)
      return std::nullopt;
    n.num = *num;
    break;
  }
  case NK::con:
  case NK::ast:
  {
    auto const num = small_number(param);
    if (!num)
      return std::nullopt;
    if (desc->kind == NK::con ? (*num < 20 || *num >= 30) : (*num < 30 || *num >= 40))
      return std::nullopt;
    n.num = *num;
    break;
  }
  case NK::cst:
    // i<digits> (at most 4), c<char> or s<chars>
    if (param.size() == 2 && param[0] == 'c')
      n.param = param;
    else if (!param.empty() && param[0] == 's')
      n.param = param;
    else if (param.size() >= 2 && param.size() <= 5 && param[0] == 'i')
    {
      auto const num = small_number(param.substr(1));
      if (!num)
        return std::nullopt;
      n.num = *num;
      n.param = "i";
    }
    else
      return std::nullopt;
    break;
  default:
    break;
  }
  for (unsigned i = 0; i < desc->arity; ++i)
  {
    auto const kid = parse_expr(toks, pos, ast, depth + 1);
    if (!kid)
      return std::nullopt;
    n.kids.push_back(*kid);
  }
  // as_struct needs a tuple: in the Val world that is exactly a sequence node
  if (desc->kind == NK::ast && ast.nodes[n.kids[0]].kind != NK::seq)
    return std::nullopt;
  ast.nodes.push_back(std::move(n));
  return ast.nodes.size() - 1;
}

std::optional<Ast> parse_grammar(std::string const &text)
{
  if (!ascii_only(text))
    return std::nullopt;
  Ast ast;
  for (std::string const &rule : split(text, ';'))
  {
    std::vector<std::string> const toks = split(rule, '.');
    std::size_t pos = 0;
    auto const root = parse_expr(toks, pos, ast, 0);
    if (!root || pos != toks.size())
      return std::nullopt;
    ast.roots.push_back(*root);
  }
  for (Node const &n : ast.nodes)
    if (n.kind == NK::ref && n.num >= ast.roots.size())
      return std::nullopt;
  return ast;
}

using c02h::decode;
using c02h::decode_char;
using c02h::decode_set;

// ---------------------------------------------------------------------------------------------
// ref:<i> - indirection to a rule that is filled in after all rules have been built
// ---------------------------------------------------------------------------------------------
// Not part of fcppt: a left-recursive grammar (e.g. "ref:0") recurses forever in the library. So that
// such a line does not take the whole process down, more than max_ref_depth nested ref calls end the
// parse with the result line "exc:depth". main() runs everything on a thread with a large stack so
// that max_ref_depth levels of the deepest accepted rule always fit.
struct depth_exceeded
{
};

unsigned ref_depth = 0;
constexpr unsigned max_ref_depth = 200;

struct depth_guard
{
  depth_guard()
  {
    if (++ref_depth > max_ref_depth)
    {
      --ref_depth;
      throw depth_exceeded{};
    }
  }
  ~depth_guard() { --ref_depth; }
  depth_guard(depth_guard const &) = delete;
  depth_guard &operator=(depth_guard const &) = delete;
};

template <typename Ch, typename Sk>
class ref_parser : private fcppt::parse::tag
{
public:
  using result_type = Val;
  using slot_type = fp::base<Val, Ch, Sk> const *;

  explicit ref_parser(slot_type const *const _slot) : slot_{_slot} {}

  template <typename C, typename S>
  [[nodiscard]] fp::result<C, Val>
  parse(fcppt::reference<fp::basic_stream<C>> const _state, S const &_skipper) const
  {
    depth_guard const guard{};
    return (*this->slot_)->parse(_state, _skipper);
  }

private:
  slot_type const *slot_;
};

// ---------------------------------------------------------------------------------------------
// One (Ch, Skipper) world of type-erased nodes
// ---------------------------------------------------------------------------------------------
template <typename Ch, typename Sk>
class world
{
public:
  using base_t = fp::base<Val, Ch, Sk>;
  using ptr_t = fp::base_unique_ptr<Val, Ch, Sk>;
  using eps_world = world<Ch, fsk::epsilon>;
  static constexpr bool is_eps = std::is_same_v<Sk, fsk::epsilon>;

  // _eps: the epsilon-skipper world used below lex nodes (ignored if this is the epsilon world)
  world(Ast const &_ast, eps_world *const _eps)
      : ast_{_ast}, eps_{_eps}, nodes_{}, slots_(_ast.roots.size(), nullptr), start_{nullptr}, salt_{0U}
  {
    for (Node const &n : _ast.nodes)
      this->salt_ = vh::sm::mix(this->salt_ + static_cast<unsigned>(n.kind) + static_cast<unsigned>(n.num), n.param);
    for (std::size_t r = 0; r < this->ast_.roots.size(); ++r)
    {
      this->slots_[r] = &this->build(this->ast_.roots[r]);
      if (r == 0)
        this->start_ = &this->nodes_.back();
    }
  }

  world(world const &) = delete;
  world &operator=(world const &) = delete;

  [[nodiscard]] base_t const &start() const { return *this->slots_[0]; }
  [[nodiscard]] ptr_t const &start_ptr() const { return *this->start_; }

  base_t const &build(std::size_t const _idx)
  {
    Node const &n = this->ast_.nodes[_idx];
    auto const kid = [this, &n](std::size_t const i) {
      return fcppt::make_cref(this->build(n.kids[i]));
    };
    switch (n.kind)
    {
    case NK::eps:
      return this->add(fp::make_convert(fp::epsilon{}, &cv_unit));
    case NK::fail:
      return this->add(fp::make_convert(fp::fail<fcppt::unit>{}, &cv_unit));
    case NK::any:
      return this->add(fp::make_convert(fp::basic_char<Ch>{}, &cv_ch<Ch>));
    case NK::lit:
      return this->add(
          fp::make_convert(fp::basic_literal<Ch>{decode_char<Ch>(n.param[0])}, &cv_unit));
    case NK::cset:
      return this->add(
          fp::make_convert(fp::basic_char_set<Ch>{decode_set<Ch>(n.param)}, &cv_ch<Ch>));
    case NK::compl_:
      return this->add(
          fp::make_convert(~fp::basic_char_set<Ch>{decode_set<Ch>(n.param)}, &cv_ch<Ch>));
    case NK::str:
      return this->add(fp::make_convert(fp::basic_string<Ch>{decode<Ch>(n.param)}, &cv_unit));
    case NK::uint_:
      return this->add(fp::make_convert(fp::uint<unsigned short>{}, &cv_ushort));
    case NK::int_:
      return this->add(fp::make_convert(fp::int_<short>{}, &cv_short));
    case NK::float_:
      return this->add(fp::make_convert(fp::float_<double>{}, &cv_double));
    case NK::seq:
    {
      auto a = kid(0);
      auto b = kid(1);
      return this->add(fp::make_convert(std::move(a) >> std::move(b), &cv_pair));
    }
    case NK::alt:
    {
      auto a = kid(0);
      auto b = kid(1);
      return this->add(fp::make_convert(
          fp::construct<LeftT>(std::move(a)) | fp::construct<RightT>(std::move(b)), &cv_alt));
    }
    case NK::rep:
      return this->add(fp::make_convert(*kid(0), &cv_list));
    case NK::plus:
      return this->add(fp::make_convert(+kid(0), &cv_list));
    case NK::opt:
      return this->add(fp::make_convert(-kid(0), &cv_opt));
    case NK::not_:
      return this->add(fp::make_convert(!fp::make_ignore(kid(0)), &cv_unit));
    case NK::fatal:
      return this->add(fp::make_fatal(kid(0)));
    case NK::lex:
      if constexpr (is_eps)
        return this->add(fp::make_lexeme(kid(0)));
      else
        return this->add(fp::make_lexeme(fcppt::make_cref(this->eps_->build(n.kids[0]))));
    case NK::ign:
      return this->add(fp::make_convert(fp::make_ignore(kid(0)), &cv_unit));
    case NK::named:
      return this->add(fp::named<Ch, fcppt::reference<base_t const>>{
          kid(0), std::basic_string<Ch>{static_cast<Ch>('n'), static_cast<Ch>('m')}});
    case NK::rec:
      return this->add(fp::make_convert(fp::make_recursive(kid(0)), &cv_rec));
    case NK::conv:
      switch (n.num)
      {
      case 0:
        return this->add(fp::make_convert(kid(0), &conv0));
      case 1:
        return this->add(fp::make_convert(kid(0), &conv1));
      default:
        return this->add(fp::make_convert(kid(0), &conv2));
      }
    case NK::cif:
    {
      using cif_t = fp::convert_if<Ch, fcppt::reference<base_t const>, Val>;
      using fn_t = typename cif_t::function_type;
      switch (n.num)
      {
      case 0:
        return this->add(cif_t{kid(0), fn_t{&cif0<Ch>}});
      case 1:
        return this->add(cif_t{kid(0), fn_t{&cif1<Ch>}});
      default:
        return this->add(cif_t{kid(0), fn_t{&cif2<Ch>}});
      }
    }
    case NK::sep:
    {
      auto a = kid(0);
      auto b = kid(1);
      return this->add(
          fp::make_convert(fp::separator{std::move(a), fp::make_ignore(std::move(b))}, &cv_list));
    }
    case NK::list:
    {
      auto o = kid(0);
      auto a = kid(1);
      auto s = kid(2);
      auto c = kid(3);
      return this->add(fp::make_convert(
          fp::list{
              fp::make_ignore(std::move(o)),
              std::move(a),
              fp::make_ignore(std::move(s)),
              fp::make_ignore(std::move(c))},
          &cv_list));
    }
    case NK::ref:
      return this->add(ref_parser<Ch, Sk>{&this->slots_[n.num]});
    case NK::con:
      return this->with_k<20>(n.num, [this, &kid](auto const k) {
        return &this->add(fp::make_convert(fp::construct<con_t<decltype(k)::value>>(kid(0)), &cv_con<decltype(k)::value>));
      });
    case NK::ast:
    {
      // the child is a seq node (checked by the grammar decoder): as_struct over the real tuple<Val,Val> of a >> b
      Node const &sq = this->ast_.nodes[n.kids[0]];
      auto a = fcppt::make_cref(this->build(sq.kids[0]));
      auto b = fcppt::make_cref(this->build(sq.kids[1]));
      return this->with_k<30>(n.num, [this, &a, &b](auto const k) {
        return &this->add(fp::make_convert(
            fp::as_struct<ast_t<decltype(k)::value>>(std::move(a) >> std::move(b)), &cv_ast<decltype(k)::value>));
      });
    }
    case NK::cst:
    {
      Val constant{Val::unit()};
      if (n.param == "i")
        constant = Val::integer(static_cast<long long>(n.num));
      else if (n.param[0] == 'c')
        constant = cv_ch<Ch>(decode_char<Ch>(n.param[1]));
      else
      {
        // a constant that owns memory: a repetition must get a fresh copy every time
        std::vector<Val> chars;
        for (char const c : n.param.substr(1))
          chars.push_back(cv_ch<Ch>(decode_char<Ch>(c)));
        constant = Val::list(std::move(chars));
      }
      return this->add(fp::convert_const{fp::make_ignore(kid(0)), std::move(constant)});
    }
    case NK::spc:
      if constexpr (std::is_same_v<Ch, char>)
        return this->add(fp::make_convert(fp::space(), &cv_ch<Ch>));
      else
        return this->add(
            fp::make_convert(fp::basic_char_set<Ch>{fp::space_set<Ch>()}, &cv_ch<Ch>));
    case NK::blk:
      if constexpr (std::is_same_v<Ch, char>)
        return this->add(fp::make_convert(fp::blank(), &cv_ch<Ch>));
      else
        return this->add(
            fp::make_convert(fp::basic_char_set<Ch>{fp::blank_set<Ch>()}, &cv_ch<Ch>));
    case NK::dig:
      return this->add(fp::make_convert(fp::digits<Ch>(), &cv_ch<Ch>));
    }
    std::abort();
  }

private:
  // run-time k in [Base, Base+10) -> compile-time constant
  template <unsigned Base, typename F>
  base_t const &with_k(unsigned long const _k, F const &_f)
  {
    base_t const *r = nullptr;
    [&]<unsigned... I>(std::integer_sequence<unsigned, I...>) {
      ((_k == Base + I ? (r = _f(std::integral_constant<unsigned, Base + I>{}), 0) : 0), ...);
    }(std::make_integer_sequence<unsigned, 10>{});
    if (r == nullptr)
      std::abort();
    return *r;
  }

  template <typename Parser>
  base_t const &add(Parser &&_parser)
  {
    // the node's parser object travels through a special member of its class first (c02_route.hpp); the route is a
    // function of the grammar and of the node's number
    using parser_t = std::remove_cvref_t<Parser>;
    parser_t routed{c02route::routed_parser<parser_t>(
        parser_t(std::forward<Parser>(_parser)), this->salt_ + static_cast<unsigned>(this->nodes_.size()) * 5U)};
    // both ways of hiding a parser's type: the free function and the static member of grammar
    if (this->nodes_.size() % 2U == 0U)
      this->nodes_.push_back(fp::make_base<Ch, Sk>(std::move(routed)));
    else
      this->nodes_.push_back(fp::grammar<Val, Ch, Sk>::make_base(std::move(routed)));
    return *this->nodes_.back().get_pointer();
  }

  Ast const &ast_;
  eps_world *eps_;
  std::deque<ptr_t> nodes_;         // owns every node; references into a deque stay valid
  std::vector<base_t const *> slots_; // rule i -> its root node, fixed size
  ptr_t const *start_;
  unsigned salt_; // a hash of the grammar: the special-member routes of the nodes are a function of the operation
};

// The epsilon world (for everything below lex) plus the outer world.
template <typename Ch, typename Sk>
struct worlds
{
  explicit worlds(Ast const &_ast) : eps{_ast, nullptr}, outer{_ast, &eps} {}
  world<Ch, fsk::epsilon> eps;
  world<Ch, Sk> outer;
  [[nodiscard]] world<Ch, Sk> const &get() const { return outer; }
};

template <typename Ch>
struct worlds<Ch, fsk::epsilon>
{
  explicit worlds(Ast const &_ast) : eps{_ast, nullptr} {}
  world<Ch, fsk::epsilon> eps;
  [[nodiscard]] world<Ch, fsk::epsilon> const &get() const { return eps; }
};

// ---------------------------------------------------------------------------------------------
// Running
// ---------------------------------------------------------------------------------------------
struct counts
{
  unsigned long n = 0, ok = 0, fail = 0, fatal = 0;
};

template <typename Ch, typename Sk>
class runner
{
public:
  runner(Ast const &_ast, Sk const &_skipper, char const _entry)
      : worlds_{_ast},
        skipper_{_skipper},
        grammar_{fcppt::make_cref(worlds_.get().start_ptr()), Sk{_skipper}},
        entry_{_entry}
  {
  }

  std::string one(std::basic_string<Ch> &&_input, counts &_counts) const
  {
    ++_counts.n;
    ref_depth = 0;
    try
    {
      std::string suffix{};
      unsigned const route{c02route::route_of(_input, static_cast<unsigned>(this->entry_))};
      fp::result<Ch, Val> const res0{this->parse(std::move(_input), suffix)};
      // the result (one input in ten, chosen by the input itself, which keeps the exhaustive enumerations fast) travels through a special member of
      // either<error<Ch>, Val>, the error through one of error<Ch> (c02_route.hpp)
      std::string mm{};
      bool const routed{route % 10U == 0U};
      fp::result<Ch, Val> const res{
          routed ? c02route::routed_result<Ch, Val>(
                       mm,
                       route / 10U,
                       res0,
                       [](Val const &_v) { return Val::list(std::vector<Val>{_v, Val::integer(113)}); },
                       [](Val const &_v)
                       {
                         std::string o{};
                         print(_v, o);
                         return o;
                       })
                 : res0};
      if (res.has_success())
      {
        ++_counts.ok;
        std::string out{"ok "};
        print(res.get_success_unsafe(), out);
        return out + suffix + mm;
      }
      if (routed ? c02route::routed_error<Ch>(mm, route / 10U, res.get_failure_unsafe()).is_fatal()
               : res.get_failure_unsafe().is_fatal())
      {
        ++_counts.fatal;
        return "fatal" + suffix + mm;
      }
      ++_counts.fail;
      return "fail" + suffix + mm;
    }
    catch (depth_exceeded const &)
    {
      return "exc:depth";
    }
    catch (fcppt::exception const &)
    {
      return "exc:fcppt::exception";
    }
    catch (std::exception const &)
    {
      return "exc:std::exception";
    }
    catch (...)
    {
      return "exc:unknown";
    }
  }

private:
  // the stream entry points: no consume_remaining; _suffix = " @<offset the std::istream is left at>"
  fp::result<Ch, Val> parse_stream(std::basic_string<Ch> &&_input, std::string &_suffix) const
  {
    std::basic_istringstream<Ch> stream{std::move(_input)};
    stream.unsetf(std::ios_base::skipws);
    fp::result<Ch, Val> res{[&]() -> fp::result<Ch, Val> {
      if constexpr (std::is_same_v<Sk, fsk::epsilon>)
      {
        if (this->entry_ == 'q')
        {
          // fcppt::parse::parse on a basic_stream
          fp::detail::stream<Ch> state{fcppt::make_ref(
              static_cast<std::basic_istream<Ch> &>(stream))};
          return fp::parse(this->worlds_.get().start(), state);
        }
        if (this->entry_ == 't')
          return fp::parse_stream(this->worlds_.get().start(), stream);
      }
      return this->entry_ == 's'
                 ? fp::phrase_parse_stream(this->worlds_.get().start(), stream, this->skipper_)
                 : fp::grammar_parse_stream(stream, this->grammar_);
    }()};
    stream.clear();
    auto const pos{stream.tellg()};
    _suffix = " @" + std::to_string(static_cast<long long>(pos));
    return res;
  }

  fp::result<Ch, Val> parse(std::basic_string<Ch> &&_input, std::string &_suffix) const
  {
    fp::base<Val, Ch, Sk> const &start{this->worlds_.get().start()};
    switch (this->entry_)
    {
    case 's':
    case 'r':
    case 'q':
    case 't':
      return this->parse_stream(std::move(_input), _suffix);
    case 'p':
      if constexpr (std::is_same_v<Sk, fsk::epsilon>)
        return fp::parse_string(start, std::move(_input));
      else
        std::abort();
    case 'h':
      return fp::phrase_parse_string(start, std::move(_input), this->skipper_);
    default:
      return fp::grammar_parse_string(std::move(_input), this->grammar_);
    }
  }

  worlds<Ch, Sk> worlds_;
  Sk skipper_;
  fp::grammar<Val, Ch, Sk> grammar_;
  char entry_;
};

struct op
{
  bool is_enum;
  char entry;
  std::string const &payload; // input or alphabet (still encoded)
  unsigned maxlen;
};

template <typename Ch, typename Sk>
std::string go(Ast const &_ast, Sk const &_skipper, op const &_op)
{
  try
  {
    runner<Ch, Sk> const run{_ast, _skipper, _op.entry};
    counts cnt{};
    if (!_op.is_enum)
      return run.one(decode<Ch>(_op.payload), cnt);
    std::basic_string<Ch> const alphabet{decode<Ch>(_op.payload)};
    std::uint64_t h = vh::fnv_init;
    for (unsigned len = 0; len <= _op.maxlen; ++len)
    {
      std::vector<std::size_t> idx(len, 0);
      while (true)
      {
        std::basic_string<Ch> input;
        input.reserve(len);
        for (std::size_t const i : idx)
          input.push_back(alphabet[i]);
        h = vh::fnv(h, run.one(std::move(input), cnt) + "\n");
        // next string in lexicographic order, first character most significant
        std::size_t p = len;
        while (p > 0 && idx[p - 1] + 1 == alphabet.size())
        {
          idx[p - 1] = 0;
          --p;
        }
        if (p == 0)
          break;
        ++idx[p - 1];
      }
    }
    return "D " + vh::hex64(h) + " n=" + std::to_string(cnt.n) + " ok=" + std::to_string(cnt.ok) +
           " fail=" + std::to_string(cnt.fail) + " fatal=" + std::to_string(cnt.fatal);
  }
  catch (fcppt::exception const &)
  {
    return "exc:fcppt::exception";
  }
  catch (std::exception const &)
  {
    return "exc:std::exception";
  }
  catch (...)
  {
    return "exc:unknown";
  }
}

template <typename Ch>
auto space_skipper()
{
  if constexpr (std::is_same_v<Ch, char>)
    return fsk::space();
  else
    return fsk::basic_space<Ch>();
}

template <typename Ch>
std::string by_skipper(std::string const &_sk, Ast const &_ast, op const &_op)
{
  using cs_t = fsk::basic_char_set<Ch>;
  using lit_t = fsk::basic_literal<Ch>;
  using rep_t = fsk::repetition<cs_t>;
  using seq_t = fsk::sequence<lit_t, rep_t>;
  std::string const rest{_sk.substr(1)};
  if ((_op.entry == 'p' || _op.entry == 'q' || _op.entry == 't') && _sk != "E")
    return "bad-op";
  switch (_sk[0])
  {
  case 'E':
    if (!rest.empty())
      return "bad-op";
    return go<Ch, fsk::epsilon>(_ast, fsk::epsilon{}, _op);
  case 'S':
  {
    if (!rest.empty())
      return "bad-op";
    static_assert(std::is_same_v<decltype(space_skipper<Ch>()), rep_t>);
    return go<Ch, rep_t>(_ast, space_skipper<Ch>(), _op);
  }
  case 'R':
  {
    rep_t sk{*cs_t{decode_set<Ch>(rest)}};
    return go<Ch, rep_t>(_ast, sk, _op);
  }
  case 'L':
    if (rest.size() != 1)
      return "bad-op";
    return go<Ch, lit_t>(_ast, lit_t{decode_char<Ch>(rest[0])}, _op);
  case 'Q':
  {
    if (rest.empty())
      return "bad-op";
    seq_t sk{lit_t{decode_char<Ch>(rest[0])} >> *cs_t{decode_set<Ch>(rest.substr(1))}};
    return go<Ch, seq_t>(_ast, sk, _op);
  }
  case 'C':
    return go<Ch, cs_t>(_ast, cs_t{decode_set<Ch>(rest)}, _op);
  default:
    return "bad-op";
  }
}

std::string handle(std::vector<std::string> const &t)
{
  if (t.empty())
    return "bad-op";
  bool const is_typed = t[0] == "typed" || t[0] == "tenum";
  bool const is_enum = t[0] == "enum" || t[0] == "tenum";
  if (!is_enum && t[0] != "run" && t[0] != "typed")
    return "bad-op";
  if (t.size() != (is_enum ? 6U : 5U))
    return "bad-op";
  std::string const &ce = t[1];
  std::string const &sk = t[2];
  if (ce.size() != 2 || (ce[0] != 'c' && ce[0] != 'w') ||
      (ce[1] != 'p' && ce[1] != 'h' && ce[1] != 'g' && ce[1] != 's' && ce[1] != 'r' && ce[1] != 'q' && ce[1] != 't'))
    return "bad-op";
  if (sk.empty() || !ascii_only(sk))
    return "bad-op";
  if (t[4].empty() || t[4][0] != '=' || !ascii_only(t[4]))
    return "bad-op";
  std::string const payload{t[4].substr(1)};
  unsigned maxlen = 0;
  if (is_enum)
  {
    auto const ml = small_number(t[5]);
    if (!ml || *ml > 10 || payload.empty() || payload.size() > 6)
      return "bad-op";
    maxlen = static_cast<unsigned>(*ml);
  }
  if (is_typed)
    return c02typed::run(ce, sk, t[3], c02typed::top{is_enum, ce[1], payload, maxlen});
  auto const ast = parse_grammar(t[3]);
  if (!ast)
    return "bad-op";
  op const o{is_enum, ce[1], payload, maxlen};
  return ce[0] == 'c' ? by_skipper<char>(sk, *ast, o) : by_skipper<wchar_t>(sk, *ast, o);
}
}

namespace
{
int exit_code = 0;

void *thread_main(void *)
{
  exit_code = vh::run(handle);
  return nullptr;
}
}

int main()
{
  pthread_attr_t attr;
  pthread_t thread;
  if (pthread_attr_init(&attr) == 0 && pthread_attr_setstacksize(&attr, std::size_t{1} << 30U) == 0 &&
      pthread_create(&thread, &attr, thread_main, nullptr) == 0)
  {
    pthread_join(thread, nullptr);
    return exit_code;
  }
  return vh::run(handle);
}
