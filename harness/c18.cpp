// C18 correspondence harness: runs the real fcppt ranges / iterators on the operation lines described in
// lean/FcpptModel/Drv/C18.lean and prints the same canonical result lines.
// Every loop over an implementation-produced range is capped (prints `overrun`).
#include "common/vh.hpp"
#include "common/route.hpp"

#include <fcppt/cyclic_iterator.hpp>
#include <fcppt/int_range_impl.hpp>
#include <fcppt/literal.hpp>
#include <fcppt/make_int_range.hpp>
#include <fcppt/make_int_range_count.hpp>
#include <fcppt/make_literal_strong_typedef.hpp>
#include <fcppt/make_strong_typedef.hpp>
#include <fcppt/strong_typedef.hpp>
#include <fcppt/tag.hpp>
#include <fcppt/algorithm/loop.hpp>
#include <fcppt/algorithm/loop_break_mpl.hpp>
#include <fcppt/cast/enum_to_int.hpp>
#include <fcppt/cast/int_to_enum.hpp>
#include <fcppt/container/grid/make_spiral_range.hpp>
#include <fcppt/container/grid/moore_neighbors.hpp>
#include <fcppt/container/grid/neumann_neighbors.hpp>
#include <fcppt/container/grid/pos.hpp>
#include <fcppt/enum/make_range.hpp>
#include <fcppt/enum/make_range_start.hpp>
#include <fcppt/enum/make_range_start_end.hpp>
#include <fcppt/enum/range_impl.hpp>
#include <fcppt/enum/size_type.hpp>
#include <fcppt/iterator/adapt_range.hpp>
#include <fcppt/iterator/make_range.hpp>
#include <fcppt/iterator/range_comparison.hpp>
#include <fcppt/iterator/range_impl.hpp>
#include <fcppt/iterator/base_impl.hpp>
#include <fcppt/int_iterator_impl.hpp>
#include <fcppt/enum/iterator_impl.hpp>
#include <fcppt/container/grid/spiral_iterator_impl.hpp>
#include <fcppt/container/grid/spiral_range_impl.hpp>
#include <fcppt/tuple/get.hpp>
#include <fcppt/math/int_range.hpp>
#include <fcppt/math/int_range_count.hpp>
#include <fcppt/range/empty.hpp>
#include <fcppt/range/from_pair.hpp>
#include <fcppt/range/singular.hpp>
#include <fcppt/range/size.hpp>
#include <fcppt/type_iso/strong_typedef.hpp>
#include <fcppt/type_iso/undecorate.hpp>

#include <algorithm>
#include <cstdint>
#include <iterator>
#include <limits>
#include <list>
#include <string>
#include <type_traits>
#include <utility>
#include <vector>

namespace
{
constexpr std::size_t cap = 300;
constexpr std::size_t spiral_cap = 5000;

FCPPT_MAKE_STRONG_TYPEDEF(std::int8_t, si8);
FCPPT_MAKE_STRONG_TYPEDEF(std::uint8_t, su8);
FCPPT_MAKE_STRONG_TYPEDEF(std::int32_t, si32);
FCPPT_MAKE_STRONG_TYPEDEF(std::uint32_t, su32);
FCPPT_MAKE_STRONG_TYPEDEF(std::int16_t, si16);
FCPPT_MAKE_STRONG_TYPEDEF(std::uint16_t, su16);
FCPPT_MAKE_STRONG_TYPEDEF(std::int64_t, si64);
FCPPT_MAKE_STRONG_TYPEDEF(std::uint64_t, su64);

std::string i128_str(__int128 v)
{
  if (v == 0)
    return "0";
  bool const neg = v < 0;
  unsigned __int128 u = neg ? -static_cast<unsigned __int128>(v) : static_cast<unsigned __int128>(v);
  std::string r;
  while (u != 0)
  {
    r.insert(r.begin(), static_cast<char>('0' + static_cast<int>(u % 10)));
    u /= 10;
  }
  return neg ? "-" + r : r;
}

template <typename T>
std::string num(T const v)
{
  if constexpr (std::is_same_v<T, __int128>)
    return i128_str(v);
  else if constexpr (std::is_signed_v<T>)
    return std::to_string(static_cast<long long>(v));
  else
    return std::to_string(static_cast<unsigned long long>(v));
}

__int128 parse(std::string const &s)
{
  bool const neg = !s.empty() && s[0] == '-';
  __int128 r = 0;
  std::size_t i = neg ? 1 : 0;
  if (i >= s.size())
    throw std::invalid_argument("num");
  for (; i < s.size(); ++i)
  {
    if (s[i] < '0' || s[i] > '9')
      throw std::invalid_argument("num");
    r = r * 10 + (s[i] - '0');
    if (r > (static_cast<__int128>(1) << 100))
      throw std::invalid_argument("num");
  }
  return neg ? -r : r;
}

template <typename U>
bool fits(__int128 const v)
{
  return v >= static_cast<__int128>(std::numeric_limits<U>::min()) &&
         v <= static_cast<__int128>(std::numeric_limits<U>::max());
}

std::string join_str(std::vector<std::string> const &v)
{
  if (v.empty())
    return "-";
  std::string r;
  for (std::size_t i = 0; i < v.size(); ++i)
  {
    if (i != 0)
      r += ',';
    r += v[i];
  }
  return r;
}

// ------------------------------------------------------------------ int_range

// Int: the range's element type, U: its undecorated (fundamental) type
template <typename Int, typename U, bool Strong>
std::string range_line(fcppt::int_range<Int> const &r, __int128 const b, __int128 const e)
{
  static_assert(std::is_same_v<typename fcppt::int_range<Int>::size_type, U>);
  static_assert(std::is_same_v<typename fcppt::int_range<Int>::value_type, Int>);
  static_assert(std::is_same_v<typename fcppt::int_range<Int>::iterator, fcppt::int_iterator<Int>>);
  static_assert(std::is_same_v<typename fcppt::int_range<Int>::const_iterator, fcppt::int_iterator<Int>>);
  static_assert(std::is_same_v<typename std::iterator_traits<fcppt::int_iterator<Int>>::iterator_category, std::input_iterator_tag>);
  std::vector<U> vals;
  vals.reserve(cap);
  bool overrun = false;
  for (Int const v : r)
  {
    if (vals.size() == cap)
    {
      overrun = true;
      break;
    }
    vals.push_back(fcppt::type_iso::undecorate(v));
  }
  std::string res = "overrun";
  if (!overrun)
  {
    std::vector<std::string> out;
    for (U const v : vals)
      out.push_back(num(v));
    res = "n=" + std::to_string(out.size()) + " e=" + join_str(out);
  }
  // size(): for int / long the subtraction end_ - begin_ is undefined when it overflows; the harness does not execute
  // undefined behaviour (the model reports the same condition as a fault) - see op `irub` for the real call.
  __int128 const cnt = e < b ? 0 : e - b;
  bool const ub = std::is_signed_v<U> && sizeof(U) >= sizeof(int) && cnt > static_cast<__int128>(std::numeric_limits<U>::max());
  res += " size=" + (ub ? std::string("ub") : num(r.size()));
  std::string rs = "-";
  if constexpr (std::is_signed_v<U> && !Strong)
  {
    if (!overrun)
      rs = num(fcppt::range::size(r));
  }
  // begin() / end() observed directly: the clamp of the constructor is visible in *end()
  res += " rs=" + rs + " be=" + num(fcppt::type_iso::undecorate(*r.begin())) + ":" + num(fcppt::type_iso::undecorate(*r.end()));
  // range::empty / range::singular (singular increments a copy of begin(): never at the maximum, because the range is not empty then)
  res += std::string(" es=") + (fcppt::range::empty(r) ? "1" : "0");
  if constexpr (Strong) // std::next(int_iterator<strong typedef>) does not compile: the difference_type is the strong typedef
    return res + "-";
  else
    return res + (fcppt::range::singular(r) ? "1" : "0");
}

template <typename Int, typename U, bool Strong>
std::string ir_line(__int128 const b, __int128 const e)
{
  if (!fits<U>(b) || !fits<U>(e))
    return "bad-op";
  // the constructor called directly must agree with make_int_range
  fcppt::int_range<Int> const direct(Int(static_cast<U>(b)), Int(static_cast<U>(e)));
  fcppt::int_range<Int> const made{fcppt::make_int_range(Int(static_cast<U>(b)), Int(static_cast<U>(e)))};
  if (!(direct.begin() == made.begin()) || direct.end() != made.end())
    return "ctor-mismatch";
  // the range travels through a special member of int_range before it is looked at (a value: begin AND end must
  // survive; common/route.hpp, notes/sweep.md); the route is a function of the bounds, the former value of an assignment
  // target is a range with two other bounds
  unsigned const route{static_cast<unsigned>(static_cast<unsigned long long>(b) * 31ULL + static_cast<unsigned long long>(e) * 7ULL + (Strong ? 3U : 0U))};
  fcppt::int_range<Int> const routed{vh::sm::route(
      route,
      made,
      [&made]
      {
        fcppt::int_range<Int> const c1(Int(static_cast<U>(1)), Int(static_cast<U>(2)));
        if (c1.begin() != made.begin() && c1.end() != made.end())
          return c1;
        fcppt::int_range<Int> const c2(Int(static_cast<U>(3)), Int(static_cast<U>(5)));
        if (c2.begin() != made.begin() && c2.end() != made.end())
          return c2;
        return fcppt::int_range<Int>(Int(static_cast<U>(6)), Int(static_cast<U>(9)));
      })};
  std::string mm{};
  if (routed.begin() != made.begin() || routed.end() != made.end())
    vh::sm::note_mismatch(mm, "int_range", vh::sm::route_name(route));
  return range_line<Int, U, Strong>(routed, b, e) + mm;
}

// the operations of iterator::base on an input iterator used directly: It is int_iterator<Int> or enum_::iterator<E>,
// mk makes one from a number, shw prints one
template <typename It, typename Mk, typename Shw>
std::string iter_ops_line(Mk const &mk, Shw const &shw, bool const incr_is_ub, __int128 const a, __int128 const b)
{
  It const ia{mk(a)}, ib{mk(b)};
  // the public members the operators are made of, called directly
  if (ia.equal(ib) != (ia == ib) || ib.equal(ia) != (ib == ia) || !ia.equal(ia))
    return "equal-mismatch";
  std::string r = std::string("eq=") + (ia == ib ? "1" : "0") + " ne=" + (ia != ib ? "1" : "0") + " self=" + (ia == ia ? "1" : "0") +
                  (ia != ia ? "1" : "0") + " d=" + shw(ia) + "," + shw(ib) + " post=";
  if (incr_is_ub)
    r += "ub";
  else
  {
    It x{ia};
    It const old{x++};
    It y{ia};
    It &ref{++y};
    It w{ia};
    w.increment();
    r += shw(old) + ">" + shw(x) + (&ref == &y && y == x && w == x ? "" : "!pre");
  }
  It x{ia}, y{ib};
  x.swap(y);
  r += " sw=" + shw(x) + "," + shw(y);
  fcppt::iterator::swap(x, y);
  r += " fsw=" + shw(x) + "," + shw(y);
  x.swap(x);
  r += " ssw=" + shw(x);
  return r;
}

template <typename Int, typename U>
std::string iit_line(__int128 const a, __int128 const b)
{
  if (!fits<U>(a) || !fits<U>(b))
    return "bad-op";
  using it = fcppt::int_iterator<Int>;
  bool const ub = std::is_signed_v<U> && sizeof(U) >= sizeof(int) && a == static_cast<__int128>(std::numeric_limits<U>::max());
  return iter_ops_line<it>(
      [](__int128 const v) { return it(Int(static_cast<U>(v))); },
      [](it const &i) { return num(fcppt::type_iso::undecorate(*i)); },
      ub,
      a,
      b);
}

template <typename Int, typename U>
std::string itri_line(__int128 const b, __int128 const e)
{
  if (!fits<U>(b) || !fits<U>(e))
    return "bad-op";
  if (std::is_signed_v<U> && sizeof(U) >= sizeof(int) && e < b)
    return "bad-op";
  using it = fcppt::int_iterator<Int>;
  auto const r = fcppt::iterator::make_range(it(Int(static_cast<U>(b))), it(Int(static_cast<U>(e))));
  std::vector<U> vals;
  vals.reserve(cap);
  for (Int const v : r)
  {
    if (vals.size() == cap)
      return "overrun";
    vals.push_back(fcppt::type_iso::undecorate(v));
  }
  std::vector<std::string> out;
  for (U const v : vals)
    out.push_back(num(v));
  return "n=" + std::to_string(out.size()) + " e=" + join_str(out);
}

template <typename Int, typename U, bool Strong>
std::string ir_ops(std::vector<std::string> const &t)
{
  if (t[0] == "ir" && t.size() == 4)
    return ir_line<Int, U, Strong>(parse(t[2]), parse(t[3]));
  if (t[0] == "irub" && t.size() == 4)
  {
    // the real size() call, whatever it does (UBSan reports the overflow)
    __int128 const b = parse(t[2]), e = parse(t[3]);
    if (!fits<U>(b) || !fits<U>(e))
      return "bad-op";
    return "size=" + num(fcppt::make_int_range(Int(static_cast<U>(b)), Int(static_cast<U>(e))).size());
  }
  if (t[0] == "irc" && t.size() == 3)
  {
    __int128 const n = parse(t[2]);
    if (!fits<U>(n))
      return "bad-op";
    return range_line<Int, U, Strong>(fcppt::make_int_range_count(Int(static_cast<U>(n))), 0, n);
  }
  if (t[0] == "iit" && t.size() == 4)
    return iit_line<Int, U>(parse(t[2]), parse(t[3]));
  if (t[0] == "itri" && t.size() == 4)
    return itri_line<Int, U>(parse(t[2]), parse(t[3]));
  if ((t[0] == "iits" || t[0] == "itris") && t.size() == 3)
  {
    if constexpr (sizeof(U) <= 2)
    {
      __int128 const a = parse(t[2]);
      if (!fits<U>(a))
        return "bad-op";
      std::uint64_t h = vh::fnv_init;
      for (int e = std::numeric_limits<U>::min(); e <= std::numeric_limits<U>::max(); ++e)
        h = vh::fnv(h, t[0] == "iits" ? iit_line<Int, U>(a, e) : itri_line<Int, U>(a, e));
      return "D " + vh::hex64(h);
    }
    else
      return "bad-op";
  }
  if (t[0] == "irs" && t.size() == 3)
  {
    if constexpr (sizeof(U) <= 2)
    {
      __int128 const b = parse(t[2]);
      if (!fits<U>(b))
        return "bad-op";
      std::uint64_t h = vh::fnv_init;
      for (int e = std::numeric_limits<U>::min(); e <= std::numeric_limits<U>::max(); ++e)
        h = vh::fnv(h, ir_line<Int, U, Strong>(b, e));
      return "D " + vh::hex64(h);
    }
    else
      return "bad-op";
  }
  return "bad-op";
}

std::string ir_dispatch(std::vector<std::string> const &t)
{
  if (t.size() < 3)
    return "bad-op";
  std::string const &ty = t[1];
  if (ty == "i8") return ir_ops<std::int8_t, std::int8_t, false>(t);
  if (ty == "u8") return ir_ops<std::uint8_t, std::uint8_t, false>(t);
  if (ty == "i16") return ir_ops<std::int16_t, std::int16_t, false>(t);
  if (ty == "u16") return ir_ops<std::uint16_t, std::uint16_t, false>(t);
  if (ty == "i32") return ir_ops<std::int32_t, std::int32_t, false>(t);
  if (ty == "u32") return ir_ops<std::uint32_t, std::uint32_t, false>(t);
  if (ty == "i64") return ir_ops<std::int64_t, std::int64_t, false>(t);
  if (ty == "u64") return ir_ops<std::uint64_t, std::uint64_t, false>(t);
  if (ty == "si8") return ir_ops<si8, std::int8_t, true>(t);
  if (ty == "su8") return ir_ops<su8, std::uint8_t, true>(t);
  if (ty == "si32") return ir_ops<si32, std::int32_t, true>(t);
  if (ty == "su32") return ir_ops<su32, std::uint32_t, true>(t);
  if (ty == "si16") return ir_ops<si16, std::int16_t, true>(t);
  if (ty == "su16") return ir_ops<su16, std::uint16_t, true>(t);
  if (ty == "si64") return ir_ops<si64, std::int64_t, true>(t);
  if (ty == "su64") return ir_ops<su64, std::uint64_t, true>(t);
  return "bad-op";
}

// ------------------------------------------------------------------ enum ranges

enum class e1 { v0, fcppt_maximum = v0 };
enum class e2 : std::uint8_t { v0, v1, fcppt_maximum = v1 };
enum class e3 { v0, v1, v2, fcppt_maximum = v2 };
enum class e4 : signed char { v0, v1, v2, v3, fcppt_maximum = v3 };
enum class e5 : std::uint16_t { v0, v1, v2, v3, v4, fcppt_maximum = v4 };
enum class e6 : std::uint32_t { v0, v1, v2, v3, v4, v5, fcppt_maximum = v5 };
enum class e7 : std::int64_t { v0, v1, v2, v3, v4, v5, v6, fcppt_maximum = v6 };
enum class e8 : short { v0, v1, v2, v3, v4, v5, v6, v7, fcppt_maximum = v7 };
enum class e9 : std::uint8_t { v0, v1, v2, v3, v4, v5, v6, v7, v8, fcppt_maximum = v8 };
// the boundary of the size_type: 256 enumerators over an 8-bit type
enum class e256 : std::uint8_t { v0 = 0, fcppt_maximum = 255 };

// the constexpr members in constant expressions.  int_range<Int>::size() is declared constexpr but calls the non-constexpr
// type_iso::undecorate, so it can never be evaluated at compile time (observation, notes/C18.md); the constructor can.
[[maybe_unused]] constexpr fcppt::int_range<int> constexpr_int_range(4, 1);
static_assert(fcppt::enum_::range<e5>(1, 4).size() == 3);

template <typename E>
std::string enum_line(fcppt::enum_::range<E> const &r)
{
  std::vector<std::string> out;
  bool overrun = false;
  for (E const v : r)
  {
    if (out.size() == cap)
    {
      overrun = true;
      break;
    }
    out.push_back(num(fcppt::cast::enum_to_int<fcppt::enum_::size_type<E>>(v)));
  }
  return (overrun ? std::string("overrun") : "n=" + std::to_string(out.size()) + " e=" + join_str(out)) +
         " size=" + num(r.size()) + " es=" + (fcppt::range::empty(r) ? "1" : "0") + (fcppt::range::singular(r) ? "1" : "0");
}

template <typename E, unsigned N>
std::string enum_ops(std::vector<std::string> const &t)
{
  using st = fcppt::enum_::size_type<E>;
  if (vh::to_ull(t[2]) != sizeof(st) * 8U)
    return "bad-op";
  auto const en = [](unsigned long long const i) { return fcppt::cast::int_to_enum<E>(static_cast<st>(i)); };
  if (t[0] == "er" && t.size() == 5)
  {
    auto const s = vh::to_ull(t[3]), e = vh::to_ull(t[4]);
    if (s >= N || e >= N)
      return "bad-op";
    return enum_line<E>(fcppt::enum_::make_range_start_end(en(s), en(e)));
  }
  if (t[0] == "ers" && t.size() == 4)
  {
    auto const s = vh::to_ull(t[3]);
    if (s >= N)
      return "bad-op";
    return enum_line<E>(fcppt::enum_::make_range_start(en(s)));
  }
  if (t[0] == "era" && t.size() == 3)
    return enum_line<E>(fcppt::enum_::make_range<E>());
  unsigned long long const lim = sizeof(st) >= 8 ? ~0ULL : (1ULL << (sizeof(st) * 8U)) - 1ULL;
  if (t[0] == "erd" && t.size() == 5)
  {
    auto const b = vh::to_ull(t[3]), e = vh::to_ull(t[4]);
    if (b > lim || e > lim)
      return "bad-op";
    return enum_line<E>(fcppt::enum_::range<E>(static_cast<st>(b), static_cast<st>(e)));
  }
  if (t[0] == "eit" && t.size() == 5)
  {
    auto const a = vh::to_ull(t[3]), b = vh::to_ull(t[4]);
    if (a > N || b > N || a > lim || b > lim)
      return "bad-op";
    using it = fcppt::enum_::iterator<E>;
    // an iterator is shown as the number v <= N with it == iterator(v) (values above N are no enumerators: never dereferenced)
    auto const shw = [lim](it const &i) -> std::string
    {
      for (unsigned long long v = 0; v <= N && v <= lim; ++v)
        if (i == it(static_cast<st>(v)))
        {
          if (v < N && fcppt::cast::enum_to_int<st>(*i) != static_cast<st>(v))
            return "deref-mismatch";
          return std::to_string(v);
        }
      return "?";
    };
    return iter_ops_line<it>([](__int128 const v) { return it(static_cast<st>(v)); }, shw, false, static_cast<__int128>(a), static_cast<__int128>(b));
  }
  return "bad-op";
}

std::string enum_dispatch(std::vector<std::string> const &t)
{
  if (t.size() < 3)
    return "bad-op";
  switch (vh::to_ull(t[1]))
  {
  case 1: return enum_ops<e1, 1>(t);
  case 2: return enum_ops<e2, 2>(t);
  case 3: return enum_ops<e3, 3>(t);
  case 4: return enum_ops<e4, 4>(t);
  case 5: return enum_ops<e5, 5>(t);
  case 6: return enum_ops<e6, 6>(t);
  case 7: return enum_ops<e7, 7>(t);
  case 8: return enum_ops<e8, 8>(t);
  case 9: return enum_ops<e9, 9>(t);
  case 256: return enum_ops<e256, 256>(t);
  default: return "bad-op";
  }
}

// ------------------------------------------------------------------ containers: element k is 3k+1

template <typename C>
C make_container(std::size_t const len)
{
  C c;
  for (std::size_t k = 0; k < len; ++k)
    c.push_back(static_cast<int>(3 * k + 1));
  return c;
}

// ------------------------------------------------------------------ cyclic iterator

using ivec = std::vector<int>;
using ilist = std::list<int>;

std::string cyc_line(std::vector<std::string> const &t)
{
  if (t.size() != 6)
    return "bad-op";
  long long const len = vh::to_ll(t[1]), f = vh::to_ll(t[2]), s = vh::to_ll(t[3]), start = vh::to_ll(t[4]), k = vh::to_ll(t[5]);
  if (!(0 <= f && f < s && s <= len && f <= start && start < s && len <= 64))
    return "bad-op";
  ivec const v{make_container<ivec>(static_cast<std::size_t>(len))};
  using iterator = fcppt::cyclic_iterator<ivec::const_iterator>;
  iterator const it0{v.begin() + start, iterator::boundary{v.begin() + f, v.begin() + s}};
  iterator const a{it0 + k};
  iterator b{it0};
  b += k;
  iterator const c{it0 - (-k)};
  iterator d{it0};
  d -= -k;
  iterator const e{k + it0};
  iterator g{it0};
  g.advance(k); // the public member behind += called directly
  bool const alt = a == b && a == c && a == d && a == e && a.get() == b.get() && a.get() == c.get() && a.get() == d.get() && a.get() == e.get() &&
                   g.get() == a.get() && a.equal(g) && it0.distance_to(a) == a - it0 && a.dereference() == *a;
  iterator st{it0};
  for (long long i = 0; i < (k < 0 ? -k : k); ++i)
  {
    // alternate between the operators and the public members behind them
    if (k < 0)
    {
      if (i % 2 == 0) --st; else st.decrement();
    }
    else
    {
      if (i % 2 == 0) ++st; else st.increment();
    }
  }
  auto const idx = [&v](iterator const &i) { return static_cast<long long>(i.get() - v.begin()); };
  bool const inb = f <= idx(a) && idx(a) < s && f <= idx(st) && idx(st) < s;
  // dereference only inside the container
  std::string const val = (0 <= idx(a) && idx(a) < len) ? std::to_string(*a) : "outside";
  return "adv=" + std::to_string(idx(a)) + " val=" + val + " alt=" + (alt ? "1" : "0") + " steps=" + std::to_string(idx(st)) +
         " inb=" + (inb ? "1" : "0") + " dist=" + std::to_string(static_cast<long long>(a - it0));
}

template <typename C, bool RandomAccess>
std::string cycw_line(std::vector<std::string> const &t, bool const relaxed)
{
  long long const len = vh::to_ll(t[2]), f = vh::to_ll(t[3]), s = vh::to_ll(t[4]), start = vh::to_ll(t[5]);
  if (relaxed)
  {
    // any position, any boundary f <= s (also empty); a margin of one position per operation on both sides keeps every
    // container iterator that can be produced valid
    long long const n = static_cast<long long>(t.size()) - 6;
    long long const lo = std::min(start, std::min(f, s)), hi = std::max(start, std::max(f, s));
    if (!(0 <= f && f <= s && len <= 64 && 0 <= start && n >= 1 && n <= lo && hi + n <= len))
      return "bad-op";
  }
  else if (!(0 <= f && f < s && s <= len && f <= start && start < s && len <= 64))
    return "bad-op";
  C const c{make_container<C>(static_cast<std::size_t>(len))};
  using iterator = fcppt::cyclic_iterator<typename C::const_iterator>;
  auto const at = [&c](long long const i) { return std::next(c.begin(), i); };
  iterator it{at(start), typename iterator::boundary{at(f), at(s)}};
  auto const idx = [&c](iterator const &i) { return std::to_string(static_cast<long long>(std::distance(c.begin(), i.get()))); };
  std::vector<std::string> tr;
  // the operators that return *this must return a reference to the very object
  auto const same = [&it](iterator const &r) { return &r == &it ? std::string() : std::string("!ref"); };
  for (std::size_t k = 6; k < t.size(); ++k)
  {
    std::string const &o = t[k];
    char const ch = o[0];
    if ((ch == '+' || ch == '-' || ch == 'p' || ch == 'm') && o.size() == 1)
    {
      if (ch == '+') { std::string const r{same(++it)}; tr.push_back(idx(it) + r); }
      else if (ch == '-') { std::string const r{same(--it)}; tr.push_back(idx(it) + r); }
      else if (ch == 'p') { iterator const old{it++}; tr.push_back(idx(old) + ">" + idx(it)); }
      else { iterator const old{it--}; tr.push_back(idx(old) + ">" + idx(it)); }
    }
    else if ((ch == 'a' || ch == 's' || ch == 'i') && o.size() > 1)
    {
      if constexpr (RandomAccess)
      {
        long long const n = vh::to_ll(o.substr(1));
        if (ch == 'a') { std::string const r{same(it += n)}; tr.push_back(idx(it) + r); }
        else if (ch == 's') { std::string const r{same(it -= n)}; tr.push_back(idx(it) + r); }
        else tr.push_back("v" + std::to_string(it[n]));
      }
      else
        return "bad-op";
    }
    else
      return "bad-op";
  }
  return join_str(tr);
}

struct cell
{
  int v;
  int w;
};

// two cyclic iterators at arbitrary positions of one container, each with its own (possibly empty) boundary
std::string cycp_line(std::vector<std::string> const &t)
{
  if (t.size() != 8)
    return "bad-op";
  long long const len = vh::to_ll(t[1]), f1 = vh::to_ll(t[2]), s1 = vh::to_ll(t[3]), i = vh::to_ll(t[4]), f2 = vh::to_ll(t[5]),
                  s2 = vh::to_ll(t[6]), j = vh::to_ll(t[7]);
  if (!(0 <= f1 && f1 <= s1 && s1 <= len && 0 <= i && i <= len && 0 <= f2 && f2 <= s2 && s2 <= len && 0 <= j && j <= len && len <= 64))
    return "bad-op";
  std::vector<cell> c;
  for (long long k = 0; k < len; ++k)
    c.push_back(cell{static_cast<int>(3 * k + 1), static_cast<int>(k)});
  using cit = std::vector<cell>::const_iterator;
  using iterator = fcppt::cyclic_iterator<cit>;
  iterator x{c.cbegin() + i, iterator::boundary{c.cbegin() + f1, c.cbegin() + s1}};
  iterator y{c.cbegin() + j, iterator::boundary{c.cbegin() + f2, c.cbegin() + s2}};
  auto const b = [](bool const v) { return v ? "1" : "0"; };
  auto const pos = [&c](cit const p) { return std::to_string(static_cast<long long>(p - c.cbegin())); };
  auto const show = [&pos](iterator const &k)
  { return pos(k.get()) + ":" + pos(fcppt::tuple::get<0>(k.get_boundary())) + ":" + pos(fcppt::tuple::get<1>(k.get_boundary())); };
  iterator const &cx{x};
  iterator const &cy{y};
  std::string r = std::string("cmp=") + b(cx == cy) + b(cx != cy) + b(cx < cy) + b(cx > cy) + b(cx <= cy) + b(cx >= cy);
  r += " d=" + std::to_string(static_cast<long long>(cy - cx)) + "," + std::to_string(static_cast<long long>(cx - cy));
  r += std::string(" self=") + b(cx == cx) + b(cx != cx) + b(cx < cx) + b(cx > cx) + b(cx <= cx) + b(cx >= cx) + "," +
       std::to_string(static_cast<long long>(cx - cx));
  r += " get=" + pos(cx.get()) + "," + pos(cy.get());
  r += " bnd=" + pos(fcppt::tuple::get<0>(cx.get_boundary())) + ":" + pos(fcppt::tuple::get<1>(cx.get_boundary())) + "," +
       pos(fcppt::tuple::get<0>(cy.get_boundary())) + ":" + pos(fcppt::tuple::get<1>(cy.get_boundary()));
  if (i < len)
  {
    if (cx->w != static_cast<int>(i) || (*cx).v != cx->v)
      return "arrow-mismatch";
    r += " val=" + std::to_string(cx->v);
  }
  else
    r += " val=-";
  if (i < len)
  {
    // a cyclic iterator over mutable iterators refers to the element itself
    using miterator = fcppt::cyclic_iterator<std::vector<cell>::iterator>;
    miterator const m{c.begin() + i, miterator::boundary{c.begin() + f1, c.begin() + s1}};
    m->v = -7;
    (*m).w = -8;
    if (c[static_cast<std::size_t>(i)].v != -7 || c[static_cast<std::size_t>(i)].w != -8 || cx->v != -7)
      return "write-through-mismatch";
  }
  x.swap(y);
  r += " sw=" + show(x) + "," + show(y);
  fcppt::iterator::swap(x, y);
  r += " fsw=" + show(x) + "," + show(y);
  x.swap(x);
  {
    iterator const &alias{x}; // self-assignment
    x = alias;
  }
  r += " ssw=" + show(x);
  iterator z{x};
  if (!(z == x) || show(z) != show(x))
    return "copy-mismatch";
  z = y;
  r += " cp=" + show(z) + "/" + b(z == y);
  return r;
}

// it + k / it - k for any 64-bit k
std::string cycl_line(std::vector<std::string> const &t)
{
  if (t.size() != 7)
    return "bad-op";
  long long const len = vh::to_ll(t[1]), f = vh::to_ll(t[2]), s = vh::to_ll(t[3]), start = vh::to_ll(t[4]);
  __int128 const k128 = parse(t[6]);
  if (!(0 <= f && f < s && s <= len && f <= start && start < s && len <= 64) || !fits<long>(k128) || (t[5] != "+" && t[5] != "-"))
    return "bad-op";
  long const k = static_cast<long>(k128);
  ivec const v{make_container<ivec>(static_cast<std::size_t>(len))};
  using iterator = fcppt::cyclic_iterator<ivec::const_iterator>;
  iterator const it0{v.begin() + start, iterator::boundary{v.begin() + f, v.begin() + s}};
  auto const idx = [&v](iterator const &i) { return static_cast<long long>(i.get() - v.begin()); };
  if (t[5] == "+")
  {
    iterator const a{it0 + k};
    iterator b{it0};
    b += k;
    iterator const c{k + it0};
    return "adv=" + std::to_string(idx(a)) + " alt=" + (a == b && a == c ? "1" : "0");
  }
  iterator const a{it0 - k};
  iterator b{it0};
  b -= k;
  return "adv=" + std::to_string(idx(a)) + " alt=" + (a == b ? "1" : "0");
}

// converting constructor / assignment: cyclic_iterator<iterator> -> cyclic_iterator<const_iterator>
template <typename C, bool RandomAccess>
std::string cycc_line(std::vector<std::string> const &t)
{
  if (t.size() != 10)
    return "bad-op";
  long long const len = vh::to_ll(t[2]), f = vh::to_ll(t[3]), s = vh::to_ll(t[4]), i = vh::to_ll(t[5]), f2 = vh::to_ll(t[6]), s2 = vh::to_ll(t[7]),
                  j = vh::to_ll(t[8]), k = vh::to_ll(t[9]);
  if (!(0 <= f && f < s && s <= len && f <= i && i < s && 0 <= f2 && f2 <= s2 && s2 <= len && 0 <= j && j <= len && len <= 64 && -1000 <= k && k <= 1000))
    return "bad-op";
  C c{make_container<C>(static_cast<std::size_t>(len))};
  using mit = typename C::iterator;
  using cit = typename C::const_iterator;
  using miterator = fcppt::cyclic_iterator<mit>;
  using citerator = fcppt::cyclic_iterator<cit>;
  auto const mat = [&c](long long const p) { return std::next(c.begin(), p); };
  auto const cat = [&c](long long const p) { return std::next(c.cbegin(), p); };
  auto const pos = [&c](cit const p) { return std::to_string(static_cast<long long>(std::distance(c.cbegin(), p))); };
  auto const show = [&pos](citerator const &q)
  { return pos(q.get()) + ":" + pos(fcppt::tuple::get<0>(q.get_boundary())) + ":" + pos(fcppt::tuple::get<1>(q.get_boundary())); };
  miterator x{mat(i), typename miterator::boundary{mat(f), mat(s)}};
  citerator y{x}; // converting constructor
  citerator z{};
  citerator &zr{z = x}; // converting assignment into a default-constructed iterator
  citerator w{cat(j), typename citerator::boundary{cat(f2), cat(s2)}};
  w = x; // ... over an existing iterator with another boundary
  citerator same{};
  same.template operator=<cit>(y); // OtherIterator = ContainerIterator
  std::string r = "cv=" + show(y) + " as=" + show(z) + (&zr == &z ? "" : "!ref") + " ow=" + show(w) + " st=" + show(same) + " eq=" + (y == z ? "1" : "0");
  citerator a{y};
  if constexpr (RandomAccess)
    a += k;
  else
    for (long long n = 0; n < (k < 0 ? -k : k); ++n)
    {
      if (k < 0)
        --a;
      else
        ++a;
    }
  r += " adv=" + pos(a.get());
  ++x;
  return r + " src=" + pos(x.get()) + ":" + pos(y.get());
}

// the default constructor
template <typename C>
std::string cycd_line(std::vector<std::string> const &t)
{
  if (t.size() != 6)
    return "bad-op";
  long long const len = vh::to_ll(t[2]), i = vh::to_ll(t[3]), f = vh::to_ll(t[4]), s = vh::to_ll(t[5]);
  if (!(0 <= f && f <= s && s <= len && 0 <= i && i <= len && len <= 64))
    return "bad-op";
  C const c{make_container<C>(static_cast<std::size_t>(len))};
  using cit = typename C::const_iterator;
  using iterator = fcppt::cyclic_iterator<cit>;
  iterator d{};
  iterator const d2{};
  auto const b = [](bool const v) { return v ? "1" : "0"; };
  std::string r = std::string("def=") + b(d.get() == cit{}) + b(fcppt::tuple::get<0>(d.get_boundary()) == cit{}) +
                  b(fcppt::tuple::get<1>(d.get_boundary()) == cit{}) + " eq=" + b(d == d2);
  auto const at = [&c](long long const k) { return std::next(c.begin(), k); };
  iterator const x{at(i), typename iterator::boundary{at(f), at(s)}};
  d = x;
  auto const pos = [&c](cit const p) { return std::to_string(static_cast<long long>(std::distance(c.begin(), p))); };
  return r + " asg=" + pos(d.get()) + ":" + pos(fcppt::tuple::get<0>(d.get_boundary())) + ":" + pos(fcppt::tuple::get<1>(d.get_boundary()));
}

// ------------------------------------------------------------------ grid: spiral, neighbours

template <typename T>
std::string pos_str(fcppt::container::grid::pos<T, 2> const &p)
{
  return num(p.x()) + ":" + num(p.y());
}

template <typename T>
std::string sp_line(std::vector<std::string> const &t)
{
  __int128 const x = parse(t[2]), y = parse(t[3]), d = parse(t[4]);
  // any origin: where the walk (or end()) leaves the coordinate type the model says signed-overflow and UBSan stops the harness
  if (!fits<T>(x) || !fits<T>(y) || d > 10000 || d < -10000)
    return "bad-op";
  using pos = fcppt::container::grid::pos<T, 2>;
  std::vector<std::string> out;
  for (pos const p : fcppt::container::grid::make_spiral_range(pos(static_cast<T>(x), static_cast<T>(y)), static_cast<T>(d)))
  {
    if (out.size() == spiral_cap)
      return "overrun";
    out.push_back(pos_str(p));
  }
  return "n=" + std::to_string(out.size()) + " p=" + join_str(out);
}

// spiral_iterator used directly: n steps alternating ++it / it++, comparison with end() and with an iterator of another max_dist, swap
template <typename T>
std::string spi_line(std::vector<std::string> const &t)
{
  __int128 const x = parse(t[2]), y = parse(t[3]), d = parse(t[4]);
  unsigned long long const n = vh::to_ull(t[5]);
  __int128 const lim = static_cast<__int128>(std::numeric_limits<T>::max()) - 20000;
  if (x > lim || x < -lim || y > lim || y < -lim || d > 10000 || d < -10000 || n > 300)
    return "bad-op";
  using pos = fcppt::container::grid::pos<T, 2>;
  using iterator = fcppt::container::grid::spiral_iterator<pos>;
  pos const origin(static_cast<T>(x), static_cast<T>(y));
  fcppt::container::grid::spiral_range<pos> const range(origin, static_cast<T>(d));
  iterator const end{range.end()};
  iterator const init(origin, static_cast<T>(d));
  if (!(init == range.begin()) || init != fcppt::container::grid::make_spiral_range(origin, static_cast<T>(d)).begin())
    return "begin-mismatch";
  iterator it{init};
  std::vector<std::string> steps, ends;
  if (it == end)
    ends.push_back("0");
  for (unsigned long long k = 1; k <= n; ++k)
  {
    if (k % 2U == 1U)
    {
      iterator &r{++it};
      if (&r != &it)
        return "ref-mismatch";
      steps.push_back(pos_str(*it));
    }
    else
    {
      iterator const old{it++};
      steps.push_back(pos_str(*old) + ">" + pos_str(*it));
    }
    if (it == end)
      ends.push_back(std::to_string(k));
  }
  iterator const other(origin, static_cast<T>(d + 5));
  iterator one{init};
  ++one;
  std::string r = "p=" + join_str(steps) + " end=" + join_str(ends) + " eqd=" + (init == other ? "1" : "0") + (init != one ? "1" : "0");
  iterator a{init};
  a.swap(it);
  r += " sw=" + pos_str(*a) + "," + pos_str(*it);
  ++a;
  ++it;
  return r + " next=" + pos_str(*a) + "," + pos_str(*it);
}

template <typename T>
std::string nb_line(std::vector<std::string> const &t)
{
  __int128 const x = parse(t[2]), y = parse(t[3]);
  if (!fits<T>(x) || !fits<T>(y))
    return "bad-op";
  using pos = fcppt::container::grid::pos<T, 2>;
  pos const p(static_cast<T>(x), static_cast<T>(y));
  std::vector<std::string> a, b;
  for (pos const &q : fcppt::container::grid::neumann_neighbors(p))
    a.push_back(pos_str(q));
  for (pos const &q : fcppt::container::grid::moore_neighbors(p))
    b.push_back(pos_str(q));
  return "neu=" + join_str(a) + " moo=" + join_str(b);
}

// ------------------------------------------------------------------ iterator::range, adapt_range, range::size

template <typename R>
std::string range_elems(R const &r)
{
  std::vector<std::string> out;
  for (auto it = r.begin(); it != r.end(); ++it)
  {
    if (out.size() == cap)
      return "overrun";
    out.push_back(std::to_string(*it));
  }
  return "n=" + std::to_string(out.size()) + " e=" + join_str(out);
}

template <typename C>
std::string itr_line(std::vector<std::string> const &t)
{
  unsigned long long const len = vh::to_ull(t[2]), i = vh::to_ull(t[3]), j = vh::to_ull(t[4]);
  if (!(i <= j && j <= len && len <= 256))
    return "bad-op";
  C c{make_container<C>(len)};
  // alternate between the constructor, make_range, from_pair and const / non-const iterators
  auto const tail = [](auto const &r)
  {
    return range_elems(r) + " size=" + num(fcppt::range::size(r)) + " es=" + (fcppt::range::empty(r) ? "1" : "0") +
           (fcppt::range::singular(r) ? "1" : "0");
  };
  if ((i + j) % 3U == 2U)
    return tail(fcppt::range::from_pair(std::make_pair(std::next(c.cbegin(), static_cast<long>(i)), std::next(c.cbegin(), static_cast<long>(j)))));
  if ((i + j) % 2U == 0U)
    return tail(fcppt::iterator::make_range(std::next(c.begin(), static_cast<long>(i)), std::next(c.begin(), static_cast<long>(j))));
  fcppt::iterator::range<typename C::const_iterator> const r{std::next(c.cbegin(), static_cast<long>(i)), std::next(c.cbegin(), static_cast<long>(j))};
  return tail(r);
}

// operator== / != of two ranges over one container, begin() / end()
template <typename C>
std::string itrc_line(std::vector<std::string> const &t)
{
  unsigned long long const len = vh::to_ull(t[2]), i = vh::to_ull(t[3]), j = vh::to_ull(t[4]), k = vh::to_ull(t[5]), l = vh::to_ull(t[6]);
  if (!(i <= j && j <= len && k <= l && l <= len && len <= 64))
    return "bad-op";
  C const c{make_container<C>(len)};
  auto const at = [&c](unsigned long long const p) { return std::next(c.begin(), static_cast<long>(p)); };
  using range = fcppt::iterator::range<typename C::const_iterator>;
  range const r1{at(i), at(j)};
  range const r2{fcppt::iterator::make_range(at(k), at(l))};
  auto const b = [](bool const v) { return v ? "1" : "0"; };
  auto const pos = [&c](typename C::const_iterator const p) { return std::to_string(static_cast<long long>(std::distance(c.begin(), p))); };
  return std::string("eq=") + b(r1 == r2) + " ne=" + b(r1 != r2) + " self=" + b(r1 == r1) + b(r1 != r1) + " be=" + pos(r1.begin()) + ":" + pos(r1.end());
}

template <typename C>
std::string adr_line(std::vector<std::string> const &t)
{
  unsigned long long const len = vh::to_ull(t[2]);
  if (len > 256)
    return "bad-op";
  C c{make_container<C>(len)};
  C const &cc{c};
  auto const r1 = fcppt::iterator::adapt_range(c);
  auto const r2 = fcppt::iterator::adapt_range(cc);
  static_assert(std::is_same_v<decltype(r1.begin()), typename C::iterator>);
  static_assert(std::is_same_v<decltype(r2.begin()), typename C::const_iterator>);
  auto const es = [](auto const &r) { return std::string(" es=") + (fcppt::range::empty(r) ? "1" : "0") + (fcppt::range::singular(r) ? "1" : "0"); };
  std::string const a = range_elems(r1) + " size=" + num(fcppt::range::size(r1)) + es(r1);
  std::string const b = range_elems(r2) + " size=" + num(fcppt::range::size(r2)) + es(r2);
  // the non-const range hands out mutable iterators: writing through one changes the container
  if (len > 0)
  {
    *r1.begin() = -5;
    if (c.front() != -5)
      return "write-through-mismatch";
  }
  bool const same_ends = r1.begin() == c.begin() && r1.end() == c.end() && r2.begin() == cc.begin() && r2.end() == cc.end();
  return a == b && same_ends ? a : "adapt-range-inconsistent " + a + " | " + b;
}

template <std::size_t N>
std::string mirc_line()
{
  std::vector<std::string> out;
  fcppt::algorithm::loop(fcppt::math::int_range_count<N>{}, [&out]<typename I>(fcppt::tag<I>) { out.push_back(num(I::value)); });
  return "e=" + join_str(out);
}

template <std::size_t A, std::size_t B>
std::string mir_line()
{
  std::vector<std::string> out;
  fcppt::algorithm::loop(fcppt::math::int_range<A, B>{}, [&out]<typename I>(fcppt::tag<I>) { out.push_back(num(I::value)); });
  return "e=" + join_str(out);
}

std::string handle_inner(std::vector<std::string> const &t)
{
  if (t.empty())
    return "bad-op";
  std::string const &op = t[0];
  if (op == "ir" || op == "irc" || op == "irs" || op == "irub" || op == "iit" || op == "iits" || op == "itri" || op == "itris")
    return ir_dispatch(t);
  if (op == "er" || op == "ers" || op == "era" || op == "erd" || op == "eit")
    return enum_dispatch(t);
  if (op == "cyc")
    return cyc_line(t);
  if (op == "cycw" && t.size() >= 6)
  {
    if (t[1] == "v") return cycw_line<ivec, true>(t, false);
    if (t[1] == "l") return cycw_line<ilist, false>(t, false);
    return "bad-op";
  }
  if (op == "cycx" && t.size() >= 7)
  {
    if (t[1] == "v") return cycw_line<ivec, true>(t, true);
    if (t[1] == "l") return cycw_line<ilist, false>(t, true);
    return "bad-op";
  }
  if (op == "cycp")
    return cycp_line(t);
  if (op == "cycl")
    return cycl_line(t);
  if (op == "cycc" && t.size() == 10)
  {
    if (t[1] == "v") return cycc_line<ivec, true>(t);
    if (t[1] == "l") return cycc_line<ilist, false>(t);
    return "bad-op";
  }
  if (op == "cycd" && t.size() == 6)
  {
    if (t[1] == "v") return cycd_line<ivec>(t);
    if (t[1] == "l") return cycd_line<ilist>(t);
    return "bad-op";
  }
  if (op == "sp" && t.size() == 5)
  {
    if (t[1] == "i32") return sp_line<std::int32_t>(t);
    if (t[1] == "i64") return sp_line<std::int64_t>(t);
    return "bad-op";
  }
  if (op == "spi" && t.size() == 6)
  {
    if (t[1] == "i32") return spi_line<std::int32_t>(t);
    if (t[1] == "i64") return spi_line<std::int64_t>(t);
    return "bad-op";
  }
  if (op == "itrc" && t.size() == 7)
  {
    if (t[1] == "v") return itrc_line<ivec>(t);
    if (t[1] == "l") return itrc_line<ilist>(t);
    return "bad-op";
  }
  if (op == "nb" && t.size() == 4)
  {
    if (t[1] == "i32") return nb_line<std::int32_t>(t);
    if (t[1] == "i64") return nb_line<std::int64_t>(t);
    if (t[1] == "u32") return nb_line<std::uint32_t>(t);
    if (t[1] == "u64") return nb_line<std::uint64_t>(t);
    return "bad-op";
  }
  if (op == "itr" && t.size() == 5)
  {
    if (t[1] == "v") return itr_line<ivec>(t);
    if (t[1] == "l") return itr_line<ilist>(t);
    return "bad-op";
  }
  if (op == "adr" && t.size() == 3)
  {
    if (t[1] == "v") return adr_line<ivec>(t);
    if (t[1] == "l") return adr_line<ilist>(t);
    return "bad-op";
  }
  if (op == "mir" && t.size() == 3)
  {
    unsigned long long const a = vh::to_ull(t[1]), b = vh::to_ull(t[2]);
    if (a == 0 && b == 0) return mir_line<0, 0>();
    if (a == 0 && b == 3) return mir_line<0, 3>();
    if (a == 1 && b == 2) return mir_line<1, 2>();
    if (a == 2 && b == 5) return mir_line<2, 5>();
    if (a == 3 && b == 3) return mir_line<3, 3>();
    if (a == 5 && b == 16) return mir_line<5, 16>();
    if (a == 15 && b == 16) return mir_line<15, 16>();
    return "bad-op";
  }
  if (op == "mirc" && t.size() == 2)
  {
    switch (vh::to_ull(t[1]))
    {
    case 0: return mirc_line<0>();
    case 1: return mirc_line<1>();
    case 2: return mirc_line<2>();
    case 3: return mirc_line<3>();
    case 5: return mirc_line<5>();
    case 8: return mirc_line<8>();
    case 16: return mirc_line<16>();
    default: return "bad-op";
    }
  }
  return "bad-op";
}

std::string handle(std::vector<std::string> const &t)
{
  try
  {
    return handle_inner(t);
  }
  catch (std::invalid_argument const &)
  {
    return "bad-op";
  }
  catch (std::out_of_range const &)
  {
    return "bad-op";
  }
  catch (std::exception const &)
  {
    return "exc:std";
  }
}
}

int main()
{
  vh::op_budget() = 30; // one `irs` line of a 16-bit type enumerates 65536 ranges
  return vh::run(handle);
}
